/-
C17 — wire formats round-trip; size = length of encoding; identity depends only on content; decoders
terminate and allocate boundedly. Property theorems only (helper lemmas live in Proofs/).

Reading guide. A `Codec α` (Model/Wire/Codec.lean) is the model of one EncodeBinary/DecodeBinary pair; the five
laws of the property are the fields of `Codec.Lawful` plus `Codec.Strict`:
  roundtrip        wf v → dec (enc v ++ r) = some (v, r)
  size_eq          wf v → size v = (enc v).length
  reencode_stable  dec b = some (v, r) → wf v ∧ dec (enc v) = some (v, [])        (from dec_wf + roundtrip)
  dec_consumes     dec b = some (v, r) → r.length < b.length                      (Strict; r is a suffix of b)
  alloc_bounded    alloc b ≤ allocK * b.length + allocC     for EVERY input b     (every count is compared with its
                   cap before the dependent `make`; allocK/allocC are computed from the regenerated caps)
They are proved once per combinator (Proofs/WireCodec.lean); each instance below follows by composition.
`cv : Curve` stands for the elliptic-curve checks of keys.PublicKey (not modelled); the only fact used is
`cv.Sound` (compressing a valid point gives a valid compressed key), an explicit hypothesis.
-/
import NeoModel.Proofs.WireVarUint
import NeoModel.Proofs.WireCodec
import NeoModel.Proofs.WireTx
import NeoModel.Proofs.WireItem
import NeoModel.Proofs.WireMpt
import NeoModel.Proofs.WireNef
import NeoModel.Proofs.WireExec
import NeoModel.Proofs.WireCons
import NeoModel.Proofs.WireP2P
import NeoModel.Proofs.WireManifestStore
import NeoModel.Proofs.WireIdentity
import NeoModel.Proofs.WireItemDag
import NeoModel.Proofs.WireObj
import NeoModel.Proofs.WireItemJson
import NeoModel.Proofs.WireItemJsonU
import NeoModel.Proofs.WireNefEntry
import NeoModel.Proofs.WireMsgObj
import NeoModel.Model.Wire.Scopes
namespace NeoModel.Wire
open Codec
open NeoModel.Generated

/-! ## var-uint -/

/-- C17 (var-uint): decode (encode v ++ rest) = (v, rest) for every 64-bit `v`. -/
theorem varuint_roundtrip (v : Nat) (r : Bytes) (h : v < 2 ^ 64) :
    readVarUint (putVarUint v ++ r) = some (v, r) := readVarUint_putVarUint v r h

-- non-vacuity: the hypothesis is met at the top of the range
example : readVarUint (putVarUint (2^64 - 1) ++ [7]) = some (2^64 - 1, [7]) :=
  varuint_roundtrip _ _ (by decide)

/-- C17 (var-uint): the reported size is the length of the encoding (for lengths, i.e. < 2^32). -/
theorem varuint_size_eq (v : Nat) : (putVarUint v).length = (if v ≤ 0xFFFFFFFF then varUintSize v else 9) :=
  putVarUint_length v

/-- C17 (var-uint): the reader accepts non-minimal forms — the root of the path-dependent transaction hash. -/
theorem varuint_nonminimal_accepted : readVarUint [0xfd, 0x01, 0x00] = some (1, []) ∧ putVarUint 1 = [0x01] := by
  decide

/-! ## the laws, for any lawful codec (used for every instance below) -/

/-- reencode_stable: whatever a lawful decoder accepts is well-formed, and its re-encoding decodes to the same
value with nothing left. -/
theorem codec_reencode_stable {α : Type} (c : Codec α) (h : c.Lawful) (b : Bytes) (v : α) (r : Bytes)
    (hd : c.dec b = some (v, r)) : c.wf v ∧ c.dec (c.enc v) = some (v, []) := h.reencode_stable hd

/-- alloc_bounded: for EVERY input (accepted or not) the memory requested by count-sized `make` calls is at most
`allocK` bytes per input byte plus the constant `allocC`. -/
theorem codec_alloc_bounded {α : Type} (c : Codec α) (h : c.Lawful) (b : Bytes) :
    c.alloc b ≤ c.allocK * b.length + c.allocC := h.alloc_le b

/-- two well-formed values with the same encoding are equal (identity is a function of content). -/
theorem codec_enc_injective {α : Type} (c : Codec α) (h : c.Lawful) (v w : α) (hv : c.wf v) (hw : c.wf w)
    (he : c.enc v = c.enc w) : v = w := h.enc_inj hv hw he

/-! ## instances: witness, condition, rule, signer, attribute -/

/-- C17 (witness): all laws. -/
theorem witness_lawful : witnessC.Lawful ∧ witnessC.Strict := ⟨witnessC_lawful, witnessC_strict⟩

example : witnessC.dec (witnessC.enc ⟨[1, 2], [3]⟩ ++ [9]) = some (⟨[1, 2], [3]⟩, [9]) := by rfl

/-- C17 (witness condition, nesting depth `d`): all laws, for every depth. -/
theorem cond_lawful (cv : Curve) (hs : cv.Sound) (d : Nat) : (condC cv d).Lawful ∧ (condC cv d).Strict :=
  ⟨condC_lawful cv hs d, condC_strict cv hs d⟩

/-- a curve predicate that accepts everything: meets `Curve.Sound` (non-vacuity of the hypothesis). -/
def anyCurve : Curve := ⟨fun _ => true, fun _ _ => true⟩
theorem anyCurve_sound : anyCurve.Sound := fun _ _ _ _ _ => rfl

-- non-vacuity + the depth bound: three levels decode, four do not (MaxConditionNesting = 3)
example : (condC anyCurve WireLimits.maxConditionNesting).dec [1, 1, 0, 1]
    = some (.not (.not (.bool true)), []) := by rfl
example : (condC anyCurve WireLimits.maxConditionNesting).dec [1, 1, 1, 0, 1] = none := by rfl

/-- C17 (witness rule): all laws. -/
theorem rule_lawful (cv : Curve) (hs : cv.Sound) : (ruleC cv).Lawful ∧ (ruleC cv).Strict :=
  ⟨ruleC_lawful cv hs, ruleC_strict cv hs⟩

/-- C17 (signer): all laws. -/
theorem signer_lawful (cv : Curve) (hs : cv.Sound) : (signerC cv).Lawful ∧ (signerC cv).Strict :=
  ⟨signerC_lawful cv hs, signerC_strict cv hs⟩

/-- C17 (attribute): all laws. -/
theorem attr_lawful : attrC.Lawful ∧ attrC.Strict := ⟨attrC_lawful, attrC_strict⟩

example : attrC.dec [0x20, 5, 0, 0, 0] = some (⟨0x20, .notValidBefore 5⟩, []) := by rfl

/-! ## transaction -/

/-- C17 (transaction) roundtrip. -/
theorem tx_roundtrip (cv : Curve) (hs : cv.Sound) (t : Tx) (r : Bytes) (hw : (txC cv).wf t) :
    (txC cv).dec ((txC cv).enc t ++ r) = some (t, r) := (txC_lawful cv hs).roundtrip t r hw

/-- C17 (transaction) size = length of the encoding. -/
theorem tx_size_eq (cv : Curve) (hs : cv.Sound) (t : Tx) (hw : (txC cv).wf t) :
    (txC cv).size t = ((txC cv).enc t).length := (txC_lawful cv hs).size_eq t hw

/-- C17 (transaction) an accepted input gives a well-formed value whose re-encoding decodes to it. -/
theorem tx_reencode_stable (cv : Curve) (hs : cv.Sound) (b : Bytes) (t : Tx) (r : Bytes)
    (hd : (txC cv).dec b = some (t, r)) : (txC cv).wf t ∧ (txC cv).dec ((txC cv).enc t) = some (t, []) :=
  (txC_lawful cv hs).reencode_stable hd

/-- C17 (transaction) decoding consumes input strictly. -/
theorem tx_dec_consumes (cv : Curve) (hs : cv.Sound) (b : Bytes) (t : Tx) (r : Bytes)
    (hd : (txC cv).dec b = some (t, r)) : r.length < b.length := txC_strict cv hs b t r hd

/-- C17 (transaction) allocation while decoding ANY input is linear in the input plus a constant. -/
theorem tx_alloc_bounded (cv : Curve) (hs : cv.Sound) (b : Bytes) :
    (txC cv).alloc b ≤ (txC cv).allocK * b.length + (txC cv).allocC := (txC_lawful cv hs).alloc_le b

/-- … and with the caps and element sizes the current source has, the constants are small: at most 256 bytes
per input byte (slice elements), and a constant below 2 × io.MaxArraySize (it is dominated by the
default cap of a Reserved attribute's ReadVarBytes). Re-checked against the regenerated table. -/
theorem tx_alloc_constants (cv : Curve) :
    (txC cv).allocK ≤ 256 ∧ (txC cv).allocC ≤ 2 * WireLimits.maxArraySize :=
  ⟨txC_allocK_le cv, txC_allocC_le cv⟩

/-- the smallest valid transaction: 1 signer (CalledByEntry), script 0x51, empty witness. -/
def tx0 : Tx :=
  ⟨⟨0, 7, 1, 2, 9, [⟨[1,2,3,0,0,0,0,0,0,0,0,0,0,0,0,0,0,0,0,0], 1, [], [], []⟩], [], [0x51]⟩, [⟨[], []⟩]⟩

def tx0Bytes : Bytes := (txC anyCurve).enc tx0

/-- the same content with the number of signers written as `fd 01 00` (DESIGN §6 item 12). -/
def tx0NonMinimal : Bytes := tx0Bytes.take 25 ++ [0xfd, 0x01, 0x00] ++ tx0Bytes.drop 26

theorem tx0_decodes : (txC anyCurve).dec tx0NonMinimal = some (tx0, []) := by rfl

-- non-vacuity of the hypotheses of the transaction theorems: tx0 is well-formed
example : (txC anyCurve).wf tx0 := (txC_lawful anyCurve anyCurve_sound).dec_wf _ _ _ tx0_decodes
example : (txC anyCurve).dec (tx0Bytes ++ [1]) = some (tx0, [1]) :=
  tx_roundtrip anyCurve anyCurve_sound tx0 [1] ((txC_lawful anyCurve anyCurve_sound).dec_wf _ _ _ tx0_decodes)

/-
hash_path_independent, full statement (FALSE on the unchanged tree):
  ∀ H b t, (txC cv).dec b = some (t, []) →
     txFromBytes H cv b = some (t, h₁, n₁) → txFromStream H cv b = some (t, h₂, n₂, []) → h₁ = h₂ ∧ n₁ = n₂
NewTransactionFromBytes hashes (and sizes) the received bytes, DecodeBinary the re-encoding, and the decoder accepts
encodings that are not the canonical one (non-minimal var-uints, uncompressed keys, bool bytes ≠ 0/1).
Proved below: the negation on a concrete witness, and the statement for canonical input.
-/

/-- C17 (transaction) identity and size do not depend on the path WHEN the bytes are the canonical encoding. -/
theorem tx_hash_path_independent_partial (H : Bytes → Bytes) (cv : Curve) (hs : cv.Sound) (t : Tx)
    (hw : (txC cv).wf t) :
    txFromBytes H cv ((txC cv).enc t)
        = some (t, H ((txBodyC cv).enc t.body), ((txC cv).enc t).length)
    ∧ txFromStream H cv ((txC cv).enc t)
        = some (t, H ((txBodyC cv).enc t.body), (txC cv).size t, [])
    ∧ (txC cv).size t = ((txC cv).enc t).length := by
  have hr := (txC_lawful cv hs).roundtrip t [] hw
  simp only [List.append_nil] at hr
  have henc : (txC cv).enc t = (txBodyC cv).enc t.body ++ (txWitnessesC t.body.signers.length).enc t.witnesses := rfl
  have hb : (txBodyC cv).dec ((txC cv).enc t)
      = some (t.body, (txWitnessesC t.body.signers.length).enc t.witnesses) := by
    rw [henc]; exact (txBodyC_lawful cv hs).roundtrip _ _ hw.1.1
  refine ⟨?_, ?_, (txC_lawful cv hs).size_eq t hw⟩
  · simp only [txFromBytes, hr, hb]
    congr 3
    rw [henc]; simp
  · simp only [txFromStream, hr]

/-- C17 (transaction) NEGATION of hash_path_independent on the unchanged tree: the bytes `tx0NonMinimal` decode
to `tx0` on both paths, but for every injective hash the two paths report different hashes, and different sizes
(55 vs 53). -/
theorem tx_hash_path_dependent (H : Bytes → Bytes) (hinj : ∀ x y, H x = H y → x = y) :
    ∃ h₁ n₁ h₂ n₂,
      txFromBytes H anyCurve tx0NonMinimal = some (tx0, h₁, n₁)
      ∧ txFromStream H anyCurve tx0NonMinimal = some (tx0, h₂, n₂, [])
      ∧ h₁ ≠ h₂ ∧ n₁ ≠ n₂ := by
  refine ⟨H (tx0NonMinimal.take 52), 55, H ((txBodyC anyCurve).enc tx0.body), 53, by rfl, by rfl, ?_, by decide⟩
  intro he
  have := hinj _ _ he
  revert this
  decide

/-! ## header, block, state root, extensible payload -/

/-- C17 (header; `sr` = StateRootInHeader): all laws. -/
theorem header_lawful (sr : Bool) : (headerC sr).Lawful ∧ (headerC sr).Strict :=
  ⟨headerC_lawful sr, headerC_strict sr⟩

/-- C17 (header) the identity of a header is a function of its decoded content alone (Header.Hash re-encodes
the hashable fields, header.go:96-129): two inputs that decode to the same header have the same hash — also
when the witness count is written non-minimally. -/
theorem header_hash_path_independent (H : Bytes → Bytes) (sr : Bool) (b₁ b₂ : Bytes) (h₁ h₂ : Header) (r₁ r₂ : Bytes)
    (d₁ : (headerC sr).dec b₁ = some (h₁, r₁)) (d₂ : (headerC sr).dec b₂ = some (h₂, r₂)) (he : h₁ = h₂) :
    headerHash H sr h₁ = headerHash H sr h₂ := by
  subst he; rfl

/-- C17 (block): all laws. -/
theorem block_lawful (cv : Curve) (hs : cv.Sound) (sr : Bool) : (blockC cv sr).Lawful ∧ (blockC cv sr).Strict :=
  ⟨blockC_lawful cv hs sr, map_strict (seq_strict_left (headerC_strict sr)
    (array_lawful (txC_lawful cv hs) (txC_strict cv hs)))⟩

/-- C17 (state root): all laws. -/
theorem stateroot_lawful : stateRootC.Lawful := stateRootC_lawful

/-- C17 (extensible payload): all laws. -/
theorem extensible_lawful : extensibleC.Lawful := extensibleC_lawful


/-! ## stack items (count / size / nesting limits) -/

/-- C17 (stack item) roundtrip: every well-formed item with at most MaxDeserialized items decodes from its
serialisation (followed by anything) to itself. `wfB`: byte strings ≤ MaxSize, integers canonical and ≤ 32 bytes,
map keys primitive, ≤ MaxKeySize and pairwise different, no interop/pointer/nil. -/
theorem item_roundtrip (v : Item) (r : Bytes) (hw : Item.wfB false v = true)
    (hc : Item.count v ≤ WireLimits.stackMaxDeserialized) :
    Item.decode false (Item.enc v ++ r) = some (v, r) := by
  have h := Item.rt_all (Item.count v) v (Nat.le_refl _) hw (WireLimits.stackMaxDeserialized + 1)
    WireLimits.stackMaxDeserialized r hc (by omega) (by decide)
  simp only [Item.decode, h, Option.map_some]

/-- C17 (stack item, protected form used for execution results) roundtrip: the same with interop, pointer and nil
items allowed (`wfB true`). -/
theorem item_roundtrip_protected (v : Item) (r : Bytes) (hw : Item.wfB true v = true)
    (hc : Item.count v ≤ WireLimits.stackMaxDeserialized) :
    Item.decode true (Item.enc v ++ r) = some (v, r) := by
  have h := Item.rt_all (Item.count v) v (Nat.le_refl _) hw (WireLimits.stackMaxDeserialized + 1)
    WireLimits.stackMaxDeserialized r hc (by omega) (by decide)
  simp only [Item.decode, h, Option.map_some]

/-- C17 (stack item, protected form) whatever the protected decoder accepts is well-formed and its tree encoding
decodes to it (the real `EncodeBinaryProtected` writes a single InvalidT byte instead when the total exceeds
MaxSize: known finding item-reencode-fails). -/
theorem item_reencode_stable_protected (b : Bytes) (v : Item) (r : Bytes) (hd : Item.decode true b = some (v, r)) :
    Item.wfB true v = true ∧ Item.decode true (Item.enc v) = some (v, []) := by
  simp only [Item.decode, Option.map_eq_some_iff] at hd
  obtain ⟨⟨v', r', l'⟩, hdec, he⟩ := hd
  simp at he
  obtain ⟨e1, e2⟩ := he
  subst e1 e2
  have hw := Item.decItem_wf _ _ _ _ _ _ hdec
  have hg := Item.decItem_good true _ _ _ _ _ _ hdec
  have := item_roundtrip_protected v' [] hw (by omega)
  simp only [List.append_nil] at this
  exact ⟨hw, this⟩

/-- C17 (stack item) what `Serialize` produces is within both limits and is read back by `Deserialize`
(the limits of the two directions agree: MaxSerialized ≤ MaxDeserialized, regenerated). -/
theorem item_serialize_roundtrip (v : Item) (b r : Bytes) (hw : Item.wfB false v = true)
    (hs : Item.serialize false v = some b) :
    b.length ≤ WireLimits.stackMaxSize ∧ Item.count v ≤ WireLimits.stackMaxSerialized
      ∧ Item.decode false (b ++ r) = some (v, r) := by
  simp only [Item.serialize] at hs
  split at hs
  · simp at hs
  · split at hs
    · simp at hs
    · split at hs
      · simp at hs
      · rename_i h1 _ h3
        simp at hs
        subst hs
        have hle : WireLimits.stackMaxSerialized ≤ WireLimits.stackMaxDeserialized := by decide
        exact ⟨by omega, by omega, item_roundtrip v r hw (by omega)⟩

/-- C17 (stack item) reencode_stable: whatever the unprotected decoder accepts is well-formed; if the serialiser
accepts it (total size ≤ MaxSize — the decoder itself does not bound the total, see the known finding
`item-reencode-fails`), the re-encoding decodes to the same item with nothing left. -/
theorem item_reencode_stable (b : Bytes) (v : Item) (r e : Bytes) (hd : Item.decode false b = some (v, r))
    (hs : Item.serialize false v = some e) : Item.wfB false v = true ∧ Item.decode false e = some (v, []) := by
  simp only [Item.decode, Option.map_eq_some_iff] at hd
  obtain ⟨⟨v', r', l'⟩, hdec, he⟩ := hd
  simp at he
  obtain ⟨e1, e2⟩ := he
  subst e1 e2
  have hw := Item.decItem_wf _ _ _ _ _ _ hdec
  have := (item_serialize_roundtrip v' e [] hw hs).2.2
  simp only [List.append_nil] at this
  exact ⟨hw, this⟩

/-- C17 (stack item) decoders are bounded: for ANY input (protected form or not) an accepted item has at most
MaxDeserialized items in all (every array/map size was compared with what was left of the counter before the
elements were read), and decoding consumed input. -/
theorem item_dec_bounded (prot : Bool) (b : Bytes) (v : Item) (r : Bytes) (hd : Item.decode prot b = some (v, r)) :
    Item.count v ≤ WireLimits.stackMaxDeserialized ∧ r.length < b.length := by
  simp only [Item.decode, Option.map_eq_some_iff] at hd
  obtain ⟨⟨v', r', l'⟩, hdec, he⟩ := hd
  simp at he
  obtain ⟨e1, e2⟩ := he
  subst e1 e2
  have := Item.decItem_good prot _ _ _ _ _ _ hdec
  omega

-- non-vacuity: a nested item (array of a map and an integer) round-trips; 2049 nulls do not fit
example : Item.decode true (Item.enc (.array [.interop, .pointer 7, .invalid]) ++ [1]) = some (.array [.interop, .pointer 7, .invalid], [1]) :=
  item_roundtrip_protected _ _ (by decide) (by decide)
example : Item.decode false (Item.enc (.array [.map [(.int [5], .bool true)], .int [0x80, 0x00]]) ++ [7])
    = some (.array [.map [(.int [5], .bool true)], .int [0x80, 0x00]], [7]) :=
  item_roundtrip _ _ (by decide) (by decide)
set_option maxRecDepth 100000 in
example : Item.serialize false (.array (List.replicate 2048 .null)) = none := by decide

/-! ## MPT nodes -/

/-- C17 (MPT node) roundtrip: the encoding of a node within the caps (`Node.WF`) decodes to the node with its
children replaced by their references (`flatten`; the decoder also accepts children written inline, the encoder
never writes them) — for a node as the trie stores it (`flatten H v = v`) this is the exact round trip.
`H` = double SHA-256, of which only the output length is used. -/
theorem mpt_roundtrip (H : Bytes → Bytes) (h32 : ∀ x, (H x).length = 32) (v : Node) (hw : Node.WF v) (r : Bytes) :
    Node.decode (Node.enc H v ++ r) = some (Node.flatten H v, r) := Node.decode_enc H h32 v hw r

/-- C17 (MPT node) reencode_stable with the same hash: an accepted input gives a node within the caps; its
re-encoding decodes (to the flat form of the node), and bytes and hash of the flat form are those of the node. -/
theorem mpt_reencode_stable (H : Bytes → Bytes) (h32 : ∀ x, (H x).length = 32) (b : Bytes) (v : Node) (r : Bytes)
    (hd : Node.decode b = some (v, r)) :
    Node.WF v ∧ Node.decode (Node.enc H v) = some (Node.flatten H v, [])
      ∧ Node.enc H (Node.flatten H v) = Node.enc H v ∧ Node.hashOf H (Node.flatten H v) = Node.hashOf H v := by
  have hs := Node.decNode_spec _ _ _ _ _ hd
  have := Node.decode_enc H h32 v hs.2.1 []
  simp only [List.append_nil] at this
  exact ⟨hs.2.1, this, Node.enc_flatten H v, Node.hashOf_flatten H v⟩

/-- C17 (MPT node) decoding consumes input strictly (nesting is bounded by maxPathLength, every node costs at
least its type byte). -/
theorem mpt_dec_consumes (b : Bytes) (v : Node) (r : Bytes) (hd : Node.decode b = some (v, r)) :
    r.length < b.length := (Node.decNode_spec _ _ _ _ _ hd).1

-- non-vacuity: an extension node over a hash child round-trips exactly; nesting 137 deep is rejected
example : Node.decode (Node.enc (fun _ => List.replicate 32 0) (.ext [1, 2] (.hash (List.replicate 32 7))) ++ [9])
    = some (.ext [1, 2] (.hash (List.replicate 32 7)), [9]) := by
  have := mpt_roundtrip (fun _ => List.replicate 32 0) (by simp) (.ext [1, 2] (.hash (List.replicate 32 7)))
    ⟨by decide, by simp [Node.childOK]⟩ [9]
  simpa [Node.flatten, Node.asRef] using this

/-! ## NEF file -/

/-- C17 (NEF): all laws, for any checksum function `H` (roundtrip, size, re-encoding stability, allocation bound:
the token array is capped at nefMaxTokens, regenerated from the source). -/
theorem nef_lawful (H : Bytes → Bytes) : (nefC H).Lawful := nefC_lawful H

/-- C17 (NEF) an accepted file carries the checksum of the canonical encoding of its fields. -/
theorem nef_checksum (H : Bytes → Bytes) (b : Bytes) (n : Nef) (r : Bytes) (hd : (nefC H).dec b = some (n, r)) :
    n.checksum = checksumOf H (nefBodyC.enc n.body) := by
  have hw := (nefC_lawful H).dec_wf b n r hd
  have := hw.1.2
  simpa using this

/-! ## execution results: notification event, contract invocation, AppExecResult -/

/-- C17 (stack item as a field): all laws of one item with its own 2048-item counter, protected or not. -/
theorem item_codec_lawful (prot : Bool) : (itemC prot).Lawful ∧ (itemC prot).Strict :=
  ⟨itemC_lawful prot, itemC_strict prot⟩

/-- C17 (notification event): all laws; a Struct state on the wire is an Array in memory and re-encodes as one. -/
theorem notification_lawful : notificationC.Lawful ∧ notificationC.Strict :=
  ⟨notificationC_lawful, notificationC_strict⟩

/-- C17 (contract invocation): all laws. -/
theorem invocation_lawful : invocationC.Lawful ∧ invocationC.Strict := ⟨invocationC_lawful, invocationC_strict⟩

/-- C17 (AppExecResult): round trip, size, re-encoding stability (w.r.t. the tree encoding of the stack items) and
the generic allocation bound `alloc b ≤ allocK·|b| + allocC`. -/
theorem aer_lawful : aerC.Lawful := aerC_lawful

/-
alloc_bounded for AppExecResult with a SMALL constant (as for every other type: a cap-sized buffer) is FALSE on the
unchanged tree: Events and Invocations are read with ReadArray's default cap of io.MaxArraySize elements (known
finding aer-uncapped-array; 47 bytes make the real decoder allocate ~770 MB). The generic bound holds (aer_lawful),
but its constant is that of 16M slice elements:
-/
/-- C17 (AppExecResult) witness of the uncapped arrays: the constant of the allocation bound is at least
io.MaxArraySize × sizeof(NotificationEvent) (≥ 768 MiB). -/
theorem aer_alloc_constant_witness :
    aerC.allocC ≥ WireLimits.maxArraySize * WireLimits.slotNotificationEvent
      ∧ WireLimits.maxArraySize * WireLimits.slotNotificationEvent ≥ 768 * 2 ^ 20 := by
  refine ⟨?_, by decide⟩
  simp only [aerC, aerHeadC, map_allocC, bind_allocC, seq_allocC, array_allocC]
  simp only [Nat.max_def]
  split <;> split <;> split <;> split <;> split <;> split <;> split <;> omega

/-! ## dBFT messages and the consensus payload (`sr` = StateRootInHeader) -/

/-- C17 (ChangeView): all laws; the rejected hashes (reasons 3, 4) are capped by MaxTransactionsPerBlock. -/
theorem changeview_lawful : changeViewC.Lawful := changeViewC_lawful

/-- C17 (PrepareRequest, with or without the state root): all laws. -/
theorem preparerequest_lawful (sr : Bool) : (prepareRequestC sr).Lawful := prepareRequestC_lawful sr

/-- C17 (RecoveryMessage): all laws; the three compact arrays are capped at 255, the preparation is the embedded
PrepareRequest message (type 0x20), its hash, or absent. -/
theorem recovery_lawful (sr : Bool) : (recoveryC sr).Lawful := recoveryC_lawful sr

/-- C17 (dBFT message of any type): all laws and strict consumption. -/
theorem consensus_message_lawful (sr : Bool) : (consMsgC sr).Lawful ∧ (consMsgC sr).Strict :=
  ⟨consMsgC_lawful sr, consMsgC_strict sr⟩

/-- C17 (dBFT message) allocation constants from the regenerated caps: per input byte at most one compact-payload
slot, constant at most MaxTransactionsPerBlock hashes (2 MiB). -/
theorem consensus_alloc_constants (sr : Bool) :
    (consMsgC sr).allocK ≤ 128 ∧ (consMsgC sr).allocC ≤ 4 * 2 ^ 20 := by
  simp only [consMsgC, map, Codec.bind, msgHeaderC, seq_allocK, seq_allocC, byte, uintLE, consK, consCap]
  constructor <;> decide

/-- C17 (consensus payload): an Extensible whose Data decodes as a dBFT message: all laws. -/
theorem consensus_payload_lawful (sr : Bool) : (consPayloadC sr).Lawful := consPayloadC_lawful sr

-- non-vacuity: a Commit message round-trips; a recovery message whose embedded message is not a PrepareRequest is rejected
example : (consMsgC false).dec ((consMsgC false).enc ⟨⟨0x30, 5, 1, 0⟩, .commit (List.replicate 64 7)⟩ ++ [9])
    = some (⟨⟨0x30, 5, 1, 0⟩, .commit (List.replicate 64 7)⟩, [9]) := by rfl
example : (consMsgC false).dec ([0x41, 5, 0, 0, 0, 1, 0, 0, 1, 0x21, 5, 0, 0, 0, 1, 0] ++ List.replicate 40 0) = none := by rfl

/-! ## P2P payloads, notary request, message framing -/

/-- C17 (P2P payloads): all laws for Ping, GetBlocks, GetBlockByIndex, Inventory, MPTInventory, MPTData, Headers,
Capability list, Version, AddressList and MerkleBlock (caps from the regenerated table; MerkleBlock as fixed by
6ed1937: the tx count is compared as an unsigned number and then caps hashes and flags). -/
theorem p2p_payloads_lawful (sr : Bool) :
    pingC.Lawful ∧ getBlocksC.Lawful ∧ getBlockByIndexC.Lawful ∧ inventoryC.Lawful ∧ mptInventoryC.Lawful
      ∧ mptDataC.Lawful ∧ (headersC sr).Lawful ∧ capabilitiesC.Lawful ∧ versionC.Lawful ∧ addressListC.Lawful
      ∧ merkleBlockC.Lawful :=
  ⟨pingC_lawful, getBlocksC_lawful, getBlockByIndexC_lawful, inventoryC_lawful, mptInventoryC_lawful,
    mptDataC_lawful, headersC_lawful sr, capabilitiesC_lawful, versionC_lawful, addressListC_lawful, merkleBlockC_lawful⟩

/-- C17 (MerkleBlock) for EVERY input the hash slice allocated is at most MaxTransactionsPerBlock elements
(the sign bug fixed by 6ed1937 made this unbounded). -/
theorem merkleblock_alloc_bounded (b : Bytes) :
    merkleBlockC.alloc b ≤ merkleBlockC.allocK * b.length + merkleBlockC.allocC
      ∧ merkleBlockC.allocC ≤ 4 * 2 ^ 20 := by
  refine ⟨merkleBlockC_lawful.alloc_le b, ?_⟩
  simp only [merkleBlockC, map, Codec.bind, seq_allocC, headerC, headerHashableC, refine, varUint, witnessC, uintLE, fixed,
    byte, varBytes, merkleCap]
  decide

/-- C17 (P2P notary request): all laws; `H` hashes the signed part of the main transaction (the Conflicts attribute
of the fallback must carry it). -/
theorem notaryrequest_lawful (H : Bytes → Bytes) (cv : Curve) (hs : cv.Sound) :
    (notaryRequestC H cv).Lawful ∧ (notaryRequestC H cv).Strict :=
  ⟨notaryRequestC_lawful H cv hs, notaryRequestC_strict H cv hs⟩

/-- C17 (message frame): flags, command, payload bytes capped by payload.MaxSize (empty only for the four
payload-less commands): all laws, strict consumption. -/
theorem frame_lawful : frameC.Lawful ∧ frameC.Strict := ⟨frameC_lawful, frameC_strict⟩

/-- C17 (P2P message) a fresh message of any command round-trips through frame, compression and the payload decoder
the command selects — given an inverse compression pair (abstract; the real LZ4 pair is tie/oracle-only and violates
the hypothesis on amd64, known finding message-lz4-roundtrip). -/
theorem p2p_message_roundtrip (compress : Bytes → Bytes) (decompress : Bytes → Option Bytes) (compressible : UInt8 → Bool)
    (hinv : ∀ x, decompress (compress x) = some x) (H : Bytes → Bytes) (cv : Curve) (hs : cv.Sound) (sr : Bool)
    (cmd : UInt8) (p : P2PPayload) (r : Bytes) (hc : cmdOk cmd p) (hw : payloadWf H cv sr p)
    (hnull : payloadEnc H cv sr p = [] → p = .null)
    (hsz : (payloadEnc H cv sr p).length ≤ WireLimits.payloadMaxSize)
    (hcz : (compress (payloadEnc H cv sr p)).length ≤ WireLimits.payloadMaxSize ∧ compress (payloadEnc H cv sr p) ≠ []) :
    messageDec decompress H cv sr (messageEnc compress compressible H cv sr cmd p ++ r) = some (cmd, p, r) :=
  message_roundtrip compress decompress compressible hinv H cv hs sr cmd p r hc hw hnull hsz hcz

-- non-vacuity: a Ping message (command 0x18) through the identity "compression"
example : messageDec some id anyCurve false (messageEnc id (fun _ => true) id anyCurve false 0x18 (.ping ⟨1, 2, 3⟩) ++ [9])
    = some (0x18, .ping ⟨1, 2, 3⟩, [9]) := by rfl

/-! ## one Message object, several serialisations -/

/-- C17 (P2P message object, flag rule) whatever flags an earlier serialisation or the decoder left in the object and
whether compression is allowed this time: bit 0 of the flags byte written is set exactly when this serialisation
compresses, the payload bytes written are then `compress body`, otherwise the plain `body`; the command is the
object's and the other seven bits of the flags are kept. (`tryCompressPayload` since 817a9b3.) -/
theorem msgobj_flag_rule (compress : Bytes → Bytes) (H : Bytes → Bytes) (cv : Curve) (sr : Bool) (allow : Bool) (o : MsgObj) :
    let f := o.frame compress H cv sr allow
    ((f.flags &&& 1 != 0) = o.compresses H cv sr allow) ∧
    f.raw = (if o.compresses H cv sr allow then compress (payloadEnc H cv sr o.payload) else payloadEnc H cv sr o.payload) ∧
    f.command = o.cmd ∧ f.flags &&& 0xfe = o.flags &&& 0xfe :=
  MsgObj.frame_flag_rule compress H cv sr allow o

/-- C17 (P2P message object) every frame of every sequence of serialisations of one object — compression allowed or
not, in any order, starting from any flags (fresh, left by Decode of a compressed frame, …) — decodes to the command
and payload of the object, given an inverse compression pair. Covers both sequences 817a9b3 repaired: compressed then
plain for a peer without the capability, and Decode then Encode. -/
theorem msgobj_every_serialisation_decodes (compress : Bytes → Bytes) (decompress : Bytes → Option Bytes)
    (hinv : ∀ x, decompress (compress x) = some x) (H : Bytes → Bytes) (cv : Curve) (hs : cv.Sound) (sr : Bool)
    (as : List Bool) (o : MsgObj) (hc : cmdOk o.cmd o.payload) (hw : payloadWf H cv sr o.payload)
    (hnull : payloadEnc H cv sr o.payload = [] → o.payload = .null)
    (hsz : (payloadEnc H cv sr o.payload).length ≤ WireLimits.payloadMaxSize)
    (hcz : (compress (payloadEnc H cv sr o.payload)).length ≤ WireLimits.payloadMaxSize ∧ compress (payloadEnc H cv sr o.payload) ≠ []) :
    ∀ b ∈ MsgObj.encodeSeq compress H cv sr as o, messageDec decompress H cv sr b = some (o.cmd, o.payload, []) :=
  MsgObj.encodeSeq_decodes compress decompress hinv H cv hs sr as o hc hw hnull hsz hcz

/-- C17 (P2P message object) decoding what one serialisation wrote gives back the object as the serialisation left
it (flags included): Decode ∘ Encode is the identity on objects. -/
theorem msgobj_decode_encode (compress : Bytes → Bytes) (decompress : Bytes → Option Bytes)
    (hinv : ∀ x, decompress (compress x) = some x) (H : Bytes → Bytes) (cv : Curve) (hs : cv.Sound) (sr : Bool)
    (allow : Bool) (o : MsgObj) (r : Bytes) (hc : cmdOk o.cmd o.payload) (hw : payloadWf H cv sr o.payload)
    (hnull : payloadEnc H cv sr o.payload = [] → o.payload = .null)
    (hsz : (payloadEnc H cv sr o.payload).length ≤ WireLimits.payloadMaxSize)
    (hcz : (compress (payloadEnc H cv sr o.payload)).length ≤ WireLimits.payloadMaxSize ∧ compress (payloadEnc H cv sr o.payload) ≠ []) :
    MsgObj.decode decompress H cv sr ((o.encode compress H cv sr allow).2 ++ r)
      = some ((o.encode compress H cv sr allow).1, r) :=
  MsgObj.encode_decodes compress decompress hinv H cv hs sr allow o r hc hw hnull hsz hcz

/-- regression (the rule before 817a9b3): an object whose Compressed bit is set — it was serialised compressed, or
decoded from a compressed frame — is written with the PLAIN payload under the flags byte that says compressed,
whatever `allow` is … -/
theorem msgobj_old_rule_flag_lies (compress : Bytes → Bytes) (H : Bytes → Bytes) (cv : Curve) (sr : Bool) (allow : Bool)
    (o : MsgObj) (h : o.flags &&& 1 = 1) :
    o.frameOld compress H cv sr allow = ⟨o.flags, o.cmd, payloadEnc H cv sr o.payload⟩ :=
  MsgObj.frameOld_flag_lies compress H cv sr allow o h

/-- … and no peer can read it: any decoder whose decompression refuses the plain payload bytes refuses the frame. -/
theorem msgobj_old_rule_undecodable (compress : Bytes → Bytes) (decompress : Bytes → Option Bytes)
    (H : Bytes → Bytes) (cv : Curve) (sr : Bool) (allow : Bool) (o : MsgObj) (r : Bytes) (h : o.flags &&& 1 = 1)
    (hne : payloadEnc H cv sr o.payload ≠ [])
    (hsz : (payloadEnc H cv sr o.payload).length ≤ WireLimits.payloadMaxSize)
    (hd : decompress (payloadEnc H cv sr o.payload) = none) :
    MsgObj.decode decompress H cv sr ((o.encodeOld compress H cv sr allow).2 ++ r) = none :=
  MsgObj.encodeOld_undecodable compress decompress H cv sr allow o r h hne hsz hd

-- non-vacuity, on a Ping object that carries the Compressed bit (as after Decode of a compressed frame) and a
-- decompression that refuses everything: the current rule writes flags 0 and the frame decodes; the old one does not
example : MsgObj.decode (fun _ => none) id anyCurve false ((MsgObj.encode id id anyCurve false true ⟨1, 0x18, .ping ⟨1, 2, 3⟩⟩).2)
    = some (⟨0, 0x18, .ping ⟨1, 2, 3⟩⟩, []) := by rfl
example : MsgObj.decode (fun _ => none) id anyCurve false ((MsgObj.encodeOld id id anyCurve false true ⟨1, 0x18, .ping ⟨1, 2, 3⟩⟩).2)
    = none := by rfl

/-! ## manifest and deployed contract: the stack-item form ContractManagement stores -/

/-- C17 (stack-item integers) canonicalisation keeps the number: the minimal two's complement bytes
`bigint.ToBytes (bigint.FromBytes d)` (the byte-level `canonInt` of the item model) denote what `d` denotes. -/
theorem int_canon_preserves_value (d : Bytes) : Item.intFromLE (Item.canonInt d) = Item.intFromLE d :=
  Item.intFromLE_canonInt d

example : Item.intFromLE (Item.canonInt [0x80, 0xff, 0xff]) = -128 ∧ Item.canonInt [0x80, 0xff, 0xff] = [0x80] := by decide

/-- C17 (manifest tables) the literal facts of the FromStackItem family the model is written against, re-checked
against the regenerated table: field counts of Manifest/ABI/Method/Event/Parameter/Permission/Group/Contract, the two
byte lengths a permission descriptor may have, signature and hash sizes, the range checks of Contract.ID and
UpdateCounter, and that every accepted parameter type fits 64 bits (so it survives `int(x.Int64())`). -/
theorem manifest_tables :
    WireManifest.manifestFields = 8 ∧ WireManifest.abiFields = 2 ∧ WireManifest.methodFields = 5
      ∧ WireManifest.eventFields = 2 ∧ WireManifest.parameterFields = 2 ∧ WireManifest.permissionFields = 2
      ∧ WireManifest.groupFields = 2 ∧ WireManifest.contractFields = 5
      ∧ WireManifest.permDescLens = [WireManifest.uint160Size, 33] ∧ WireManifest.uint160Size = 20
      ∧ WireManifest.signatureLen = 64
      ∧ WireManifest.contractIdLo = -2147483648 ∧ WireManifest.contractIdHi = 2147483647
      ∧ WireManifest.contractUpdateCounterLo = 0 ∧ WireManifest.contractUpdateCounterHi = 65535
      ∧ (∀ t ∈ WireManifest.validParamTypes, inInt64 t) := by
  refine ⟨by decide, by decide, by decide, by decide, by decide, by decide, by decide, by decide, by decide, by decide,
    by decide, by decide, by decide, by decide, by decide, fun t ht => validType_int64 t ht⟩

/-- C17 (manifest, stack-item form) round trip: `FromStackItem (ToStackItem m) = m` for every well-formed manifest
(names valid UTF-8, parameter/return types in the table, offsets in int64, keys valid, signatures 64 bytes, hashes
20 bytes), with Extra replaced by what `extraToStackItem` writes (`norm`; encoding/json is not modelled). -/
theorem manifest_item_roundtrip (norm : Bytes → Bytes) (cv : Curve) (hs : cv.Sound) (m : Manifest) (h : m.wf cv) :
    Manifest.fromItem cv (m.toItem norm) = some (m.normExtra norm) := Manifest.roundtrip norm cv hs m h

/-- C17 (manifest, stack-item form) whatever `FromStackItem` accepts — through any of its lenient conversions — is
well-formed, and the item `ToStackItem` builds from it is read back to the same manifest. -/
theorem manifest_item_reencode_stable (norm : Bytes → Bytes) (cv : Curve) (hs : cv.Sound) (x : Item) (m : Manifest)
    (h : Manifest.fromItem cv x = some m) :
    m.wf cv ∧ Manifest.fromItem cv (m.toItem norm) = some (m.normExtra norm) :=
  Manifest.reencode_stable norm cv hs x m h

/-- C17 (manifest, stack-item form) canonicalisation is idempotent when the normalisation of Extra is: re-encoding
the re-read manifest gives the same item again. -/
theorem manifest_item_canon_idem (norm : Bytes → Bytes) (hn : ∀ x, norm (norm x) = norm x) (cv : Curve) (hs : cv.Sound)
    (x : Item) (m : Manifest) (h : Manifest.fromItem cv x = some m) :
    ∃ m', Manifest.fromItem cv (m.toItem norm) = some m' ∧ m'.toItem norm = m.toItem norm := by
  refine ⟨m.normExtra norm, (Manifest.reencode_stable norm cv hs x m h).2, ?_⟩
  simp [Manifest.toItem, Manifest.normExtra, hn]

/-- C17 (manifest, stored form) `Deserialize`+`FromStackItem` of `Serialize (ToStackItem m)` (followed by anything)
is `m`, for every well-formed manifest the serialiser accepts. -/
theorem manifest_store_load (norm : Bytes → Bytes) (cv : Curve) (hs : cv.Sound) (m : Manifest) (b r : Bytes)
    (hw : m.wf cv) (hst : Manifest.store norm m = some b) :
    Manifest.load cv (b ++ r) = some (m.normExtra norm) := Manifest.store_load norm cv hs m b r hw hst

/-- C17 (deployed contract, as ContractManagement stores it) `DeserializeConvertible (SerializeConvertible c) = c`
for every well-formed contract (ID in int32, update counter in uint16, 20-byte hash, well-formed NEF of at most
MaxSize bytes, well-formed manifest); `H` = the NEF checksum hash. -/
theorem contract_store_load (H : Bytes → Bytes) (norm : Bytes → Bytes) (cv : Curve) (hs : cv.Sound) (c : Contract)
    (b r : Bytes) (hw : c.wf H cv) (hst : c.store H norm = some b) :
    Contract.load H cv (b ++ r) = some (c.normExtra norm) := Contract.store_load H norm cv hs c b r hw hst

/-- C17 (deployed contract) whatever the loader accepts is well-formed; when it can be stored again (the NEF and the
item fit MaxSize) the stored bytes load to the same contract. -/
theorem contract_reencode_stable (H : Bytes → Bytes) (norm : Bytes → Bytes) (cv : Curve) (hs : cv.Sound) (b e : Bytes)
    (c : Contract) (hl : Contract.load H cv b = some c) (hst : c.store H norm = some e) :
    c.wf H cv ∧ Contract.load H cv e = some (c.normExtra norm) :=
  Contract.reencode_stable H norm cv hs b e c hl hst

/-- a small manifest: one group, one safe method `m(p: Boolean): Integer` at offset 5, a group permission with a
method list, wildcard trusts. -/
def key0 : Bytes := 2 :: List.replicate 32 7
def manifest0 : Manifest :=
  ⟨[0x63], [⟨key0, List.replicate 64 0⟩], [[0x4e]], [⟨[0x6d], [⟨[0x70], 0x10⟩], 0x11, 5, true⟩], [⟨[0x65], []⟩],
    [⟨.group key0, some [[0x6d]]⟩, ⟨.hash (List.replicate 20 1), none⟩], none, [0x7b, 0x7d]⟩

theorem manifest0_decodes : Manifest.fromItem anyCurve (manifest0.toItem id) = some manifest0 := by decide

-- non-vacuity: manifest0 is well-formed, so the round-trip theorems apply to it; its stored form is 227 bytes
example : manifest0.wf anyCurve := Manifest.fromItem_wf anyCurve anyCurve_sound _ _ manifest0_decodes
set_option maxRecDepth 100000 in
example : (Manifest.store id manifest0).map List.length = some 227 := by decide

/-! the leniency of `FromStackItem`, class by class (each is also a corpus case of the harness, so the real code is
compared with the model on it): an accepted non-canonical item is re-encoded in the canonical form. -/

-- a Buffer, an Integer or a Boolean where a string is expected: accepted (`TryBytes`), re-encoded as ByteString
example : MParam.fromItem (.struct [.buffer [0x70], .int [0x10]]) = some ⟨[0x70], 0x10⟩ := by decide
example : MParam.fromItem (.struct [.int [0x70], .bool false]) = some ⟨[0x70], 0⟩ := by decide
-- not UTF-8 (overlong NUL, a surrogate, beyond U+10FFFF): rejected
example : MParam.fromItem (.struct [.byteArray [0xc0, 0x80], .int [0x10]]) = none := by decide
example : MParam.fromItem (.struct [.byteArray [0xed, 0xa0, 0x80], .int [0x10]]) = none := by decide
example : MParam.fromItem (.struct [.byteArray [0xf4, 0x90, 0x80, 0x80], .int [0x10]]) = none := by decide
-- a type that does not fit 64 bits is TRUNCATED by `big.Int.Int64()`, not rejected: 2^64 + 0x11 reads as Integer
example : MParam.fromItem (.struct [.byteArray [0x70], .int [0x11, 0, 0, 0, 0, 0, 0, 0, 1]]) = some ⟨[0x70], 0x11⟩ := by
  decide
-- a Buffer is not a number; an Array instead of a Struct is refused
example : MParam.fromItem (.struct [.byteArray [0x70], .buffer [0x11]]) = none := by decide
example : MParam.fromItem (.array [.byteArray [0x70], .int [0x11]]) = none := by decide
-- `safe` is read with TryBool: any item is true, Null is false, an over-long ByteString is an error
example : (MMethod.fromItem (.struct [.byteArray [0x6d], .array [], .int [0x11], .int [5], .array []])).map (·.safe)
    = some true := by decide
example : (MMethod.fromItem (.struct [.byteArray [0x6d], .array [], .int [0x11], .int [5], .null])).map (·.safe)
    = some false := by decide
-- offset 2^63 wraps to -2^63
example : (MMethod.fromItem (.struct [.byteArray [0x6d], .array [], .int [0x11], .int [0, 0, 0, 0, 0, 0, 0, 0x80, 0],
    .bool true])).map (·.offset) = some (-9223372036854775808) := by decide
-- a permission descriptor must be a ByteString (not a Buffer) of 20 or 33 bytes
example : PermDesc.fromItem anyCurve (.buffer (List.replicate 20 1)) = none := by decide
example : PermDesc.fromItem anyCurve (.byteArray (List.replicate 21 1)) = none := by decide

/-! ## identity depends only on content -/

/-- C17 (identity, generic) for a lawful codec of the hashed fields and a collision-free `H`: two well-formed values
have the same identity `H (enc x)` if and only if they are equal. -/
theorem identity_content {β : Type} (hc : Codec β) (hl : hc.Lawful) (H : Bytes → Bytes)
    (hinj : ∀ x y, H x = H y → x = y) (x y : β) (hx : hc.wf x) (hy : hc.wf y) :
    H (hc.enc x) = H (hc.enc y) ↔ x = y := identity_iff hl H hinj x y hx hy

/-- C17 (identity) what is hashed is the wire encoding minus the witnesses, exactly: for transaction, header, state
root, extensible payload and P2P notary request the encoding splits into the hashed bytes followed by the encoding
of the witness(es) (for a notary request: its own witness; the two transactions are hashed with theirs). -/
theorem hashed_part_excludes_exactly_the_witnesses (H : Bytes → Bytes) (cv : Curve) (sr : Bool) :
    (∀ t : Tx, (txC cv).enc t = (txBodyC cv).enc t.body ++ (txWitnessesC t.body.signers.length).enc t.witnesses)
    ∧ (∀ h : Header, (headerC sr).enc h = (headerHashableC sr).enc (headerHashed h) ++ ([1] ++ witnessC.enc h.witness))
    ∧ (∀ s : StateRoot, stateRootC.enc s = stateRootHashableC.enc (s.version, s.index, s.root)
        ++ (array 1 WireLimits.slotWitness witnessC).enc s.witnesses)
    ∧ (∀ e : Extensible, extensibleC.enc e
        = extensibleHashableC.enc (e.category, e.validStart, e.validEnd, e.sender, e.data) ++ ([1] ++ witnessC.enc e.witness))
    ∧ (∀ r : NotaryRequest, (notaryRequestC H cv).enc r
        = (notaryHashableC cv).enc (r.main, r.fallback) ++ witnessC.enc r.witness) :=
  ⟨tx_enc_split cv, header_enc_split sr, stateRoot_enc_split, extensible_enc_split, notary_enc_split H cv⟩

/-- C17 (transaction identity) same hash ⟺ same hashed fields (version, nonce, fees, validity, signers, attributes,
script): the witnesses play no part, and no two different contents share an identity. -/
theorem tx_identity_content (H : Bytes → Bytes) (hinj : ∀ x y, H x = H y → x = y) (cv : Curve) (hs : cv.Sound)
    (t₁ t₂ : Tx) (h₁ : (txC cv).wf t₁) (h₂ : (txC cv).wf t₂) :
    txHash H cv t₁ = txHash H cv t₂ ↔ t₁.body = t₂.body := tx_identity H hinj cv hs t₁ t₂ h₁ h₂

/-- C17 (header / block identity) same hash ⟺ same hashed header fields; a block's identity is its header's. -/
theorem header_identity_content (H : Bytes → Bytes) (hinj : ∀ x y, H x = H y → x = y) (sr : Bool) (a b : Header)
    (ha : (headerC sr).wf a) (hb : (headerC sr).wf b) :
    headerHash H sr a = headerHash H sr b ↔ headerHashed a = headerHashed b := header_identity H hinj sr a b ha hb

theorem block_identity_content (H : Bytes → Bytes) (hinj : ∀ x y, H x = H y → x = y) (cv : Curve) (sr : Bool)
    (a b : Block) (ha : (blockC cv sr).wf a) (hb : (blockC cv sr).wf b) :
    blockHash H sr a = blockHash H sr b ↔ headerHashed a.header = headerHashed b.header :=
  block_identity H hinj cv sr a b ha hb

/-- C17 (state root identity) same hash ⟺ same version, index and root. -/
theorem stateroot_identity_content (H : Bytes → Bytes) (hinj : ∀ x y, H x = H y → x = y) (a b : StateRoot)
    (ha : stateRootC.wf a) (hb : stateRootC.wf b) :
    stateRootHash H a = stateRootHash H b ↔ (a.version, a.index, a.root) = (b.version, b.index, b.root) :=
  stateRoot_identity H hinj a b ha hb

/-- C17 (extensible payload identity) same hash ⟺ same category, validity range, sender and data. -/
theorem extensible_identity_content (H : Bytes → Bytes) (hinj : ∀ x y, H x = H y → x = y) (a b : Extensible)
    (ha : extensibleC.wf a) (hb : extensibleC.wf b) :
    extensibleHash H a = extensibleHash H b
      ↔ (a.category, a.validStart, a.validEnd, a.sender, a.data) = (b.category, b.validStart, b.validEnd, b.sender, b.data) :=
  extensible_identity H hinj a b ha hb

/-- C17 (P2P notary request identity) same hash ⟺ same main and fallback transactions (each with its witnesses). -/
theorem notary_identity_content (H H' : Bytes → Bytes) (hinj : ∀ x y, H x = H y → x = y) (cv : Curve) (hs : cv.Sound)
    (a b : NotaryRequest) (ha : (notaryRequestC H' cv).wf a) (hb : (notaryRequestC H' cv).wf b) :
    notaryHash H cv a = notaryHash H cv b ↔ (a.main, a.fallback) = (b.main, b.fallback) :=
  notary_identity H H' hinj cv hs a b ha hb

-- non-vacuity: two different well-formed transactions with the same body (tx0 with another witness) share the
-- identity; changing the nonce changes it
def tx0' : Tx := ⟨tx0.body, [⟨[1], [2]⟩]⟩
example : (txC anyCurve).wf tx0' :=
  (txC_lawful anyCurve anyCurve_sound).dec_wf ((txC anyCurve).enc tx0') tx0' [] (by rfl)
example (H : Bytes → Bytes) : txHash H anyCurve tx0 = txHash H anyCurve tx0' := rfl

/-- the witnesses of a transaction have a tight codec: the canonical encoding is the shortest accepted one and the
only accepted one of its length. (Not so for Boolean conditions: byte 02 reads as true and re-encodes as 01.) -/
theorem witnesses_tight (ns : Nat) : (txWitnessesC ns).Tight := txWitnessesC_tight ns

example : ¬ boolC.Tight := by
  intro h
  have := (h [2] true [] (by rfl)).2 (by rfl)
  revert this; decide

/-
hash_path_independent, full statement — FALSE on the unchanged tree (see tx_hash_path_dependent above). The exact
extent of the exception is proved instead: the two paths report the same identity and size IF AND ONLY IF the
received bytes are the canonical encoding; any other dependence on the path contradicts the theorem (and the tie of
`txFromBytes` / `txFromStream` to the real code on every run).
-/
/-- C17 (transaction) the arrival-path exception, exactly: for bytes both paths accept, `NewTransactionFromBytes`
and `DecodeBinary` report the same hash AND size iff the bytes are the canonical encoding (H collision-free). -/
theorem tx_identity_path_independent_iff_canonical (H : Bytes → Bytes) (hinj : ∀ x y, H x = H y → x = y) (cv : Curve)
    (hs : cv.Sound) (b : Bytes) (t : Tx) (h₁ h₂ : Bytes) (n₁ n₂ : Nat)
    (hb : txFromBytes H cv b = some (t, h₁, n₁)) (hst : txFromStream H cv b = some (t, h₂, n₂, [])) :
    (h₁ = h₂ ∧ n₁ = n₂) ↔ b = (txC cv).enc t := tx_paths_agree_iff_canonical H hinj cv hs b t h₁ h₂ n₁ n₂ hb hst

/-- … and the hash alone agrees iff the hashed part of the received bytes (everything before the witnesses) is the
canonical encoding of the hashed fields. -/
theorem tx_hash_path_independent_iff_canonical_prefix (H : Bytes → Bytes) (hinj : ∀ x y, H x = H y → x = y)
    (cv : Curve) (hs : cv.Sound) (b : Bytes) (t : Tx) (h₁ h₂ : Bytes) (n₁ n₂ : Nat)
    (hb : txFromBytes H cv b = some (t, h₁, n₁)) (hst : txFromStream H cv b = some (t, h₂, n₂, [])) :
    ∃ r, (txBodyC cv).dec b = some (t.body, r) ∧ (h₁ = h₂ ↔ b = (txBodyC cv).enc t.body ++ r) :=
  tx_hash_agrees_iff_canonical_prefix H hinj cv hs b t h₁ h₂ n₁ n₂ hb hst

-- non-vacuity, both directions: the canonical bytes of tx0 meet the hypotheses and the right-hand side; the
-- non-minimal bytes meet the hypotheses and not the right-hand side
example (H : Bytes → Bytes) : ∃ h n, txFromBytes H anyCurve tx0Bytes = some (tx0, h, n)
    ∧ txFromStream H anyCurve tx0Bytes = some (tx0, h, n, []) ∧ tx0Bytes = (txC anyCurve).enc tx0 :=
  ⟨_, _, by rfl, by rfl, rfl⟩
example : tx0NonMinimal ≠ (txC anyCurve).enc tx0 := by decide

/-! ## the serialiser on items with shared compounds -/

/-- C17 (stack-item serialiser, sharing) the algorithm as written — one `seen` cache from a compound to the byte
range it was written to and the number of items it stands for; a further reference copies the bytes and charges the
recorded count — does on an acyclic item graph exactly what the tree serialiser does on the tree the graph stands for:
the same bytes, and an error in exactly the same cases (tree count over MaxSerialized, tree encoding over MaxSize,
interop/pointer/nil in the unprotected form). In particular the count it uses is the TREE count: every reference to a
shared compound is charged in full. All the tree theorems above (round trip, bounds) therefore hold for what the real
serialiser writes for an item with sharing. -/
theorem item_serialize_sharing_eq_tree (prot : Bool) (g : Graph) (ts : List Item) (root : GItem) (v : Item)
    (hg : g.trees = some ts) (hroot : root.tree ts = some v) :
    serializeG prot g root = Item.serialize prot v := serializeG_eq_tree prot g ts root v hg hroot

/-- … hence what it writes for an item with sharing is read back, as the tree. -/
theorem item_serialize_sharing_roundtrip (g : Graph) (ts : List Item) (root : GItem) (v : Item) (b r : Bytes)
    (hg : g.trees = some ts) (hroot : root.tree ts = some v) (hw : Item.wfB false v = true)
    (hs : serializeG false g root = some b) : Item.decode false (b ++ r) = some (v, r) := by
  rw [serializeG_eq_tree false g ts root v hg hroot] at hs
  exact (item_serialize_roundtrip v b r hw hs).2.2

/-- … and the protected form (`EncodeBinaryProtected`: one InvalidT byte instead of an error) likewise. -/
theorem item_serialize_protected_sharing_eq_tree (g : Graph) (ts : List Item) (root : GItem) (v : Item)
    (hg : g.trees = some ts) (hroot : root.tree ts = some v) :
    serializeProtectedG g root = Item.serializeProtected v := by
  have h := serializeG_eq_tree true g ts root v hg hroot
  unfold serializeProtectedG Item.serializeProtected
  rw [h]
  cases Item.serialize true v <;> rfl

-- non-vacuity: one map {1: null} (3 items) referenced three times and padded: 1 + 3*3 + 1 = 11 items in the tree;
-- the graph has two nodes; the bytes carry the map three times
def gShared : Graph := [.map [(.prim (.int [1]), .prim .null)], .array [.ref 0, .ref 0, .prim .null, .ref 0]]
example : gShared.trees = some [.map [(.int [1], .null)],
    .array [.map [(.int [1], .null)], .map [(.int [1], .null)], .null, .map [(.int [1], .null)]]] := rfl
example : (serializeG false gShared (.ref 1)).map List.length = some 21 := by decide
-- a graph that is not acyclic has no tree, and the serialiser reports the recursion
example : Graph.trees [.array [.ref 0]] = none := rfl
example : serializeG false [.array [.ref 0]] (.ref 0) = none := by decide

/-! ## cached size and hash of an object -/

/-- C17 (transaction object) decoding into ANY object — fresh, a `Copy()`, or one that was used before — fills both
caches with the truth: size = length of the encoding, hash = hash of the hashed fields (after fix 67279e2, which this
check's finding tx-reuse-stale-size led to). -/
theorem txobj_decode_fills_caches (H : Bytes → Bytes) (cv : Curve) (o o' : TxObj) (b : Bytes)
    (hd : o.decode H cv b = some o') :
    o'.size = ((txC cv).enc o'.v).length ∧ o'.hashed = true ∧ o'.hash = txHash H cv o'.v ∧ o'.Coherent H cv :=
  TxObj.decode_fills H cv o o' b hd

/-- C17 (transaction object) `Copy()` resets the caches: whatever is edited in the copy afterwards, its `Size()` is
the length of ITS encoding and its `Hash()` the hash of ITS hashed fields (seed C17-m4 removed the reset). -/
theorem txobj_copy_then_edit (H : Bytes → Bytes) (cv : Curve) (o : TxObj) (f : Tx → Tx) :
    ((o.copy.edit f).sizeOf cv).2 = ((txC cv).enc (f o.v)).length
      ∧ ((o.copy.edit f).hashOf H cv).2 = txHash H cv (f o.v) := by
  have h := TxObj.coherent_queries H cv (o.copy.edit f) (TxObj.copy_edit_coherent H cv o f)
  exact ⟨h.1, h.2.2.1⟩

/-- C17 (transaction object) cache coherence, full statement: `new`, `Copy()`, `NewTransactionFromBytes` of canonical
bytes and `DecodeBinary` into ANY object give coherent caches (unset, or equal to what the content encodes to);
`Size()` and `Hash()` preserve coherence and report the length of the encoding and the hash of the hashed fields. -/
theorem txobj_coherent (H : Bytes → Bytes) (cv : Curve) (hs : cv.Sound) :
    TxObj.new.Coherent H cv ∧ (∀ o : TxObj, o.copy.Coherent H cv)
    ∧ (∀ t, (txC cv).wf t → ∃ o, TxObj.fromBytes H cv ((txC cv).enc t) = some o ∧ o.v = t ∧ o.Coherent H cv)
    ∧ (∀ (o o' : TxObj) b, o.decode H cv b = some o' → o'.Coherent H cv)
    ∧ (∀ o : TxObj, o.Coherent H cv → (o.sizeOf cv).2 = ((txC cv).enc o.v).length ∧ (o.sizeOf cv).1.Coherent H cv
        ∧ (o.hashOf H cv).2 = txHash H cv o.v ∧ (o.hashOf H cv).1.Coherent H cv) :=
  ⟨TxObj.new_coherent H cv, TxObj.copy_coherent H cv, TxObj.fromBytes_canonical H cv hs,
    fun o o' b hd => (TxObj.decode_fills H cv o o' b hd).2.2.2, TxObj.coherent_queries H cv⟩

/-- C17 (extensible object) an Extensible decoded into — used or not — answers `Hash()` with the hash of its new
content (after fix 264f88d, which this check's finding extensible-reuse-stale-hash led to). -/
theorem extobj_decode_hash (H : Bytes → Bytes) (o o' : ExtObj) (b : Bytes) (hd : o.decode b = some o') :
    (o'.hashOf H).2 = extensibleHash H o'.v := ExtObj.decode_hash H o o' b hd

/-
Regression examples: the rules BEFORE the two fixes (`TxObj.decodeOld`: `_ = t.Size()` without resetting the size;
`ExtObj.decodeOld`: the cached hash survives) violated cache coherence. The witnesses are kept: a change that brings
the old rule back makes the tie disagree on exactly these method sequences (harness obj.go / cache.go).
-/

/-- regression (old rule of Transaction.DecodeBinary): decode the non-minimal bytes of `tx0` from bytes (size 55), then
decode the canonical bytes into the same object: the content is `tx0`, whose encoding has 53 bytes; `Size()` said 55.
With the fixed rule it says 53. -/
theorem txobj_redecode_stale_size (H : Bytes → Bytes) :
    ∃ o o' o'', TxObj.fromBytes H anyCurve tx0NonMinimal = some o ∧ o.decodeOld H anyCurve tx0Bytes = some o'
      ∧ o'.v = tx0 ∧ (o'.sizeOf anyCurve).2 = 55 ∧ ((txC anyCurve).enc o'.v).length = 53
      ∧ o.decode H anyCurve tx0Bytes = some o'' ∧ (o''.sizeOf anyCurve).2 = 53 :=
  ⟨⟨tx0, 55, true, H (tx0NonMinimal.take 52)⟩, ⟨tx0, 55, true, txHash H anyCurve tx0⟩, ⟨tx0, 53, true, txHash H anyCurve tx0⟩,
    by rfl, by rfl, rfl, by rfl, by show ((txC anyCurve).enc tx0).length = 53; decide, by rfl, by rfl⟩

def ext1 : Extensible := ⟨[1], 0, 0, List.replicate 20 0, [], ⟨[], []⟩⟩
def ext2 : Extensible := ⟨[2], 0, 0, List.replicate 20 0, [], ⟨[], []⟩⟩

/-- regression (old rule of Extensible.DecodeBinary): an object that answered `Hash()` kept that answer after another
payload was decoded into it; for an injective `H` that is not the hash of its content. -/
theorem extobj_redecode_stale_hash (H : Bytes → Bytes) (hinj : ∀ x y, H x = H y → x = y) :
    ∃ (o : ExtObj) (b : Bytes) (o' : ExtObj), o.decodeOld b = some o' ∧ o'.v = ext2
      ∧ (o'.hashOf H).2 ≠ extensibleHash H o'.v := by
  refine ⟨⟨ext1, some (extensibleHash H ext1)⟩, extensibleC.enc ext2, ⟨ext2, some (extensibleHash H ext1)⟩, by rfl, rfl, ?_⟩
  intro he
  have : extensibleHashableC.enc (ext1.category, ext1.validStart, ext1.validEnd, ext1.sender, ext1.data)
      = extensibleHashableC.enc (ext2.category, ext2.validStart, ext2.validEnd, ext2.sender, ext2.data) := hinj _ _ he
  revert this
  decide

/-! ## size = length of the encoding -/

/-- C17 (size law, generic) `size v = |enc v|` is a field of `Codec.Lawful`, proved once per combinator; every modelled
type is a composition, so the law holds for all of them — collected here: witness, condition (any depth), rule,
signer, attribute, transaction, header, block, state root, extensible payload, NEF, notification, invocation,
AppExecResult, every dBFT message, every P2P payload, notary request, message frame. -/
theorem size_eq_all (H : Bytes → Bytes) (cv : Curve) (hs : cv.Sound) (sr : Bool) :
    (∀ v, witnessC.wf v → witnessC.size v = (witnessC.enc v).length)
    ∧ (∀ d v, (condC cv d).wf v → (condC cv d).size v = ((condC cv d).enc v).length)
    ∧ (∀ v, (ruleC cv).wf v → (ruleC cv).size v = ((ruleC cv).enc v).length)
    ∧ (∀ v, (signerC cv).wf v → (signerC cv).size v = ((signerC cv).enc v).length)
    ∧ (∀ v, attrC.wf v → attrC.size v = (attrC.enc v).length)
    ∧ (∀ v, (txC cv).wf v → (txC cv).size v = ((txC cv).enc v).length)
    ∧ (∀ v, (headerC sr).wf v → (headerC sr).size v = ((headerC sr).enc v).length)
    ∧ (∀ v, (blockC cv sr).wf v → (blockC cv sr).size v = ((blockC cv sr).enc v).length)
    ∧ (∀ v, stateRootC.wf v → stateRootC.size v = (stateRootC.enc v).length)
    ∧ (∀ v, extensibleC.wf v → extensibleC.size v = (extensibleC.enc v).length)
    ∧ (∀ v, (nefC H).wf v → (nefC H).size v = ((nefC H).enc v).length)
    ∧ (∀ v, notificationC.wf v → notificationC.size v = (notificationC.enc v).length)
    ∧ (∀ v, invocationC.wf v → invocationC.size v = (invocationC.enc v).length)
    ∧ (∀ v, aerC.wf v → aerC.size v = (aerC.enc v).length)
    ∧ (∀ v, (consMsgC sr).wf v → (consMsgC sr).size v = ((consMsgC sr).enc v).length)
    ∧ (∀ v, (consPayloadC sr).wf v → (consPayloadC sr).size v = ((consPayloadC sr).enc v).length)
    ∧ (∀ v, versionC.wf v → versionC.size v = (versionC.enc v).length)
    ∧ (∀ v, addressListC.wf v → addressListC.size v = (addressListC.enc v).length)
    ∧ (∀ v, inventoryC.wf v → inventoryC.size v = (inventoryC.enc v).length)
    ∧ (∀ v, (headersC sr).wf v → (headersC sr).size v = ((headersC sr).enc v).length)
    ∧ (∀ v, merkleBlockC.wf v → merkleBlockC.size v = (merkleBlockC.enc v).length)
    ∧ (∀ v, (notaryRequestC H cv).wf v → (notaryRequestC H cv).size v = ((notaryRequestC H cv).enc v).length)
    ∧ (∀ v, frameC.wf v → frameC.size v = (frameC.enc v).length) :=
  ⟨witnessC_lawful.size_eq, fun d => (condC_lawful cv hs d).size_eq, (ruleC_lawful cv hs).size_eq,
    (signerC_lawful cv hs).size_eq, attrC_lawful.size_eq, (txC_lawful cv hs).size_eq, (headerC_lawful sr).size_eq,
    (blockC_lawful cv hs sr).size_eq, stateRootC_lawful.size_eq, extensibleC_lawful.size_eq, (nefC_lawful H).size_eq,
    notificationC_lawful.size_eq, invocationC_lawful.size_eq, aerC_lawful.size_eq, (consMsgC_lawful sr).size_eq,
    (consPayloadC_lawful sr).size_eq, versionC_lawful.size_eq, addressListC_lawful.size_eq, inventoryC_lawful.size_eq,
    (headersC_lawful sr).size_eq, merkleBlockC_lawful.size_eq, (notaryRequestC_lawful H cv hs).size_eq, frameC_lawful.size_eq⟩

theorem sizeL_eq_sum {α : Type} (c : Codec α) (l : List α) : sizeL c l = (l.map c.size).sum := by
  induction l with
  | nil => rfl
  | cons a as ih => simp [sizeL, ih]

/-- C17 (GetVarSize of a collection), full statement after fix 756d84c (which this check's finding
getvarsize-value-slice led to): for elements that are Serializable themselves (pointers) AND for addressable elements
that are Serializable by pointer only (every SLICE of structures: []Attribute, []Signer, []Witness, []Uint256 …)
`io.GetVarSize` is the size of the array codec — the number of bytes `WriteArray` writes. What remains: an ARRAY passed
by value has unaddressable elements and is still counted as 0 bytes per element — but `WriteArray` cannot encode such a
value at all (it panics taking the address), so no encoding exists to disagree with. -/
theorem getvarsize_collection {α : Type} (c : Codec α) (max slot : Nat) (l : List α) (h : l.length ≤ 0xFFFFFFFF)
    (k : ElemKind) (hk : k = .serializable ∨ k = .pointerOnly true) :
    getVarSizeSlice k (l.map c.size) = (array max slot c).size l := by
  rcases hk with rfl | rfl <;>
  · simp only [getVarSizeSlice, array, List.length_map, sizeL_eq_sum]
    rw [putVarUint_length, if_pos h]

/-- regression (rule before fix 756d84c, `.other`): one attribute of 1013 bytes in a `[]transaction.Attribute` counted
as 0 bytes (GetVarSize said 1, WriteArray wrote 1014); now it is counted; the unaddressable case still counts 0. -/
theorem getvarsize_value_slice_wrong :
    getVarSizeSlice .other [1013] = 1 ∧ getVarSizeSlice (.pointerOnly true) [1013] = 1014
      ∧ getVarSizeSlice (.pointerOnly false) [1013] = 1 := by decide

/-! ## typed JSON of stack items (ToJSONWithTypes / FromJSONWithTypes) -/

/-- C17 (base64) `DecodeString (EncodeToString b) = b`, standard alphabet with padding. -/
theorem base64_roundtrip (b : Bytes) : B64.decode (B64.encode b) = some b := B64.decode_encode b

/-- C17 (typed JSON of a stack item) round trip at the level of JSON values: reading back the value
`ToJSONWithTypes` writes gives the item — for every item the form carries (no nil; integers within ±2^255 as the
decoder builds them; pointers within int64; map keys primitive, ≤ 64 bytes, pairwise different), at any nesting depth
and item count (the typed form has neither limit). Hypothesis: decimal printing and parsing of integers are inverse
(strconv / math/big text conversion is not modelled). The text ↔ value step (`jsonTypedText` / `Json.parse`) is tied
to the real encoder/decoder on every run, not proved. -/
theorem item_json_typed_roundtrip (hd : DecimalOK) (v : Item) (hw : wfJ v) :
    fromJ false (2 * Item.count v) (some (toJ v)) = .ok v :=
  fromJ_toJ hd (Item.count v) v (Nat.le_refl _) hw _ (Nat.le_refl _)

example : wfJ (.array [.map [(.int (Item.intToLE 5), .bool true)], .byteArray [1, 2], .pointer 7, .null]) :=
  ⟨⟨⟨⟨5, by decide, rfl⟩, trivial, trivial⟩, by decide⟩, trivial, by show (7 : Nat) < 2 ^ 63; decide, trivial, trivial⟩

/-- C17 (typed JSON decoder is total) `FromJSONWithTypes` answers every JSON value with an item or an error, never
a panic (after fix ea79830, which this check's finding itemjson-typed-panic led to: `CheckIntegerSize` before
`NewBigInteger`). -/
theorem item_json_typed_total (fuel : Nat) (jv : Option JVal) : fromJ false fuel jv ≠ .panic :=
  (fromJ_total fuel).1 jv

/-
Regression example: with the rule BEFORE the fix (`fromJ true`) the integer 2^255 as a JSON string reached
`NewBigInteger`, which panics beyond 256 bits; the fixed rule answers with an error.
-/
def digits2p255 : Bytes :=
  [0x35, 0x37, 0x38, 0x39, 0x36, 0x30, 0x34, 0x34, 0x36, 0x31, 0x38, 0x36, 0x35, 0x38, 0x30, 0x39, 0x37, 0x37, 0x31, 0x31,
   0x37, 0x38, 0x35, 0x34, 0x39, 0x32, 0x35, 0x30, 0x34, 0x33, 0x34, 0x33, 0x39, 0x35, 0x33, 0x39, 0x32, 0x36, 0x36, 0x33,
   0x34, 0x39, 0x39, 0x32, 0x33, 0x33, 0x32, 0x38, 0x32, 0x30, 0x32, 0x38, 0x32, 0x30, 0x31, 0x39, 0x37, 0x32, 0x38, 0x37,
   0x39, 0x32, 0x30, 0x30, 0x33, 0x39, 0x35, 0x36, 0x35, 0x36, 0x34, 0x38, 0x31, 0x39, 0x39, 0x36, 0x38]

theorem parse2p255 : parseBigInt digits2p255 = some (2 ^ 255) := by decide

/-- regression (old rule of FromJSONWithTypes): the integer 2^255 as a JSON string panicked; now it is an error. -/
theorem item_json_typed_panics :
    fromJ true 3 (some (.obj [(kType, .str [0x49, 0x6e, 0x74, 0x65, 0x67, 0x65, 0x72]), (kValue, .str digits2p255)])) = .panic
      ∧ fromJ false 3 (some (.obj [(kType, .str [0x49, 0x6e, 0x74, 0x65, 0x67, 0x65, 0x72]), (kValue, .str digits2p255)])) = .err := by
  constructor
  · simp [fromJ, typeField_two, rawField_value_two, asString, parse2p255]
    decide
  · simp [fromJ, typeField_two, rawField_value_two, asString, parse2p255]
    decide

/-- … and −2^255 is read (the bound is exact on the negative side too). -/
theorem item_json_typed_min_ok :
    fromJ false 3 (some (.obj [(kType, .str [0x49, 0x6e, 0x74, 0x65, 0x67, 0x65, 0x72]), (kValue, .str (0x2d :: digits2p255))]))
      = .ok (.int (Item.intToLE (-(2 ^ 255)))) := by
  have hp : parseBigInt (0x2d :: digits2p255) = some (-(2 ^ 255)) := by decide
  simp [fromJ, typeField_two, rawField_value_two, asString, hp]
  decide

/-! ## untyped JSON of stack items (ToJSON / FromJSON — StdLib.jsonSerialize / jsonDeserialize) -/

/-- C17 (untyped JSON decoder is bounded) whatever the text, an item `FromJSON` returns has at most `maxCount` items,
map keys included (every value and every key costs one unit): the decoder cannot be made to build more than the
caller allows. Stated over the model of plain texts (the tie covers the same rule on the real decoder). -/
theorem item_json_untyped_bounded (maxCount : Nat) (b : Bytes) (v : Item)
    (h : fromJSONU maxCount b = some (some v)) : Item.count v ≤ maxCount := fromJSONU_bounded maxCount b v h

-- non-vacuity: `[1,{"a":2}]` has five items (array, 1, map, key, 2): accepted with maxCount 5, refused with 4
example : fromJSONU 5 [0x5b, 0x31, 0x2c, 0x7b, 0x22, 0x61, 0x22, 0x3a, 0x32, 0x7d, 0x5d]
    = some (some (.array [.int [1], .map [(.byteArray [0x61], .int [2])]])) := by rfl
example : fromJSONU 4 [0x5b, 0x31, 0x2c, 0x7b, 0x22, 0x61, 0x22, 0x3a, 0x32, 0x7d, 0x5d] = some none := by rfl

/-- regression (untyped JSON map keys, d98706e): a key over MaxKeySize bytes is refused (`IsValidMapKey` before the
value is looked at) — the model of the code before the repair had no answer there because `Map.Has` panicked. -/
example : fromJSONU 10 ([0x7b, 0x22] ++ List.replicate 65 0x6b ++ [0x22, 0x3a, 0x31, 0x7d]) = some none := by rfl
example : ∃ v, fromJSONU 10 ([0x7b, 0x22] ++ List.replicate 64 0x6b ++ [0x22, 0x3a, 0x31, 0x7d]) = some (some v) := ⟨_, rfl⟩

/-! ## NEF file: every decoding entry point gives the same verdict -/

/-- C17 (NEF, entry points) for bytes within MaxSize: `nef.FileFromBytes` accepts ⟺ `File.DecodeBinary` accepts (the
same file) ⟺ the body decodes, four bytes follow, and they are the checksum of the CANONICAL re-encoding of the decoded
body (`CalculateChecksum` serialises the struct) — not of the bytes as written. A non-canonical spelling (non-minimal
var-uint, bool byte 2) sealed with the checksum of its own bytes is therefore refused by both, one carrying the
checksum of the canonical bytes is accepted by both and canonicalised. Seed C17-m5 made `FileFromBytes` hash the input
bytes instead. -/
theorem nef_accept_iff (H : Bytes → Bytes) (b : Bytes) (hl : b.length ≤ WireLimits.stackMaxSize) (n : Nef) :
    (nefFromBytes H b = some n ↔ ∃ r, nefDecodeBinary H b = some (n, r))
    ∧ ((∃ r, nefDecodeBinary H b = some (n, r)) ↔
        ∃ r' r, nefBodyC.dec b = some (n.body, r') ∧ (uintLE 4).dec r' = some (n.checksum, r)
          ∧ n.checksum = checksumOf H (nefBodyC.enc n.body)) := nef_entry_points_iff H b hl n

/-- C17 (NEF) what `FileFromBytes` accepts re-encodes (`Bytes()`, within MaxSize because re-encoding never needs more
bytes than were read) to bytes `FileFromBytes` accepts again as the same file. -/
theorem nef_frombytes_reencode_stable (H : Bytes → Bytes) (b : Bytes) (n : Nef) (h : nefFromBytes H b = some n) :
    nefBytes H n = some ((nefC H).enc n) ∧ nefFromBytes H ((nefC H).enc n) = some n := nef_frombytes_reencode H b n h

/-- a "hash" that tells byte strings of different length apart (enough for the example below). -/
def lenHash (x : Bytes) : Bytes := leBytes 4 x.length

/-- the smallest NEF file: empty compiler and source, no tokens, script 0x40. -/
def nef0 : Nef := ⟨⟨[], [], [], [0x40]⟩, 75⟩
def nef0Bytes : Bytes := (nefC lenHash).enc nef0

-- non-vacuity: nef0 is accepted through both entry points; its Source length (offset 68) written `fd 00 00` with the
-- SAME checksum is accepted too and canonicalised; with the checksum recomputed over the bytes as written (body two
-- bytes longer) it is refused
example : nefFromBytes lenHash nef0Bytes = some nef0 := by rfl
example : nefFromBytes lenHash (nef0Bytes.take 68 ++ [0xfd, 0, 0] ++ nef0Bytes.drop 69) = some nef0 := by rfl
example : nefFromBytes lenHash (nef0Bytes.take 68 ++ [0xfd, 0, 0] ++ (nef0Bytes.drop 69).take 6 ++ leBytes 4 77) = none := by rfl

/-! ## JSON (text) form of witness scopes -/

set_option maxRecDepth 1000000 in
theorem scopes_roundtrip_all :
    (List.range 256).all (fun n => !scopeOk (UInt8.ofNat n)
      || Scopes.fromString (Scopes.toString (UInt8.ofNat n)) == some (UInt8.ofNat n)) = true := by
  decide

/-- C17 (witness scopes, JSON) every scope byte the binary decoder accepts survives the text form:
`ScopesFromString (scopesToString s) = s`. -/
theorem scopes_json_roundtrip (s : UInt8) (h : scopeOk s = true) : Scopes.fromString (Scopes.toString s) = some s := by
  have hall := List.all_eq_true.mp scopes_roundtrip_all s.toNat (by simp [List.mem_range]; exact s.toNat_lt)
  have hs : UInt8.ofNat s.toNat = s := by simp
  rw [hs, h] at hall
  simpa using hall

/-- the invariant of the loop: only named bits are ever set. -/
def scopeKnown (s : UInt8) : Bool :=
  s &&& ~~~(UInt8.ofNat (WireLimits.scopeGlobal ||| WireLimits.scopeCalledByEntry ||| WireLimits.scopeCustomContracts
    ||| WireLimits.scopeCustomGroups ||| WireLimits.scopeRules)) == 0

set_option maxRecDepth 1000000 in
theorem scopeKnown_or_all : (List.range 256).all (fun a => !scopeKnown (UInt8.ofNat a)
    || [UInt8.ofNat WireLimits.scopeGlobal, UInt8.ofNat WireLimits.scopeCalledByEntry, UInt8.ofNat WireLimits.scopeCustomContracts,
        UInt8.ofNat WireLimits.scopeCustomGroups, UInt8.ofNat WireLimits.scopeRules, 0].all
          (fun sc => scopeKnown (UInt8.ofNat a ||| sc))) = true := by decide

theorem scopes_lookup_vals (p : Bytes) (sc : UInt8) (h : Scopes.lookup p = some sc) :
    sc ∈ [UInt8.ofNat WireLimits.scopeGlobal, UInt8.ofNat WireLimits.scopeCalledByEntry, UInt8.ofNat WireLimits.scopeCustomContracts,
      UInt8.ofNat WireLimits.scopeCustomGroups, UInt8.ofNat WireLimits.scopeRules, 0] := by
  unfold Scopes.lookup at h
  split at h
  · simp at h; subst h; simp
  · split at h
    · simp at h; subst h; simp
    · split at h
      · simp at h; subst h; simp
      · split at h
        · simp at h; subst h; simp
        · split at h
          · simp at h; subst h; simp
          · split at h
            · simp at h; subst h; simp
            · simp at h

theorem scopes_fold_known : ∀ (ps : List Bytes) (acc r : UInt8), scopeKnown acc = true → Scopes.fold ps acc = some r →
    scopeKnown r = true := by
  intro ps
  induction ps with
  | nil => intro acc r ha h; simp [Scopes.fold] at h; subst h; exact ha
  | cons p rest ih =>
    intro acc r ha h
    simp only [Scopes.fold] at h
    split at h
    · simp at h
    · rename_i sc hl
      refine ih (acc ||| sc) r ?_ h
      have hall := List.all_eq_true.mp scopeKnown_or_all acc.toNat (by simp [List.mem_range]; exact acc.toNat_lt)
      have hs : UInt8.ofNat acc.toNat = acc := by simp
      rw [hs, ha] at hall
      simp only [Bool.not_true, Bool.false_or] at hall
      exact List.all_eq_true.mp hall sc (scopes_lookup_vals _ _ hl)

/-- C17 (witness scopes, JSON) full statement, true after fix b6b23d8 (which this check's finding
signer-json-scope-invalid led to): every text `ScopesFromString` accepts denotes a scope byte the binary decoder
accepts — no unknown bit, `Global` only alone. -/
theorem scopes_json_accepts_only_valid (s : Bytes) (v : UInt8) (h : Scopes.fromString s = some v) : scopeOk v = true := by
  unfold Scopes.fromString at h
  split at h
  · simp at h
  · rename_i r hf
    split at h
    · simp at h
    · rename_i hg
      simp at h; subst h
      have hk := scopes_fold_known _ 0 r (by decide) hf
      unfold scopeKnown at hk
      unfold scopeOk
      simp only [hk, Bool.true_and]
      have hg' : ¬ r &&& UInt8.ofNat WireLimits.scopeGlobal = 0 → r = UInt8.ofNat WireLimits.scopeGlobal := by simpa using hg
      by_cases h0 : r &&& UInt8.ofNat WireLimits.scopeGlobal = 0
      · simp [h0]
      · simp [hg' h0]

-- non-vacuity: the text of every valid scope is accepted (scopes_json_roundtrip), e.g. three scopes in any order
example : Scopes.fromString (Scopes.nRules ++ [0x2c] ++ Scopes.nCalledByEntry ++ [0x2c, 0x20] ++ Scopes.nCustomGroups)
    = some 0x61 := by decide

/-- regression (the loop of ScopesFromString BEFORE fix b6b23d8, `Scopes.fromStringOld`): "CalledByEntry, Global" read
as 0x81, which the binary form refuses and whose own text "WitnessScope(129)" is not readable, while the other order
was refused; the fixed rule refuses both. -/
theorem scopes_json_accepts_invalid :
    Scopes.fromStringOld (Scopes.nCalledByEntry ++ [0x2c, 0x20] ++ Scopes.nGlobal) = some 0x81 ∧ scopeOk 0x81 = false
      ∧ Scopes.fromStringOld (Scopes.nGlobal ++ [0x2c, 0x20] ++ Scopes.nCalledByEntry) = none
      ∧ Scopes.fromString (Scopes.nCalledByEntry ++ [0x2c, 0x20] ++ Scopes.nGlobal) = none
      ∧ Scopes.fromString (Scopes.nGlobal ++ [0x2c, 0x20] ++ Scopes.nCalledByEntry) = none := by decide

end NeoModel.Wire
