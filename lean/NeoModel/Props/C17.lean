/-
C17 — wire formats round-trip. Property theorems only (helper lemmas live in Proofs/).
-/
import NeoModel.Model.Wire.VarUint
namespace NeoModel.Wire

theorem leVal_leBytes (n v : Nat) (h : v < 256 ^ n) : leVal (leBytes n v) = v := by
  induction n generalizing v with
  | zero => simp at h; simp [leBytes, leVal, h]
  | succ n ih =>
    have h2 : v / 256 < 256 ^ n := by
      rw [Nat.div_lt_iff_lt_mul (by decide)]; rw [Nat.pow_succ] at h; exact h
    simp only [leBytes, leVal, ih _ h2]
    have : (UInt8.ofNat (v % 256)).toNat = v % 256 := by
      simp [UInt8.toNat_ofNat']
    rw [this]; omega

theorem leBytes_length (n v : Nat) : (leBytes n v).length = n := by
  induction n generalizing v with
  | zero => rfl
  | succ n ih => simp [leBytes, ih]

/-- C17 (var-uint): decode (encode v ++ rest) = (v, rest) for every 64-bit `v`. -/
theorem varuint_roundtrip (v : Nat) (r : Bytes) (h : v < 2 ^ 64) :
    readVarUint (putVarUint v ++ r) = some (v, r) := by
  unfold putVarUint
  split
  · rename_i h1
    have hb : (UInt8.ofNat v).toNat = v := by simp [UInt8.toNat_ofNat']; omega
    have n1 : UInt8.ofNat v ≠ 0xfd := by intro e; have := congrArg UInt8.toNat e; rw [hb] at this; simp at this; omega
    have n2 : UInt8.ofNat v ≠ 0xfe := by intro e; have := congrArg UInt8.toNat e; rw [hb] at this; simp at this; omega
    have n3 : UInt8.ofNat v ≠ 0xff := by intro e; have := congrArg UInt8.toNat e; rw [hb] at this; simp at this; omega
    simp [readVarUint, n1, n2, n3, hb]
  · split
    · rename_i h1 h2
      have : v < 256 ^ 2 := by omega
      simp [readVarUint, takeN, leBytes_length, leVal_leBytes 2 v this]
    · split
      · rename_i h1 h2 h3
        have : v < 256 ^ 4 := by omega
        simp [readVarUint, takeN, leBytes_length, leVal_leBytes 4 v this]
      · have : v < 256 ^ 8 := by omega
        simp [readVarUint, takeN, leBytes_length, leVal_leBytes 8 v this]

-- non-vacuity: the hypothesis is met at the top of the range
example : readVarUint (putVarUint (2^64 - 1) ++ [7]) = some (2^64 - 1, [7]) :=
  varuint_roundtrip _ _ (by decide)

end NeoModel.Wire

namespace NeoModel.Wire
/-- C17 (var-uint): the reported size is the length of the encoding (for lengths, i.e. < 2^32). -/
theorem varuint_size_eq (v : Nat) : (putVarUint v).length = (if v ≤ 0xFFFFFFFF then varUintSize v else 9) := by
  unfold putVarUint varUintSize
  split <;> (try split) <;> (try split) <;> simp [leBytes_length] <;> omega
end NeoModel.Wire
