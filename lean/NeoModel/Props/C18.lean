/-
C18 — keys, signatures, addresses and number encodings obey their algebra; multi-signature
matching; Merkle root. Property theorems only (helper lemmas live in Proofs/Codec*.lean).
-/
import NeoModel.Proofs.CodecMultisig
namespace NeoModel.Codec
variable {Sig Key : Type}

/-- C18 (multisig, sequential): the greedy matcher accepts exactly when the signatures can be
matched to keys in order: some sub-list of the keys (order kept, each key used once) verifies the
signatures one to one. -/
theorem greedy_iff (ok : Sig → Key → Bool) (sigs : List Sig) (keys : List Key) :
    seqMatch ok sigs keys = true ↔ ∃ ks', ks'.Sublist keys ∧ pairwiseOk ok sigs ks' :=
  ⟨matching_of_seqMatch ok keys sigs, fun ⟨ks', hs, hp⟩ => seqMatch_of_matching ok keys sigs ks' hs hp⟩

-- non-vacuity: 2 signatures, 4 keys (one repeated); matched to positions 1 and 3.
example : seqMatch (fun (s k : Nat) => s == k) [7, 9] [5, 7, 7, 9] = true
    ∧ ([7, 9] : List Nat).Sublist [5, 7, 7, 9] ∧ pairwiseOk (fun (s k : Nat) => s == k) [7, 9] [7, 9] := by
  refine ⟨by decide, by decide, by simp [pairwiseOk]⟩

end NeoModel.Codec
