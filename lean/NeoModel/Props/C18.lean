/-
C18 — keys, signatures, addresses and number encodings obey their algebra; multi-signature
matching; Merkle root. Property theorems only (helper lemmas live in Proofs/Codec*.lean).
-/
import NeoModel.Proofs.CodecMultisig
import NeoModel.Proofs.CodecMultisigPar
import NeoModel.Proofs.CodecMerkle
import NeoModel.Proofs.CodecBigInt
import NeoModel.Proofs.CodecUint
import NeoModel.Proofs.CodecBase58
import NeoModel.Proofs.CodecScript
import NeoModel.Proofs.CodecFixed
import NeoModel.Proofs.CodecMsScript
import NeoModel.Proofs.CodecSig
import NeoModel.Proofs.CodecMsCanon
import NeoModel.Proofs.CodecBase58Inv
import NeoModel.Proofs.CodecPubKey
import NeoModel.Proofs.CodecNep2
import NeoModel.Proofs.CodecFixedInv
import NeoModel.Proofs.CodecUintInv
import NeoModel.Proofs.CodecConsts
import NeoModel.Proofs.CodecKeysMisc
import NeoModel.Proofs.CodecPow10
namespace NeoModel.Codec
variable {Sig Key : Type}

/-- C18 (multisig, sequential): the greedy matcher accepts exactly when the signatures can be
matched to keys in order: some sub-list of the keys (order kept, each key used once) verifies the
signatures one to one. -/
theorem greedy_iff (ok : Sig → Key → Bool) (sigs : List Sig) (keys : List Key) :
    seqMatch ok sigs keys = true ↔ ∃ ks', ks'.Sublist keys ∧ pairwiseOk ok sigs ks' :=
  ⟨matching_of_seqMatch ok keys sigs, fun ⟨ks', hs, hp⟩ => seqMatch_of_matching ok keys sigs ks' hs hp⟩

-- non-vacuity: 2 signatures, 4 keys (one repeated); matched to positions 1 and 3.
example : seqMatch (fun (s k : Nat) => s == k) [7, 9] [5, 7, 7, 9] = true
    ∧ ([7, 9] : List Nat).Sublist [5, 7, 7, 9] ∧ pairwiseOk (fun (s k : Nat) => s == k) [7, 9] [7, 9] := by
  refine ⟨by decide, by decide, by simp [pairwiseOk]⟩


/-- C18 (multisig, parallel): under the caller's contract `1 ≤ len(sigs) ≤ len(keys)` and with
well-formed keys, the two-ended parallel checker returns the sequential answer **for every arrival
schedule `σ` of the verification results**; in particular it never blocks, never indexes out of
range and always terminates within the fuel `len(keys)+2`. -/
theorem par_eq_seq (ok : Sig → Key → Bool) (bad : Key → Bool) (sigs : List Sig) (keys : List Key)
    (hm : 1 ≤ sigs.length) (hn : sigs.length ≤ keys.length) (hb : keys.any bad = false) :
    ∀ σ : Nat → Bool, checkMultisigPar ok bad σ sigs keys = MRes.ofBool (seqMatch ok sigs keys) :=
  fun σ => par_eq_seq_aux ok bad sigs keys hm hn hb σ

/-- C18 (multisig): the parallel checker accepts exactly when the signatures can be matched to
keys in order, whatever the schedule. -/
theorem par_accepts_iff_matching (ok : Sig → Key → Bool) (bad : Key → Bool) (sigs : List Sig) (keys : List Key)
    (hm : 1 ≤ sigs.length) (hn : sigs.length ≤ keys.length) (hb : keys.any bad = false) (σ : Nat → Bool) :
    checkMultisigPar ok bad σ sigs keys = MRes.accept ↔ ∃ ks', ks'.Sublist keys ∧ pairwiseOk ok sigs ks' := by
  rw [par_eq_seq ok bad sigs keys hm hn hb σ, ← greedy_iff]
  cases seqMatch ok sigs keys <;> simp [MRes.ofBool]

/-- C18 (multisig): the result never depends on the schedule — for all inputs, malformed keys
included (after the fix that parses all keys before the workers start; with two or more signatures
any malformed key makes the call panic under every schedule). -/
theorem par_schedule_independent (ok : Sig → Key → Bool) (bad : Key → Bool) (sigs : List Sig) (keys : List Key) :
    ∀ σ σ' : Nat → Bool, checkMultisigPar ok bad σ sigs keys = checkMultisigPar ok bad σ' sigs keys :=
  fun σ σ' => par_independent_aux ok bad sigs keys σ σ'

theorem par_malformed_key_panics (ok : Sig → Key → Bool) (bad : Key → Bool) (sigs : List Sig) (keys : List Key)
    (hm : 2 ≤ sigs.length) (hn : sigs.length ≤ keys.length) (hb : keys.any bad = true) :
    ∀ σ : Nat → Bool, checkMultisigPar ok bad σ sigs keys = MRes.panic :=
  fun σ => par_bad_aux ok bad sigs keys hm hn hb σ

-- non-vacuity: 3-of-5 with a repeated key and an unusable first key, accepted under the two
-- extreme schedules ("forward result always first" / "backward result always first") …
example : checkMultisigPar (fun (s k : Nat) => s == k) (fun _ => false) (fun _ => true) [1, 1, 3] [0, 1, 1, 2, 3] = .accept
    ∧ checkMultisigPar (fun (s k : Nat) => s == k) (fun _ => false) (fun _ => false) [1, 1, 3] [0, 1, 1, 2, 3] = .accept
    ∧ seqMatch (fun (s k : Nat) => s == k) [1, 1, 3] [0, 1, 1, 2, 3] = true := by decide
-- … a signature order that cannot be matched is rejected …
example : checkMultisigPar (fun (s k : Nat) => s == k) (fun _ => false) (fun i => i % 2 == 0) [3, 1] [0, 1, 2, 3] = .reject := by decide
-- … and the input on which the unfixed code was schedule-dependent (keys K0 BAD K1 K2, three valid
-- signatures) now panics under both schedules.
example : checkMultisigPar (fun (s k : Nat) => s == k) (fun k => k == 9) (fun _ => true) [0, 1, 2] [0, 9, 1, 2] = .panic
    ∧ checkMultisigPar (fun (s k : Nat) => s == k) (fun k => k == 9) (fun _ => false) [0, 1, 2] [0, 9, 1, 2] = .panic := by decide

/-! ## VM integers (pkg/encoding/bigint) -/

/-- C18 (integers): decoding the encoding gives the number back, for every integer. -/
theorem bigint_from_to (n : Int) : fromBytes (toBytes n) = n := fromBytes_toBytes n

example : toBytes (-129) = [0x7f, 0xff] ∧ fromBytes [0x7f, 0xff] = -129 := by decide
example : toBytes (2 ^ 255 - 1) = List.replicate 31 0xff ++ [0x7f] := by decide

/-- C18 (integers): the encoding is always in minimal two's-complement little-endian form
(no redundant sign byte; zero is the empty string). -/
theorem bigint_to_minimal (n : Int) : minimalB (toBytes n) = true ∧ toBytes 0 = [] :=
  ⟨minimal_toBytes n, rfl⟩

-- non-vacuity: the predicate does reject redundant sign bytes
example : minimalB [0x80, 0x00] = true ∧ minimalB [0x7f, 0x00] = false ∧ minimalB [0xff, 0xff] = false
    ∧ minimalB [0x00] = false := by decide

/-- C18 (integers): a minimal byte string is exactly the encoding of the number it decodes to
(so the codec is a bijection between integers and minimal strings). -/
theorem bigint_to_from_minimal (b : Bytes) (h : minimalB b = true) : toBytes (fromBytes b) = b :=
  toBytes_fromBytes b h

example : minimalB [0x00, 0x80] = true ∧ toBytes (fromBytes [0x00, 0x80]) = [0x00, 0x80] := by decide
-- and a non-minimal string decodes (the decoder is lenient) but re-encodes shorter
example : fromBytes [0xff, 0xff] = -1 ∧ toBytes (-1) = [0xff] := by decide

/-- C18 (integers): an integer fits the VM's 32 bytes iff it is in [-2^255, 2^255). -/
theorem bigint_len_le_32_iff (n : Int) :
    (toBytes n).length ≤ maxBytesLen ↔ (-(2:Int)^255 ≤ n ∧ n < (2:Int)^255) :=
  toBytes_length_le_32_iff n

example : (toBytes (-(2:Int)^255)).length = 32 ∧ (toBytes ((2:Int)^255)).length = 33
    ∧ (toBytes (-(2:Int)^255 - 1)).length = 33 := by decide

/-! ## Merkle root (pkg/crypto/hash/merkle_tree.go) -/

/-- C18 (Merkle): for every node hash `H` and every list of hashes (any length, odd levels
duplicate their last element) the in-place scratch-buffer version and the tree-building version
return the recursively defined pairwise root; the tree version fails exactly on the empty list,
where the in-place version returns the zero hash. -/
theorem merkle_impls_eq_spec (H : Bytes → Bytes) (hs : List Bytes) :
    calcMerkleRoot H hs = merkleSpec H hs ∧
    (hs ≠ [] → treeRoot H hs = some (merkleSpec H hs)) ∧
    (hs = [] → treeRoot H hs = none ∧ calcMerkleRoot H hs = zero256) := by
  refine ⟨calcMerkleRoot_eq_spec H hs, treeRoot_eq_spec H hs, ?_⟩
  intro h; subst h
  exact ⟨rfl, by simp [calcMerkleRoot]⟩

-- the specification on three leaves: the odd last element is paired with itself
example (H : Bytes → Bytes) (a b c : Bytes) :
    merkleSpec H [a, b, c] = H (H (a ++ b) ++ H (c ++ c)) := by
  simp [merkleSpec, pairUp]

example (H : Bytes → Bytes) (a b c d e : Bytes) :
    calcMerkleRoot H [a, b, c, d, e]
      = H (H (H (a ++ b) ++ H (c ++ d)) ++ H (H (e ++ e) ++ H (e ++ e))) := by
  rw [(merkle_impls_eq_spec H _).1]; simp [merkleSpec, pairUp]

/-! ## Uint160 / Uint256 (pkg/util) -/

/-- C18 (160/256-bit integers): the hex strings (big- and little-endian) and the byte forms decode
back to the value; `size` = 20 or 32 (any size). -/
theorem uint_roundtrip (size : Nat) (u : Bytes) (h : u.length = size) :
    uDecodeStringBE size (uStringBE u) = some u ∧ uDecodeStringLE size (uStringLE u) = some u ∧
    uDecodeBytesBE size (uBytesBE u) = some u ∧ uDecodeBytesLE size (uBytesLE u) = some u :=
  ⟨uDecodeStringBE_stringBE size u h, uDecodeStringLE_stringLE size u h,
   (uDecodeBytes_roundtrip size u h).1, (uDecodeBytes_roundtrip size u h).2⟩

/-- … and byte strings of any other length are rejected. -/
theorem uint_wrong_length (size : Nat) (b : Bytes) (h : b.length ≠ size) :
    uDecodeBytesBE size b = none ∧ uDecodeBytesLE size b = none := uDecode_wrong_length size b h

example : uStringLE [0x01, 0x02, 0xab] = [97, 98, 48, 50, 48, 49] /- "ab0201" -/ ∧
    uDecodeStringLE 3 [97, 98, 48, 50, 48, 49] = some [0x01, 0x02, 0xab] := by decide

/-- C18 (160/256-bit integers, converse): the string decoders accept exactly the hex strings of
`2·size` digits (either letter case); what they return prints back to the lower-cased input, so
on lower-case strings print∘parse is the identity too. -/
theorem uint_string_accepts_iff (size : Nat) (s u : Bytes) :
    (uDecodeStringBE size s = some u ↔ s.length = size * 2 ∧ hexDecB s = some u) ∧
    (uDecodeStringLE size s = some u ↔ s.length = size * 2 ∧ hexDecB s = some u.reverse) ∧
    (uDecodeStringBE size s = some u → uStringBE u = s.map lowerHex ∧ u.length = size) ∧
    (uDecodeStringLE size s = some u → uStringLE u = s.map lowerHex ∧ u.length = size) :=
  ⟨(uDecodeString_iff size s u).1, (uDecodeString_iff size s u).2, (uString_decode size s u).1, (uString_decode size s u).2⟩

example : uDecodeStringBE 2 [65, 98, 48, 49] /- "Ab01" -/ = some [0xab, 0x01] ∧
    uStringBE [0xab, 0x01] = [97, 98, 48, 49] /- "ab01" -/ := by decide

/-! ## Base58, Base58Check, address, WIF -/

/-- C18 (Base58): decoding the encoding gives the bytes back, leading zero bytes included
(any non-empty byte string; the library rejects the empty string). -/
theorem base58_decode_encode (b : Bytes) (hne : b ≠ []) : b58Decode (b58Encode b) = some b :=
  b58Decode_encode b hne

example : b58Decode (b58Encode [0, 0, 1, 2, 3]) = some [0, 0, 1, 2, 3] := base58_decode_encode _ (by simp)
-- the excluded case: the empty byte string encodes to the empty string, which `Decode` rejects
example : b58Decode (b58Encode []) = none := by
  simp [b58Encode, b58Decode, leadCount, ofDigitsBE, toDigitsBE_zero]

/-- C18 (Base58Check): for a checksum function returning at least 4 bytes (double SHA-256 in the
code) every non-empty payload decodes back (Base58Check always carries a version byte; the decoder
demands 5 bytes). -/
theorem base58check_roundtrip (H : Bytes → Bytes) (hH : ∀ x, 4 ≤ (H x).length) (b : Bytes) (hne : b ≠ []) :
    checkDecode H (checkEncode H b) = some b := checkDecode_encode H hH b hne

/-- C18 (addresses): a script hash (20 bytes) survives `Uint160ToString`/`StringToUint160`. -/
theorem address_decode_encode (H : Bytes → Bytes) (hH : ∀ x, 4 ≤ (H x).length) (u : Bytes) (hu : u.length = 20) :
    stringToUint160 H (uint160ToString H u) = some u := address_roundtrip H hH u hu

/-- C18 (WIF): a 32-byte private key, any version byte and either compression flag survive
`WIFEncode`/`WIFDecode`. -/
theorem wif_decode_encode (H : Bytes → Bytes) (hH : ∀ x, 4 ≤ (H x).length) (key : Bytes) (hk : key.length = 32)
    (version : UInt8) (compressed : Bool) :
    ∃ s, wifEncode H key version compressed = some s ∧ wifDecode H s version = some (key, compressed) :=
  wif_roundtrip H hH key hk version compressed

-- non-vacuity of the hash hypothesis and of the key-length guard
example : ∀ x : Bytes, 4 ≤ ((fun _ => List.replicate 32 (0 : UInt8)) x).length := by intro x; simp
example (H : Bytes → Bytes) : wifEncode H [1, 2, 3] 0 true = none := by simp [wifEncode]

/-! ### the converse direction: only encodings are accepted -/

/-- C18 (Base58): `Encode (Decode s) = s` for EVERY string `Decode` accepts (any length, leading
'1's included), and `Decode` rejects exactly the empty string and strings with a byte outside the
alphabet. Together with `base58_decode_encode`: a bijection between non-empty byte strings and
non-empty alphabet strings. -/
theorem base58_encode_decode (s : Bytes) :
    (∀ b, b58Decode s = some b → b58Encode b = s) ∧
    (b58Decode s = none ↔ s = [] ∨ ∃ c ∈ s, b58Digit c = none) :=
  ⟨fun b h => b58Encode_decode s b h, b58Decode_none_iff s⟩

example : b58Decode (b58Encode [0, 0, 1, 2, 3]) = some [0, 0, 1, 2, 3] ∧
    b58Encode [0, 0, 1, 2, 3] = b58Encode [0, 0, 1, 2, 3] :=
  ⟨base58_decode_encode _ (by simp), (base58_encode_decode _).1 _ (base58_decode_encode _ (by simp))⟩
example : b58Decode [0x30] = none /- "0" is not in the alphabet -/ :=
  (base58_encode_decode [0x30]).2.mpr (Or.inr ⟨0x30, by simp, by decide⟩)

/-- C18 (Base58, leading zeros): `z` leading zero bytes become exactly `z` leading '1's and the
rest of the string (which does not start with '1') does not depend on them. -/
theorem base58_leading_zeros (z : Nat) (b : Bytes) (hb : b.head? ≠ some 0) :
    b58Encode (List.replicate z 0 ++ b) = List.replicate z 0x31 ++ b58Encode b ∧ (b58Encode b).head? ≠ some 0x31 :=
  b58Encode_leading_zeros z b hb

/-- C18 (Base58Check): `CheckDecode` accepts exactly the `CheckEncode` images of non-empty payloads;
a wrong checksum, fewer than 5 bytes, a foreign character: rejected. -/
theorem base58check_accepts_iff (H : Bytes → Bytes) (hH : ∀ x, 4 ≤ (H x).length) (s p : Bytes) :
    checkDecode H s = some p ↔ p ≠ [] ∧ s = checkEncode H p := checkDecode_iff H hH s p

/-- C18 (addresses): `StringToUint160` accepts exactly the `Uint160ToString` images of 20-byte
values (so both directions of the address ↔ script-hash round trip hold, version byte included). -/
theorem address_accepts_iff (H : Bytes → Bytes) (hH : ∀ x, 4 ≤ (H x).length) (s u : Bytes) :
    stringToUint160 H s = some u ↔ u.length = 20 ∧ s = uint160ToString H u := address_iff H hH s u

/-- C18 (WIF): `WIFDecode` accepts exactly the `WIFEncode` images of 32-byte keys under the same
version: layout `version | key (32) | [0x01] | checksum (4)` under Base58Check; another version
byte, another length, another flag byte or a wrong checksum is rejected. -/
theorem wif_accepts_iff (H : Bytes → Bytes) (hH : ∀ x, 4 ≤ (H x).length) (s key : Bytes) (version : UInt8) (c : Bool) :
    wifDecode H s version = some (key, c) ↔ key.length = 32 ∧ wifEncode H key version c = some s :=
  wif_iff H hH s key version c

-- the layout itself
example (H : Bytes → Bytes) (key : Bytes) (hk : key.length = 32) :
    wifEncode H key 0 true = some (b58Encode ((0x80 :: key ++ [0x01]) ++ (H (0x80 :: key ++ [0x01])).take 4)) := by
  simp [wifEncode, hk, checkEncode, checksum]

/-! ## integer pushes (pkg/vm/emit, scparser) -/

/-- C18 (emit): `emit.BigInt n` succeeds exactly for 256-bit integers, and the script it writes is a
single instruction that pushes `n` (decoded through the VM's integer codec). -/
theorem emit_bigint_pushes (n : Int) (hr : -(2:Int)^255 ≤ n ∧ n < (2:Int)^255) :
    ∃ s, emitBigInt n = some s ∧ pushedInt s = some n := emitBigIntAux_pushes n true hr

theorem emit_bigint_rejects (n : Int) (hr : ¬ (-(2:Int)^255 ≤ n ∧ n < (2:Int)^255)) : emitBigInt n = none :=
  emitBigInt_none n hr

/-- C18 (emit): `emit.Int i` pushes `i` for every int64. -/
theorem emit_int_pushes (i : Int) (hr : -(2:Int)^63 ≤ i ∧ i < (2:Int)^63) :
    ∃ s, emitInt i = some s ∧ pushedInt s = some i := emitInt_pushes i hr

example : emitInt 16 = some [0x00, 0x10] ∧ emitInt 15 = some [0x1f] ∧ emitInt (-1) = some [0x0f]
    ∧ emitInt 128 = some [0x01, 0x80, 0x00] ∧ pushedInt [0x01, 0x80, 0x00] = some 128 := by decide

/-! ## fixed-point decimals (pkg/encoding/fixedn) -/

/-- C18 (Fixed8): every int64 value, printed by `Fixed8.String` and parsed by
`Fixed8FromString`, comes back exactly (negative fractions below one and both int64 edges included). -/
theorem fixed8_roundtrip (v : Int) (hr : -(2:Int)^63 ≤ v ∧ v < (2:Int)^63) :
    fixed8FromString (fixed8String v) = some v := fixed8_parse_print v hr

example : fixed8FromString (fixed8String (-50000000)) = some (-50000000) := fixed8_roundtrip _ (by decide)
example : fixed8FromString (fixed8String (-(2:Int)^63)) = some (-(2:Int)^63) := fixed8_roundtrip _ (by decide)

/-- C18 (decimals): for every integer and every precision (no bound), `FromString (ToString bi p) p = bi`. -/
theorem decimal_roundtrip (bi : Int) (p : Nat) : decFromString (decToString bi p) p = some bi :=
  dec_parse_print bi p

example : decFromString (decToString (-5) 1) 1 = some (-5) := decimal_roundtrip _ _
example : decFromString (decToString ((2:Int)^64) 20) 20 = some ((2:Int)^64) := decimal_roundtrip _ _

/-- C18 (decimals): text with more fraction digits than the precision is rejected. -/
theorem decimal_too_many_digits_rejected (P0 p1 : Bytes) (p : Nat) (z : Int)
    (hnd : ∀ c ∈ P0, (c == chDot) = false) (hz : parseInt10 P0 = some z) (hl : p < p1.length) :
    decFromString (P0 ++ chDot :: p1) p = none := decFromString_too_long P0 p1 p z hnd hz hl

example : decFromString ([49] ++ chDot :: [49, 50, 51]) 2 = none :=   -- "1.123" with precision 2
  decimal_too_many_digits_rejected [49] [49, 50, 51] 2 1 (by decide) (by decide) (by decide)

/-- C18 (decimals, the precomputed table): `pow10` as written — a 17-entry table for `n ≤ 16`, a FRESH
product `table[16]·table[1]·table[1]…` above — is `10^n` for every `n`, and being a function of `n` and of
the (never written) table it returns the same value however often and in whatever order it is called. -/
theorem decimal_pow10 (n : Nat) : pow10M n = (10 : Int) ^ n ∧ pow10Table.length = maxAllowedPrecision + 1 :=
  ⟨pow10M_eq n, pow10_table_size.2⟩

example : pow10M 16 = 10 ^ 16 ∧ pow10M 17 = 10 ^ 17 ∧ pow10M 40 = 10 ^ 40 := by decide

/-- C18 (decimals, accepted language): `FromString` accepts exactly `[+-]?digits`, optionally
followed by `.` and `[+-]?digits` of at most `precision` characters, and returns
`int·10^p ± frac·10^(p − len(fraction text))` (`−` iff the text starts with `-`). -/
theorem decimal_accepts_iff (s : Bytes) (p : Nat) (v : Int) :
    decFromString s p = some v ↔
      ((∀ c ∈ s, (c == chDot) = false) ∧ ∃ z, parseInt10 s = some z ∧ v = z * (10:Int) ^ p) ∨
      (∃ P0 p1 z f, s = P0 ++ chDot :: p1 ∧ (∀ c ∈ P0, (c == chDot) = false) ∧ parseInt10 P0 = some z ∧
        p1.length ≤ p ∧ parseInt10 p1 = some f ∧
        v = (if P0.head? == some chMinus then z * (10:Int) ^ p - f * (10:Int) ^ (p - p1.length)
             else z * (10:Int) ^ p + f * (10:Int) ^ (p - p1.length))) := decFromString_iff s p v

/-- C18 (decimals, the accepted quirks, exactly): a signed fraction is accepted and its sign
character counts as a digit position, in the length test and in the scale; an empty integer or
fraction part is rejected. These strings are never printed by `ToString`, so they do not affect
`decimal_roundtrip`; they make parse∘print (string → value → string) non-injective. -/
theorem decimal_quirks (P0 d s : Bytes) (p : Nat) (z : Int) (hnd : ∀ c ∈ P0, (c == chDot) = false)
    (hz : parseInt10 P0 = some z) (hm : (P0.head? == some chMinus) = false)
    (hne : d ≠ []) (hd : ∀ c ∈ d, isDigit c = true) :
    (d.length + 1 ≤ p → decFromString (P0 ++ chDot :: chMinus :: d) p
        = some (z * (10:Int) ^ p + (-((decVal d : Nat) : Int)) * (10:Int) ^ (p - (d.length + 1)))) ∧
    (d.length + 1 ≤ p → decFromString (P0 ++ chDot :: chPlus :: d) p
        = some (z * (10:Int) ^ p + ((decVal d : Nat) : Int) * (10:Int) ^ (p - (d.length + 1)))) ∧
    (p < d.length + 1 → decFromString (P0 ++ chDot :: chMinus :: d) p = none) ∧
    decFromString (chDot :: s) p = none ∧ decFromString (s ++ [chDot]) p = none :=
  ⟨(dec_signed_fraction P0 d p z hnd hz hm hne hd).1, (dec_signed_fraction P0 d p z hnd hz hm hne hd).2.1,
   (dec_signed_fraction P0 d p z hnd hz hm hne hd).2.2, (dec_empty_parts s p).1, (dec_empty_parts s p).2⟩

-- "1.-5" at precision 2 is 1·100 − 5·10^(2−2) = 95, i.e. 0.95 (not 0.5), and is rejected at precision 1;
-- "1.+5" at precision 2 is 1.05, not 1.5; the unsigned "1.5" is 1.50
example : decFromString [49, 46, 45, 53] 2 = some 95 ∧ decFromString [49, 46, 45, 53] 1 = none ∧
    decFromString [49, 46, 43, 53] 2 = some 105 ∧ decFromString [49, 46, 53] 2 = some 150 := by decide

/-- C18 (decimals / Fixed8, print∘parse): for every accepted string, printing the parsed value gives the
string back iff the string is one the printer produces (for some value); on those strings both
compositions are the identity. A structural description of that image (no '+', no leading zeros, an
unsigned fraction without trailing zeros, "-0" only before a non-zero fraction) is NOT proved. -/
theorem decimal_print_parse_fixedpoints (s : Bytes) (p : Nat) (v : Int) (h : decFromString s p = some v) :
    decToString v p = s ↔ ∃ bi, s = decToString bi p := dec_print_parse_fixed s p v h

theorem fixed8_print_parse_fixedpoints (s : Bytes) (v : Int) (hr : -(2:Int)^63 ≤ v ∧ v < (2:Int)^63)
    (h : fixed8FromString s = some v) :
    fixed8String v = s ↔ ∃ w, (-(2:Int)^63 ≤ w ∧ w < (2:Int)^63) ∧ s = fixed8String w :=
  fixed8_print_parse_fixed s v hr h

-- "+1.50" and "1.5" both parse to 150 at precision 2, so at most one of them is printed
example : decFromString [43, 49, 46, 53, 48] 2 = some 150 ∧ decFromString [49, 46, 53] 2 = some 150 := by decide

/-- C18 (decimals, grammar of the printed form — one direction): every string `ToString` prints, hence
every accepted string on which print∘parse is the identity, has the form
`[-] digits-without-leading-zeros [ . 1..precision digits not ending in 0 ]` with "-0" only before a
fraction. The converse (every string of this form is printed) is NOT proved. -/
theorem decimal_printed_is_canonical (s : Bytes) (p : Nat) (v : Int)
    (hs : decToString v p = s) : canonDec s p := by
  rw [← hs]; exact decToString_canon v p

example : canonDec (decToString (-5) 1) 1 := decToString_canon _ _

/-- C18 (Fixed8, out-of-range text): `Fixed8FromString` never fails on range; it returns the parsed
decimal wrapped to int64 (the int64 congruent to it modulo 2^64). -/
theorem fixed8_parse_wraps (s : Bytes) (w : Int) :
    (fixed8FromString s = some w ↔ ∃ v, decFromString s 8 = some v ∧ w = wrapInt64 v) ∧
    (∀ x : Int, -(2:Int)^63 ≤ wrapInt64 x ∧ wrapInt64 x < (2:Int)^63 ∧ (wrapInt64 x - x) % (2:Int)^64 = 0) :=
  ⟨fixed8FromString_iff s w, wrapInt64_spec⟩

-- "92233720368.54775808" (= 2^63 · 10^-8) parses to −2^63
example : fixed8FromString [57,50,50,51,51,55,50,48,51,54,56,46,53,52,55,55,53,56,48,56] = some (-(2:Int)^63) := by decide

/-! ## standard contracts: builders and their parsers -/

/-- C18 (scripts): `ParseMultiSigContract (CreateMultiSigRedeemScript m keys) = (m, keys)` for every
`1 ≤ m ≤ n ≤ 1024` and 33-byte keys (in the order the builder emits them). -/
theorem multisig_script_parse_build (m : Nat) (keys : List Bytes) (h1 : 1 ≤ m) (h2 : m ≤ keys.length)
    (h3 : keys.length ≤ 1024) (hk : ∀ k ∈ keys, k.length = 33) :
    ∃ s, createMultiSig (m : Int) keys = some s ∧ parseMultiSig s = some (m, keys) :=
  parse_build m keys h1 h2 h3 hk

/-- C18 (scripts): `ParseSignatureContract (GetVerificationScript key) = key`. -/
theorem sig_script_parse_build (key : Bytes) (hk : key.length = 33) :
    parseSigContract (sigScript key) = some key := parseSig_build key hk

-- non-vacuity: 2-of-3 …
example : ∃ s, createMultiSig 2 [List.replicate 33 1, List.replicate 33 2, List.replicate 33 3] = some s ∧
    parseMultiSig s = some (2, [List.replicate 33 1, List.replicate 33 2, List.replicate 33 3]) :=
  multisig_script_parse_build 2 _ (by decide) (by decide) (by decide) (by intro k hk; simp at hk; rcases hk with h | h | h <;> subst h <;> rfl)
-- … and the builder's guards
example : createMultiSig 0 [List.replicate 33 1] = none ∧ createMultiSig 2 [List.replicate 33 1] = none := by
  constructor <;> simp [createMultiSig]

/-! ## standard contracts: the builder with its sort, the parsers characterised exactly -/

/-- C18 (scripts): `PublicKey.Cmp` orders keys "infinity first, then X, then Y" (big integers), and
the sort inside `CreateMultiSigRedeemScript` returns a sorted permutation of its input. -/
theorem multisig_sort_spec (ks : List PubKey) :
    (sortKeys ks).Perm ks ∧ (sortKeys ks).Pairwise (fun a b => pkLe a b = true) ∧
    (∀ x1 y1 x2 y2, pkLe (some (x1, y1)) (some (x2, y2)) = true ↔ (x1 < x2 ∨ (x1 = x2 ∧ y1 ≤ y2))) ∧
    (∀ a b, pkLe a b = true → pkLe b a = true → a = b) :=
  ⟨sortKeys_perm ks, sortKeys_sorted ks, fun x1 y1 x2 y2 => pkLe_iff (some (x1, y1)) (some (x2, y2)), pkLe_antisymm⟩

-- equal X / different Y, a duplicate and the infinity key
example : sortKeys [some (7, 4), none, some (3, 9), some (7, 2), some (7, 4)]
    = [none, some (3, 9), some (7, 2), some (7, 4), some (7, 4)] := by decide

/-- C18 (scripts): the redeem script (with the in-place sort modelled) does not depend on the order
in which the keys are passed: any permutation of the key list gives the same script, hence the
same script hash and address for every hash function. -/
theorem multisig_script_perm_invariant (m : Int) (ks ks' : List PubKey) (h : ks.Perm ks') :
    createMultiSigK m ks = createMultiSigK m ks' ∧
    ∀ (H160 H : Bytes → Bytes), (createMultiSigK m ks).map (fun s => uint160ToString H (H160 s))
      = (createMultiSigK m ks').map (fun s => uint160ToString H (H160 s)) := by
  have := createMultiSigK_perm m ks ks' h
  exact ⟨this, fun _ _ => by rw [this]⟩

example : createMultiSigK 2 [some (7, 4), some (3, 9), some (7, 2)] = createMultiSigK 2 [some (7, 2), some (7, 4), some (3, 9)] :=
  (multisig_script_perm_invariant 2 _ _ (by decide)).1
example : (createMultiSigK 2 [some (7, 4), some (3, 9), some (7, 2)]).isSome = true := by decide

/-- C18 (scripts): `ParseMultiSigContract (CreateMultiSigRedeemScript m keys) = (m, sorted keys)`
for every `1 ≤ m ≤ n ≤ 1024` and every list of (non-infinity) keys, in whatever order, duplicates
and equal-X keys included. -/
theorem multisig_script_parse_build_sorted (m : Nat) (keys : List PubKey) (h1 : 1 ≤ m) (h2 : m ≤ keys.length)
    (h3 : keys.length ≤ 1024) (hinf : ∀ k ∈ keys, k ≠ none) :
    ∃ s, createMultiSigK (m : Int) keys = some s ∧ parseMultiSig s = some (m, (sortKeys keys).map pkBytes) :=
  parse_createK m keys h1 h2 h3 hinf

example : ∃ s, createMultiSigK 2 [some (7, 4), some (3, 9), some (7, 2)] = some s ∧
    parseMultiSig s = some (2, [pkBytes (some (3, 9)), pkBytes (some (7, 2)), pkBytes (some (7, 4))]) :=
  multisig_script_parse_build_sorted 2 _ (by decide) (by decide) (by decide) (by decide)

/-- C18 (scripts): the script determines `m` and the sorted list of compressed keys: two key lists
give the same script iff (for keys on one curve, where X and the parity fix the key) they are the
same multiset of keys and `m` is the same. -/
theorem multisig_script_determines (m m' : Nat) (ks ks' : List PubKey) (s : Bytes)
    (h1 : 1 ≤ m) (h2 : m ≤ ks.length) (h3 : ks.length ≤ 1024) (hinf : ∀ k ∈ ks, k ≠ none)
    (h1' : 1 ≤ m') (h2' : m' ≤ ks'.length) (h3' : ks'.length ≤ 1024) (hinf' : ∀ k ∈ ks', k ≠ none)
    (hs : createMultiSigK (m : Int) ks = some s) (hs' : createMultiSigK (m' : Int) ks' = some s) :
    m = m' ∧ (sortKeys ks).map pkBytes = (sortKeys ks').map pkBytes := by
  obtain ⟨t, ht, hp⟩ := parse_createK m ks h1 h2 h3 hinf
  obtain ⟨t', ht', hp'⟩ := parse_createK m' ks' h1' h2' h3' hinf'
  rw [hs] at ht; rw [hs'] at ht'
  injection ht with ht; injection ht' with ht'
  subst ht; rw [← ht', hp] at hp'
  injection hp' with hp'
  injection hp' with e1 e2
  exact ⟨e1, e2⟩

/-- C18 (scripts), exact characterisation of what `ParseMultiSigContract` / `IsMultiSigContract`
accept: a script is accepted with result `(m, pubs)` iff `1 ≤ m ≤ n ≤ 1024`, every key push carries
33..255 bytes (the parser only rejects shorter ones and does not look inside), and the script is
`a ++ PUSHDATA1-pushes of pubs ++ c ++ SYSCALL CheckMultisig` (implicit RET only) where `a` and `c`
are among the listed encodings of `m` and `n`: PUSH1..PUSH16 (n ≤ 16), PUSHINT8 (n ≤ 127),
PUSHINT16/32/64 and PUSHINT128/256 zero-extended (5 to 7 encodings per count). -/
theorem multisig_parse_accepts_iff (s : Bytes) (m : Nat) (pubs : List Bytes) :
    parseMultiSig s = some (m, pubs) ↔
      1 ≤ m ∧ m ≤ pubs.length ∧ pubs.length ≤ 1024 ∧ (∀ k ∈ pubs, 33 ≤ k.length ∧ k.length ≤ 255) ∧
      ∃ a ∈ countEncodings m, ∃ c ∈ countEncodings pubs.length, s = msScript a pubs c :=
  parseMultiSig_iff' s m pubs

/-- C18 (scripts): among the accepted scripts the images of the builder are exactly those whose two
count pushes are the ones `emit.Int` writes (PUSH1..PUSH15, PUSHINT8 for 16..127, PUSHINT16 above);
every other listed encoding (PUSH16, over-wide PUSHINT*, the PUSHINT128/256 forms of the known
finding C07 calc-vs-vm-noncanonical-script) is accepted by the parser but never produced. -/
theorem multisig_noncanonical_exact (m : Nat) (pubs : List Bytes) (a c : Bytes)
    (h1 : 1 ≤ m) (h2 : m ≤ pubs.length) (h3 : pubs.length ≤ 1024) (hk : ∀ k ∈ pubs, 33 ≤ k.length ∧ k.length ≤ 255)
    (ha : a ∈ countEncodings m) (hc : c ∈ countEncodings pubs.length) :
    parseMultiSig (msScript a pubs c) = some (m, pubs) ∧
    (createMultiSig (m : Int) pubs = some (msScript a pubs c) ↔ a = canonCount m ∧ c = canonCount pubs.length) := by
  refine ⟨parseMultiSig_of_shape m pubs a c h1 h2 h3 hk ha hc, ?_⟩
  rw [createMultiSig_eq m pubs h1 h2 h3 (fun k hk' => (hk k hk').2)]
  constructor
  · intro h
    injection h with h
    have := msScript_unique m pubs h1 (by omega) _ _ _ _ (canonCount_mem m) ha (canonCount_mem _) hc h
    exact ⟨this.1.symm, this.2.symm⟩
  · rintro ⟨rfl, rfl⟩; rfl

-- non-vacuity: a 1-of-1 script whose `m` is pushed with PUSHINT256 is accepted but is not what the builder writes
example : parseMultiSig (msScript (countEnc 5 1) [List.replicate 33 7] (canonCount 1)) = some (1, [List.replicate 33 7])
    ∧ createMultiSig 1 [List.replicate 33 7] ≠ some (msScript (countEnc 5 1) [List.replicate 33 7] (canonCount 1)) := by
  have hk : ∀ k ∈ [List.replicate 33 (7 : UInt8)], 33 ≤ k.length ∧ k.length ≤ 255 := by
    intro k hk; simp at hk; subst hk; simp
  have := multisig_noncanonical_exact 1 [List.replicate 33 7] (countEnc 5 1) (canonCount 1) (by decide) (by decide) (by decide) hk
    (mem_countEncodings_enc 5 1 (by decide) (by decide)) (canonCount_mem 1)
  refine ⟨this.1, fun h => ?_⟩
  have := (this.2.mp h).1
  revert this; decide
example : (countEncodings 16).length = 7 ∧ (countEncodings 17).length = 6 ∧ (countEncodings 128).length = 5 := by decide

/-- C18 (scripts): `ParseSignatureContract` accepts exactly the images of `GetVerificationScript`
over 33-byte strings (it does not check that the bytes are a curve point). -/
theorem sig_script_parse_iff (s k : Bytes) : parseSigContract s = some k ↔ k.length = 33 ∧ s = sigScript k :=
  parseSig_iff' s k

/-- C18 (scripts): `CreateDefaultMultiSigRedeemScript` and `CreateMajorityMultiSigRedeemScript`
succeed on every list of 1..1024 (non-infinity) keys and parse back to the sorted keys with
`m = n − (n−1)/3` (more than two thirds) resp. `m = n − (n−1)/2` (more than half). -/
theorem multisig_default_majority (keys : List PubKey) (h1 : 1 ≤ keys.length) (h3 : keys.length ≤ 1024)
    (hinf : ∀ k ∈ keys, k ≠ none) :
    (∃ s m, createDefaultMultiSigK keys = some s ∧ parseMultiSig s = some (m, (sortKeys keys).map pkBytes) ∧
        2 * keys.length < 3 * m ∧ m ≤ keys.length) ∧
    (∃ s m, createMajorityMultiSigK keys = some s ∧ parseMultiSig s = some (m, (sortKeys keys).map pkBytes) ∧
        keys.length < 2 * m ∧ m ≤ keys.length) := parse_createDefault keys h1 h3 hinf

example : defaultHonest 4 = 3 ∧ defaultHonest 7 = 5 ∧ majorityHonest 4 = 3 ∧ majorityHonest 7 = 4 ∧
    (createDefaultMultiSigK [some (7, 4), some (3, 9), some (7, 2), some (1, 1)]).isSome = true := by decide

/-- C18 (private keys): `NewPrivateKeyFromBytes` accepts exactly the 32-byte strings, each of which is
`Bytes()` of the scalar it yields, and `NewPrivateKeyFromBytes (d.Bytes()) = d` for every `d < 2^256`
(with `wif_accepts_iff`: WIF ↔ scalar in both directions). -/
theorem privkey_bytes_roundtrip (b : Bytes) (d : Nat) :
    (privFromBytes b = some d ↔ b.length = 32 ∧ d < 2 ^ 256 ∧ b = privBytes d) ∧
    (d < 2 ^ 256 → privFromBytes (privBytes d) = some d) := priv_roundtrip b d

example : privFromBytes (privBytes 258) = some 258 ∧ privFromBytes [1, 2, 3] = none :=
  ⟨(privkey_bytes_roundtrip [] 258).2 (by decide), by decide⟩

/-! ## byte layouts of keys and signatures (the cryptography itself is a parameter) -/

/-- C18 (public keys): for curve parameters and a `ModSqrt` satisfying `CurveLaws` (odd prime field
below 2^256, `ModSqrt` sound and complete up to sign), every curve point with canonical
coordinates survives `Bytes()` → `DecodeBytes` and `UncompressedBytes()` → `DecodeBytes`. -/
theorem pubkey_decode_encode (C : CurveP) (L : CurveLaws C) (x y : Nat) (hx : x < C.P) (hy : y < C.P)
    (hc : onCurve C x y = true) :
    decodePub C (pkBytes (some (x, y))) = some (x, y) ∧ decodePub C (pkBytesU (some (x, y))) = some (x, y) :=
  ⟨decodePub_pkBytes C L x y hx hy hc, decodePub_pkBytesU C L x y hx hy hc⟩

/-- C18 (public keys): everything `DecodeBytes` accepts is a point on the curve with both
coordinates below the field prime, given either as `02|03 ++ X` (33 bytes, parity of Y = the
prefix bit) or as `04 ++ X ++ Y` (65 bytes); in particular the infinity encoding `00`, every other
prefix, every other length, `X ≥ P`, a non-residue and an off-curve pair are all rejected. -/
theorem pubkey_accepts_only (C : CurveP) (L : CurveSound C) (b : Bytes) (x y : Nat) (h : decodePub C b = some (x, y)) :
    x < C.P ∧ y < C.P ∧ onCurve C x y = true ∧
    ((∃ p rest, b = p :: rest ∧ rest.length = 32 ∧ (p = 2 ∨ p = 3) ∧ x = beVal rest ∧
        (y % 2 = p.toNat % 2 ∨ (y = 0 ∧ p = 3 ∧ ySquared C x = 0))) ∨
     (∃ xb yb, b = 0x04 :: (xb ++ yb) ∧ xb.length = 32 ∧ yb.length = 32 ∧ x = beVal xb ∧ y = beVal yb)) :=
  decodePub_shape C L b x y h

theorem pubkey_malformed_rejected (C : CurveP) (L : CurveSound C) (b : Bytes) :
    (b.head? = some 0 → decodePub C b = none) ∧ (b.length ≠ 33 → b.length ≠ 65 → decodePub C b = none) ∧
    (∀ p rest, b = p :: rest → p ≠ 2 → p ≠ 3 → p ≠ 4 → decodePub C b = none) := by
  refine ⟨?_, ?_, ?_⟩
  · intro h0
    cases b with
    | nil => rfl
    | cons p r => simp at h0; subst h0; simp [decodePub]
  · intro h33 h65
    cases hd : decodePub C b with
    | none => rfl
    | some xy =>
      obtain ⟨x, y⟩ := xy
      obtain ⟨_, _, _, hs⟩ := decodePub_shape C L b x y hd
      rcases hs with ⟨p, rest, rfl, hl, _⟩ | ⟨xb, yb, rfl, hxl, hyl, _⟩
      · simp [hl] at h33
      · simp [hxl, hyl] at h65
  · intro p rest hb h2 h3 h4
    cases hd : decodePub C b with
    | none => rfl
    | some xy =>
      obtain ⟨x, y⟩ := xy
      obtain ⟨_, _, _, hs⟩ := decodePub_shape C L b x y hd
      rcases hs with ⟨p', rest', rfl, _, hp, _⟩ | ⟨xb, yb, rfl, _⟩
      · injection hb with e1 e2; subst e1; rcases hp with rfl | rfl <;> contradiction
      · injection hb with e1 e2; exact absurd e1.symm h4

/-- C18 (public keys): decoding then re-encoding gives the bytes back. The one exception the code
has — `03 ++ X` with `X³−AX+B ≡ 0`, which decodes to `(X, 0)` and re-encodes with `02` — needs a
point of order 2, which neither supported curve has (their group orders are odd primes). -/
theorem pubkey_encode_decode (C : CurveP) (L : CurveSound C) (b : Bytes) (x y : Nat) (h : decodePub C b = some (x, y)) :
    (b.length = 65 ∧ pkBytesU (some (x, y)) = b) ∨
    (b.length = 33 ∧ (pkBytes (some (x, y)) = b ∨ (y = 0 ∧ b.head? = some 3 ∧ ySquared C x = 0))) :=
  encode_decodePub C L b x y h

-- non-vacuity: y² = x³ − 3x + 1 over F₇ with square roots found by search satisfies the laws …
def toyCurve : CurveP where
  P := 7
  A := 3
  B := 1
  sqrt := fun v => (List.range 7).find? (fun y => y * y % 7 == v % 7)

theorem toyCurve_laws : CurveLaws toyCurve where
  toCurveSound := {
    odd := by decide
    le256 := by decide
    sqrt_sound := by
      intro v y h
      have h1 := List.find?_some h
      have h2 := List.mem_of_find?_eq_some h
      simp only [beq_iff_eq] at h1
      exact ⟨by have : y < 7 := by simpa using h2
                exact this, h1⟩ }
  sqrt_complete := by
    intro y hy
    have : y = 0 ∨ y = 1 ∨ y = 2 ∨ y = 3 ∨ y = 4 ∨ y = 5 ∨ y = 6 := by
      have : y < 7 := hy
      omega
    rcases this with rfl | rfl | rfl | rfl | rfl | rfl | rfl <;> exact ⟨_, rfl, by decide⟩

-- … (0, 6) is a point, its compressed form has prefix 02 and decodes back; X = 7 = P is rejected
example : onCurve toyCurve 0 6 = true ∧ (pkBytes (some (0, 6))).head? = some 2 ∧
    decodePub toyCurve (pkBytes (some (0, 6))) = some (0, 6) :=
  ⟨by decide, by decide, (pubkey_decode_encode toyCurve toyCurve_laws 0 6 (by decide) (by decide) (by decide)).1⟩
example : decodePub toyCurve (2 :: beBytes 32 7) = none := by decide

/-- C18 (signatures, layout): a signature is `r | s`, 32 big-endian bytes each: splitting what
`getSignatureSlice` joins gives `(r, s)` back for all `r, s < 2^256`, and `Verify`'s split accepts
exactly the 64-byte strings, each of which is the join of the two numbers it yields. -/
theorem signature_layout (sig : Bytes) (r s : Nat) :
    (r < 2 ^ 256 → s < 2 ^ 256 → sigSplit (sigJoin r s) = some (r, s)) ∧
    (sigSplit sig = some (r, s) ↔ sig.length = 64 ∧ r < 2 ^ 256 ∧ s < 2 ^ 256 ∧ sig = sigJoin r s) ∧
    (sig.length ≠ 64 → sigSplit sig = none) :=
  ⟨sigSplit_join r s, sigSplit_iff sig r s, fun h => by simp [sigSplit, h]⟩

example : sigSplit (sigJoin 1 (2 ^ 255)) = some (1, 2 ^ 255) :=
  (signature_layout [] 1 (2 ^ 255)).1 (by decide) (by decide)

/-- C18 (NEP-2): for primitives satisfying `Nep2Laws` (64-byte KDF output, length-preserving cipher
with `decrypt (encrypt x k) k = x`) and a checksum function of at least 4 bytes, every 32-byte key
and every passphrase: `NEP2Decrypt (NEP2Encrypt key pass) pass = key`. -/
theorem nep2_decrypt_encrypt (Q : Nep2Prims) (L : Nep2Laws Q) (H : Bytes → Bytes) (hH : ∀ x, 4 ≤ (H x).length)
    (priv pass : Bytes) (hp : priv.length = 32) :
    nep2Decrypt Q H (nep2Encrypt Q H priv pass) pass = some priv := nep2_roundtrip Q L H hH priv pass hp

/-- C18 (NEP-2, layout): everything `NEP2Decrypt` accepts is
`Base58Check(01 42 e0 | addresshash (4) | encrypted (32))`, the key it returns is
`decrypt(encrypted, dk[32:]) xor dk[:32]` and its address hashes to the stored address hash; any
other length, header or flag byte, or a bad checksum is rejected. -/
theorem nep2_accepts_only (Q : Nep2Prims) (H : Bytes → Bytes) (s pass priv : Bytes) (h : nep2Decrypt Q H s pass = some priv) :
    ∃ ah e, ah.length = 4 ∧ e.length = 32 ∧ s = checkEncode H (nep2Payload ah e) ∧ priv.length = 32 ∧
      checksum H (Q.addrOf priv) = ah ∧
      priv = xorB (Q.dec e ((Q.kdf pass ah).drop 32)) ((Q.kdf pass ah).take 32) := nep2_shape Q H s pass priv h

/-- C18 (NEP-2, wrong passphrase): a string made for `key` is accepted under another passphrase
only if the key that passphrase yields has the same 4-byte address hash as `key` (that this does
not happen is a cryptographic claim, sampled by the harness). -/
theorem nep2_wrong_passphrase (Q : Nep2Prims) (H : Bytes → Bytes) (hH : ∀ x, 4 ≤ (H x).length)
    (priv pass pass' priv' : Bytes) (h : nep2Decrypt Q H (nep2Encrypt Q H priv pass) pass' = some priv') :
    checksum H (Q.addrOf priv') = checksum H (Q.addrOf priv) := nep2_other_passphrase Q H hH priv pass pass' priv' h

-- non-vacuity of the laws: reversal as the "cipher"
def toyNep2 : Nep2Prims where
  kdf := fun _ _ => List.replicate 64 7
  enc := fun x _ => x.reverse
  dec := fun x _ => x.reverse
  addrOf := id

example : Nep2Laws toyNep2 where
  kdf_len := by intro _ _; simp [toyNep2]
  enc_len := by intro _ _; simp [toyNep2]
  dec_len := by intro _ _; simp [toyNep2]
  dec_enc := by intro _ _; simp [toyNep2]

/-! ## signatures (abstract algebra only; the real functions are sampled by the harness) -/

/-- C18 (signatures, algebraic completeness): over any scalar ring acting on a group with the
usual laws, an ECDSA signature made with an invertible nonce `k` (and invertible `s`) verifies
under the matching public key, for every private scalar `d` and digest `z`. Not tied to the real
code. "Fails for any other key, message or altered signature" is a computational claim and is
not a theorem (sampled on real keys by the harness). -/
theorem ecdsa_verify_sign {F G : Type} [DecidableEq F] (E : EcdsaAlg F G) (d k z : F)
    (hk : E.mul k (E.inv k) = E.one)
    (hs : E.mul (E.sign d k z).2 (E.inv (E.sign d k z).2) = E.one) :
    E.verify (E.smul d E.base) z (E.sign d k z) = true := E.verify_sign_aux d k z hk hs

-- non-vacuity: the integers modulo 7 acting on themselves (inverse = 5th power).
def toyEcdsa : EcdsaAlg (Fin 7) (Fin 7) where
  add := (· + ·)
  mul := (· * ·)
  inv := fun a => a * a * a * a * a
  one := 1
  gadd := (· + ·)
  smul := (· * ·)
  base := 3
  xco := id
  mul_assoc := by decide
  mul_comm := by decide
  mul_one := by decide
  add_mul := by decide
  smul_add := by decide
  smul_smul := by decide

example : toyEcdsa.verify (toyEcdsa.smul 4 toyEcdsa.base) 5 (toyEcdsa.sign 4 2 5) = true :=
  ecdsa_verify_sign toyEcdsa 4 2 5 (by decide) (by decide)
-- and verification is not vacuous: another digest is rejected in the toy instance
example : toyEcdsa.verify (toyEcdsa.smul 4 toyEcdsa.base) 6 (toyEcdsa.sign 4 2 5) = false := by decide

end NeoModel.Codec
