/-
C18 — keys, signatures, addresses and number encodings obey their algebra; multi-signature
matching; Merkle root. Property theorems only (helper lemmas live in Proofs/Codec*.lean).
-/
import NeoModel.Proofs.CodecMultisig
import NeoModel.Proofs.CodecMultisigPar
import NeoModel.Proofs.CodecMerkle
import NeoModel.Proofs.CodecBigInt
import NeoModel.Proofs.CodecUint
import NeoModel.Proofs.CodecBase58
import NeoModel.Proofs.CodecScript
import NeoModel.Proofs.CodecFixed
import NeoModel.Proofs.CodecMsScript
import NeoModel.Proofs.CodecSig
namespace NeoModel.Codec
variable {Sig Key : Type}

/-- C18 (multisig, sequential): the greedy matcher accepts exactly when the signatures can be
matched to keys in order: some sub-list of the keys (order kept, each key used once) verifies the
signatures one to one. -/
theorem greedy_iff (ok : Sig → Key → Bool) (sigs : List Sig) (keys : List Key) :
    seqMatch ok sigs keys = true ↔ ∃ ks', ks'.Sublist keys ∧ pairwiseOk ok sigs ks' :=
  ⟨matching_of_seqMatch ok keys sigs, fun ⟨ks', hs, hp⟩ => seqMatch_of_matching ok keys sigs ks' hs hp⟩

-- non-vacuity: 2 signatures, 4 keys (one repeated); matched to positions 1 and 3.
example : seqMatch (fun (s k : Nat) => s == k) [7, 9] [5, 7, 7, 9] = true
    ∧ ([7, 9] : List Nat).Sublist [5, 7, 7, 9] ∧ pairwiseOk (fun (s k : Nat) => s == k) [7, 9] [7, 9] := by
  refine ⟨by decide, by decide, by simp [pairwiseOk]⟩


/-- C18 (multisig, parallel): under the caller's contract `1 ≤ len(sigs) ≤ len(keys)` and with
well-formed keys, the two-ended parallel checker returns the sequential answer **for every arrival
schedule `σ` of the verification results**; in particular it never blocks, never indexes out of
range and always terminates within the fuel `len(keys)+2`. -/
theorem par_eq_seq (ok : Sig → Key → Bool) (bad : Key → Bool) (sigs : List Sig) (keys : List Key)
    (hm : 1 ≤ sigs.length) (hn : sigs.length ≤ keys.length) (hb : keys.any bad = false) :
    ∀ σ : Nat → Bool, checkMultisigPar ok bad σ sigs keys = MRes.ofBool (seqMatch ok sigs keys) :=
  fun σ => par_eq_seq_aux ok bad sigs keys hm hn hb σ

/-- C18 (multisig): the parallel checker accepts exactly when the signatures can be matched to
keys in order, whatever the schedule. -/
theorem par_accepts_iff_matching (ok : Sig → Key → Bool) (bad : Key → Bool) (sigs : List Sig) (keys : List Key)
    (hm : 1 ≤ sigs.length) (hn : sigs.length ≤ keys.length) (hb : keys.any bad = false) (σ : Nat → Bool) :
    checkMultisigPar ok bad σ sigs keys = MRes.accept ↔ ∃ ks', ks'.Sublist keys ∧ pairwiseOk ok sigs ks' := by
  rw [par_eq_seq ok bad sigs keys hm hn hb σ, ← greedy_iff]
  cases seqMatch ok sigs keys <;> simp [MRes.ofBool]

/-- C18 (multisig): the result never depends on the schedule — for all inputs, malformed keys
included (after the fix that parses all keys before the workers start; with two or more signatures
any malformed key makes the call panic under every schedule). -/
theorem par_schedule_independent (ok : Sig → Key → Bool) (bad : Key → Bool) (sigs : List Sig) (keys : List Key) :
    ∀ σ σ' : Nat → Bool, checkMultisigPar ok bad σ sigs keys = checkMultisigPar ok bad σ' sigs keys :=
  fun σ σ' => par_independent_aux ok bad sigs keys σ σ'

theorem par_malformed_key_panics (ok : Sig → Key → Bool) (bad : Key → Bool) (sigs : List Sig) (keys : List Key)
    (hm : 2 ≤ sigs.length) (hn : sigs.length ≤ keys.length) (hb : keys.any bad = true) :
    ∀ σ : Nat → Bool, checkMultisigPar ok bad σ sigs keys = MRes.panic :=
  fun σ => par_bad_aux ok bad sigs keys hm hn hb σ

-- non-vacuity: 3-of-5 with a repeated key and an unusable first key, accepted under the two
-- extreme schedules ("forward result always first" / "backward result always first") …
example : checkMultisigPar (fun (s k : Nat) => s == k) (fun _ => false) (fun _ => true) [1, 1, 3] [0, 1, 1, 2, 3] = .accept
    ∧ checkMultisigPar (fun (s k : Nat) => s == k) (fun _ => false) (fun _ => false) [1, 1, 3] [0, 1, 1, 2, 3] = .accept
    ∧ seqMatch (fun (s k : Nat) => s == k) [1, 1, 3] [0, 1, 1, 2, 3] = true := by decide
-- … a signature order that cannot be matched is rejected …
example : checkMultisigPar (fun (s k : Nat) => s == k) (fun _ => false) (fun i => i % 2 == 0) [3, 1] [0, 1, 2, 3] = .reject := by decide
-- … and the input on which the unfixed code was schedule-dependent (keys K0 BAD K1 K2, three valid
-- signatures) now panics under both schedules.
example : checkMultisigPar (fun (s k : Nat) => s == k) (fun k => k == 9) (fun _ => true) [0, 1, 2] [0, 9, 1, 2] = .panic
    ∧ checkMultisigPar (fun (s k : Nat) => s == k) (fun k => k == 9) (fun _ => false) [0, 1, 2] [0, 9, 1, 2] = .panic := by decide

/-! ## VM integers (pkg/encoding/bigint) -/

/-- C18 (integers): decoding the encoding gives the number back, for every integer. -/
theorem bigint_from_to (n : Int) : fromBytes (toBytes n) = n := fromBytes_toBytes n

example : toBytes (-129) = [0x7f, 0xff] ∧ fromBytes [0x7f, 0xff] = -129 := by decide
example : toBytes (2 ^ 255 - 1) = List.replicate 31 0xff ++ [0x7f] := by decide

/-- C18 (integers): the encoding is always in minimal two's-complement little-endian form
(no redundant sign byte; zero is the empty string). -/
theorem bigint_to_minimal (n : Int) : minimalB (toBytes n) = true ∧ toBytes 0 = [] :=
  ⟨minimal_toBytes n, rfl⟩

-- non-vacuity: the predicate does reject redundant sign bytes
example : minimalB [0x80, 0x00] = true ∧ minimalB [0x7f, 0x00] = false ∧ minimalB [0xff, 0xff] = false
    ∧ minimalB [0x00] = false := by decide

/-- C18 (integers): a minimal byte string is exactly the encoding of the number it decodes to
(so the codec is a bijection between integers and minimal strings). -/
theorem bigint_to_from_minimal (b : Bytes) (h : minimalB b = true) : toBytes (fromBytes b) = b :=
  toBytes_fromBytes b h

example : minimalB [0x00, 0x80] = true ∧ toBytes (fromBytes [0x00, 0x80]) = [0x00, 0x80] := by decide
-- and a non-minimal string decodes (the decoder is lenient) but re-encodes shorter
example : fromBytes [0xff, 0xff] = -1 ∧ toBytes (-1) = [0xff] := by decide

/-- C18 (integers): an integer fits the VM's 32 bytes iff it is in [-2^255, 2^255). -/
theorem bigint_len_le_32_iff (n : Int) :
    (toBytes n).length ≤ maxBytesLen ↔ (-(2:Int)^255 ≤ n ∧ n < (2:Int)^255) :=
  toBytes_length_le_32_iff n

example : (toBytes (-(2:Int)^255)).length = 32 ∧ (toBytes ((2:Int)^255)).length = 33
    ∧ (toBytes (-(2:Int)^255 - 1)).length = 33 := by decide

/-! ## Merkle root (pkg/crypto/hash/merkle_tree.go) -/

/-- C18 (Merkle): for every node hash `H` and every list of hashes (any length, odd levels
duplicate their last element) the in-place scratch-buffer version and the tree-building version
return the recursively defined pairwise root; the tree version fails exactly on the empty list,
where the in-place version returns the zero hash. -/
theorem merkle_impls_eq_spec (H : Bytes → Bytes) (hs : List Bytes) :
    calcMerkleRoot H hs = merkleSpec H hs ∧
    (hs ≠ [] → treeRoot H hs = some (merkleSpec H hs)) ∧
    (hs = [] → treeRoot H hs = none ∧ calcMerkleRoot H hs = zero256) := by
  refine ⟨calcMerkleRoot_eq_spec H hs, treeRoot_eq_spec H hs, ?_⟩
  intro h; subst h
  exact ⟨rfl, by simp [calcMerkleRoot]⟩

-- the specification on three leaves: the odd last element is paired with itself
example (H : Bytes → Bytes) (a b c : Bytes) :
    merkleSpec H [a, b, c] = H (H (a ++ b) ++ H (c ++ c)) := by
  simp [merkleSpec, pairUp]

example (H : Bytes → Bytes) (a b c d e : Bytes) :
    calcMerkleRoot H [a, b, c, d, e]
      = H (H (H (a ++ b) ++ H (c ++ d)) ++ H (H (e ++ e) ++ H (e ++ e))) := by
  rw [(merkle_impls_eq_spec H _).1]; simp [merkleSpec, pairUp]

/-! ## Uint160 / Uint256 (pkg/util) -/

/-- C18 (160/256-bit integers): the hex strings (big- and little-endian) and the byte forms decode
back to the value; `size` = 20 or 32 (any size). -/
theorem uint_roundtrip (size : Nat) (u : Bytes) (h : u.length = size) :
    uDecodeStringBE size (uStringBE u) = some u ∧ uDecodeStringLE size (uStringLE u) = some u ∧
    uDecodeBytesBE size (uBytesBE u) = some u ∧ uDecodeBytesLE size (uBytesLE u) = some u :=
  ⟨uDecodeStringBE_stringBE size u h, uDecodeStringLE_stringLE size u h,
   (uDecodeBytes_roundtrip size u h).1, (uDecodeBytes_roundtrip size u h).2⟩

/-- … and byte strings of any other length are rejected. -/
theorem uint_wrong_length (size : Nat) (b : Bytes) (h : b.length ≠ size) :
    uDecodeBytesBE size b = none ∧ uDecodeBytesLE size b = none := uDecode_wrong_length size b h

example : uStringLE [0x01, 0x02, 0xab] = [97, 98, 48, 50, 48, 49] /- "ab0201" -/ ∧
    uDecodeStringLE 3 [97, 98, 48, 50, 48, 49] = some [0x01, 0x02, 0xab] := by decide

/-! ## Base58, Base58Check, address, WIF -/

/-- C18 (Base58): decoding the encoding gives the bytes back, leading zero bytes included
(any non-empty byte string; the library rejects the empty string). -/
theorem base58_decode_encode (b : Bytes) (hne : b ≠ []) : b58Decode (b58Encode b) = some b :=
  b58Decode_encode b hne

example : b58Decode (b58Encode [0, 0, 1, 2, 3]) = some [0, 0, 1, 2, 3] := base58_decode_encode _ (by simp)
-- the excluded case: the empty byte string encodes to the empty string, which `Decode` rejects
example : b58Decode (b58Encode []) = none := by
  simp [b58Encode, b58Decode, leadCount, ofDigitsBE, toDigitsBE_zero]

/-- C18 (Base58Check): for a checksum function returning at least 4 bytes (double SHA-256 in the
code) every non-empty payload decodes back (Base58Check always carries a version byte; the decoder
demands 5 bytes). -/
theorem base58check_roundtrip (H : Bytes → Bytes) (hH : ∀ x, 4 ≤ (H x).length) (b : Bytes) (hne : b ≠ []) :
    checkDecode H (checkEncode H b) = some b := checkDecode_encode H hH b hne

/-- C18 (addresses): a script hash (20 bytes) survives `Uint160ToString`/`StringToUint160`. -/
theorem address_decode_encode (H : Bytes → Bytes) (hH : ∀ x, 4 ≤ (H x).length) (u : Bytes) (hu : u.length = 20) :
    stringToUint160 H (uint160ToString H u) = some u := address_roundtrip H hH u hu

/-- C18 (WIF): a 32-byte private key, any version byte and either compression flag survive
`WIFEncode`/`WIFDecode`. -/
theorem wif_decode_encode (H : Bytes → Bytes) (hH : ∀ x, 4 ≤ (H x).length) (key : Bytes) (hk : key.length = 32)
    (version : UInt8) (compressed : Bool) :
    ∃ s, wifEncode H key version compressed = some s ∧ wifDecode H s version = some (key, compressed) :=
  wif_roundtrip H hH key hk version compressed

-- non-vacuity of the hash hypothesis and of the key-length guard
example : ∀ x : Bytes, 4 ≤ ((fun _ => List.replicate 32 (0 : UInt8)) x).length := by intro x; simp
example (H : Bytes → Bytes) : wifEncode H [1, 2, 3] 0 true = none := by simp [wifEncode]

/-! ## integer pushes (pkg/vm/emit, scparser) -/

/-- C18 (emit): `emit.BigInt n` succeeds exactly for 256-bit integers, and the script it writes is a
single instruction that pushes `n` (decoded through the VM's integer codec). -/
theorem emit_bigint_pushes (n : Int) (hr : -(2:Int)^255 ≤ n ∧ n < (2:Int)^255) :
    ∃ s, emitBigInt n = some s ∧ pushedInt s = some n := emitBigIntAux_pushes n true hr

theorem emit_bigint_rejects (n : Int) (hr : ¬ (-(2:Int)^255 ≤ n ∧ n < (2:Int)^255)) : emitBigInt n = none :=
  emitBigInt_none n hr

/-- C18 (emit): `emit.Int i` pushes `i` for every int64. -/
theorem emit_int_pushes (i : Int) (hr : -(2:Int)^63 ≤ i ∧ i < (2:Int)^63) :
    ∃ s, emitInt i = some s ∧ pushedInt s = some i := emitInt_pushes i hr

example : emitInt 16 = some [0x00, 0x10] ∧ emitInt 15 = some [0x1f] ∧ emitInt (-1) = some [0x0f]
    ∧ emitInt 128 = some [0x01, 0x80, 0x00] ∧ pushedInt [0x01, 0x80, 0x00] = some 128 := by decide

/-! ## fixed-point decimals (pkg/encoding/fixedn) -/

/-- C18 (Fixed8): every int64 value, printed by `Fixed8.String` and parsed by
`Fixed8FromString`, comes back exactly (negative fractions below one and both int64 edges included). -/
theorem fixed8_roundtrip (v : Int) (hr : -(2:Int)^63 ≤ v ∧ v < (2:Int)^63) :
    fixed8FromString (fixed8String v) = some v := fixed8_parse_print v hr

example : fixed8FromString (fixed8String (-50000000)) = some (-50000000) := fixed8_roundtrip _ (by decide)
example : fixed8FromString (fixed8String (-(2:Int)^63)) = some (-(2:Int)^63) := fixed8_roundtrip _ (by decide)

/-- C18 (decimals): for every integer and every precision (no bound), `FromString (ToString bi p) p = bi`. -/
theorem decimal_roundtrip (bi : Int) (p : Nat) : decFromString (decToString bi p) p = some bi :=
  dec_parse_print bi p

example : decFromString (decToString (-5) 1) 1 = some (-5) := decimal_roundtrip _ _
example : decFromString (decToString ((2:Int)^64) 20) 20 = some ((2:Int)^64) := decimal_roundtrip _ _

/-- C18 (decimals): text with more fraction digits than the precision is rejected. -/
theorem decimal_too_many_digits_rejected (P0 p1 : Bytes) (p : Nat) (z : Int)
    (hnd : ∀ c ∈ P0, (c == chDot) = false) (hz : parseInt10 P0 = some z) (hl : p < p1.length) :
    decFromString (P0 ++ chDot :: p1) p = none := decFromString_too_long P0 p1 p z hnd hz hl

example : decFromString ([49] ++ chDot :: [49, 50, 51]) 2 = none :=   -- "1.123" with precision 2
  decimal_too_many_digits_rejected [49] [49, 50, 51] 2 1 (by decide) (by decide) (by decide)

/-! ## standard contracts: builders and their parsers -/

/-- C18 (scripts): `ParseMultiSigContract (CreateMultiSigRedeemScript m keys) = (m, keys)` for every
`1 ≤ m ≤ n ≤ 1024` and 33-byte keys (in the order the builder emits them). -/
theorem multisig_script_parse_build (m : Nat) (keys : List Bytes) (h1 : 1 ≤ m) (h2 : m ≤ keys.length)
    (h3 : keys.length ≤ 1024) (hk : ∀ k ∈ keys, k.length = 33) :
    ∃ s, createMultiSig (m : Int) keys = some s ∧ parseMultiSig s = some (m, keys) :=
  parse_build m keys h1 h2 h3 hk

/-- C18 (scripts): `ParseSignatureContract (GetVerificationScript key) = key`. -/
theorem sig_script_parse_build (key : Bytes) (hk : key.length = 33) :
    parseSigContract (sigScript key) = some key := parseSig_build key hk

-- non-vacuity: 2-of-3 …
example : ∃ s, createMultiSig 2 [List.replicate 33 1, List.replicate 33 2, List.replicate 33 3] = some s ∧
    parseMultiSig s = some (2, [List.replicate 33 1, List.replicate 33 2, List.replicate 33 3]) :=
  multisig_script_parse_build 2 _ (by decide) (by decide) (by decide) (by intro k hk; simp at hk; rcases hk with h | h | h <;> subst h <;> rfl)
-- … and the builder's guards
example : createMultiSig 0 [List.replicate 33 1] = none ∧ createMultiSig 2 [List.replicate 33 1] = none := by
  constructor <;> simp [createMultiSig]

/-! ## signatures (abstract algebra only; the real functions are sampled by the harness) -/

/-- C18 (signatures, algebraic completeness): over any scalar ring acting on a group with the
usual laws, an ECDSA signature made with an invertible nonce `k` (and invertible `s`) verifies
under the matching public key, for every private scalar `d` and digest `z`. Not tied to the real
code. "Fails for any other key, message or altered signature" is a computational claim and is
not a theorem (sampled on real keys by the harness). -/
theorem ecdsa_verify_sign {F G : Type} [DecidableEq F] (E : EcdsaAlg F G) (d k z : F)
    (hk : E.mul k (E.inv k) = E.one)
    (hs : E.mul (E.sign d k z).2 (E.inv (E.sign d k z).2) = E.one) :
    E.verify (E.smul d E.base) z (E.sign d k z) = true := E.verify_sign_aux d k z hk hs

-- non-vacuity: the integers modulo 7 acting on themselves (inverse = 5th power).
def toyEcdsa : EcdsaAlg (Fin 7) (Fin 7) where
  add := (· + ·)
  mul := (· * ·)
  inv := fun a => a * a * a * a * a
  one := 1
  gadd := (· + ·)
  smul := (· * ·)
  base := 3
  xco := id
  mul_assoc := by decide
  mul_comm := by decide
  mul_one := by decide
  add_mul := by decide
  smul_add := by decide
  smul_smul := by decide

example : toyEcdsa.verify (toyEcdsa.smul 4 toyEcdsa.base) 5 (toyEcdsa.sign 4 2 5) = true :=
  ecdsa_verify_sign toyEcdsa 4 2 5 (by decide) (by decide)
-- and verification is not vacuous: another digest is rejected in the toy instance
example : toyEcdsa.verify (toyEcdsa.smul 4 toyEcdsa.base) 6 (toyEcdsa.sign 4 2 5) = false := by decide

end NeoModel.Codec
