/-
C18 — keys, signatures, addresses and number encodings obey their algebra; multi-signature
matching; Merkle root. Property theorems only (helper lemmas live in Proofs/Codec*.lean).
-/
import NeoModel.Proofs.CodecMultisig
import NeoModel.Proofs.CodecMultisigPar
import NeoModel.Proofs.CodecMerkle
import NeoModel.Proofs.CodecBigInt
namespace NeoModel.Codec
variable {Sig Key : Type}

/-- C18 (multisig, sequential): the greedy matcher accepts exactly when the signatures can be
matched to keys in order: some sub-list of the keys (order kept, each key used once) verifies the
signatures one to one. -/
theorem greedy_iff (ok : Sig → Key → Bool) (sigs : List Sig) (keys : List Key) :
    seqMatch ok sigs keys = true ↔ ∃ ks', ks'.Sublist keys ∧ pairwiseOk ok sigs ks' :=
  ⟨matching_of_seqMatch ok keys sigs, fun ⟨ks', hs, hp⟩ => seqMatch_of_matching ok keys sigs ks' hs hp⟩

-- non-vacuity: 2 signatures, 4 keys (one repeated); matched to positions 1 and 3.
example : seqMatch (fun (s k : Nat) => s == k) [7, 9] [5, 7, 7, 9] = true
    ∧ ([7, 9] : List Nat).Sublist [5, 7, 7, 9] ∧ pairwiseOk (fun (s k : Nat) => s == k) [7, 9] [7, 9] := by
  refine ⟨by decide, by decide, by simp [pairwiseOk]⟩


/-- C18 (multisig, parallel): under the caller's contract `1 ≤ len(sigs) ≤ len(keys)` and with
well-formed keys, the two-ended parallel checker returns the sequential answer **for every arrival
schedule `σ` of the verification results**; in particular it never blocks, never indexes out of
range and always terminates within the fuel `len(keys)+2`. -/
theorem par_eq_seq (ok : Sig → Key → Bool) (bad : Key → Bool) (sigs : List Sig) (keys : List Key)
    (hm : 1 ≤ sigs.length) (hn : sigs.length ≤ keys.length) (hb : keys.any bad = false) :
    ∀ σ : Nat → Bool, checkMultisigPar ok bad σ sigs keys = MRes.ofBool (seqMatch ok sigs keys) :=
  fun σ => par_eq_seq_aux ok bad sigs keys hm hn hb σ

/-- C18 (multisig): the parallel checker accepts exactly when the signatures can be matched to
keys in order, whatever the schedule. -/
theorem par_accepts_iff_matching (ok : Sig → Key → Bool) (bad : Key → Bool) (sigs : List Sig) (keys : List Key)
    (hm : 1 ≤ sigs.length) (hn : sigs.length ≤ keys.length) (hb : keys.any bad = false) (σ : Nat → Bool) :
    checkMultisigPar ok bad σ sigs keys = MRes.accept ↔ ∃ ks', ks'.Sublist keys ∧ pairwiseOk ok sigs ks' := by
  rw [par_eq_seq ok bad sigs keys hm hn hb σ, ← greedy_iff]
  cases seqMatch ok sigs keys <;> simp [MRes.ofBool]

/-- C18 (multisig): the result never depends on the schedule — for all inputs, malformed keys
included (after the fix that parses all keys before the workers start; with two or more signatures
any malformed key makes the call panic under every schedule). -/
theorem par_schedule_independent (ok : Sig → Key → Bool) (bad : Key → Bool) (sigs : List Sig) (keys : List Key) :
    ∀ σ σ' : Nat → Bool, checkMultisigPar ok bad σ sigs keys = checkMultisigPar ok bad σ' sigs keys :=
  fun σ σ' => par_independent_aux ok bad sigs keys σ σ'

theorem par_malformed_key_panics (ok : Sig → Key → Bool) (bad : Key → Bool) (sigs : List Sig) (keys : List Key)
    (hm : 2 ≤ sigs.length) (hn : sigs.length ≤ keys.length) (hb : keys.any bad = true) :
    ∀ σ : Nat → Bool, checkMultisigPar ok bad σ sigs keys = MRes.panic :=
  fun σ => par_bad_aux ok bad sigs keys hm hn hb σ

-- non-vacuity: 3-of-5 with a repeated key and an unusable first key, accepted under the two
-- extreme schedules ("forward result always first" / "backward result always first") …
example : checkMultisigPar (fun (s k : Nat) => s == k) (fun _ => false) (fun _ => true) [1, 1, 3] [0, 1, 1, 2, 3] = .accept
    ∧ checkMultisigPar (fun (s k : Nat) => s == k) (fun _ => false) (fun _ => false) [1, 1, 3] [0, 1, 1, 2, 3] = .accept
    ∧ seqMatch (fun (s k : Nat) => s == k) [1, 1, 3] [0, 1, 1, 2, 3] = true := by decide
-- … a signature order that cannot be matched is rejected …
example : checkMultisigPar (fun (s k : Nat) => s == k) (fun _ => false) (fun i => i % 2 == 0) [3, 1] [0, 1, 2, 3] = .reject := by decide
-- … and the input on which the unfixed code was schedule-dependent (keys K0 BAD K1 K2, three valid
-- signatures) now panics under both schedules.
example : checkMultisigPar (fun (s k : Nat) => s == k) (fun k => k == 9) (fun _ => true) [0, 1, 2] [0, 9, 1, 2] = .panic
    ∧ checkMultisigPar (fun (s k : Nat) => s == k) (fun k => k == 9) (fun _ => false) [0, 1, 2] [0, 9, 1, 2] = .panic := by decide

/-! ## VM integers (pkg/encoding/bigint) -/

/-- C18 (integers): decoding the encoding gives the number back, for every integer. -/
theorem bigint_from_to (n : Int) : fromBytes (toBytes n) = n := fromBytes_toBytes n

example : toBytes (-129) = [0x7f, 0xff] ∧ fromBytes [0x7f, 0xff] = -129 := by decide
example : toBytes (2 ^ 255 - 1) = List.replicate 31 0xff ++ [0x7f] := by decide

/-- C18 (integers): the encoding is always in minimal two's-complement little-endian form
(no redundant sign byte; zero is the empty string). -/
theorem bigint_to_minimal (n : Int) : minimalB (toBytes n) = true ∧ toBytes 0 = [] :=
  ⟨minimal_toBytes n, rfl⟩

-- non-vacuity: the predicate does reject redundant sign bytes
example : minimalB [0x80, 0x00] = true ∧ minimalB [0x7f, 0x00] = false ∧ minimalB [0xff, 0xff] = false
    ∧ minimalB [0x00] = false := by decide

/-- C18 (integers): a minimal byte string is exactly the encoding of the number it decodes to
(so the codec is a bijection between integers and minimal strings). -/
theorem bigint_to_from_minimal (b : Bytes) (h : minimalB b = true) : toBytes (fromBytes b) = b :=
  toBytes_fromBytes b h

example : minimalB [0x00, 0x80] = true ∧ toBytes (fromBytes [0x00, 0x80]) = [0x00, 0x80] := by decide
-- and a non-minimal string decodes (the decoder is lenient) but re-encodes shorter
example : fromBytes [0xff, 0xff] = -1 ∧ toBytes (-1) = [0xff] := by decide

/-- C18 (integers): an integer fits the VM's 32 bytes iff it is in [-2^255, 2^255). -/
theorem bigint_len_le_32_iff (n : Int) :
    (toBytes n).length ≤ maxBytesLen ↔ (-(2:Int)^255 ≤ n ∧ n < (2:Int)^255) :=
  toBytes_length_le_32_iff n

example : (toBytes (-(2:Int)^255)).length = 32 ∧ (toBytes ((2:Int)^255)).length = 33
    ∧ (toBytes (-(2:Int)^255 - 1)).length = 33 := by decide

/-! ## Merkle root (pkg/crypto/hash/merkle_tree.go) -/

/-- C18 (Merkle): for every node hash `H` and every list of hashes (any length, odd levels
duplicate their last element) the in-place scratch-buffer version and the tree-building version
return the recursively defined pairwise root; the tree version fails exactly on the empty list,
where the in-place version returns the zero hash. -/
theorem merkle_impls_eq_spec (H : Bytes → Bytes) (hs : List Bytes) :
    calcMerkleRoot H hs = merkleSpec H hs ∧
    (hs ≠ [] → treeRoot H hs = some (merkleSpec H hs)) ∧
    (hs = [] → treeRoot H hs = none ∧ calcMerkleRoot H hs = zero256) := by
  refine ⟨calcMerkleRoot_eq_spec H hs, treeRoot_eq_spec H hs, ?_⟩
  intro h; subst h
  exact ⟨rfl, by simp [calcMerkleRoot]⟩

-- the specification on three leaves: the odd last element is paired with itself
example (H : Bytes → Bytes) (a b c : Bytes) :
    merkleSpec H [a, b, c] = H (H (a ++ b) ++ H (c ++ c)) := by
  simp [merkleSpec, pairUp]

example (H : Bytes → Bytes) (a b c d e : Bytes) :
    calcMerkleRoot H [a, b, c, d, e]
      = H (H (H (a ++ b) ++ H (c ++ d)) ++ H (H (e ++ e) ++ H (e ++ e))) := by
  rw [(merkle_impls_eq_spec H _).1]; simp [merkleSpec, pairUp]

end NeoModel.Codec
