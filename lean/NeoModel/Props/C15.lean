/-
C15 — witness scopes and witness rules are enforced exactly. Property theorems only
(model: Model/Witness.lean; specification and helper lemmas: Proofs/WitnessSpec.lean, Proofs/WitnessDecode.lean).

Reading guide. `checkWitness e signers h` is the model of `runtime.CheckHashedWitness` (what the syscall
System.Runtime.CheckWitness computes) in the execution environment `e` (executing script context, its chain of
calling contexts, deployed contracts with their manifest groups). `Spec e signers h` is the property's
right-hand side: `h` is the (non-zero) calling contract, or the first signer with account `h` has a scope
that `allowed` in `e`. `holds e c` is the meaning of a rule condition.
-/
import NeoModel.Proofs.WitnessSpec
import NeoModel.Proofs.WitnessDecode
import NeoModel.Generated.WitnessConsts
namespace NeoModel.Witness

/-! ### The constants of the model are those of the code (regenerated on every run) -/

theorem consts_regenerated :
    scCalledByEntry = Generated.WitnessConsts.scopeCalledByEntry ∧
    scCustomContracts = Generated.WitnessConsts.scopeCustomContracts ∧
    scCustomGroups = Generated.WitnessConsts.scopeCustomGroups ∧
    scRules = Generated.WitnessConsts.scopeRules ∧
    scGlobal = Generated.WitnessConsts.scopeGlobal ∧
    actAllow = Generated.WitnessConsts.actionAllow ∧
    maxConditionNesting = Generated.WitnessConsts.maxConditionNesting ∧
    maxSubitems = Generated.WitnessConsts.maxSubitems ∧
    condTypes = Generated.WitnessConsts.condTypes := by decide

/-! ### Main theorem: implementation model ⇔ declarative specification -/

/-- Whenever the check returns a boolean (does not fault), that boolean is exactly the specification:
sound (`true` only inside the scope) and complete (`false` only outside). No hypothesis. -/
theorem checkWitness_ok_iff (e : Env) (signers : List Signer) (h : Hash) (b : Bool)
    (hr : checkWitness e signers h = .ok b) : b = true ↔ Spec e signers h := by
  unfold checkWitness at hr
  unfold Spec
  split at hr
  · rename_i hc
    simp at hc
    cases hr
    simp [hc.1, hc.2]
  · rename_i hc
    have hc' : ¬ (e.calling ≠ 0 ∧ h = e.calling) := by simpa using hc
    unfold checkScope at hr
    split at hr
    · cases hr
    · rw [scanSigners_ok e h signers b hr]
      simp [hc']

/-- The check faults only for an empty signer list, or for a group lookup without the ReadStates flag;
never when the calling contract itself is checked. -/
theorem checkWitness_fault (e : Env) (signers : List Signer) (h : Hash) (x : Err)
    (hr : checkWitness e signers h = .err x) :
    ¬ (e.calling ≠ 0 ∧ h = e.calling) ∧
    ((x = .noSigners ∧ signers = []) ∨ (x = .noReadStates ∧ e.cur.readStates = false ∧ signers ≠ [])) := by
  unfold checkWitness at hr
  split at hr
  · cases hr
  · rename_i hc
    refine ⟨by simpa using hc, ?_⟩
    unfold checkScope at hr
    split at hr
    · rename_i he; cases hr; left; exact ⟨rfl, by simpa using he⟩
    · rename_i he
      right
      have := scanSigners_err e h signers x hr
      exact ⟨this.1, this.2, by simpa using he⟩

/-- C15, main statement: with signers present and the ReadStates flag, the check passes exactly where the
specification says, and otherwise returns `false` (it never faults). -/
theorem checkWitness_iff (e : Env) (signers : List Signer) (h : Hash)
    (hs : signers ≠ []) (hrs : e.cur.readStates = true) :
    (checkWitness e signers h = .ok true ↔ Spec e signers h) ∧
    (checkWitness e signers h = .ok false ↔ ¬ Spec e signers h) := by
  cases hr : checkWitness e signers h with
  | err x =>
    have := (checkWitness_fault e signers h x hr).2
    rcases this with ⟨_, h2⟩ | ⟨_, h2, _⟩
    · exact absurd h2 hs
    · rw [hrs] at h2; cases h2
  | ok b =>
    have := checkWitness_ok_iff e signers h b hr
    cases b <;> simp_all

/-- Soundness alone needs no hypothesis at all: a passed check is always inside the scope. -/
theorem checkWitness_sound (e : Env) (signers : List Signer) (h : Hash)
    (hr : checkWitness e signers h = .ok true) : Spec e signers h :=
  (checkWitness_ok_iff e signers h true hr).mp rfl


/-! ### Non-vacuity: a concrete three-level call chain  entry 0xE0 → contract 0xC2 → contract 0xC1 (group 0x61) -/

def exContracts : Hash → Option (List Key) :=
  fun h => if h = 0xC1 then some [0x61] else if h = 0xC2 then some [] else none
/-- executing 0xC1, called by 0xC2, which the entry script 0xE0 called. -/
def exDeep : Env :=
  { cur := ⟨0xC1, 0xC2, true⟩, parents := [⟨0xC2, 0xE0, true⟩, ⟨0xE0, 0, true⟩], contracts := exContracts }
/-- executing 0xC1, called directly by the entry script. -/
def exDirect : Env := { cur := ⟨0xC1, 0xE0, true⟩, parents := [⟨0xE0, 0, true⟩], contracts := exContracts }
/-- same as `exDeep` without the ReadStates flag. -/
def exDeepNoRS : Env := { exDeep with cur := ⟨0xC1, 0xC2, false⟩ }
def sg (acc scopes : Nat) (cs : List Hash := []) (gs : List Key := []) (rs : List Rule := []) : Signer :=
  { account := acc, scopes := scopes, allowedContracts := cs, allowedGroups := gs, rules := rs }

-- the main theorem's hypotheses are met, on both sides of the equivalence
example : checkWitness exDeep [sg 0xA1 scCustomGroups [] [0x61]] 0xA1 = .ok true := by decide
example : checkWitness exDeep [sg 0xA1 scCalledByEntry] 0xA1 = .ok false := by decide
example : Spec exDeep [sg 0xA1 scCustomGroups [] [0x61]] 0xA1 :=
  ((checkWitness_iff exDeep _ 0xA1 (by simp) rfl).1).mp (by decide)
example : ¬ Spec exDeep [sg 0xA1 scCalledByEntry] 0xA1 :=
  ((checkWitness_iff exDeep _ 0xA1 (by simp) rfl).2).mp (by decide)
-- and both kinds of fault occur
example : checkWitness exDeep [] 0xA1 = .err .noSigners := by decide
example : checkWitness exDeepNoRS [sg 0xA1 scCustomGroups [] [0x61]] 0xA1 = .err .noReadStates := by decide

/-! ### Corollaries, clause by clause -/

/-- An account that did not sign never passes (unless it is the calling contract): the check returns
`false`, or faults when there is no signer at all. -/
theorem non_signer_never (e : Env) (signers : List Signer) (h : Hash)
    (hns : ∀ s ∈ signers, s.account ≠ h) (hc : ¬ (e.calling ≠ 0 ∧ h = e.calling)) :
    checkWitness e signers h ≠ .ok true ∧ (signers ≠ [] → checkWitness e signers h = .ok false) := by
  have hc' : (e.calling != 0 && h == e.calling) = false := by simpa using hc
  constructor
  · intro hr
    rcases checkWitness_sound e signers h hr with hs | ⟨s, ⟨pre, post, heq, _, hacc⟩, _⟩
    · exact hc hs
    · exact hns s (by simp [heq]) hacc
  · intro hne
    unfold checkWitness checkScope
    rw [hc']
    simp [hne, scanSigners_none e h signers hns]

example : checkWitness exDeep [sg 0xA1 scGlobal] 0xA2 = .ok false :=
  (non_signer_never exDeep _ 0xA2 (by simp [sg]) (by decide)).2 (by simp)

/-- ... except that a contract always witnesses the calls it makes itself. -/
theorem caller_always (e : Env) (signers : List Signer) (hc : e.calling ≠ 0) :
    checkWitness e signers e.calling = .ok true := by
  unfold checkWitness
  simp [hc]

example : checkWitness exDeep [] 0xC2 = .ok true := caller_always exDeep [] (by decide)

/-- The first signer with the account decides: the rest of the list is never consulted. -/
theorem first_signer_decides (e : Env) (signers : List Signer) (h : Hash) (s : Signer)
    (hd : decides signers h s) (hc : ¬ (e.calling ≠ 0 ∧ h = e.calling)) :
    checkWitness e signers h = checkSigner e s := by
  have hc' : (e.calling != 0 && h == e.calling) = false := by simpa using hc
  obtain ⟨pre, post, heq, _, _⟩ := id hd
  have hne : signers.isEmpty = false := by simp [heq]
  unfold checkWitness checkScope
  rw [hc', hne]
  simpa using scanSigners_decides e h s signers hd

-- a second entry for the same account (here Global) is ignored
example : checkWitness exDeep [sg 0xA1 0, sg 0xA1 scGlobal] 0xA1 = .ok false := by
  have h := first_signer_decides exDeep [sg 0xA1 0, sg 0xA1 scGlobal] 0xA1 (sg 0xA1 0)
    ⟨[], [sg 0xA1 scGlobal], rfl, by simp, rfl⟩ (by decide)
  rw [h]; decide

/-- Global scope: everywhere. -/
theorem global_always (e : Env) (signers : List Signer) (h : Hash) (s : Signer)
    (hd : decides signers h s) (hg : s.scopes = scGlobal) : checkWitness e signers h = .ok true := by
  by_cases hc : (e.calling ≠ 0 ∧ h = e.calling)
  · unfold checkWitness; simp [hc.1, hc.2]
  · rw [first_signer_decides e signers h s hd hc]
    unfold checkSigner; simp [hg]

example : checkWitness exDeepNoRS [sg 0xA1 scGlobal] 0xA1 = .ok true :=
  global_always _ _ _ (sg 0xA1 scGlobal) ⟨[], [], rfl, by simp, rfl⟩ rfl

/-- CalledByEntry scope alone: only in the entry script or a contract the entry script calls directly. -/
theorem entry_only_direct (e : Env) (signers : List Signer) (h : Hash) (s : Signer)
    (hd : decides signers h s) (hsc : s.scopes = scCalledByEntry) (hc : ¬ (e.calling ≠ 0 ∧ h = e.calling)) :
    checkWitness e signers h = .ok (decide (e.parents.length ≤ 1)) := by
  rw [first_signer_decides e signers h s hd hc]
  have hiff := isCalledByEntry_iff e
  unfold Env.directFromEntry at hiff
  unfold checkSigner stepGroups stepRules
  rw [hsc]
  cases hcb : e.isCalledByEntry
  · have : ¬ e.parents.length ≤ 1 := by rw [← hiff, hcb]; simp
    simp [scCalledByEntry, scGlobal, scCustomContracts, scCustomGroups, scRules, hasScope, this]
  · have : e.parents.length ≤ 1 := hiff.mp hcb
    simp [scCalledByEntry, scGlobal, hasScope, this]

example : checkWitness exDirect [sg 0xA1 scCalledByEntry] 0xA1 = .ok true :=
  entry_only_direct _ _ _ (sg 0xA1 scCalledByEntry) ⟨[], [], rfl, by simp, rfl⟩ rfl (by decide)
example : checkWitness exDeep [sg 0xA1 scCalledByEntry] 0xA1 = .ok false :=
  entry_only_direct _ _ _ (sg 0xA1 scCalledByEntry) ⟨[], [], rfl, by simp, rfl⟩ rfl (by decide)

/-- CustomContracts scope alone: exactly inside the listed contracts. -/
theorem custom_contracts_exact (e : Env) (signers : List Signer) (h : Hash) (s : Signer)
    (hd : decides signers h s) (hsc : s.scopes = scCustomContracts) (hc : ¬ (e.calling ≠ 0 ∧ h = e.calling)) :
    checkWitness e signers h = .ok (decide (e.current ∈ s.allowedContracts)) := by
  rw [first_signer_decides e signers h s hd hc]
  unfold checkSigner stepGroups stepRules
  rw [hsc]
  by_cases hm : e.current ∈ s.allowedContracts
  · simp [scCalledByEntry, scGlobal, scCustomContracts, hasScope, hm]
  · simp [scCalledByEntry, scGlobal, scCustomContracts, scCustomGroups, scRules, hasScope, hm]

example : checkWitness exDeep [sg 0xA1 scCustomContracts [0xC2, 0xC1]] 0xA1 = .ok true :=
  custom_contracts_exact _ _ _ (sg 0xA1 scCustomContracts [0xC2, 0xC1]) ⟨[], [], rfl, by simp, rfl⟩ rfl (by decide)
example : checkWitness exDeep [sg 0xA1 scCustomContracts [0xC2]] 0xA1 = .ok false :=
  custom_contracts_exact _ _ _ (sg 0xA1 scCustomContracts [0xC2]) ⟨[], [], rfl, by simp, rfl⟩ rfl (by decide)

/-- CustomGroups scope alone: exactly inside contracts whose manifest lists one of the groups
(the lookup needs the ReadStates flag, without it the check faults). -/
theorem custom_groups_exact (e : Env) (signers : List Signer) (h : Hash) (s : Signer)
    (hd : decides signers h s) (hsc : s.scopes = scCustomGroups) (hc : ¬ (e.calling ≠ 0 ∧ h = e.calling)) :
    (e.cur.readStates = true →
      (checkWitness e signers h = .ok true ↔ ∃ k ∈ s.allowedGroups, e.hasGroup e.current k) ∧
      (checkWitness e signers h = .ok false ↔ ¬ ∃ k ∈ s.allowedGroups, e.hasGroup e.current k)) ∧
    (e.cur.readStates = false → checkWitness e signers h = .err .noReadStates) := by
  have hne : signers ≠ [] := by obtain ⟨pre, post, heq, _, _⟩ := hd; simp [heq]
  have hall : allowed e s ↔ ∃ k ∈ s.allowedGroups, e.hasGroup e.current k := by
    unfold allowed
    rw [hsc]
    simp [scCalledByEntry, scGlobal, scCustomContracts, scCustomGroups, scRules, hasScope]
  have hspec : Spec e signers h ↔ ∃ k ∈ s.allowedGroups, e.hasGroup e.current k := by
    unfold Spec
    rw [← hall]
    constructor
    · rintro (hx | ⟨t, ht, ha⟩)
      · exact absurd hx hc
      · rw [decides_unique hd ht]; exact ha
    · intro ha; exact Or.inr ⟨s, hd, ha⟩
  constructor
  · intro hrs
    rw [← hspec]
    exact checkWitness_iff e signers h hne hrs
  · intro hrs
    rw [first_signer_decides e signers h s hd hc]
    unfold checkSigner stepGroups getContractGroups
    rw [hsc]
    simp [scCalledByEntry, scGlobal, scCustomContracts, scCustomGroups, hasScope, hrs]

example : checkWitness exDeep [sg 0xA1 scCustomGroups [] [0x62, 0x61]] 0xA1 = .ok true :=
  ((custom_groups_exact exDeep _ 0xA1 (sg 0xA1 scCustomGroups [] [0x62, 0x61]) ⟨[], [], rfl, by simp, rfl⟩ rfl
    (by decide)).1 rfl).1.mpr ⟨0x61, by simp [sg], [0x61], by decide, by simp⟩

/-- Rules scope alone: the first rule whose condition holds decides (Allow passes, Deny refuses, whatever
follows); when no rule matches the check refuses. -/
theorem first_rule_wins (e : Env) (signers : List Signer) (h : Hash) (s : Signer)
    (hd : decides signers h s) (hsc : s.scopes = scRules) (hc : ¬ (e.calling ≠ 0 ∧ h = e.calling))
    (hrs : e.cur.readStates = true) :
    (∀ r, firstMatch e s.rules r → checkWitness e signers h = .ok (r.action == actAllow)) ∧
    ((∀ r ∈ s.rules, ¬ holds e r.cond) → checkWitness e signers h = .ok false) := by
  have hne : signers ≠ [] := by obtain ⟨pre, post, heq, _, _⟩ := hd; simp [heq]
  have hall : allowed e s ↔ ∃ r, firstMatch e s.rules r ∧ r.action = actAllow := by
    unfold allowed
    rw [hsc]
    simp [scCalledByEntry, scGlobal, scCustomContracts, scCustomGroups, scRules, hasScope]
  have hspec : Spec e signers h ↔ ∃ r, firstMatch e s.rules r ∧ r.action = actAllow := by
    unfold Spec
    rw [← hall]
    constructor
    · rintro (hx | ⟨t, ht, ha⟩)
      · exact absurd hx hc
      · rw [decides_unique hd ht]; exact ha
    · intro ha; exact Or.inr ⟨s, hd, ha⟩
  have hmain := checkWitness_iff e signers h hne hrs
  rw [hspec] at hmain
  constructor
  · intro r hr
    by_cases ha : r.action = actAllow
    · rw [hmain.1.mpr ⟨r, hr, ha⟩]; simp [ha]
    · have : ¬ ∃ r', firstMatch e s.rules r' ∧ r'.action = actAllow := by
        rintro ⟨r', hr', ha'⟩
        exact ha (firstMatch_unique hr hr' ▸ ha')
      rw [hmain.2.mpr this]; simp [ha]
  · intro hno
    apply hmain.2.mpr
    rintro ⟨r, ⟨pre, post, heq, _, hh⟩, _⟩
    exact hno r (by simp [heq]) hh

-- a Deny rule in front of an Allow rule wins, and vice versa
example : checkWitness exDeep [sg 0xA1 scRules [] [] [⟨0, .calledByContract 0xC2⟩, ⟨1, .boolean true⟩]] 0xA1
    = .ok false := by decide
example : checkWitness exDeep [sg 0xA1 scRules [] [] [⟨0, .calledByEntry⟩, ⟨1, .group 0x61⟩, ⟨0, .boolean true⟩]] 0xA1
    = .ok true := by decide
example : firstMatch exDeep [⟨0, .calledByEntry⟩, ⟨1, .group 0x61⟩, ⟨0, .boolean true⟩] ⟨1, .group 0x61⟩ :=
  ⟨[⟨0, .calledByEntry⟩], [⟨0, .boolean true⟩], rfl,
    by simp [holds, Env.directFromEntry, exDeep],
    by simp only [holds]; exact ⟨[0x61], by decide, by simp⟩⟩

/-! ### Conditions -/

/-- Under the ReadStates flag condition matching is total and equals the declarative meaning. -/
theorem match_iff (e : Env) (c : Cond) (hrs : e.cur.readStates = true) :
    (matchC e c = .ok true ↔ holds e c) ∧ (matchC e c = .ok false ↔ ¬ holds e c) := by
  cases hr : matchC e c with
  | err x => have := (match_err e c x hr).2; rw [hrs] at this; cases this
  | ok b => have := match_ok e c b hr; cases b <;> simp_all

/-- Not flips the result and nothing else (errors pass through). -/
theorem not_flips (e : Env) (c : Cond) :
    (∀ b, matchC e (.not c) = .ok b ↔ matchC e c = .ok (!b)) ∧
    (∀ x, matchC e (.not c) = .err x ↔ matchC e c = .err x) := by
  constructor
  · intro b
    simp only [matchC]
    cases matchC e c with
    | ok r => cases r <;> cases b <;> simp
    | err x => simp
  · intro x
    simp only [matchC]
    cases matchC e c with
    | ok r => simp
    | err y => simp

example : matchC exDeep (.not .calledByEntry) = .ok true := by decide

/-- And = all operands hold, Or = some operand holds (whenever the evaluation does not fault), and
`holds (.not c) ↔ ¬ holds c` by definition. -/
theorem and_or_semantics (e : Env) (cs : List Cond) (b : Bool) :
    (matchC e (.and cs) = .ok b → (b = true ↔ ∀ c ∈ cs, holds e c)) ∧
    (matchC e (.or cs) = .ok b → (b = true ↔ ∃ c ∈ cs, holds e c)) := by
  constructor
  · intro h
    have := match_ok e (.and cs) b h
    simp only [holds] at this
    rw [this, holdsAll_iff]
  · intro h
    have := match_ok e (.or cs) b h
    simp only [holds] at this
    rw [this, holdsAny_iff]

example : matchC exDeep (.and [.scriptHash 0xC1, .or [.calledByEntry, .calledByGroup 0x61, .calledByContract 0xC2]])
    = .ok true := by decide

/-! ### Decoder: only trees within the permitted nesting and width are accepted -/

/-- `DecodeBinaryCondition` accepts only trees of depth ≤ MaxConditionNesting whose And/Or have 1..16
operands, for any key decoder. -/
theorem nesting_bounded (dk : Bytes → Option (Key × Bytes)) (bs : Bytes) (c : Cond) (r : Bytes)
    (h : decodeBinaryCondition dk bs = some (c, r)) :
    c.depth ≤ maxConditionNesting ∧ c.widthOk = true :=
  decodeCond_bounded dk maxConditionNesting bs c r h

-- depth 3 is accepted (And[Not[true]]), depth 4 is not (And[Not[Not[true]]]), an empty And is not
example : decodeBinaryCondition (fun _ => none) [0x02, 0x01, 0x01, 0x00, 0x01, 0x07]
    = some (.and [.not (.boolean true)], [0x07]) := by rfl
example : decodeBinaryCondition (fun _ => none) [0x02, 0x01, 0x01, 0x01, 0x00, 0x01] = none := by rfl
example : decodeBinaryCondition (fun _ => none) [0x02, 0x00] = none := by rfl

/-- The decoders of tree-shaped input (stack items: `WitnessRule.FromStackItem`; JSON:
`UnmarshalConditionJSON`) accept exactly the trees within the permitted nesting and width. -/
theorem tree_decoders_exact (c : Cond) :
    admits c maxConditionNesting = true ↔ (c.depth ≤ maxConditionNesting ∧ c.widthOk = true) :=
  admits_iff c maxConditionNesting

example : admits (.and [.not (.boolean true)]) maxConditionNesting = true := by decide
example : admits (.and [.not (.not (.boolean true))]) maxConditionNesting = false := by decide

/-! ### Group lookups need ReadStates -/

/-- Without the ReadStates flag the outcome of the check (boolean or fault) does not depend on any
contract's manifest: no group information is read. -/
theorem no_manifest_read_without_flag (e : Env) (k : Hash → Option (List Key)) (signers : List Signer) (h : Hash)
    (hrs : e.cur.readStates = false) :
    checkWitness (e.withContracts k) signers h = checkWitness e signers h := by
  have hc : (e.withContracts k).calling = e.calling := rfl
  simp only [checkWitness, checkScope, hc, scanSigners_noRS e k hrs h signers]

example : checkWitness (exDeepNoRS.withContracts (fun _ => some [0x61, 0x62])) [sg 0xA1 scCalledByEntry] 0xA1
    = checkWitness exDeepNoRS [sg 0xA1 scCalledByEntry] 0xA1 :=
  no_manifest_read_without_flag _ _ _ _ rfl

/-! ### What the wire format admits -/

/-- `Signer.DecodeBinary` only accepts signers whose scope byte has no unknown bit and has Global only
alone, with at most 16 contracts / groups / rules, each rule an Allow or Deny with a condition within the
permitted nesting; lists are only present with their scope bit. -/
theorem signer_decoder_wellformed (dk : Bytes → Option (Key × Bytes)) (bs : Bytes) (s : Signer) (r : Bytes)
    (h : decodeSigner dk bs = some (s, r)) : s.wellFormed :=
  decodeSigner_spec dk bs s r h

/-- For every signer the wire format admits, the Global bit is the Global scope (so the equality test of
witness.go:73 loses nothing), and such a signer passes everywhere. -/
theorem global_is_exclusive (s : Signer) (hw : s.wellFormed) :
    hasScope s.scopes scGlobal = true ↔ s.scopes = scGlobal := by
  constructor
  · intro hg
    have := hw.1
    simp only [validScopes, Bool.and_eq_true, Bool.not_eq_true', Bool.and_eq_false_iff] at this
    rcases this.2 with h1 | h1
    · rw [hg] at h1; cases h1
    · simpa using h1
  · intro h; rw [h]; decide

-- a signer with scope byte CalledByEntry|CustomContracts and one contract decodes; Global|CalledByEntry does not
example : (decodeSigner (fun _ => none) ((List.replicate 20 0xAA) ++ [0x11, 0x01] ++ List.replicate 20 0xBB ++ [0x07])).map
    (fun p => (p.1.scopes, p.1.allowedContracts.length, p.2)) = some (0x11, 1, [0x07]) := by decide
example : decodeSigner (fun _ => none) ((List.replicate 20 0xAA) ++ [0x81]) = none := by rfl

/-- Conversely, every tree within the permitted nesting and width (hashes of 20 bytes, a key codec that
round-trips) is decoded back from its encoding: the wire format carries exactly the trees of
`nesting_bounded`. -/
theorem decoder_complete (dk : Bytes → Option (Key × Bytes)) (ek : Key → Bytes)
    (hk : ∀ k r, dk (ek k ++ r) = some (k, r)) (c : Cond) (r : Bytes)
    (hd : c.depth ≤ maxConditionNesting) (hw : c.widthOk = true) (hh : c.hashesOk) :
    decodeBinaryCondition dk (encodeCond ek c ++ r) = some (c, r) :=
  decode_encode dk ek hk c maxConditionNesting r hd hw hh

example : decodeBinaryCondition dkU (encodeCond ekU (.or [.not (.group 2), .scriptHash 7]) ++ [9])
    = some (.or [.not (.group 2), .scriptHash 7], [9]) :=
  decoder_complete dkU ekU dkU_ekU _ _ (by decide) (by decide) (by simp [Cond.hashesOk, hashesOkList])

/-! ### The entry relation comes from the chain of calls -/

/-- `IsCalledByEntry` is true exactly in the entry script and in scripts it loaded directly, whatever the
hashes, callers and flags of the frames: it counts script contexts, nothing else. -/
theorem called_by_entry_counts_calls (k : Hash → Option (List Key)) (f0 : Frame) (fs : List Frame) :
    (Env.ofCalls k f0 fs).isCalledByEntry = decide (fs.length ≤ 1) := by
  have h := isCalledByEntry_iff (Env.ofCalls k f0 fs)
  unfold Env.directFromEntry at h
  rw [ofCalls_parents_length] at h
  cases hb : (Env.ofCalls k f0 fs).isCalledByEntry
  · have : ¬ fs.length ≤ 1 := by rw [← h, hb]; simp
    simp [this]
  · simp [h.mp hb]

example : (Env.ofCalls exContracts ⟨0xE0, 0, true⟩ [⟨0xC2, 0xE0, true⟩, ⟨0xC1, 0xC2, true⟩]).isCalledByEntry = false := by
  rw [called_by_entry_counts_calls]; decide

end NeoModel.Witness
