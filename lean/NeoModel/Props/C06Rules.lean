/-
C06 — header-chain rules one by one, soundness of every rejection class, and the full "a rejected
block changes nothing" / "the correct block is still accepted" statements under the condition that
characterises the one exception. Helper lemmas: Proofs/AddBlockReasons.
-/
import NeoModel.Props.C06
import NeoModel.Proofs.AddBlockReasons
namespace NeoModel.AddBlock
variable {L : Type}

/-! ### the header rules (verifyHeader), in the order of the code -/

/-- C06: verifyHeader's verdict is the class of the first failing rule, in the order written: previous
state root (only for the header right above the local state height, with StateRootInHeader), previous
hash, index = previous + 1, timestamp strictly later, witness for the previous header's NextConsensus. -/
theorem header_verdict_is_first_failing_rule (env : Env L) (s : Node L) (cur prev : Header) :
    verifyHeader env s cur prev = firstFailingH (hdrChecks env s cur prev) :=
  verifyHeader_eq_firstFailing env s cur prev

-- boundaries: equal timestamp -> timestamp error, one later -> accepted; index off by one in either
-- direction -> index error; both a wrong index and an equal timestamp -> index error (it comes first)
example : verifyHeader exEnv exNode { h1 with ts := 5 } g0 = some .timestamp ∧
    verifyHeader exEnv exNode { h1 with ts := 6 } g0 = none ∧
    verifyHeader exEnv exNode { h1 with index := 2 } g0 = some .hdrIndex ∧
    verifyHeader exEnv exNode { h1 with index := 0 } g0 = some .hdrIndex ∧
    verifyHeader exEnv exNode { h1 with index := 2, ts := 5 } g0 = some .hdrIndex ∧
    verifyHeader exEnv exNode { h1 with prevStateRoot := 4 } g0 = some .stateRoot ∧
    verifyHeader exEnv exNode { h1 with prevHash := 9 } g0 = some .prevHash ∧
    verifyHeader exEnv exNode { h1 with wit := 19 } g0 = some .witness := by decide

/-- C06: a header passes verifyHeader iff it names the previous header's hash, has the next index, a
strictly later timestamp, a witness for the previous header's NextConsensus and — when it is the header
right above the local state height of a node with state roots in headers — the local state root. -/
theorem header_passes_iff_linked (env : Env L) (s : Node L) (cur prev : Header) :
    verifyHeader env s cur prev = none ↔
      LinkOK env prev cur ∧
        (s.cfg.sr = true → s.blockHeight = prev.index → cur.prevStateRoot = env.rootOf s.ledger) :=
  verifyHeader_none_iff env s cur prev

example : LinkOK exEnv g0 h1 := ((verifyHeader_none_iff exEnv exNode h1 g0).mp (by decide)).1

/-! ### every rejection class is sound -/

/-- C06: if AddBlock refuses a block with class `e`, the conjunct that `e` names is false for this block
at this node (`Reason`, one clause per class: index too high / too low, state-root flag, previous header
unknown, previous state root, header index, timestamp not later, witness, hash differing from the recorded
header's, Merkle root, repeated transaction, transaction loop, storeBlock). ErrHdrHashMismatch cannot come
out of AddBlock. With `accept_only_valid` the verdict is a decision of the conjuncts. -/
theorem rejection_class_sound (env : Env L) (s s' : Node L) (b : Block) (e : Err)
    (h : addBlock env s b = (s', some e)) : Reason env s b e :=
  reject_reason_sound env s s' b e h

example : Reason exEnv exNode { b1 with hdr := { h1 with ts := 5 } } .timestamp :=
  reject_reason_sound exEnv exNode exNode _ _ (by rfl)

/-! ### PrimaryIndex -/

/-- C06: the only place that looks at PrimaryIndex is GAS.OnPersist, and only for a block with
transactions: such a block with an index beyond the validator list is never accepted. -/
theorem primary_out_of_range_rejected (env : Env L) (s s' : Node L) (b : Block)
    (hp : b.txs ≠ []) (hr : env.nvals ≤ b.hdr.primary) : addBlock env s b ≠ (s', none) := by
  intro h
  rcases addBlock_spec env s s' b none h with ⟨_, _, e, he⟩ | ⟨_, _, _, he⟩ | ⟨_, _, s1, r1, _, hrest⟩
  · cases he
  · cases he
  rcases hrest with ⟨_, _, _, hn⟩ | ⟨_, hbody⟩
  · cases hn
  have := storeBlock_ok_primary env s1 s' b (bodyStep_none_store env s1 s' b hbody)
  unfold primaryOK at this
  have he : b.txs.isEmpty = false := by cases hb : b.txs <;> simp_all
  simp only [he, Bool.false_or, decide_eq_true_eq] at this
  omega

-- a block with transactions and primary = number of validators is refused, with primary = n-1 accepted;
-- an empty block passes with any primary (nothing reads it)
def exEnv1 : Env (Nat × Nat) := { exEnv with nvals := 1 }
example : (addBlock exEnv1 exNode { b1 with hdr := { h1 with primary := 1 } }).2 = some .store ∧
    (addBlock exEnv1 exNode { b1 with hdr := { h1 with primary := 0 } }).2 = none ∧
    (addBlock exEnv1 exNode { hdr := { h1 with primary := 200, merkleRoot := 0 }, txs := [] }).2 = none := by decide

/-! ### the full statements of C06 (2) and (3) -/

/-- C06 (2), FULL statement, every node state and every block: a rejected block changes neither
configuration, block height, ledger nor mempool; the header chain is unchanged or extended by exactly this
block's header, which then (unless SkipBlockVerification) is linked to the last recorded header — previous
hash, next index, later timestamp — and signed for the consensus address that header designates. -/
theorem reject_changes_nothing (env : Env L) (s s' : Node L) (b : Block) (e : Err)
    (hne : s.headers ≠ []) (hix : Indexed s.headers)
    (h : addBlock env s b = (s', some e)) :
    s'.cfg = s.cfg ∧ s'.blockHeight = s.blockHeight ∧ s'.ledger = s.ledger ∧ s'.pool = s.pool ∧
    (s'.headers = s.headers ∨
      (s'.headers = s.headers ++ [b.hdr] ∧ b.hdr.index = s.headerHeight + 1 ∧
        (s.cfg.skip = false → ∃ last, s.headers.getLast? = some last ∧ LinkOK env last b.hdr))) := by
  obtain ⟨h1, h2, _, h4, h5⟩ := reject_changes_nothing_aux env s s' b e hne hix h
  exact ⟨h1, h2, reject_ledger_same env s s' b e h, h4, h5⟩

-- non-vacuity: the case that used to violate it — state roots in headers, header 2 recorded ahead with a
-- PrevStateRoot block 1 does not produce: block 1 is executed, refused (store) and nothing has changed
example : (addBlock exEnv exBadNext b1).2 = some .store ∧
    (addBlock exEnv exBadNext b1).1.ledger = exBadNext.ledger ∧
    (addBlock exEnv exBadNext b1).1.headers = exBadNext.headers := by decide

/-- C06 (3), FULL statement: after ANY rejected block `b'` that did not leave the header of a different
block behind (header chain untouched, or `b'` has `b`'s header hash), a block `b` that the node would
accept is still accepted and leads to exactly the same node as without `b'`. (In the excluded case the
validators signed two headers for one height; the recorded one wins.) -/
theorem correct_still_accepted (env : Env L) (s s' t : Node L) (b' b : Block) (e : Err)
    (hne : s.headers ≠ []) (hix : Indexed s.headers)
    (hrej : addBlock env s b' = (s', some e))
    (hacc : addBlock env s b = (t, none))
    (hsame : s'.headers = s.headers ∨ b'.hdr.hash = b.hdr.hash) :
    addBlock env s' b = (t, none) :=
  correct_still_accepted_aux env s s' t b' b e hne hix hrej hacc hsame (reject_ledger_same env s s' b' e hrej)

-- non-vacuity: SkipBlockVerification, headers 1 and 2 recorded: another body under header 1 is executed and
-- refused by header 2's PrevStateRoot; the valid block 1 is accepted afterwards, with the same result
example : (addBlock exEnv exSkip { b1 with txs := [t42, t50] }).2 = some .store ∧
    (addBlock exEnv (addBlock exEnv exSkip { b1 with txs := [t42, t50] }).1 b1).2 = none ∧
    (addBlock exEnv (addBlock exEnv exSkip { b1 with txs := [t42, t50] }).1 b1).1.blockHeight =
      (addBlock exEnv exSkip b1).1.blockHeight := by decide

end NeoModel.AddBlock
