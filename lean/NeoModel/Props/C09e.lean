/-
C09 (fifth part) — concurrent flushes: Persist and PersistSync as multi-step operations of goroutines with
`plock` and `mut` as explicit locks, racing each other, writers and readers
(model `Model/Store/Flush.lean`, lemmas `Proofs/StoreFlushConc.lean`).
-/
import NeoModel.Proofs.StoreFlushConc
namespace NeoModel.Store.C09
open NeoModel.Store.Flush

/-- C09 (flushes are mutually exclusive): after ANY interleaving of the steps of any number of goroutines
running Persist, PersistSync, writes and reads (steps that are not enabled — a goroutine waiting for
`plock` or `mut` — are skipped), at most one goroutine is between `s.plock.Lock()` and its return; it is
the holder of plock, and `s.ps` is the backend unless that very flush has its tempstore interposed,
whose lower store is the backend (never another flush's tempstore). -/
theorem flushes_mutually_exclusive (as : List Act) (t u : Nat)
    (ht : inFlush (run false init as) t) (hu : inFlush (run false init as) u) :
    t = u ∧ (run false init as).plock = some t ∧
      ((run false init as).ps = .backend ∨
        ((run false init as).ps = .temp t ∧ ((run false init as).th t).tgt = .backend)) := by
  have h := run_inv inv_init as
  have e := flushes_exclusive h t u ht hu
  refine ⟨e, ?_, ?_⟩
  · apply Classical.byContradiction; intro hne
    have := h.idle t hne; unfold inFlush at ht; omega
  · by_cases h23 : ((run false init as).th t).pc = 2 ∨ ((run false init as).th t).pc = 3
    · exact Or.inr (h.psFlight t h23)
    · left; apply h.psIdle
      intro v
      by_cases ev : v = t
      · have := (h.held t (by
          apply Classical.byContradiction; intro hne
          have := h.idle t hne; unfold inFlush at ht; omega)).2
        rw [ev]; omega
      · have : (run false init as).plock ≠ some v := by
          intro hv
          have hp : (run false init as).plock = some t := by
            apply Classical.byContradiction; intro hne
            have := h.idle t hne; unfold inFlush at ht; omega
          rw [hp] at hv; exact ev (Option.some.inj hv).symm
        rw [h.idle v this]; omega

/-- C09 (what a flush reports as flushed is in the backend): after ANY interleaving, every write of every
batch that some Persist / PersistSync returned as flushed is in the backend (and stays: the backend only
grows), and every write ever made is somewhere a reader finds it — in the cache's maps, in the tempstore
of the flush in flight, or in the backend; a failing lower write loses nothing either. -/
theorem flushed_batches_are_in_backend (as : List Act) :
    (∀ b ∈ (run false init as).reported, ∀ id ∈ b, id ∈ (run false init as).backend) ∧
    (∀ id ∈ (run false init as).written, id ∈ (run false init as).mem ∨ id ∈ (run false init as).backend ∨
      ∃ t, (((run false init as).th t).pc = 2 ∨ ((run false init as).th t).pc = 3) ∧ id ∈ ((run false init as).th t).tmp) :=
  ⟨(run_inv inv_init as).rep, (run_inv inv_init as).kept⟩

-- non-vacuity: a Persist in flight, a PersistSync and a Persist of two other goroutines trying to get in
-- (skipped: blocked on plock), writes during both windows, a failing flush afterwards
example :
    let s := run false init [.write 9 1, .lockP 0 false, .begin 0, .lockP 1 true, .write 9 2, .lower 0 true,
      .lockP 2 false, .begin 1, .write 9 3, .finish 0, .lockP 1 true, .begin 1, .lower 1 false, .finish 1,
      .lockP 2 false, .begin 2, .lower 2 true, .finish 2]
    s.reported = [[2, 3], [1]] ∧ s.backend = [1, 2, 3] ∧ s.mem = [] ∧ s.plock = none := by decide

/-- regression example, the rule of seeded change C09-m6 (PersistSync bypassing plock and writing straight
to `s.ps`): batch {2} is reported as flushed, is in no map of the cache and not in the backend; under the
code's rule the same goroutines end with both batches in the backend. -/
theorem sync_without_plock_loses_batch :
    let sched := [Act.write 2 1, .lockP 0 false, .begin 0, .lower 0 true, .write 2 2, .direct 1, .finish 0]
    let bad := run true init sched
    let good := run false init (sched ++ [.lockP 1 true, .begin 1, .lower 1 true, .finish 1])
    bad.reported = [[1], [2]] ∧ bad.backend = [1] ∧ bad.mem = [] ∧ bad.ps = .backend ∧
    good.reported = [[2], [1]] ∧ good.backend = [1, 2] :=
  direct_sync_loses_batch

/-- what the `overlap` line of the stream observes: a second flush (PersistSync or Persist) cannot start
while a Persist of a non-empty cache is in flight, in either window. -/
theorem overlap_observation :
    overlapBlocked true 1 = true ∧ overlapBlocked false 1 = true ∧ overlapBlocked true 2 = true ∧ overlapBlocked false 2 = true :=
  overlap_blocked_values

end NeoModel.Store.C09
