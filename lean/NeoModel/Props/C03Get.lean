/-
C03 — System.Storage.Get: a historic point read equals the live one (property theorems).
-/
import NeoModel.Props.C03Find
import NeoModel.Model.StateCommit.Get
namespace NeoModel.StateCommit.Find
open NeoModel.Store (Layer overlay layerSays)
open NeoModel.Wire (Item)

/-- within the key-length limit `TrieStore.Get` reads the map the TrieStore stands for. -/
theorem trieStoreGet_eq (t : Mpt.Node) (k : Bytes) (h : k.length ≤ maxKeyLength + 1) :
    trieStoreGet t k = trieFlat t k := by
  cases k with
  | nil => rfl
  | cons b k' =>
    have : ¬ k'.length > maxKeyLength := by simp only [List.length_cons] at h; omega
    simp only [trieStoreGet, trieFlat, this, if_false]

theorem storageKey_length (sp : UInt8) (id : Nat) (key : Bytes) : (storageKey sp id key).length = key.length + 5 := by
  simp [storageKey, le32, Wire.leBytes]

/-- limits.MaxStorageKeyLen: the longest key System.Storage.Put accepts (interop/storage/basic.go:111). -/
def maxStorageKeyLen : Nat := 64

theorem maxKeyLength_eq : maxKeyLength = maxStorageKeyLen + 4 := rfl

/-- a stack of cache layers over a backend reads the overlaid map. -/
theorem layersGet_overlays (base : Bytes → Option Bytes) (Ls : List Layer) (k : Bytes) :
    layersGet base Ls k = overlays Ls base k := by
  induction Ls with
  | nil => rfl
  | cons L Ls ih =>
    simp only [layersGet, overlays, overlay]
    cases layerSays L k with
    | none => exact ih
    | some o => cases o <;> rfl

/-- **C03.G1 — historic point read = live point read.** Same setting as `historic_find_eq_live`: any
history, any live store stack holding that history's storage under the storage prefix, the
invocation's own uncommitted writes `W` on both sides, empty cache layers `E` over
`TrieStore(root of the trie after bs)` on the historic side. System.Storage.Get returns the same on
both sides for every contract id and EVERY key of up to limits.MaxStorageKeyLen = 64 bytes, the limit
itself included (the trie key `id ‖ key` then has up to MaxKeyLength = 68 bytes, which `Trie.Get` still
accepts; longer keys cannot be stored) — namely the invocation's own write if it made one, else
what contract storage holds after `bs`. -/
theorem historic_get_eq_live (bs : List (List Change)) (hok : ∀ b ∈ bs, DistinctKeys b)
    (S : Store.Store) (sp : UInt8) (hsp : sp = 0x70 ∨ sp = 0x71)
    (hagree : ∀ k, S.flatten (sp :: k) = storageAt bs k)
    (W : Layer) (E : List Layer) (hE : ∀ L ∈ E, L.mem = [] ∧ L.stor = [])
    (id : Nat) (key : Bytes) (hlen : key.length ≤ maxStorageKeyLen) :
    getHistoric (trieAt mptMap bs) (W :: E) sp id key = getLive (.cached W S) sp id key ∧
    getLive (.cached W S) sp id key =
      (match layerSays W (storageKey sp id key) with
       | some (some v) => some v
       | some none => none
       | none => storageAt bs (le32 id ++ key)) := by
  have hlive : getLive (.cached W S) sp id key =
      (match layerSays W (storageKey sp id key) with
       | some (some v) => some v
       | some none => none
       | none => storageAt bs (le32 id ++ key)) := by
    unfold getLive
    rw [Store.get_flatten]
    simp only [Store.Store.flatten, overlay]
    cases layerSays W (storageKey sp id key) with
    | some o => cases o <;> rfl
    | none => simp only [storageKey]; exact hagree _
  refine ⟨?_, hlive⟩
  rw [hlive]
  unfold getHistoric
  rw [layersGet_overlays]
  simp only [overlays, overlay]
  cases layerSays W (storageKey sp id key) with
  | some o => cases o <;> rfl
  | none =>
    simp only
    rw [overlays_empty E hE, trieStoreGet_eq _ _ (by
      rw [storageKey_length]; unfold maxStorageKeyLen at hlen; unfold maxKeyLength; omega)]
    simp only [storageKey]
    exact trieFlat_trieAt bs hok sp hsp _

-- non-vacuity on the example history: key 0103 of contract 5 holds the empty value, 0102 was deleted;
-- an invocation that deleted 01 before reading it sees nothing on either side
example : getHistoric (trieAt mptMap exBs) [Layer.fresh true, Layer.fresh false] 0x70 5 [1,3] = some [] ∧
    getHistoric (trieAt mptMap exBs) [Layer.fresh true, Layer.fresh false] 0x70 5 [1,2] = none ∧
    getHistoric (trieAt mptMap exBs) [(Layer.fresh true).set (storageKey 0x70 5 [1]) none, Layer.fresh false] 0x70 5 [1] = none ∧
    getHistoric (trieAt mptMap exBs) [Layer.fresh true, Layer.fresh false] 0x70 5 [1] = some [7] := by
  decide +kernel

example : getLive (.cached (Layer.fresh true) exS) 0x70 5 [1,3] = some [] := by
  rw [← (historic_get_eq_live exBs exOk exS 0x70 (Or.inl rfl) exAgree (Layer.fresh true) [Layer.fresh false]
    (by simp [Layer.fresh]) 5 [1,3] (by decide)).1]
  decide +kernel

/-- **C03.G2 — the syscall on the whole key domain.** For EVERY key, of any length, System.Storage.Get
gives the same outcome in the historic and in the live invocation: up to 64 bytes (the limit included)
the same value or Null by G1, above it the same fault. -/
theorem historic_getSyscall_eq_live (bs : List (List Change)) (hok : ∀ b ∈ bs, DistinctKeys b)
    (S : Store.Store) (sp : UInt8) (hsp : sp = 0x70 ∨ sp = 0x71)
    (hagree : ∀ k, S.flatten (sp :: k) = storageAt bs k)
    (W : Layer) (E : List Layer) (hE : ∀ L ∈ E, L.mem = [] ∧ L.stor = []) (id : Nat) (key : Bytes) :
    getSyscallHistoric (trieAt mptMap bs) (W :: E) sp id key = getSyscallLive (.cached W S) sp id key := by
  unfold getSyscallHistoric getSyscallLive
  by_cases ho : keyBufOverflow key = true
  · simp only [ho, if_true]
  · simp only [ho, Bool.false_eq_true, if_false]
    have hlen : key.length ≤ maxStorageKeyLen := by
      simp only [keyBufOverflow, decide_eq_true_eq] at ho
      unfold maxStorageKeyLen; omega
    rw [(historic_get_eq_live bs hok S sp hsp hagree W E hE id key hlen).1]

/-- a key one byte over the limit is refused by `Trie.Get`'s guard (and cannot be in storage). -/
theorem getHistoric_overlong (t : Mpt.Node) (E : List Layer) (hE : ∀ L ∈ E, L.mem = [] ∧ L.stor = [])
    (sp : UInt8) (id : Nat) (key : Bytes) (h : key.length > maxStorageKeyLen) :
    getHistoric t E sp id key = none := by
  unfold getHistoric
  rw [layersGet_overlays, overlays_empty E hE]
  have : (le32 id ++ key).length > maxKeyLength := by
    simp [le32, Wire.leBytes]; unfold maxStorageKeyLen at h; unfold maxKeyLength; omega
  simp only [storageKey, trieStoreGet, this, if_true]
  split <;> rfl

-- the boundary: a key of exactly 64 bytes (trie key of exactly 68) is read back through the historic path
def key64 : Bytes := List.replicate 62 0x12 ++ [1, 2]
example : key64.length = maxStorageKeyLen ∧
    getHistoric (trieAt mptMap [[(le32 5 ++ key64, some [9]), (le32 5 ++ key64.dropLast, some [])]])
      [Layer.fresh true, Layer.fresh false] 0x70 5 key64 = some [9] ∧
    getHistoric (trieAt mptMap [[(le32 5 ++ key64, some [9])]])
      [Layer.fresh true, Layer.fresh false] 0x70 5 (key64 ++ [3]) = none := by
  decide +kernel

-- … and a System.Storage.Find whose prefix is that whole 64-byte key returns it in the historic invocation
-- (`historic_find_eq_live` holds for every prefix: up to 64 bytes by the range theorems, above by the same fault)
example : encs (findHistoric (trieAt mptMap [[(le32 5 ++ key64, some [9]), (le32 5 ++ key64.dropLast, some [])]])
      [Layer.fresh true, Layer.fresh false] 0x70 5 key64 4) = some [Item.enc (.byteArray [9])] ∧
    encs (findHistoric (trieAt mptMap [[(le32 5 ++ key64, some [9])]])
      [Layer.fresh true, Layer.fresh false] 0x70 5 (key64 ++ [3]) 0) = none := by
  decide +kernel

end NeoModel.StateCommit.Find
