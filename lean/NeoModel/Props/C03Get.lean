/-
C03 — System.Storage.Get: a historic point read equals the live one (property theorems).
-/
import NeoModel.Props.C03Find
import NeoModel.Model.StateCommit.Get
namespace NeoModel.StateCommit.Find
open NeoModel.Store (Layer overlay layerSays)

theorem trieStoreGet_eq (t : Mpt.Node) : trieStoreGet t = trieFlat t := by
  funext k; cases k <;> rfl

/-- a stack of cache layers over a backend reads the overlaid map. -/
theorem layersGet_overlays (base : Bytes → Option Bytes) (Ls : List Layer) (k : Bytes) :
    layersGet base Ls k = overlays Ls base k := by
  induction Ls with
  | nil => rfl
  | cons L Ls ih =>
    simp only [layersGet, overlays, overlay]
    cases layerSays L k with
    | none => exact ih
    | some o => cases o <;> rfl

/-- **C03.G1 — historic point read = live point read.** Same setting as `historic_find_eq_live`: any
history, any live store stack holding that history's storage under the storage prefix, the
invocation's own uncommitted writes `W` on both sides, empty cache layers `E` over
`TrieStore(root of the trie after bs)` on the historic side. System.Storage.Get returns the same on
both sides for every contract id and key — namely the invocation's own write if it made one, else
what contract storage holds after `bs`. -/
theorem historic_get_eq_live (bs : List (List Change)) (hok : ∀ b ∈ bs, DistinctKeys b)
    (S : Store.Store) (sp : UInt8) (hsp : sp = 0x70 ∨ sp = 0x71)
    (hagree : ∀ k, S.flatten (sp :: k) = storageAt bs k)
    (W : Layer) (E : List Layer) (hE : ∀ L ∈ E, L.mem = [] ∧ L.stor = [])
    (id : Nat) (key : Bytes) :
    getHistoric (trieAt mptMap bs) (W :: E) sp id key = getLive (.cached W S) sp id key ∧
    getLive (.cached W S) sp id key =
      (match layerSays W (storageKey sp id key) with
       | some (some v) => some v
       | some none => none
       | none => storageAt bs (le32 id ++ key)) := by
  have hlive : getLive (.cached W S) sp id key =
      (match layerSays W (storageKey sp id key) with
       | some (some v) => some v
       | some none => none
       | none => storageAt bs (le32 id ++ key)) := by
    unfold getLive
    rw [Store.get_flatten]
    simp only [Store.Store.flatten, overlay]
    cases layerSays W (storageKey sp id key) with
    | some o => cases o <;> rfl
    | none => simp only [storageKey]; exact hagree _
  refine ⟨?_, hlive⟩
  rw [hlive]
  unfold getHistoric
  rw [layersGet_overlays, trieStoreGet_eq]
  simp only [overlays, overlay]
  cases layerSays W (storageKey sp id key) with
  | some o => cases o <;> rfl
  | none =>
    simp only
    rw [overlays_empty E hE]
    simp only [storageKey]
    exact trieFlat_trieAt bs hok sp hsp _

-- non-vacuity on the example history: key 0103 of contract 5 holds the empty value, 0102 was deleted;
-- an invocation that deleted 01 before reading it sees nothing on either side
example : getHistoric (trieAt mptMap exBs) [Layer.fresh true, Layer.fresh false] 0x70 5 [1,3] = some [] ∧
    getHistoric (trieAt mptMap exBs) [Layer.fresh true, Layer.fresh false] 0x70 5 [1,2] = none ∧
    getHistoric (trieAt mptMap exBs) [(Layer.fresh true).set (storageKey 0x70 5 [1]) none, Layer.fresh false] 0x70 5 [1] = none ∧
    getHistoric (trieAt mptMap exBs) [Layer.fresh true, Layer.fresh false] 0x70 5 [1] = some [7] := by
  decide +kernel

example : getLive (.cached (Layer.fresh true) exS) 0x70 5 [1,3] = some [] := by
  rw [← (historic_get_eq_live exBs exOk exS 0x70 (Or.inl rfl) exAgree (Layer.fresh true) [Layer.fresh false]
    (by simp [Layer.fresh]) 5 [1,3]).1]
  decide +kernel

end NeoModel.StateCommit.Find
