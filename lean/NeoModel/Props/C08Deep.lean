/-
C08, second part — the bookkeeping around the invariant, for ALL operation sequences: the reverse indexes,
TryGetData / TryGetValue, the fee-per-byte policy, the resend rule, the subscription events, the capacity
decision with eviction, concurrency at method granularity, and the order of the checks of `Add` tied to the source.
Property theorems only; the proofs are in Proofs/Mempool{Data,Policy,Resend,Events,Full,Lin,Order}.lean.
-/
import NeoModel.Props.C08
import NeoModel.Proofs.MempoolData
import NeoModel.Proofs.MempoolPolicy
import NeoModel.Proofs.MempoolResend
import NeoModel.Proofs.MempoolEvents
import NeoModel.Proofs.MempoolFull
import NeoModel.Proofs.MempoolLin
import NeoModel.Proofs.MempoolOrder
import NeoModel.Proofs.MempoolAsync
import NeoModel.Proofs.MempoolAdmit
namespace NeoModel.Mempool.C08
open NeoModel.Mempool

/-! ## 5. Reverse indexes and look-ups are exactly what the list determines -/

/-- In every reachable state: `conflicts[h]` is absent iff no pooled transaction names `h`, otherwise it lists,
without repetition, exactly the pooled transactions with a Conflicts attribute `h`; `oracleResp[i] = h` iff the
pooled response to request `i` has hash `h`; `TryGetValue` finds exactly the pooled transactions; `TryGetData`
(binary search for the left bound of the equal-priority run, then a scan that stops at the first other priority)
returns the data of exactly the pooled transactions. -/
theorem index_maps_reachable {U : Tx → Prop} (hw : WF U) (c : Nat) (ops : List Op) (ho : OpsIn U ops) :
    let mp := run c ops
    (∀ h, match mp.conflicts h with
      | none => ∀ t ∈ mp.txs, h ∉ t.conflicts
      | some l => l ≠ [] ∧ l.Nodup ∧ ∀ x, x ∈ l ↔ ∃ t ∈ mp.txs, t.id = x ∧ h ∈ t.conflicts) ∧
    (∀ i h, mp.oracleResp i = some h ↔ ∃ t ∈ mp.txs, t.id = h ∧ t.oracle = some i) ∧
    (∀ h t, tryGetValue mp h = some t ↔ t ∈ mp.txs ∧ t.id = h) ∧
    (∀ t ∈ mp.txs, tryGetData mp t.id = some (mp.data t.id)) ∧
    (∀ h, (∀ t ∈ mp.txs, t.id ≠ h) → tryGetData mp h = none) ∧
    iterate mp = mp.txs.map (fun t => (t.id, mp.data t.id)) := by
  intro mp
  have hi : Inv U mp := Mempool.inv_reachable hw c ops ho
  refine ⟨?_, hi.orc, fun h t => tryGetValue_spec hi h t, ?_, ?_, rfl⟩
  · intro h
    have := hi.conf h
    cases hc : mp.conflicts h with
    | none => rw [hc] at this; exact this
    | some l => rw [hc] at this; exact this
  · intro t ht
    rw [tryGetData_spec hi, (hi.vmap t.id t).mpr ⟨ht, rfl⟩]; rfl
  · intro h hn
    rw [tryGetData_spec hi]
    cases hv : mp.vmap h with
    | none => rfl
    | some t => exact absurd ((hi.vmap h t).mp hv).2 (hn t ((hi.vmap h t).mp hv).1)

/-- The data (and the block stamp) a pooled transaction carries are those of the `Add` call that pooled it: after a
successful `Add t` with data `d` at height `f.height`, and as long as `t` is not added again, `TryGetData` returns
`d` whenever `t` is still pooled. -/
theorem data_of_last_add {U : Tx → Prop} (hw : WF U) (c : Nat) (pre mid : List Op) (t : Tx) (f : Feer) (d : Nat)
    (ho : OpsIn U (pre ++ [.add t f d] ++ mid)) (hs : (add (run c pre) t f d).2 = none) (hn : NoAddOf t.id mid)
    (hp : t ∈ (run c (pre ++ [.add t f d] ++ mid)).txs) :
    tryGetData (run c (pre ++ [.add t f d] ++ mid)) t.id = some d ∧
    (run c (pre ++ [.add t f d] ++ mid)).stamp t.id = f.height := by
  obtain ⟨h1, h2⟩ := stamp_data_after_add c pre mid t f d hs hn
  refine ⟨?_, h1⟩
  have := (index_maps_reachable hw c _ ho).2.2.2.1 t hp
  rw [this, h2]

/-! ## 6. The fee-per-byte policy -/

/-- One `RemoveStale`, any state: the pool's policy value becomes max(old, the `Feer`'s); only transactions of the
old list for which `isOK` holds are kept; if the value was raised, every kept transaction pays it. -/
theorem policy_refresh (mp : Pool) (isOK : Tx → Bool) (feer : Feer) :
    (removeStale mp isOK feer).feePerByte = max mp.feePerByte feer.feePerByte ∧
    (∀ t ∈ (removeStale mp isOK feer).txs, t ∈ mp.txs ∧ isOK t = true) ∧
    (mp.feePerByte < feer.feePerByte → ∀ t ∈ (removeStale mp isOK feer).txs, feer.feePerByte ≤ t.feePerByte) := by
  obtain ⟨h1, h2, h3⟩ := removeStale_policy mp isOK feer
  refine ⟨h1, h2, ?_⟩
  intro hlt t ht
  have := h3 hlt t ht
  rw [h1] at this
  omega

/-- After any sequence the pool's policy value is the maximum of the values seen by `RemoveStale` (a ratchet). -/
theorem policy_value_reachable {U : Tx → Prop} (hw : WF U) (c : Nat) (ops : List Op) (ho : OpsIn U ops) :
    (run c ops).feePerByte = policySeen ops 0 :=
  policy_value_foldl hw ops (new c) (Mempool.inv_new U c) ho

/-- If the policy the chain reports never decreases along the sequence and every `Add` offers a transaction that
pays the policy reported at that moment (blockchain.go:3025-3029), then after ANY such sequence every pooled
transaction pays the policy in force (the value of the last `RemoveStale`, `policy_value_reachable`). -/
theorem policy_reachable {U : Tx → Prop} (hw : WF U) (c : Nat) (ops : List Op) (ho : OpsIn U ops)
    (ha : PolicyAdmissible 0 ops) : ∀ t ∈ (run c ops).txs, (run c ops).feePerByte ≤ t.feePerByte :=
  policyOk_foldl hw ops (new c) 0 (Mempool.inv_new U c) ho (fun t ht => by cases ht) (Nat.le_refl 0) ha

/-! ## 7. The resend rule over histories -/

/-- `age`: the uint32 difference `height - blockStamp`; the rule `diff % threshold == 0 && OnesCount32(diff /
threshold) == 1` holds iff the age is `threshold * 2^k` for some `k`. -/
theorem resend_rule (thr height stamp : Nat) :
    dueForResend thr height stamp = true ↔ thr ≠ 0 ∧ ∃ k, age height stamp = thr * 2 ^ k :=
  dueForResend_iff thr height stamp

/-- For all histories: `t` was pooled by `Add` at height `f.height` with data `d` and not added again; at a later
`RemoveStale` at height `F.height` the resend callback is called for `t` iff `t` is kept and its age
`F.height - f.height` (mod 2^32) is `resendThreshold * 2^k`; it is called with the data `d`, and at most once. -/
theorem resend_schedule {U : Tx → Prop} (hw : WF U) (c : Nat) (pre mid : List Op) (t : Tx) (f : Feer) (d : Nat)
    (isOK : Tx → Bool) (F : Feer) (ho : OpsIn U (pre ++ [.add t f d] ++ mid)) (hF : FeerOk F)
    (hs : (add (run c pre) t f d).2 = none) (hn : NoAddOf t.id mid) (d' : Nat) :
    let mp := run c (pre ++ [.add t f d] ++ mid)
    ((t.id, d') ∈ (removeStale mp isOK F).resent ↔
      t ∈ (removeStale mp isOK F).txs ∧ d' = d ∧ mp.resendThreshold ≠ 0 ∧
        ∃ k, age F.height f.height = mp.resendThreshold * 2 ^ k) ∧
    ((removeStale mp isOK F).resent.map (·.1)).Nodup := by
  intro mp
  have hi : Inv U mp := Mempool.inv_reachable hw c _ ho
  have ht : U t := by
    have := ho (.add t f d) (by simp)
    exact this.1
  obtain ⟨h1, h2⟩ := stamp_data_after_add c pre mid t f d hs hn
  have := resent_iff hw hi isOK F hF t ht d'
  rw [h1, h2] at this
  exact ⟨this, resent_nodup hw hi isOK F hF⟩

/-! ## 8. Subscription events -/

/-- For all sequences that start the subscriptions on the fresh pool and never switch them: the event stream
replays STRICTLY (every added event names a hash that is not pooled at that point of the stream, every removed
event a hash that is, with the data it was added with) and the replay ends in exactly the pool content
(hash ↦ data). So every successful `Add` sent one added event, every transaction that left the pool - by
`Remove`, replacement, eviction or `RemoveStale` - one removed event, and a failed `Add` none. -/
theorem events_replay {U : Tx → Prop} (hw : WF U) (c : Nat) (ops : List Op) (ho : OpsIn U ops) (hn : NoSubsOp ops) :
    replay (fun _ => none) (run c (.setSubs true :: ops)).events = some (content (run c (.setSubs true :: ops))) := by
  have h0 : Inv U (setSubs (new c) true) := by
    have := Mempool.inv_new U c
    exact ⟨this.noPanic, this.cap, this.list, this.vmap, this.conf, this.orc, this.fees⟩
  obtain ⟨evs, h⟩ := evStep_foldl hw ops (setSubs (new c) true) h0 ho hn
  show replay _ (ops.foldl applyOp (setSubs (new c) true)).events = some (content (ops.foldl applyOp (setSubs (new c) true)))
  rw [h.events]
  have : (setSubs (new c) true).subsOn = true := rfl
  rw [this]
  simp only [if_true]
  have he : (setSubs (new c) true).events = [] := rfl
  rw [he, List.nil_append]
  exact h.replay

/-- ... hence per hash: (number of added events) = (number of removed events) + (1 if pooled now, else 0). -/
theorem events_balance {U : Tx → Prop} (hw : WF U) (c : Nat) (ops : List Op) (ho : OpsIn U ops) (hn : NoSubsOp ops)
    (id : Nat) :
    let mp := run c (.setSubs true :: ops)
    countEv true id mp.events = countEv false id mp.events + (if (mp.vmap id).isSome then 1 else 0) := by
  intro mp
  have := replay_counts _ _ _ (events_replay hw c ops ho hn) id
  simp only [Option.isSome_none, Bool.false_eq_true, if_false, Nat.add_zero] at this
  rw [this]
  unfold content
  cases (run c (.setSubs true :: ops)).vmap id <;> rfl

/-- With subscriptions off nothing is ever sent. -/
theorem no_events_without_subscription {U : Tx → Prop} (hw : WF U) (c : Nat) (ops : List Op) (ho : OpsIn U ops)
    (hn : NoSubsOp ops) : (run c ops).events = [] := by
  obtain ⟨evs, h⟩ := evStep_foldl hw ops (new c) (Mempool.inv_new U c) ho hn
  show (ops.foldl applyOp (new c)).events = []
  rw [h.events]
  rfl

/-! ## 9. Capacity and eviction, at full strength -/

/-- In every reachable pool, for a transaction `t` that is not related to a pooled one (no common hash, no
Conflicts attribute either way, no pooled response to the same oracle request) and whose payer can pay
`t.fee` on top of its pooled fees: `Add` returns ErrOOM iff the pool is full and no pooled transaction ranks
below `t`; in every other case it succeeds; and the new list is the old one - without its last item if the pool
was full - with `t` inserted at the computed index. -/
theorem capacity_decision {U : Tx → Prop} (hw : WF U) (c : Nat) (ops : List Op) (ho : OpsIn U ops) {t : Tx} (ht : U t)
    (feer : Feer) (hF : FeerOk feer) (d : Nat) (hun : Unrelated (run c ops) t)
    (hpay : t.fee + sumFees (payerOf t) (run c ops).txs ≤ (getPayerFee (payerOf t) (run c ops).fees feer).1.balance) :
    let mp := run c ops
    ((add mp t feer d).2 = some .oom ↔ (mp.txs.length = c ∧ ∀ x ∈ mp.txs, ge x t)) ∧
    ((add mp t feer d).2 ≠ some .oom → (add mp t feer d).2 = none) ∧
    ((add mp t feer d).2 = none →
      (add mp t feer d).1.txs =
        (if mp.txs.length = c then mp.txs.dropLast else mp.txs).take (insertIdx mp.txs t) ++ [t] ++
        (if mp.txs.length = c then mp.txs.dropLast else mp.txs).drop (insertIdx mp.txs t)) := by
  intro mp
  have hi : Inv U mp := Mempool.inv_reachable hw c ops ho
  have hcap : mp.capacity = c := capacity_run hw c ops ho
  obtain ⟨h1, h2, h3⟩ := add_unrelated_spec hw hi ht feer hF d hun hpay
  rw [hcap] at h1 h3
  exact ⟨h1, h2, fun hs => (h3 hs).2⟩

/-- ... and when such an `Add` succeeds on a FULL reachable pool: exactly one transaction leaves, it is the last
(lowest-priority) one and ranks strictly below `t`; its fee is released from its payer's sum and `t`'s fee is
added to its payer's; the cached sums of the new pool are the sums over the new list. (The invariant of the new
pool - `inv_add` - says the same for verifiedMap, conflicts and oracleResp: no trace of the evicted transaction.) -/
theorem eviction_exact {U : Tx → Prop} (hw : WF U) (c : Nat) (ops : List Op) (ho : OpsIn U ops) {t : Tx} (ht : U t)
    (feer : Feer) (hF : FeerOk feer) (d : Nat) (hun : Unrelated (run c ops) t)
    (hpay : t.fee + sumFees (payerOf t) (run c ops).txs ≤ (getPayerFee (payerOf t) (run c ops).fees feer).1.balance)
    (hfull : (run c ops).txs.length = c) (hs : (add (run c ops) t feer d).2 = none) :
    let mp := run c ops
    ∃ base last, mp.txs = base ++ [last] ∧ 0 < compare t last ∧
      (add mp t feer d).1.txs.Perm (t :: base) ∧ last ∉ (add mp t feer d).1.txs ∧
      (∀ x ∈ mp.txs, x ∉ (add mp t feer d).1.txs → x = last) ∧
      (∀ q, sumFees q (add mp t feer d).1.txs + (if payerOf last = q then last.fee else 0)
          = sumFees q mp.txs + (if payerOf t = q then t.fee else 0)) ∧
      (∀ q f, (add mp t feer d).1.fees q = some f → f.feeSum = sumFees q (add mp t feer d).1.txs) := by
  intro mp
  have hi : Inv U mp := Mempool.inv_reachable hw c ops ho
  have hcap : mp.capacity = c := capacity_run hw c ops ho
  exact add_full_evicts_last hw hi ht feer hF d hun hpay (by rw [hcap]; exact hfull) hs

/-- Whenever `Add` returns ErrOOM (any transaction, related or not): the pool was full, nothing was removed, and
no pooled transaction ranks below the new one. -/
theorem oom_only_when_lowest {U : Tx → Prop} (hw : WF U) {mp : Pool} (hi : Inv U mp) {t : Tx} (ht : U t) (feer : Feer)
    (hF : FeerOk feer) (d : Nat) {mp' : Pool} (h : add mp t feer d = (mp', some .oom)) :
    mp.txs.length = mp.capacity ∧ (∀ x ∈ mp.txs, ge x t) ∧ mp'.txs = mp.txs := by
  obtain ⟨h1, _, h3⟩ := (add_spec hw hi ht feer hF d).1 mp' .oom h
  exact ⟨(h3 rfl).1, (h3 rfl).2, h1.1⟩

/-! ## 10. Concurrency at method granularity -/

/-- Clients call the pool concurrently; every call is one atomic step (the pool's mutex). For EVERY schedule:
the final pool is that of the sequential history `l` of the calls in the order of their critical sections;
every call returned what it returns in that sequential history; `l` keeps every client's program order; and the
invariant holds (the schedule being arbitrary: after every step). -/
theorem linearizable {U : Tx → Prop} (hw : WF U) (cap : Nat) (progs : List (List Op)) (s : List Nat) (cf : Conf)
    (h : (Conf.init cap progs).exec s = some cf) :
    cf.pool = run cap (cf.hist.map (·.op)) ∧
    cf.hist.map (·.res) = (seqRun (new cap) (cf.hist.map (·.op))).2 ∧
    (∀ i, (progs[i]?).getD [] = proj i cf.hist ++ (cf.progs[i]?).getD []) ∧
    ((∀ p ∈ progs, ∀ op ∈ p, OpOk U op) → Inv U cf.pool) :=
  Mempool.linearizable hw cap progs s cf h

/-! ## 11. The order of the checks of `Add`, tied to the source -/

/-- The step tables regenerated from mem_pool.go on this run (go/ast: every if-condition, error return, state
change, loop, lock operation of Add with checkTxConflicts/checkBalance inlined, of the removal helpers, of
RemoveStale, tryAddSendersFee, loadPolicy, checkPolicy, Compare, getPayer, TryGetData, in source order) are
the ones the model was written against. -/
theorem source_tables_pinned :
    Generated.MempoolAdd.steps = Expected.steps ∧
    Generated.MempoolAdd.errOrder = Expected.errOrder ∧
    Generated.MempoolAdd.removeInternalSteps = Expected.removeInternalSteps ∧
    Generated.MempoolAdd.removeFromMapSteps = Expected.removeFromMapSteps ∧
    Generated.MempoolAdd.removeConflictsOfSteps = Expected.removeConflictsOfSteps ∧
    Generated.MempoolAdd.removeStaleSteps = Expected.removeStaleSteps ∧
    Generated.MempoolAdd.tryAddSendersFeeSteps = Expected.tryAddSendersFeeSteps ∧
    Generated.MempoolAdd.loadPolicySteps = Expected.loadPolicySteps ∧
    Generated.MempoolAdd.checkPolicySteps = Expected.checkPolicySteps ∧
    Generated.MempoolAdd.compareSteps = Expected.compareSteps ∧
    Generated.MempoolAdd.getPayerSteps = Expected.getPayerSteps ∧
    Generated.MempoolAdd.tryGetDataSteps = Expected.tryGetDataSteps ∧
    Generated.MempoolAdd.conflictsAttrSteps = Expected.conflictsAttrSteps := tables_pinned

/-- The error the model's `Add` returns is the first failing check in the order of the error returns of the
SOURCE (the regenerated `errOrder`): ErrDup, ErrConflictsAttribute (no common signer), ErrConflictsAttribute
(conflicting fee), ErrInsufficientFunds, ErrConflict, ErrOracleResponse, ErrOOM - each check a condition of its
own on the pool and the transaction. -/
theorem add_error_order {U : Tx → Prop} (hw : WF U) {mp : Pool} (hi : Inv U mp) {t : Tx} (ht : U t) (feer : Feer)
    (hF : FeerOk feer) (d : Nat) :
    (add mp t feer d).2 = firstFail (addChecks mp t feer d) ∧
    (addChecks mp t feer d).map (fun c => some c.1) = Generated.MempoolAdd.errOrder.map errOfName :=
  ⟨Mempool.add_error_order hw hi ht feer hF d, addChecks_order mp t feer d⟩

/-! ## 12. The exact outcome of a successful `Add`, related transactions included -/

/-- For EVERY successful `Add` on a pool satisfying the invariant (hence on every reachable pool): let `L` be the
old list without the transactions related to `t` (those naming `t` or named by `t` in a Conflicts attribute, and
the pooled response to the same oracle request). The new list is `L` - without its last item if `L` still fills
the pool - with `t` inserted at the index `Add` computes on `L`. -/
theorem add_exact_list {U : Tx → Prop} (hw : WF U) {mp : Pool} (hi : Inv U mp) {t : Tx} (ht : U t) (feer : Feer)
    (hF : FeerOk feer) {d : Nat} {mp' : Pool} (h : add mp t feer d = (mp', none)) :
    ∃ L : List Tx, L.Sublist mp.txs ∧ (∀ x ∈ mp.txs, x ∈ L ↔ ¬ Related t x) ∧
      mp'.txs = (if L.length = mp.capacity then L.dropLast else L).take (insertIdx L t) ++ [t] ++
        (if L.length = mp.capacity then L.dropLast else L).drop (insertIdx L t) := by
  obtain ⟨_, _, _, _, _, _, h7⟩ := (add_spec hw hi ht feer hF d).2 mp' h
  exact h7

/-- ... so a transaction that disappears without being related to `t` is THE last item of what the conflict
resolution left, and that remainder filled the pool: `Add` evicts at most one unrelated transaction, the
lowest-priority one, and only from a full pool - whatever else the same call replaces. -/
theorem evicts_exactly_last {U : Tx → Prop} (hw : WF U) {mp : Pool} (hi : Inv U mp) {t : Tx} (ht : U t) (feer : Feer)
    (hF : FeerOk feer) {d : Nat} {mp' : Pool} (h : add mp t feer d = (mp', none)) :
    ∃ L : List Tx, L.Sublist mp.txs ∧ (∀ x ∈ mp.txs, x ∈ L ↔ ¬ Related t x) ∧
      ∀ x ∈ mp.txs, x ∉ mp'.txs → ¬ Related t x → L.length = mp.capacity ∧ L.getLast? = some x := by
  obtain ⟨L, h1, h2, h3⟩ := add_exact_list hw hi ht feer hF h
  refine ⟨L, h1, h2, ?_⟩
  intro x hx hnx hnr
  have hxl : x ∈ L := (h2 x hx).mpr hnr
  have hall : ∀ (B : List Tx), x ∈ B → x ∈ B.take (insertIdx L t) ++ [t] ++ B.drop (insertIdx L t) := by
    intro B hb
    have : x ∈ B.take (insertIdx L t) ++ B.drop (insertIdx L t) := by rw [List.take_append_drop]; exact hb
    rcases List.mem_append.mp this with h' | h'
    · exact List.mem_append.mpr (Or.inl (List.mem_append.mpr (Or.inl h')))
    · exact List.mem_append.mpr (Or.inr h')
  by_cases hfull : L.length = mp.capacity
  · refine ⟨hfull, ?_⟩
    rw [if_pos hfull] at h3
    have hnd : x ∉ L.dropLast := fun hd => hnx (by rw [h3]; exact hall _ hd)
    have hne : L ≠ [] := by intro e; rw [e] at hxl; cases hxl
    obtain ⟨u, hu⟩ : ∃ u, L.getLast? = some u := by
      cases hg : L.getLast? with
      | none => exact absurd (List.getLast?_eq_none_iff.mp hg) hne
      | some u => exact ⟨u, rfl⟩
    obtain ⟨base, hbase⟩ := List.getLast?_eq_some_iff.mp hu
    rw [hu]
    rw [hbase, List.dropLast_concat] at hnd
    rw [hbase] at hxl
    rcases List.mem_append.mp hxl with h' | h'
    · exact absurd h' hnd
    · rw [List.mem_singleton.mp h']
  · rw [if_neg hfull] at h3
    exact absurd (by rw [h3]; exact hall _ hxl) hnx

/-! ## 13. The event stream under concurrency (the added event is sent after the unlock) -/

/-- A call of `Add` is two steps: its critical section (removed events delivered at once) and, later, the
delivery of its TransactionAdded event; other clients run critical sections in between. For EVERY schedule:
the pool is the atomic pool of the calls in lock order; the removed events are delivered in lock order (the
removed-subsequence of the delivered stream is that of the atomic stream); the delivered stream together with the
events in flight is a permutation of the atomic stream; everything in flight is an added event; and once nothing
is in flight, per hash #added = #removed + (1 if pooled). -/
theorem async_events {U : Tx → Prop} (hw : WF U) (cap : Nat) (progs : List (List Op)) (s : List Nat) (cf : AConf)
    (hok : ∀ p ∈ progs, ∀ op ∈ p, OpOk U op ∧ ∀ on, op ≠ .setSubs on)
    (h : (AConf.init cap progs).exec s = some cf) :
    cf.pool = cf.hist.foldl applyOp (setSubs (new cap) true) ∧
    cf.delivered.filter notAdded = cf.pool.events.filter notAdded ∧
    (cf.delivered ++ cf.flight.map (·.2)).Perm cf.pool.events ∧
    (∀ x ∈ cf.flight, x.2.added = true) ∧
    (cf.flight = [] → ∀ id,
      countEv true id cf.delivered = countEv false id cf.delivered + (if (cf.pool.vmap id).isSome then 1 else 0)) := by
  have hinv := ainv_exec hw s _ cf (ainv_init U cap progs hok) h
  refine ⟨apool_exec s _ cf _ rfl h, hinv.removedOrder, hinv.perm, hinv.flightAdded, ?_⟩
  intro hfl id
  have hp : cf.delivered.Perm cf.pool.events := by
    have := hinv.perm
    rw [hfl] at this
    simpa using this
  rw [countEv_perm true id hp, countEv_perm false id hp]
  have := replay_counts _ _ _ hinv.replays id
  simp only [Option.isSome_none, Bool.false_eq_true, if_false, Nat.add_zero] at this
  rw [this]
  unfold content
  cases cf.pool.vmap id <;> rfl

/-! ## 14. The policy without any hypothesis on the reported values -/

theorem policy_raise_foldl {U : Tx → Prop} (hw : WF U) (tid v0 : Nat) : ∀ (ops : List Op) (mp : Pool), Inv U mp →
    OpsIn U ops → NoAddOf tid ops →
    (mp.feePerByte = v0 ∨ ∀ x ∈ mp.txs, x.id = tid → mp.feePerByte ≤ x.feePerByte) →
    ((ops.foldl applyOp mp).feePerByte = v0 ∨
      ∀ x ∈ (ops.foldl applyOp mp).txs, x.id = tid → (ops.foldl applyOp mp).feePerByte ≤ x.feePerByte) := by
  intro ops
  induction ops with
  | nil => intro mp _ _ _ h; exact h
  | cons op ops ih =>
    intro mp hi ho hn hj
    rw [List.foldl_cons]
    have hop := ho op List.mem_cons_self
    apply ih _ (inv_applyOp hw hi op hop) (fun o h => ho o (List.mem_cons_of_mem _ h))
      (fun t f d h => hn t f d (List.mem_cons_of_mem _ h))
    cases op with
    | removeStale isOK f =>
      obtain ⟨a1, a2, a3⟩ := removeStale_policy mp isOK f
      show (removeStale mp isOK f).feePerByte = v0 ∨ _
      by_cases hr : mp.feePerByte < f.feePerByte
      · exact Or.inr (fun x hx _ => a3 hr x hx)
      · have hsame : (removeStale mp isOK f).feePerByte = mp.feePerByte := by rw [a1]; omega
        rcases hj with h | h
        · exact Or.inl (by rw [hsame]; exact h)
        · refine Or.inr (fun x hx hid => ?_)
          show (removeStale mp isOK f).feePerByte ≤ _
          rw [hsame]; exact h x (a2 x hx).1 hid
    | add t f d =>
      obtain ⟨p1, p2⟩ := policy_applyOp hw hi (.add t f d) hop (fun _ _ h => Op.noConfusion h)
      rcases hj with h | h
      · exact Or.inl (by rw [p1]; exact h)
      · refine Or.inr (fun x hx hid => ?_)
        rw [p1]
        rcases p2 x hx with h' | ⟨f', d', h'⟩
        · exact h x h' hid
        · injection h' with e1 _ _
          exact absurd (by rw [e1]; exact hid) (hn t f d List.mem_cons_self)
    | remove hh =>
      obtain ⟨p1, p2⟩ := policy_applyOp hw hi (.remove hh) hop (fun _ _ h => Op.noConfusion h)
      rcases hj with h | h
      · exact Or.inl (by rw [p1]; exact h)
      · refine Or.inr (fun x hx hid => ?_)
        rw [p1]
        rcases p2 x hx with h' | ⟨f', d', h'⟩
        · exact h x h' hid
        · cases h'
    | verify t f =>
      obtain ⟨p1, p2⟩ := policy_applyOp hw hi (.verify t f) hop (fun _ _ h => Op.noConfusion h)
      rcases hj with h | h
      · exact Or.inl (by rw [p1]; exact h)
      · refine Or.inr (fun x hx hid => ?_)
        rw [p1]
        rcases p2 x hx with h' | ⟨f', d', h'⟩
        · exact h x h' hid
        · cases h'
    | setResendThreshold hh => exact hj
    | setSubs on => exact hj

/-- No hypothesis on the policy values the `Feer`s report, none on what `Add` is offered: if the pool's policy
value has been raised since `t` was pooled (and `t` was not added again), then `t`, if still pooled, pays the
value now in force. (Together with `policy_value_reachable`: a transaction can stay below the value in force
only if that value was already in force when it was added - the ratchet case of the witness.) -/
theorem policy_after_raise {U : Tx → Prop} (hw : WF U) (c : Nat) (pre mid : List Op) (t : Tx) (f : Feer) (d : Nat)
    (ho : OpsIn U (pre ++ [.add t f d] ++ mid)) (hn : NoAddOf t.id mid)
    (hraised : (run c pre).feePerByte < (run c (pre ++ [.add t f d] ++ mid)).feePerByte)
    (hp : t ∈ (run c (pre ++ [.add t f d] ++ mid)).txs) :
    (run c (pre ++ [.add t f d] ++ mid)).feePerByte ≤ t.feePerByte := by
  have ho1 : OpsIn U (pre ++ [.add t f d]) := fun o h => ho o (List.mem_append.mpr (Or.inl h))
  have ho2 : OpsIn U mid := fun o h => ho o (List.mem_append.mpr (Or.inr h))
  have hopre : OpsIn U pre := fun o h => ho1 o (List.mem_append.mpr (Or.inl h))
  have hi1 : Inv U (run c (pre ++ [.add t f d])) := Mempool.inv_reachable hw c _ ho1
  have hv : (run c (pre ++ [.add t f d])).feePerByte = (run c pre).feePerByte := by
    have hipre : Inv U (run c pre) := Mempool.inv_reachable hw c _ hopre
    have := (policy_applyOp hw hipre (.add t f d) (ho1 _ (by simp)) (fun _ _ h => Op.noConfusion h)).1
    unfold run at this ⊢
    rw [List.foldl_append]; exact this
  have hrun : run c (pre ++ [.add t f d] ++ mid) = mid.foldl applyOp (run c (pre ++ [.add t f d])) := by
    unfold run; rw [List.foldl_append]
  have := policy_raise_foldl hw t.id (run c pre).feePerByte mid _ hi1 ho2 hn (Or.inl hv)
  rw [← hrun] at this
  rcases this with h | h
  · rw [h] at hraised; exact absurd hraised (Nat.lt_irrefl _)
  · exact h t hp rfl

/-! ## 15. Which well-formedness hypotheses the caller of `Add` establishes -/

/-- The ConflictsT case of `verifyTxAttributes` (modelled loop `dupScan`, pinned by the regenerated step table
`conflictsAttrSteps`; called before `pool.Add`: `GoFuncsTie.pool_add_after_attributes`) lets a transaction through
iff it does not repeat a Conflicts hash. -/
theorem attribute_check_iff_nodup (cs : List Nat) : conflictsAttrsOk cs = true ↔ cs.Nodup := conflictsAttrsOk_iff cs

/-- C08 invariant with that check in the model (`runC`: an `Add` reaches the pool only through it): of the offered
transactions only hash-likeness of the ids is assumed (`HashLike`: the id determines the transaction, two
transactions cannot name each other) - the hypothesis `WF.confNodup` of `inv_reachable` is gone. `runC_eq_run`
transfers every other theorem about `run` the same way. -/
theorem inv_reachable_hashlike {U : Tx → Prop} (h : HashLike U) (c : Nat) (ops : List Op)
    (ho : ∀ op ∈ ops, OpOfferedOk U op) :
    Inv (Admitted U) (runC c ops) ∧ runC c ops = run c (ops.filter reaches) :=
  ⟨inv_reachable_admitted h c ops ho, runC_eq_run c ops⟩

/-! ## 16. The transactions an `Add` is about to remove: each once -/

/-- On every pool satisfying the invariant, when `checkTxConflicts` succeeds: the list `conflictsToBeRemoved` has no
duplicate (a pooled transaction that both names the incoming one and is named by it, or is found by step 1 and
step 2 for any other reason, would appear twice - it cannot), it consists of exactly the pooled transactions tied
to the incoming one by a Conflicts attribute in either direction, and the fee sum the balance check uses
(`expectedPayerFee.feeSum`, step 3) is the payer's pooled fees with the fee of every one of ITS transactions in that
list taken off exactly once: it equals the payer's fee sum over the pool without the listed transactions. -/
theorem conflict_removal_once {U : Tx → Prop} (hw : WF U) {mp : Pool} (hi : Inv U mp) {t : Tx} (ht : U t) (feer : Feer)
    (hF : FeerOk feer) {mp1 : Pool} {rm : List Tx} (h : checkTxConflicts mp t feer = (mp1, .ok rm)) :
    (rm.map (·.id)).Nodup ∧ rm.Nodup ∧
    (∀ e ∈ mp.txs, e ∈ rm ↔ (t.id ∈ e.conflicts ∨ e.id ∈ t.conflicts)) ∧ (∀ c ∈ rm, c ∈ mp.txs) ∧
    expectedFeeSum (payerOf t) rm (sumFees (payerOf t) mp.txs)
      = sumFees (payerOf t) (mp.txs.filter (fun x => !(rm.map (·.id)).contains x.id)) := by
  obtain ⟨actual, _, hent, _, hrm1, hrmrel, hrmnd, hrm3, hrm4, _⟩ := checkTxConflicts_ok hw hi ht feer hF h
  refine ⟨hrmnd, List.Pairwise.of_map (·.id) (fun a b h e => h (by rw [e])) hrmnd, ?_, hrm1, ?_⟩
  · intro e he
    constructor
    · exact hrmrel e
    · rintro (h' | h')
      · exact hrm3 e he h'
      · exact hrm4 e he h'
  · apply expectedFeeSum_eq (payerOf t) rm mp.txs hi.list.nodup hrm1 hrmnd
    simp only [FeeEntry] at hent
    have := two_H256
    unfold U256 at *
    omega

/-! ## Non-vacuity -/

section Examples

-- index_maps_reachable / data_of_last_add: the demo run of the first part, with data
example : tryGetData (run 3 [.add a0 F 11, .add b0 F 12, .add c0 F 13]) 1 = some 12 := by decide
example :
    tryGetData (run 3 ([.add a0 F 11] ++ [.add b0 F 12] ++ [.add c0 F 13, .remove 0])) b0.id = some 12 ∧
    (run 3 ([.add a0 F 11] ++ [.add b0 F 12] ++ [.add c0 F 13, .remove 0])).stamp b0.id = F.height :=
  data_of_last_add wf_univ 3 [.add a0 F 11] [.add c0 F 13, .remove 0] b0 F 12
    (by intro op hop; simp at hop; rcases hop with rfl | rfl | rfl | rfl <;> simp [OpOk, univ, feerOk_F])
    (by decide) (by intro t f d h; simp at h; rcases h with ⟨rfl, _, _⟩; decide) (by decide)
-- the search of TryGetData among equal priorities: three items with the same key, the middle one is found
def e1 : Tx := { a0 with id := 21, signers := [2] }
def e2 : Tx := { a0 with id := 22, signers := [2] }
def e3 : Tx := { a0 with id := 23, signers := [2] }
example : let mp := run 5 [.add e1 F 1, .add e2 F 2, .add e3 F 3, .add c0 F 4]
    (mp.txs.map (·.id), tryGetData mp 22, tryGetData mp 23, tryGetData mp 24) = ([3, 21, 22, 23], some 2, some 3, none) := by
  decide

-- policy: F1/F3/F5 report fee-per-byte 1/3/5; p1 pays 1, p4 pays 4
def F1 : Feer := { F with feePerByte := 1 }
def F3 : Feer := { F with feePerByte := 3 }
def F5 : Feer := { F with feePerByte := 5 }
def p1 : Tx := { id := 31, sysFee := 0, netFee := 100, size := 100, signers := [2], high := false, conflicts := [], oracle := none }
def p4 : Tx := { id := 34, sysFee := 0, netFee := 400, size := 100, signers := [2], high := false, conflicts := [], oracle := none }
def polUniv : List Tx := [p1, p4]
theorem wf_polUniv : WF (· ∈ polUniv) := wf_of_list polUniv (by decide) (by decide) (by decide)
theorem feerOk_with (fpb h : Nat) : FeerOk { F with feePerByte := fpb, height := h } := feerOk_F
-- policy_reachable applies (non-decreasing policy 1, 1, 3; admissible adds): p1 is dropped by the raise to 3
example : PolicyAdmissible 0 [.add p1 F1, .add p4 F1, .removeStale (fun _ => true) F3] := by
  simp [PolicyAdmissible, F1, F3, p1, p4, Tx.feePerByte, F]
example : (run 4 [.add p1 F1, .add p4 F1, .removeStale (fun _ => true) F3]).txs.map (·.id) = [34] := by decide
-- the ratchet (why the hypothesis of policy_reachable is needed): the chain policy goes 5, 1, 3; the pool's
-- value stays 5 (policy_value_reachable), the refresh at 3 checks nothing, p1 (pays 1) stays pooled under policy 3
example :
    let mp := run 4 [.removeStale (fun _ => true) F5, .add p1 F1, .removeStale (fun _ => true) F3]
    (mp.feePerByte, mp.txs.map (·.id), mp.txs.map (·.feePerByte)) = (5, [31], [1]) := by decide

-- resend_rule / resend_schedule: threshold 2, pooled at height 5: due at ages 2, 4, 8 and not 1, 3, 5, 6, 7
example : (List.range 10).map (fun a => dueForResend 2 (5 + a) 5) =
    [false, false, true, false, true, false, false, false, true, false] := by decide
-- the age is computed in uint32: stamp 2^32-1, height 1 is age 2
example : dueForResend 2 1 (2 ^ 32 - 1) = true := by decide
example : let mp := run 3 [.setResendThreshold 2, .add a0 { F with height := 5 } 77, .add b0 { F with height := 6 } 78]
    ((removeStale mp (fun _ => true) { F with height := 9 }).resent,
     (removeStale mp (fun _ => true) { F with height := 10 }).resent) = ([(0, 77)], [(1, 78)]) := by decide

-- events_replay: the demo run with subscriptions: replacement, eviction, removal, refresh
def evOps : List Op :=
  [.add a0 F 1, .add b0 F 2, .add a1 F 3, .add c0 F 4, .verify c1 F, .add c1 F 5, .remove 1, .removeStale (fun _ => true) F', .add b0 F' 6]
example : (run 3 (.setSubs true :: evOps)).events =
    [⟨true, 0, 1⟩, ⟨true, 1, 2⟩, ⟨true, 3, 4⟩, ⟨false, 3, 4⟩, ⟨false, 0, 1⟩, ⟨true, 4, 5⟩, ⟨false, 1, 2⟩, ⟨true, 1, 6⟩] := by
  decide
example : NoSubsOp evOps := by intro on h; simp [evOps] at h
example : (run 3 evOps).events = [] := by decide

-- capacity_decision / eviction_exact: capacity 2, pool [a0, b0] full; c0 outranks b0 and evicts it; d0 does not
def d0 : Tx := { id := 41, sysFee := 0, netFee := 5, size := 100, signers := [2], high := false, conflicts := [], oracle := none }
example : (add (run 2 [.add a0 F, .add b0 F]) d0 F 0).2 = some .oom := by decide
theorem unrelated_c0 : Unrelated (run 2 [.add a0 F, .add b0 F]) c0 := by
  have hl : (run 2 [.add a0 F, .add b0 F]).txs = [a0, b0] := by decide
  refine ⟨by rw [hl]; decide, by rw [hl]; decide, by rw [hl]; decide, ?_⟩
  rw [hl]
  intro i _ e he
  simp only [List.mem_cons, List.not_mem_nil, or_false] at he
  rcases he with rfl | rfl <;> simp [a0, b0]
theorem ops_ab : OpsIn (· ∈ univ) [.add a0 F, .add b0 F] := by
  intro op hop; simp at hop; rcases hop with rfl | rfl <;> simp [OpOk, univ, feerOk_F]
-- both theorems apply to it (full pool, c0 ranks above b0): not ErrOOM, b0 leaves, its fee is released
example := capacity_decision wf_univ 2 [.add a0 F, .add b0 F] ops_ab (t := c0) (by simp [univ]) F feerOk_F 0 unrelated_c0 (by decide)
example := eviction_exact wf_univ 2 [.add a0 F, .add b0 F] ops_ab (t := c0) (by simp [univ]) F feerOk_F 0 unrelated_c0 (by decide)
  (by decide) (by decide)
example : ((add (run 2 [.add a0 F, .add b0 F]) c0 F 0).1.txs.map (·.id),
    (add (run 2 [.add a0 F, .add b0 F]) c0 F 0).1.fees (1, 6)) = ([3, 0], some { balance := 100, feeSum := 0 }) := by decide

-- linearizable: two clients, the schedule 0,1,1,0
example : ((Conf.init 2 [[.add a0 F, .add c0 F], [.add b0 F, .remove 0]]).exec [0, 1, 1, 0]).map
    (fun cf => (cf.pool.txs.map (·.id), cf.hist.map (·.client))) = some ([3, 1], [0, 1, 1, 0]) := by decide

-- add_error_order: a transaction that fails two checks at once gets the earlier error:
-- o7 is a response to the pooled request 7 with a lower fee AND its payer (account 9) has no funds
def o7 : Tx := { id := 51, sysFee := 0, netFee := 300, size := 100, signers := [9], high := false, conflicts := [], oracle := some 7 }
example : let mp := run 3 [.add c0 F]
    (cFunds mp o7 F, cOracle mp o7, (add mp o7 F 0).2) = (true, true, some .funds) := by decide

-- add_exact_list / evicts_exactly_last: capacity 3, pool [c0 (oracle 7), a0, b0] full; c1 conflicts with a0 and answers request 7 with a
-- higher fee: L = [b0] (a0 and c0 are related), nothing unrelated is evicted
example : ((add (run 3 [.add a0 F, .add b0 F, .add c0 F]) c1 F 0).1.txs.map (·.id), (add (run 3 [.add a0 F, .add b0 F, .add c0 F]) c1 F 0).2)
    = ([4, 1], none) := by decide
example : Related c1 a0 ∧ Related c1 c0 ∧ ¬ Related c1 b0 := by
  refine ⟨Or.inr (Or.inl (by decide)), Or.inr (Or.inr ⟨by decide, by decide⟩), ?_⟩
  rintro (h | h | ⟨h, _⟩) <;> revert h <;> decide


-- async_events, non-vacuity and the witness: client 0 adds a0, client 1 removes it; schedule: Add's critical section, Remove,
-- then the delivery of the added event: the removed event overtakes it, the delivered stream does not replay
-- strictly although it balances; with the schedule 0,0,1 it replays
example : ((AConf.init 3 [[.add a0 F 1], [.remove 0]]).exec [0, 1, 0]).map
    (fun cf => (cf.delivered, cf.flight, cf.pool.txs.map (·.id), (replay (fun _ => none) cf.delivered).isSome)) =
    some ([⟨false, 0, 1⟩, ⟨true, 0, 1⟩], [], [], false) := by decide
example : ((AConf.init 3 [[.add a0 F 1], [.remove 0]]).exec [0, 0, 1]).map
    (fun cf => (cf.delivered, (replay (fun _ => none) cf.delivered).isSome)) =
    some ([⟨true, 0, 1⟩, ⟨false, 0, 1⟩], true) := by decide
-- an event in flight: after the critical section only
example : ((AConf.init 3 [[.add a0 F 1], [.remove 0]]).exec [0]).map (fun cf => (cf.delivered, cf.flight)) =
    some ([], [(0, ⟨true, 0, 1⟩)]) := by decide


-- inv_reachable_hashlike: a transaction repeating a Conflicts hash is stopped before the pool, the rest goes through
def bad : Tx := { a1 with id := 61, conflicts := [1, 1] }
example : conflictsAttrsOk bad.conflicts = false ∧ conflictsAttrsOk a1.conflicts = true := by decide
example : (runC 3 [.add a0 F, .add bad F, .add b0 F]).txs.map (·.id) = [0, 1] := by decide
-- policy_after_raise: p1 (pays 1) pooled at policy 1, the refresh raises to 3: p1 is gone / p4 (pays 4) stays
example : (run 4 ([.removeStale (fun _ => true) F1] ++ [.add p4 F1] ++ [.removeStale (fun _ => true) F3])).feePerByte = 3 ∧
    p4 ∈ (run 4 ([.removeStale (fun _ => true) F1] ++ [.add p4 F1] ++ [.removeStale (fun _ => true) F3])).txs := by decide


-- conflict_removal_once: the double-reason case of corpus 16: e (response to request 7) is named by t (response to 7 too);
-- the scan lists e once, and a payer with 200 pooled is charged 100 + 150 = 250 for the replacement, not 150
def dE : Tx := { id := 71, sysFee := 0, netFee := 100, size := 100, signers := [2], high := false, conflicts := [], oracle := some 7 }
def dA : Tx := { id := 72, sysFee := 0, netFee := 100, size := 100, signers := [2], high := false, conflicts := [], oracle := none }
def dT : Tx := { id := 73, sysFee := 0, netFee := 150, size := 100, signers := [2], high := false, conflicts := [71], oracle := some 7 }
def F249 : Feer := { F with balance := fun _ _ => 249 }
def F250 : Feer := { F with balance := fun _ _ => 250 }
example : (add (run 4 [.add dA F249, .add dE F249]) dT F249 0).2 = some .conflict := by decide
example : ((add (run 4 [.add dA F250, .add dE F250]) dT F250 0).2, (add (run 4 [.add dA F250, .add dE F250]) dT F250 0).1.txs.map (·.id))
    = (none, [73, 72]) := by decide
example : (match (checkTxConflicts (run 4 [.add dA F250, .add dE F250]) dT F250).2 with
    | .ok rm => rm.map (·.id) | .error _ => []) = [71] := by decide


end Examples

end NeoModel.Mempool.C08
