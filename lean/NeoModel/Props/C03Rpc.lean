/-
C03 — the state RPC methods (getstate, getproof, verifyproof, findstates) against the trie of any
height of any history: property theorems. Model `Model/StateCommit/Rpc.lean`; the proof theorems are
C10's (`proof_complete`, `proof_sound`, `find_spec`) instantiated at `trieAt mptMap bs` and re-read
through `mpt_root_commits` as statements about contract storage.
-/
import NeoModel.Props.C03
import NeoModel.Props.C10
import NeoModel.Model.StateCommit.Rpc
import NeoModel.Props.C03Find
namespace NeoModel.StateCommit.Rpc
open NeoModel.Mpt (Node Path toNibbles fromNibbles lookup rootHash CollFree nodeEncs Bounded under after)

/-- C03.P1: `getstate` at the root of any height returns exactly what contract storage held at that
height under `id ‖ key` (present: the value; absent: the not-found error). -/
theorem makeStorageKey_length (id : Nat) (key : Bytes) : (makeStorageKey id key).length = key.length + 4 := by
  simp [makeStorageKey, Find.le32, Wire.leBytes]

/-- the key domain: every key of up to limits.MaxStorageKeyLen = 64 bytes, the limit included. -/
theorem getstate_commits (bs : List (List Change)) (hok : ∀ b ∈ bs, DistinctKeys b) (id : Nat) (key : Bytes)
    (hlen : key.length ≤ 64) :
    getState (trieAt mptMap bs) id key = storageAt bs (makeStorageKey id key) := by
  unfold getState
  rw [if_neg (by rw [makeStorageKey_length]; unfold maxKeyLength; omega)]
  exact mpt_root_commits bs hok _

/-- C03.P2 (a proof produced for a stored key verifies to the stored value): for every height and
every key contract storage holds there, `getproof` succeeds and `verifyproof` of its answer against
the state root of that height returns the stored value. (`H`: 32-byte output, no collision among
the trie's own node encodings; `Bounded`: the key/value limits of Put, C10.bounded_of_contents.) -/
theorem proof_roundtrip (H : Bytes → Bytes) (h32 : ∀ b, (H b).length = 32)
    (bs : List (List Change)) (hok : ∀ b ∈ bs, DistinctKeys b)
    (hcf : CollFree H (nodeEncs H (trieAt mptMap bs))) (hb : Bounded (trieAt mptMap bs))
    (id : Nat) (key : Bytes) (hlen : key.length ≤ 64) (v : Val)
    (hv : storageAt bs (makeStorageKey id key) = some v) :
    ∃ pk, getProof H (trieAt mptMap bs) id key = some pk ∧
      verifyProof H (rootHash H (trieAt mptMap bs)) pk = some v := by
  have hl : lookup (trieAt mptMap bs) (toNibbles (makeStorageKey id key)) = some v := by
    rw [mpt_root_commits bs hok]; exact hv
  obtain ⟨ps, hps, hver⟩ := NeoModel.C10.proof_complete H h32 _ hcf hb (makeStorageKey id key) v hl
  refine ⟨(makeStorageKey id key, ps), ?_, ?_⟩
  · have : ¬ (makeStorageKey id key).length > maxKeyLength := by
      rw [makeStorageKey_length]; unfold maxKeyLength; omega
    simp [getProof, hps, this]
  · simp [verifyProof, hver]

/-- C03.P3 (no proof verifies for an absent key or another value): whatever key and list of byte
strings `verifyproof` is given, if it answers with a value against the state root of a height with
non-empty storage, contract storage of that height holds exactly that value under that key —
unless `H` collides on the presented strings and the trie's node encodings. -/
theorem verifyproof_sound (H : Bytes → Bytes) (h32 : ∀ b, (H b).length = 32)
    (bs : List (List Change)) (hok : ∀ b ∈ bs, DistinctKeys b)
    (hb : Bounded (trieAt mptMap bs)) (hne : (trieAt mptMap bs).isEmpty = false)
    (k : Bytes) (ps : List Bytes) (v : Val)
    (hcf : CollFree H (ps ++ nodeEncs H (trieAt mptMap bs)))
    (h : verifyProof H (rootHash H (trieAt mptMap bs)) (k, ps) = some v) :
    storageAt bs k = some v := by
  have hf : Mpt.verifyProof H (rootHash H (trieAt mptMap bs)) k ps = .found v := by
    unfold verifyProof at h
    simp only at h
    split at h
    · rename_i w hw; simp only [Option.some.injEq] at h; subst h; exact hw
    · cases h
  rw [← mpt_root_commits bs hok k]
  exact NeoModel.C10.proof_sound H h32 _ hb hne k ps v hcf hf

/-- the keys under `id ‖ pfx` strictly after the cut start key, ascending (nibble paths relative to
the prefix). -/
def rangeAfter (t : Node) (id : Nat) (pfx : Bytes) (frm : Option Bytes) : List (Path × Bytes) :=
  (under t (toNibbles (makeStorageKey id pfx))).filter fun e => after (frm.map toNibbles) e.1

theorem take_succ_dropLast {α : Type} (l : List α) (n : Nat) (h : n + 1 ≤ l.length) :
    (l.take (n + 1)).dropLast = l.take n := by
  rw [List.dropLast_eq_take, List.length_take, Nat.min_eq_left h, List.take_take]
  simp

/-- C03.P4 (`findstates`): the answer lists the first `count` pairs of the ordered range under the
prefix strictly after the (cut) start key, the contract id cut off, and `truncated` says exactly
whether the range has more. -/
theorem findstates_spec (t : Node) (id : Nat) (pfx : Bytes) (frm : Option Bytes) (count : Nat) :
    (findStatesFrom t id pfx frm count).results = ((rangeAfter t id pfx frm).take count).map
        (fun e => ((makeStorageKey id pfx ++ fromNibbles e.1).drop 4, e.2)) ∧
    (findStatesFrom t id pfx frm count).truncated = decide (count < (rangeAfter t id pfx frm).length) := by
  unfold findStatesFrom
  simp only
  generalize hR : rangeAfter t id pfx frm = R
  have hfind : (Mpt.find t (toNibbles (makeStorageKey id pfx)) (frm.map toNibbles) (count + 1)).getD [] =
      R.take (count + 1) := by
    cases hf : Mpt.find t (toNibbles (makeStorageKey id pfx)) (frm.map toNibbles) (count + 1) with
    | none =>
      have := Mpt.find_none _ _ _ _ hf
      rw [← hR]; unfold rangeAfter; rw [this]; rfl
    | some l =>
      have := Mpt.find_some _ _ _ _ l hf
      rw [← hR]; unfold rangeAfter; simpa using this
  rw [hfind]
  simp only [List.length_map, List.length_take]
  by_cases hlen : count < R.length
  · have hmin : min (count + 1) R.length = count + 1 := by omega
    simp only [hmin, beq_self_eq_true, if_true, hlen, decide_true, and_true]
    rw [← List.map_dropLast, take_succ_dropLast R count (by omega)]
    simp only [List.map_map, List.map_take]
    rfl
  · have hmin : min (count + 1) R.length = R.length := by omega
    have hne : (R.length == count + 1) = false := by
      simp only [beq_eq_false_iff_ne, ne_eq]; omega
    simp only [hmin, hne, Bool.false_eq_true, if_false, hlen, decide_false, and_true]
    rw [List.take_of_length_le (by omega), List.take_of_length_le (by omega)]
    simp only [List.map_map]
    rfl

/-- … and every pair of such an answer is a pair contract storage of that height holds, under a key
with the prefix (nothing extra). -/
theorem findstates_sound (bs : List (List Change)) (hok : ∀ b ∈ bs, DistinctKeys b)
    (id : Nat) (pfx : Bytes) (frm : Option Bytes) (count : Nat) (k v : Bytes)
    (hm : (k, v) ∈ (findStatesFrom (trieAt mptMap bs) id pfx frm count).results) :
    ∃ rest, k = pfx ++ rest ∧ storageAt bs (makeStorageKey id k) = some v := by
  rw [(findstates_spec _ id pfx frm count).1] at hm
  simp only [List.mem_map] at hm
  obtain ⟨e, he, hek⟩ := hm
  have heR := List.mem_of_mem_take he
  unfold rangeAfter at heR
  have heU := (List.mem_filter.mp heR).1
  have hl := (Find.mem_under _ _ e.1 e.2).mp heU
  obtain ⟨kk, hkk⟩ := Find.byteKeyed_trieAt bs hok _ _ hl
  obtain ⟨rest, hrest, hr⟩ := Find.toNibbles_split (makeStorageKey id pfx) kk e.1 hkk
  simp only [Prod.mk.injEq] at hek
  obtain ⟨hk1, hk2⟩ := hek
  refine ⟨rest, ?_, ?_⟩
  · rw [← hk1, hr, Find.fromNibbles_toNibbles]
    simp [makeStorageKey, Find.le32, Wire.leBytes]
  · rw [← hk2, ← mpt_root_commits bs hok]
    have : makeStorageKey id k = kk := by
      rw [hrest, ← hk1, hr, Find.fromNibbles_toNibbles]
      simp [makeStorageKey, Find.le32, Wire.leBytes]
    rw [this, ← hkk]; exact hl

/-! ### discharging C10's side conditions from the history -/

theorem wf_trieAt (bs : List (List Change)) : Mpt.WF (trieAt mptMap bs) := by
  unfold trieAt
  suffices h : ∀ t, Mpt.WF t → Mpt.WF (bs.foldl mptMap.putBatch t) from h _ (by simp [mptMap, Mpt.WF])
  induction bs with
  | nil => intro t ht; exact ht
  | cons b rest ih =>
    intro t ht
    exact ih _ (NeoModel.C10.wf_putBatch t _ ht)

theorem applyBatch_some (s : Storage) (b : List Change) (k : Key) (v : Val) (h : applyBatch s b k = some v) :
    s k = some v ∨ (k, some v) ∈ b := by
  unfold applyBatch at h
  induction b generalizing s with
  | nil => exact Or.inl h
  | cons c rest ih =>
    simp only [List.foldl_cons] at h
    rcases ih _ h with h1 | h1
    · simp only [applyChange] at h1
      split at h1
      · rename_i hk
        right; rw [hk, ← h1]; simp
      · exact Or.inl h1
    · exact Or.inr (by simp [h1])

theorem storageAt_some (bs : List (List Change)) (k : Key) (v : Val) (h : storageAt bs k = some v) :
    ∃ b ∈ bs, (k, some v) ∈ b := by
  unfold storageAt at h
  suffices hs : ∀ (s : Storage), bs.foldl applyBatch s k = some v → s k = some v ∨ ∃ b ∈ bs, (k, some v) ∈ b by
    rcases hs _ h with h1 | h1
    · cases h1
    · exact h1
  clear h
  induction bs with
  | nil => intro s hs; exact Or.inl hs
  | cons b rest ih =>
    intro s hs
    simp only [List.foldl_cons] at hs
    rcases ih _ hs with h1 | ⟨b', hb', hm⟩
    · rcases applyBatch_some s b k v h1 with h2 | h2
      · exact Or.inl h2
      · exact Or.inr ⟨b, by simp, h2⟩
    · exact Or.inr ⟨b', by simp [hb'], hm⟩

/-- C03.P5: if every key and value the blocks wrote respects the storage limits (the interop layer
enforces MaxStorageKeyLen / MaxStorageValueLen), every trie of the chain satisfies C10's size
condition `Bounded` — the hypothesis of P2/P3 follows from the history. -/
theorem bounded_trieAt (bs : List (List Change)) (hok : ∀ b ∈ bs, DistinctKeys b)
    (hlim : ∀ b ∈ bs, ∀ c ∈ b, (toNibbles c.1).length ≤ Mpt.maxPathLength ∧
      ∀ v, c.2 = some v → v.length ≤ Mpt.maxValueLength) : Bounded (trieAt mptMap bs) := by
  apply NeoModel.C10.bounded_of_contents _ (wf_trieAt bs)
  intro p v hl
  obtain ⟨k, rfl⟩ := Find.byteKeyed_trieAt bs hok p v hl
  rw [mpt_root_commits bs hok] at hl
  obtain ⟨b, hb, hm⟩ := storageAt_some bs k v hl
  have := hlim b hb _ hm
  exact ⟨this.1, this.2 v rfl⟩

/-! non-vacuity on the example history of Props/C03Find.lean (contract 5: keys 01 ↦ 07, 0103 ↦ "",
key 0102 written in block 1 and deleted in block 2) -/
open Find (exBs exOk) in
example : getState (trieAt mptMap exBs) 5 [1,3] = some [] ∧ getState (trieAt mptMap exBs) 5 [1,2] = none := by
  rw [getstate_commits exBs exOk _ _ (by decide), getstate_commits exBs exOk _ _ (by decide)]; decide

open Find (exBs) in
example : findStatesFrom (trieAt mptMap exBs) 5 [1] none 1 =
    { results := [([1], [7])], truncated := true, first := some [5,0,0,0,1], last := none } ∧
    findStatesFrom (trieAt mptMap exBs) 5 [1] (some []) 5 =
    { results := [([1,3], [])], truncated := false, first := some [5,0,0,0,1,3], last := none } := by
  decide +kernel
example : cutStart [1] (some [2,1]) = .error .keyPrefix := rfl
example : cutStart [1] (some [1]) = .ok (some []) := rfl

open Find (exBs exOk) in
example : ∃ pk, getProof Mpt.toyH (trieAt mptMap exBs) 5 [1] = some pk ∧
    verifyProof Mpt.toyH (rootHash Mpt.toyH (trieAt mptMap exBs)) pk = some [7] :=
  proof_roundtrip Mpt.toyH Mpt.toyH_len exBs exOk (by decide +kernel)
    (bounded_trieAt exBs exOk (by
      intro b hb c hc
      simp only [Find.exBs, List.mem_cons, List.not_mem_nil, or_false] at hb
      rcases hb with rfl | rfl <;> simp only [List.mem_cons, List.not_mem_nil, or_false] at hc <;>
        rcases hc with rfl | rfl <;> simp [toNibbles, Mpt.maxPathLength, Mpt.maxValueLength]))
    5 [1] (by decide) [7] (by decide)

end NeoModel.StateCommit.Rpc
