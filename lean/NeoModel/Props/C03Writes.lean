/-
C03 — the main theorems over histories given as the blocks' WRITE SEQUENCES: the hypotheses "every batch has
pairwise different keys" (`hok`) and "every stored key/value respects the limits" (`hlim`) of the theorems
over change sets are facts of what the code hands to the trie (GetStorageChanges of a Go map: one entry per
key; Storage.Put's guards), proved here from the model instead of assumed.
-/
import NeoModel.Props.C03Get
import NeoModel.Props.C03Rpc
namespace NeoModel.StateCommit
open NeoModel.Store (Layer)

/-- the change sets the blocks hand to the trie: per block the net effect of its writes, one entry per key
(`GetStorageChanges` of the block's private layer, a Go map). -/
def batchesOf (wss : List (List Change)) : List (List Change) := wss.map netOf

/-- contract storage after the blocks' writes, applied in order. -/
def storageAfter (wss : List (List Change)) : Storage := wss.foldl applyBatch (fun _ => none)

theorem batchesOf_ok (wss : List (List Change)) : ∀ b ∈ batchesOf wss, DistinctKeys b := by
  intro b hb
  obtain ⟨ws, _, rfl⟩ := List.mem_map.mp hb
  exact netOf_distinct ws

theorem storageAt_batchesOf (wss : List (List Change)) : storageAt (batchesOf wss) = storageAfter wss := by
  unfold storageAt storageAfter batchesOf
  suffices h : ∀ s : Storage, (wss.map netOf).foldl applyBatch s = wss.foldl applyBatch s from h _
  induction wss with
  | nil => intro s; rfl
  | cons ws rest ih =>
    intro s
    simp only [List.map_cons, List.foldl_cons, applyBatch_netOf]
    exact ih _

/-- C03.W1 (`mpt_root_commits` without `hok`): for EVERY history of write sequences the trie of the height
holds exactly the storage the writes produce. -/
theorem root_commits_writes (wss : List (List Change)) (k : Key) :
    Mpt.lookup (trieAt mptMap (batchesOf wss)) (Mpt.toNibbles k) = storageAfter wss k := by
  rw [mpt_root_commits _ (batchesOf_ok wss), storageAt_batchesOf]

/-- C03.W2 (`historic_find_eq_live` without `hok`). -/
theorem historic_find_eq_live_writes (wss : List (List Change))
    (S : Store.Store) (hS : S.WF) (sp : UInt8) (hsp : sp = 0x70 ∨ sp = 0x71)
    (hagree : ∀ k, S.flatten (sp :: k) = storageAfter wss k)
    (W : Layer) (hW : W.WF) (E : List Layer) (hE : ∀ L ∈ E, L.mem = [] ∧ L.stor = [])
    (id : Nat) (pfx : Bytes) (opts : Int) :
    Find.findHistoric (trieAt mptMap (batchesOf wss)) (W :: E) sp id pfx opts =
      Find.findLive (.cached W S) sp id pfx opts :=
  Find.historic_find_eq_live (batchesOf wss) (batchesOf_ok wss) S hS sp hsp
    (by intro k; rw [storageAt_batchesOf]; exact hagree k) W hW E hE id pfx opts

/-- C03.W3 (`historic_getSyscall_eq_live` without `hok`). -/
theorem historic_get_eq_live_writes (wss : List (List Change))
    (S : Store.Store) (sp : UInt8) (hsp : sp = 0x70 ∨ sp = 0x71)
    (hagree : ∀ k, S.flatten (sp :: k) = storageAfter wss k)
    (W : Layer) (E : List Layer) (hE : ∀ L ∈ E, L.mem = [] ∧ L.stor = []) (id : Nat) (key : Bytes) :
    Find.getSyscallHistoric (trieAt mptMap (batchesOf wss)) (W :: E) sp id key =
      Find.getSyscallLive (.cached W S) sp id key :=
  Find.historic_getSyscall_eq_live (batchesOf wss) (batchesOf_ok wss) S sp hsp
    (by intro k; rw [storageAt_batchesOf]; exact hagree k) W E hE id key

/-- interop/storage/basic.go:110-116 `putWithContext`: what Storage.Put accepts (trie key = 4-byte id ‖ key). -/
def putAccepted (c : Change) : Prop :=
  c.1.length ≤ 4 + 64 ∧ ∀ v, c.2 = some v → v.length ≤ 65535

theorem toNibbles_length (b : Bytes) : (Mpt.toNibbles b).length = 2 * b.length := by
  induction b with
  | nil => rfl
  | cons x xs ih => simp only [Mpt.toNibbles, List.length_cons, ih]; omega

/-- C03.W4 (`bounded_trieAt` without `hlim`): if every write was accepted by Storage.Put, every trie of the
chain satisfies C10's size condition — the `Bounded` hypothesis of `proof_roundtrip` / `verifyproof_sound`
is a consequence of the interop layer's guards. -/
theorem bounded_of_puts (wss : List (List Change)) (hput : ∀ ws ∈ wss, ∀ c ∈ ws, putAccepted c) :
    Mpt.Bounded (trieAt mptMap (batchesOf wss)) := by
  apply Rpc.bounded_trieAt _ (batchesOf_ok wss)
  intro b hb c hc
  obtain ⟨ws, hws, rfl⟩ := List.mem_map.mp hb
  have hacc := hput ws hws c (netOf_subset ws c hc)
  refine ⟨?_, ?_⟩
  · rw [toNibbles_length]; unfold Mpt.maxPathLength; have := hacc.1; omega
  · intro v hv; unfold Mpt.maxValueLength; have := hacc.2 v hv; omega

-- non-vacuity: block 1 writes a key twice and deletes another it wrote, block 2 rewrites
example : Mpt.lookup (trieAt mptMap (batchesOf
      [[([5,0,0,0,1], some [1]), ([5,0,0,0,2], some [2]), ([5,0,0,0,1], some [3]), ([5,0,0,0,2], none)],
       [([5,0,0,0,1], some [])]])) (Mpt.toNibbles [5,0,0,0,1]) = some [] := by
  rw [root_commits_writes]; decide

example : Mpt.Bounded (trieAt mptMap (batchesOf [[([5,0,0,0,1], some [1]), ([5,0,0,0,1], none)], [([5,0,0,0,2], some [7])]])) :=
  bounded_of_puts _ (by
    intro ws hws c hc
    simp only [List.mem_cons, List.not_mem_nil, or_false] at hws
    rcases hws with rfl | rfl <;> simp only [List.mem_cons, List.not_mem_nil, or_false] at hc <;>
      rcases hc with rfl | rfl <;> simp [putAccepted])

end NeoModel.StateCommit
