/-
C16 — call flags and manifest permissions confine what called code can do.
Property theorems only (helper lemmas: Proofs/FlagsBasic.lean; model: Model/Flags.lean;
regenerated tables: Generated/Interops.lean, Generated/NativeMethods.lean).
-/
import NeoModel.Proofs.FlagsBasic
namespace NeoModel.Flags
open CallFlags Generated

/-! ## 1. The regenerated tables are guarded (re-proved against the current source on every run) -/

/-- the expectation-table check of one system call: classified, 4-bit flags, and either usable only by
the system trigger or every expected effect is covered by a required flag. -/
def syscallOk (e : Interops.Entry) : Bool :=
  match classifySyscall e.name with
  | Option.none => false
  | some (eff, sysOnly) => decide (e.flags < 16) && (sysOnly || guarded (ofNat e.flags) eff)

set_option maxRecDepth 100000 in
/-- `table_guards`, system calls: every system call of the node is classified in the hand-written expectation
table (a new one is not, and breaks this), and each one expected to write requires WriteStates, to notify
AllowNotify, to start a call AllowCall — except the two persist calls that only the system trigger can run. -/
theorem table_guards_syscalls : ∀ e ∈ Interops.table, syscallOk e = true := by decide

/-- the only system calls exempted as system-trigger-only. -/
theorem sysonly_syscalls :
    (syscallClass.filter (·.2.2)).map (·.1) = ["System.Contract.NativeOnPersist", "System.Contract.NativePostPersist"] := by
  decide

/-- the expectation-table check of one native method descriptor (flag coverage is `nativeViolationsAt`). -/
def nativeOk (m : NativeMethods.Entry) : Bool :=
  match classifyNative m with
  | Option.none => false
  | some eff => decide (m.flags < 16) && (!m.safe || (!eff.write && !eff.notify && !eff.call))
      && (m.safe == ((ofNat m.flags).inter (ofNat Interops.safeDefMask) == CallFlags.empty))
      && (!eff.call || m.deferrable)

set_option maxRecDepth 100000 in
/-- `table_guards`, native methods (1): every native method descriptor of the node is classified; a method
published as safe is expected to have no write/notify/call effect; `Safe` is exactly "requires none of the
bits of AddMethod's mask" (WriteStates|AllowNotify); only deferrable handlers are expected to start calls. -/
theorem table_guards_natives : ∀ m ∈ NativeMethods.table, nativeOk m = true := by decide

set_option maxRecDepth 100000 in
/-- `table_guards`, native methods (2), PARTIAL — the full statement "at every hardfork every expected effect of
every active native method is covered by a required flag" is FALSE on the current code; what holds is: the
uncovered (method, effect) pairs are exactly these, per hardfork index (0 = genesis rules … 8 = Huyao):
* notifications of NEO registerCandidate/unregisterCandidate/vote without AllowNotify before Echidna (index 5) —
  retired descriptors, the Echidna versions require AllowNotify;
* ContractManagement deploy/update calling `_deploy` without AllowCall before Aspidochelone (index 1);
* at EVERY hardfork incl. the latest: NEO.vote (and from Faun Policy.blockAccount and
  ContractManagement.destroy, through vote revocation) pays the voter's GAS reward with the
  `onNEP17Payment` callback (native_neo.go:1111 → native_nep17.go:236) although the method requires
  only States|AllowNotify: a contract call from a context that need not hold AllowCall. -/
theorem table_guards_natives_partial :
    (List.range 9).map nativeViolationsAt =
    [ [("ContractManagement", "deploy", 2, "call"), ("ContractManagement", "deploy", 3, "call"),
       ("ContractManagement", "destroy", 0, "call"),
       ("ContractManagement", "update", 2, "call"), ("ContractManagement", "update", 3, "call"),
       ("NeoToken", "registerCandidate", 1, "notify"), ("NeoToken", "unregisterCandidate", 1, "notify"),
       ("NeoToken", "vote", 2, "notify"), ("NeoToken", "vote", 2, "call")],
      [("ContractManagement", "destroy", 0, "call"), ("NeoToken", "registerCandidate", 1, "notify"),
       ("NeoToken", "unregisterCandidate", 1, "notify"), ("NeoToken", "vote", 2, "notify"), ("NeoToken", "vote", 2, "call")],
      [("ContractManagement", "destroy", 0, "call"), ("NeoToken", "registerCandidate", 1, "notify"),
       ("NeoToken", "unregisterCandidate", 1, "notify"), ("NeoToken", "vote", 2, "notify"), ("NeoToken", "vote", 2, "call")],
      [("ContractManagement", "destroy", 0, "call"), ("NeoToken", "registerCandidate", 1, "notify"),
       ("NeoToken", "unregisterCandidate", 1, "notify"), ("NeoToken", "vote", 2, "notify"), ("NeoToken", "vote", 2, "call")],
      [("ContractManagement", "destroy", 0, "call"), ("NeoToken", "registerCandidate", 1, "notify"),
       ("NeoToken", "unregisterCandidate", 1, "notify"), ("NeoToken", "vote", 2, "notify"), ("NeoToken", "vote", 2, "call")],
      [("ContractManagement", "destroy", 0, "call"), ("NeoToken", "vote", 2, "call")],
      [("ContractManagement", "destroy", 0, "call"), ("NeoToken", "vote", 2, "call"), ("PolicyContract", "blockAccount", 1, "call")],
      [("ContractManagement", "destroy", 0, "call"), ("NeoToken", "vote", 2, "call"), ("PolicyContract", "blockAccount", 1, "call")],
      [("ContractManagement", "destroy", 0, "call"), ("NeoToken", "vote", 2, "call"), ("PolicyContract", "blockAccount", 1, "call")] ] := by
  decide

/-- negation witness for the full statement: at the latest hardfork NEO.vote is expected to start a call and
its required flags (States|AllowNotify = 11) do not include AllowCall. -/
theorem vote_calls_without_allowcall :
    ∃ m ∈ NativeMethods.table, m.contract = "NeoToken" ∧ m.name = "vote" ∧ activeAt 8 m = true ∧
      classifyNative m = some wnc ∧ (nativeReq 8 m).call = false := by
  refine ⟨⟨"NeoToken", -5, "vote", 2, 11, false, true, true, 5, 0, 65536, 0⟩, by decide, rfl, rfl, by decide, by decide, by decide⟩

set_option maxRecDepth 100000 in
/-- the linked system-call table and the table re-read from the source text agree (name, flags). -/
theorem interops_linked_eq_source : Interops.table.map (fun e => (e.name, e.flags)) = Interops.sourceTable := by decide

/-- does a source registration `s` describe the linked descriptor `m` at hardfork `hf`? -/
def srcMatches (hf : Nat) (m : NativeMethods.Entry) (s : String × String × Nat × Nat × Bool × Nat × Nat) : Bool :=
  s.2.1 == m.name && (s.2.2.1 == m.nparams || s.2.2.1 == 99) && s.2.2.2.1 == m.flags && s.2.2.2.2.1 == m.deferrable &&
  decide (s.2.2.2.2.2.1 ≤ hf) && (s.2.2.2.2.2.2 == 0 || decide (hf < s.2.2.2.2.2.2))

set_option maxRecDepth 1000000 in
/-- every linked native descriptor, at every hardfork at which it is active, is a registration found in the
source text of pkg/core/native (same name, parameter count, flags, deferrable, active there). -/
theorem natives_linked_in_source :
    ∀ hf ∈ List.range 9, ∀ m ∈ NativeMethods.table, activeAt hf m = true →
      NativeMethods.sourceTable.any (srcMatches hf m) = true := by decide

/-- the call-path constants found in the source are the expected ones. -/
theorem call_path_constants :
    Interops.loadTokenReq = 5 ∧ Params.real.safeDrop = ofNat 10 ∧ Params.real.safeDropToken = ofNat 10 ∧ Interops.childIsAnd = true ∧
    Interops.callFromNativeFlags = 15 ∧ Interops.loadScriptMask = 5 ∧ Interops.safeDefMask = 10 ∧
    NativeMethods.legacyDeployMask = 11 ∧ Interops.hardforks.length = 9 := by decide

/-- `CallFlags` is a faithful view of the 4-bit integers: `Has` is `f&r == r`, `inter` is `&`, `minus` is `&^`. -/
theorem callflags_faithful :
    ∀ a ∈ List.range 16, ∀ b ∈ List.range 16,
      ((ofNat a).has (ofNat b) = (a &&& b == b)) ∧ (ofNat a).inter (ofNat b) = ofNat (a &&& b) ∧
      (ofNat a).minus (ofNat b) = ofNat (a &&& (15 ^^^ b)) ∧ (ofNat a).toNat = a := by decide

/-! ## 2. Flags along call chains (all programs, all chains) -/

/-- `flags_shrink`: whatever the program, the call flags are antitone along the invocation stack at every
moment (each callee's flags ⊆ its caller's, hence ⊆ every ancestor's and ⊆ the entry context's), also for the
stack recorded with every effect. -/
theorem flags_shrink (P : Params) (f : Frame) (prog : List Instr) :
    Antitone (run P (State.init f) prog).stack ∧
    (∀ g ∈ (run P (State.init f) prog).stack, g.flags ≤ f.flags) ∧
    ∀ ev ∈ (run P (State.init f) prog).events, Antitone ev.stack ∧ ∀ g ∈ ev.stack, g.flags ≤ f.flags := by
  have h1 := run_inv P InvAnti (fun _ => True) (fun s i _ h => step_invAnti P s i h) prog (State.init f)
    (fun _ _ => trivial) ⟨by simp [State.init, Antitone], by simp [State.init]⟩
  have h2 := run_inv P (InvRoot f.flags) (fun _ => True) (fun s i _ h => step_invRoot P f.flags s i h) prog (State.init f)
    (fun _ _ => trivial) ⟨by simp [State.init, le_refl], by simp [State.init]⟩
  exact ⟨h1.1, h2.1, fun ev hev => ⟨h1.2 ev hev, h2.2 ev hev⟩⟩

-- non-vacuity: a three-deep chain whose flags strictly shrink
example :
    let A : Target := ⟨1, ⟨[], [⟨.wildcard, Option.none⟩]⟩, "m", false⟩
    let sc : Prim := ⟨ofNat 5, c⟩
    ((run Params.real (State.init ⟨all, Option.none, false⟩)
      [.call sc false (ofNat 7) A, .call sc true (ofNat 5) A]).stack.map (·.flags.toNat)) = [5, 7, 15] := by decide

/-- `no_effect_without_flag`: if the required flags of the program's primitives cover their effect of kind `k`
(this is what `table_guards` establishes for the node's tables), then an effect of kind `k` only ever happens
while EVERY context on the invocation stack holds the corresponding flag — for every program, call chain,
requested flags, entry flags. -/
theorem no_effect_without_flag (P : Params) (k : EffKind) (f : Frame) (prog : List Instr)
    (hg : ∀ i ∈ prog, i.guardedK k) :
    ∀ ev ∈ (run P (State.init f) prog).events, ev.kind = k → ∀ g ∈ ev.stack, kindFlag k g.flags = true := by
  intro ev hev hk g hgm
  have h1 := run_inv P InvAnti (fun _ => True) (fun s i _ h => step_invAnti P s i h) prog (State.init f)
    (fun _ _ => trivial) ⟨by simp [State.init, Antitone], by simp [State.init]⟩
  have h2 := run_inv P (InvTop k) (Instr.guardedK k) (fun s i hq h => step_invTop P k s i hq h) prog (State.init f)
    hg (by intro e he; simp [State.init] at he)
  obtain ⟨cur, rest, hst, hflag⟩ := h2 ev hev hk
  have ha := h1.2 ev hev
  rw [hst] at ha hgm
  exact kind_of_le k (top_le_all ha g hgm) hflag

/-- corollary, as the property words it: code started without the flag never performs the effect, at any depth. -/
theorem no_effect_when_entry_lacks_flag (P : Params) (k : EffKind) (f : Frame) (prog : List Instr)
    (hg : ∀ i ∈ prog, i.guardedK k) (hf : kindFlag k f.flags = false) :
    ∀ ev ∈ (run P (State.init f) prog).events, ev.kind ≠ k := by
  intro ev hev hk
  have h2 := run_inv P (InvTop k) (Instr.guardedK k) (fun s i hq h => step_invTop P k s i hq h) prog (State.init f)
    hg (by intro e he; simp [State.init] at he)
  obtain ⟨cur, rest, hst, hflag⟩ := h2 ev hev hk
  have hroot := (flags_shrink P f prog).2.2 ev hev
  have : kindFlag k f.flags = true := kind_of_le k (hroot.2 cur (by rw [hst]; exact List.mem_cons_self)) hflag
  rw [hf] at this; cases this

/-- `safe_never_modifies`: once a method marked safe has been entered — whatever flags the caller requested —
nothing below it writes storage or emits a notification (primitives guarded as by `table_guards`; on BOTH call
paths, System.Contract.Call and CALLT through a NEF method token, the constant dropped for safe methods
contains WriteStates and AllowNotify: `Params.SafeDrops`). -/
theorem safe_never_modifies (P : Params) (hP : P.SafeDrops)
    (f : Frame) (hf : f.viaSafe = false) (prog : List Instr)
    (hgw : ∀ i ∈ prog, i.guardedK .write) (hgn : ∀ i ∈ prog, i.guardedK .notify) :
    ∀ ev ∈ (run P (State.init f) prog).events, (∃ g ∈ ev.stack, g.viaSafe = true) → ev.kind = .call := by
  intro ev hev ⟨g, hgm, hsafe⟩
  have h3 := run_inv P InvSafe (fun _ => True) (fun s i _ h => step_invSafe P hP s i h) prog (State.init f)
    (fun _ _ => trivial) ⟨by intro g hg; simp [State.init] at hg; subst hg; simp [hf], by simp [State.init]⟩
  have hs := h3.2 ev hev g hgm hsafe
  cases hk : ev.kind with
  | call => rfl
  | write =>
    have := no_effect_without_flag P .write f prog hgw ev hev hk g hgm
    simp [kindFlag, hs.1] at this
  | notify =>
    have := no_effect_without_flag P .notify f prog hgn ev hev hk g hgm
    simp [kindFlag, hs.2] at this

/-- `call_needs_permission`: every call made with System.Contract.Call/CALLT from a deployed contract to a
non-safe method passed `Manifest.CanCall` of the calling contract's manifest. -/
theorem call_needs_permission (P : Params) (f : Frame) (prog : List Instr) :
    ∀ ev ∈ (run P (State.init f) prog).events, ∀ t, ev.target = some t → t.safe = false →
      ∀ cur rest m, ev.stack = cur :: rest → cur.manifest = some m → m.canCall t.hash t.manifest t.method = true :=
  run_inv P InvPerm (fun _ => True) (fun s i _ h => step_invPerm P s i h) prog (State.init f)
    (fun _ _ => trivial) (by intro e he; simp [State.init] at he)

/-! ## 3. Permission matching -/

/-- the permission's contract descriptor matches the callee: wildcard, its hash, or one of its groups. -/
def calleeMatches (p : Permission) (hash : Nat) (callee : Manifest) : Prop :=
  p.contract = .wildcard ∨ p.contract = .hash hash ∨ ∃ g, p.contract = .group g ∧ g ∈ callee.groups

/-- the permission's method list matches: wildcard or it contains the name. -/
def methodMatches (p : Permission) (method : String) : Prop :=
  p.methods = Option.none ∨ ∃ ms, p.methods = some ms ∧ method ∈ ms

theorem isAllowed_iff (p : Permission) (hash : Nat) (callee : Manifest) (method : String) :
    p.isAllowed hash callee method = true ↔ calleeMatches p hash callee ∧ methodMatches p method := by
  obtain ⟨d, ms⟩ := p
  cases d <;> cases ms <;>
    simp [Permission.isAllowed, calleeMatches, methodMatches, wildContains]

/-- `canCall_iff`: a manifest allows calling `method` of `callee` iff one of its permissions matches both the
callee (wildcard, hash or group membership) and the method name. -/
theorem canCall_iff (m : Manifest) (hash : Nat) (callee : Manifest) (method : String) :
    m.canCall hash callee method = true ↔
      ∃ p ∈ m.permissions, calleeMatches p hash callee ∧ methodMatches p method := by
  simp [Manifest.canCall, List.any_eq_true, isAllowed_iff]

-- non-vacuity / regression (the defect fixed by d153840): {group 7, methods [a]} allows a, not b
example : (Manifest.mk [] [⟨.group 7, some ["a"]⟩]).canCall 1 ⟨[7], []⟩ "a" = true := by decide
example : (Manifest.mk [] [⟨.group 7, some ["a"]⟩]).canCall 1 ⟨[7], []⟩ "b" = false := by decide

/-! ## 4. The node's own tables in the machine -/

/-- primitives the node offers to contract code at hardfork index `hf`: system calls (except the two
system-trigger-only ones), CALLT, native methods active at `hf`. -/
def realPrims (hf : Nat) : List Prim :=
  (Interops.table.filterMap fun e =>
    match classifySyscall e.name with
    | some (eff, false) => some ⟨ofNat e.flags, eff⟩
    | _ => Option.none)
  ++ [callTPrim]
  ++ ((NativeMethods.table.filter (activeAt hf)).filterMap (nativePrim hf))

/-- the natives that pay a GAS reward with an `onNEP17Payment` callback without requiring AllowCall
(see `table_guards_natives_partial`). -/
def isCallbackException (p : Prim) : Bool := p.eff.call && !p.req.call

set_option maxRecDepth 1000000 in
theorem realPrims_guard_write : ∀ hf ∈ List.range 9, ∀ p ∈ realPrims hf, p.eff.write = true → p.req.write = true := by
  decide

set_option maxRecDepth 1000000 in
theorem realPrims_guard_notify : ∀ hf ∈ [5, 6, 7, 8], ∀ p ∈ realPrims hf, p.eff.notify = true → p.req.notify = true := by
  decide

/-- a program over the node's primitives at hardfork `hf`. -/
def RealProg (hf : Nat) (prog : List Instr) : Prop := ∀ i ∈ prog, ∀ p, i.prim? = some p → p ∈ realPrims hf

/-- C16 "without WriteStates never changes storage", on the node's tables, every hardfork. -/
theorem real_no_write_without_flag (hf : Nat) (hhf : hf ∈ List.range 9) (f : Frame) (prog : List Instr)
    (hp : RealProg hf prog) :
    ∀ ev ∈ (run Params.real (State.init f) prog).events, ev.kind = .write → ∀ g ∈ ev.stack, g.flags.write = true :=
  no_effect_without_flag Params.real .write f prog
    (fun i hi p hpi => realPrims_guard_write hf hhf p (hp i hi p hpi))

/-- C16 "without AllowNotify never emits a notification", on the node's tables, from Echidna on. -/
theorem real_no_notify_without_flag (hf : Nat) (hhf : hf ∈ [5, 6, 7, 8]) (f : Frame) (prog : List Instr)
    (hp : RealProg hf prog) :
    ∀ ev ∈ (run Params.real (State.init f) prog).events, ev.kind = .notify → ∀ g ∈ ev.stack, g.flags.notify = true :=
  no_effect_without_flag Params.real .notify f prog
    (fun i hi p hpi => realPrims_guard_notify hf hhf p (hp i hi p hpi))

/-- C16 "without AllowCall never calls a contract", PARTIAL: on the node's tables it holds for programs that do
not use the reward-callback natives (`isCallbackException`: NEO.vote, Policy.blockAccount,
ContractManagement.destroy at the latest hardfork); for those the full statement is false, see
`vote_calls_without_allowcall`. -/
theorem real_no_call_without_flag_partial (f : Frame) (prog : List Instr)
    (hp : ∀ i ∈ prog, ∀ p, i.prim? = some p → isCallbackException p = false) :
    ∀ ev ∈ (run Params.real (State.init f) prog).events, ev.kind = .call → ∀ g ∈ ev.stack, g.flags.call = true := by
  refine no_effect_without_flag Params.real .call f prog ?_
  intro i hi p hpi hc
  have := hp i hi p hpi
  simp [isCallbackException, hc] at this
  exact this

/-- C16 "calling a safe method never modifies state", on the node's tables, from Echidna on. -/
theorem real_safe_never_modifies (hf : Nat) (hhf : hf ∈ [5, 6, 7, 8]) (f : Frame) (hf0 : f.viaSafe = false)
    (prog : List Instr) (hp : RealProg hf prog) :
    ∀ ev ∈ (run Params.real (State.init f) prog).events, (∃ g ∈ ev.stack, g.viaSafe = true) → ev.kind = .call :=
  safe_never_modifies Params.real (by unfold Params.SafeDrops; decide) f hf0 prog
    (fun i hi p hpi => realPrims_guard_write hf (by
      simp only [List.mem_cons, List.not_mem_nil, or_false] at hhf
      rcases hhf with rfl | rfl | rfl | rfl <;> decide) p (hp i hi p hpi))
    (fun i hi p hpi => realPrims_guard_notify hf hhf p (hp i hi p hpi))

-- non-vacuity: with the node's tables, an entry script holding All calls a deployed contract (wildcard
-- permission irrelevant: the entry script is not deployed) which puts to storage and notifies: 3 events …
example :
    let A : Target := ⟨1, ⟨[], []⟩, "m", false⟩
    (syscallPrim "System.Contract.Call").bind (fun sc =>
    (syscallPrim "System.Storage.Put").bind (fun put =>
    (syscallPrim "System.Runtime.Notify").map (fun ntf =>
      ((run Params.real (State.init ⟨all, Option.none, false⟩)
        [.call sc false all A, .prim put, .prim ntf, .ret]).events.map (·.kind))))) = some [.notify, .write, .call] := by
  decide
-- … and the same program entered through a safe method faults at the Put, before any write:
example :
    let A : Target := ⟨1, ⟨[], []⟩, "m", true⟩
    (syscallPrim "System.Contract.Call").bind (fun sc =>
    (syscallPrim "System.Storage.Put").bind (fun put =>
    (syscallPrim "System.Runtime.Notify").map (fun ntf =>
      let s := run Params.real (State.init ⟨all, Option.none, false⟩) [.call sc false all A, .prim put, .prim ntf, .ret]
      (s.events.map (·.kind), s.halted)))) = some ([.call], true) := by
  decide
-- … also when it is entered with CALLT through a method token whose flags are All:
example :
    let A : Target := ⟨1, ⟨[], []⟩, "m", true⟩
    (syscallPrim "System.Storage.Put").map (fun put =>
      let s := run Params.real (State.init ⟨all, Option.none, false⟩) [.call callTPrim true all A, .prim put]
      (s.stack.map (·.flags.toNat), s.events.map (·.kind), s.halted)) = some ([5, 15], [.call], true) := by
  decide
-- a deployed caller without a matching permission cannot call a non-safe method, but can call a safe one
example :
    let caller : Frame := ⟨all, some ⟨[], [⟨.hash 2, Option.none⟩]⟩, false⟩
    let sc : Prim := ⟨ofNat 5, c⟩
    ((run Params.real (State.init caller) [.call sc false all ⟨1, ⟨[], []⟩, "m", false⟩]).halted,
     (run Params.real (State.init caller) [.call sc true all ⟨1, ⟨[], []⟩, "m", true⟩]).halted,
     (run Params.real (State.init caller) [.call sc false all ⟨2, ⟨[], []⟩, "m", false⟩]).halted) = (true, false, false) := by
  decide

end NeoModel.Flags
