/-
C16 — call flags and manifest permissions confine what called code can do.
Property theorems only (helper lemmas: Proofs/FlagsBasic.lean, FlagsManifest.lean; table obligations:
Proofs/FlagsTables.lean, FlagsTablesSrc.lean; models: Model/Flags.lean, Model/Flags/Manifest.lean; regenerated tables:
Generated/Interops.lean, NativeMethods.lean, Effects.lean, ManifestConsts.lean).
-/
import NeoModel.Proofs.FlagsBasic
import NeoModel.Proofs.FlagsTables
import NeoModel.Proofs.FlagsTablesSrc
import NeoModel.Proofs.FlagsManifest
import NeoModel.Proofs.GoFuncs.C16
import NeoModel.Generated.ManifestConsts
namespace NeoModel.Flags
open CallFlags Generated

/-- the call-path constants found in the source are the expected ones. -/
theorem call_path_constants :
    Interops.loadTokenReq = 5 ∧ Params.real.safeDrop = ofNat 10 ∧ Params.real.safeDropToken = ofNat 10 ∧ Interops.childIsAnd = true ∧
    Interops.callFromNativeFlags = 15 ∧ Interops.loadScriptMask = 5 ∧ Interops.safeDefMask = 10 ∧
    NativeMethods.legacyDeployMask = 11 ∧ Interops.hardforks.length = 9 := by decide

/-- `CallFlags` is a faithful view of the 4-bit integers: `Has` is `f&r == r`, `inter` is `&`, `minus` is `&^`. -/
theorem callflags_faithful :
    ∀ a ∈ List.range 16, ∀ b ∈ List.range 16,
      ((ofNat a).has (ofNat b) = (a &&& b == b)) ∧ (ofNat a).inter (ofNat b) = ofNat (a &&& b) ∧
      (ofNat a).minus (ofNat b) = ofNat (a &&& (15 ^^^ b)) ∧ (ofNat a).toNat = a := by decide

/-! ## 2. Flags along call chains (all programs, all chains) -/

/-- `flags_shrink`: whatever the program, the call flags are antitone along the invocation stack at every
moment (each callee's flags ⊆ its caller's, hence ⊆ every ancestor's and ⊆ the entry context's), also for the
stack recorded with every effect. -/
theorem flags_shrink (P : Params) (f : Frame) (prog : List Instr) :
    Antitone (run P (State.init f) prog).stack ∧
    (∀ g ∈ (run P (State.init f) prog).stack, g.flags ≤ f.flags) ∧
    ∀ ev ∈ (run P (State.init f) prog).events, Antitone ev.stack ∧ ∀ g ∈ ev.stack, g.flags ≤ f.flags := by
  have h1 := run_inv P InvAnti (fun _ => True) (fun s i _ h => step_invAnti P s i h) prog (State.init f)
    (fun _ _ => trivial) ⟨by simp [State.init, Antitone], by simp [State.init]⟩
  have h2 := run_inv P (InvRoot f.flags) (fun _ => True) (fun s i _ h => step_invRoot P f.flags s i h) prog (State.init f)
    (fun _ _ => trivial) ⟨by simp [State.init, le_refl], by simp [State.init]⟩
  exact ⟨h1.1, h2.1, fun ev hev => ⟨h1.2 ev hev, h2.2 ev hev⟩⟩

-- non-vacuity: a three-deep chain whose flags strictly shrink
example :
    let A : Target := ⟨1, ⟨[], [⟨.wildcard, Option.none⟩]⟩, "m", false⟩
    let sc : Prim := ⟨ofNat 5, c⟩
    ((run Params.real (State.init (Frame.entry all Option.none))
      [.call sc false (ofNat 7) A, .call sc true (ofNat 5) A]).stack.map (·.flags.toNat)) = [5, 7, 15] := by decide

/-- `no_effect_without_flag`: if the required flags of the program's primitives cover their effect of kind `k`
(this is what `table_guards` establishes for the node's tables), then an effect of kind `k` only ever happens
while EVERY context on the invocation stack holds the corresponding flag — for every program, call chain,
requested flags, entry flags. -/
theorem no_effect_without_flag (P : Params) (k : EffKind) (f : Frame) (prog : List Instr)
    (hg : ∀ i ∈ prog, i.guardedK k) :
    ∀ ev ∈ (run P (State.init f) prog).events, ev.kind = k → ∀ g ∈ ev.stack, kindFlag k g.flags = true := by
  intro ev hev hk g hgm
  have h1 := run_inv P InvAnti (fun _ => True) (fun s i _ h => step_invAnti P s i h) prog (State.init f)
    (fun _ _ => trivial) ⟨by simp [State.init, Antitone], by simp [State.init]⟩
  have h2 := run_inv P (InvTop k) (Instr.guardedK k) (fun s i hq h => step_invTop P k s i hq h) prog (State.init f)
    hg (by intro e he; simp [State.init] at he)
  obtain ⟨cur, rest, hst, hflag⟩ := h2 ev hev hk
  have ha := h1.2 ev hev
  rw [hst] at ha hgm
  exact kind_of_le k (top_le_all ha g hgm) hflag

/-- corollary, as the property words it: code started without the flag never performs the effect, at any depth. -/
theorem no_effect_when_entry_lacks_flag (P : Params) (k : EffKind) (f : Frame) (prog : List Instr)
    (hg : ∀ i ∈ prog, i.guardedK k) (hf : kindFlag k f.flags = false) :
    ∀ ev ∈ (run P (State.init f) prog).events, ev.kind ≠ k := by
  intro ev hev hk
  have h2 := run_inv P (InvTop k) (Instr.guardedK k) (fun s i hq h => step_invTop P k s i hq h) prog (State.init f)
    hg (by intro e he; simp [State.init] at he)
  obtain ⟨cur, rest, hst, hflag⟩ := h2 ev hev hk
  have hroot := (flags_shrink P f prog).2.2 ev hev
  have : kindFlag k f.flags = true := kind_of_le k (hroot.2 cur (by rw [hst]; exact List.mem_cons_self)) hflag
  rw [hf] at this; cases this

/-- `safe_never_modifies`: once a method marked safe has been entered — whatever flags the caller requested —
nothing below it writes storage or emits a notification (primitives guarded as by `table_guards`; on BOTH call
paths, System.Contract.Call and CALLT through a NEF method token, the constant dropped for safe methods
contains WriteStates and AllowNotify: `Params.SafeDrops`). -/
theorem safe_never_modifies (P : Params) (hP : P.SafeDrops)
    (f : Frame) (hf : f.viaSafe = false) (prog : List Instr)
    (hgw : ∀ i ∈ prog, i.guardedK .write) (hgn : ∀ i ∈ prog, i.guardedK .notify) :
    ∀ ev ∈ (run P (State.init f) prog).events, (∃ g ∈ ev.stack, g.viaSafe = true) → ev.kind = .call := by
  intro ev hev ⟨g, hgm, hsafe⟩
  have h3 := run_inv P InvSafe (fun _ => True) (fun s i _ h => step_invSafe P hP s i h) prog (State.init f)
    (fun _ _ => trivial) ⟨by intro g hg; simp [State.init] at hg; subst hg; simp [hf], by simp [State.init]⟩
  have hs := h3.2 ev hev g hgm hsafe
  cases hk : ev.kind with
  | call => rfl
  | write =>
    have := no_effect_without_flag P .write f prog hgw ev hev hk g hgm
    simp [kindFlag, hs.1] at this
  | notify =>
    have := no_effect_without_flag P .notify f prog hgn ev hev hk g hgm
    simp [kindFlag, hs.2] at this

/-- `call_needs_permission` (from Domovoi on, `callerFromContext`): every call made with System.Contract.Call/CALLT
from a deployed contract to a non-safe method passed `Manifest.CanCall` of the manifest of the EXECUTING context. -/
theorem call_needs_permission (P : Params) (hP : P.callerFromContext = true) (f : Frame) (prog : List Instr) :
    ∀ ev ∈ (run P (State.init f) prog).events, ∀ t, ev.target = some t → t.safe = false →
      ∀ cur rest m, ev.stack = cur :: rest → cur.manifest = some m → m.canCall t.hash t.manifest t.method = true := by
  intro ev hev t ht hs cur rest m hst hm
  have h1 := run_inv P InvPerm (fun _ => True) (fun s i _ h => step_invPerm P s i h) prog (State.init f)
    (fun _ _ => trivial) (by intro e he; simp [State.init] at he)
  have h2 := run_inv P (InvChecked P) (fun _ => True) (fun s i _ h => step_invChecked P s i h) prog (State.init f)
    (fun _ _ => trivial) (by intro e he; simp [State.init] at he)
  obtain ⟨stored, hc⟩ := h2 ev hev t ht cur rest hst
  exact h1 ev hev t ht m (by rw [hc]; simp [consulted, hs, hm, hP])

/-- `call_needs_permission_legacy` (any hardfork): every such call passed `CanCall` of the manifest callInternal
CONSULTED — before Domovoi that is the caller's manifest as ContractManagement's storage has it at that moment
(`stored`), and if the contract is not found there any more (destroyed earlier in the same execution) NO check runs. -/
theorem call_needs_permission_legacy (P : Params) (f : Frame) (prog : List Instr) :
    ∀ ev ∈ (run P (State.init f) prog).events, ∀ t, ev.target = some t →
      (∀ m, ev.checked = some m → m.canCall t.hash t.manifest t.method = true) ∧
      ∀ cur rest, ev.stack = cur :: rest → ∃ stored, ev.checked = consulted P cur t stored := by
  intro ev hev t ht
  have h1 := run_inv P InvPerm (fun _ => True) (fun s i _ h => step_invPerm P s i h) prog (State.init f)
    (fun _ _ => trivial) (by intro e he; simp [State.init] at he)
  have h2 := run_inv P (InvChecked P) (fun _ => True) (fun s i _ h => step_invChecked P s i h) prog (State.init f)
    (fun _ _ => trivial) (by intro e he; simp [State.init] at he)
  exact ⟨h1 ev hev t ht, h2 ev hev t ht⟩

/-- the hardfork from which the executing context's manifest is consulted is Domovoi (index 4); `Params.realAt`. -/
theorem caller_manifest_hardfork :
    Interops.callerManifestFromContextSince = 4 ∧ Interops.hardforks[4]? = some "Domovoi" ∧
    ∀ hf ∈ List.range 9, (Params.realAt hf).callerFromContext = decide (4 ≤ hf) := by decide

/-! ### The stored manifest is the machine's own state (not an input of the program) -/

/-- only `update` / `destroy` change ContractManagement's storage. -/
theorem storage_unchanged (P : Params) (s : State) (i : Instr) (hu : ∀ m, i ≠ .update m) (hd : i ≠ .destroy) :
    (step P s i).storage = s.storage := by
  unfold step
  split
  · rfl
  · split
    · rfl
    · cases i with
      | update m => exact absurd rfl (hu m)
      | destroy => exact absurd rfl hd
      | prim p => simp only; split <;> rfl
      | call p tk rq t => simp only; split <;> rfl
      | loadScript p rq => simp only; split <;> rfl
      | nativeCall p t => simp only; split <;> rfl
      | ret => simp only; split <;> rfl

theorem find_filter_ne (l : List (Nat × Manifest)) (h h' : Nat) (hne : h' ≠ h) :
    (l.filter (fun e => e.1 != h)).find? (fun e => e.1 == h') = l.find? (fun e => e.1 == h') := by
  induction l with
  | nil => rfl
  | cons e es ih =>
    by_cases he : e.1 = h
    · have h2 : (e.1 == h') = false := by
        simp only [he, beq_eq_false_iff_ne, ne_eq]; exact fun x => hne x.symm
      have h4 : (h == h') = false := by rw [← he]; exact h2
      simp [List.filter_cons, he, List.find?_cons, h4, ih]
    · have h3 : (e.1 != h) = true := by simp [he]
      simp [List.filter_cons, h3, List.find?_cons, ih]

/-- after ContractManagement.update(m) executed for the caller `h`, `ic.GetContract(h)` answers `m`, and every other
contract's answer is unchanged. -/
theorem update_then_lookup (P : Params) (s : State) (m : Manifest) (cur caller : Frame) (rest : List Frame) (h : Nat)
    (hs : s.halted = false) (hst : s.stack = cur :: caller :: rest) (hh : caller.hash = some h) :
    lookupStored (step P s (.update m)).storage (some h) = some m ∧
    ∀ h', h' ≠ h → lookupStored (step P s (.update m)).storage (some h') = lookupStored s.storage (some h') := by
  simp only [step, hs, hst, hh, lookupStored]
  constructor
  · simp
  · intro h' hne
    have : ((h == h') = false) := by simpa using fun e => hne e.symm
    simp only [Bool.false_eq_true, if_false, Option.bind_some, List.find?_cons, this]
    rw [find_filter_ne _ _ _ hne]

/-- after ContractManagement.destroy executed for the caller `h`, `ic.GetContract(h)` finds nothing; the other
contracts' answers are unchanged. -/
theorem destroy_then_lookup (P : Params) (s : State) (cur caller : Frame) (rest : List Frame) (h : Nat)
    (hs : s.halted = false) (hst : s.stack = cur :: caller :: rest) (hh : caller.hash = some h) :
    lookupStored (step P s .destroy).storage (some h) = Option.none ∧
    ∀ h', h' ≠ h → lookupStored (step P s .destroy).storage (some h') = lookupStored s.storage (some h') := by
  simp only [step, hs, hst, hh, lookupStored]
  constructor
  · simp only [Bool.false_eq_true, if_false, Option.bind_some, Option.map_eq_none_iff, List.find?_eq_none]
    intro e he
    simp only [List.mem_filter, bne_iff_ne, ne_eq] at he
    simpa using he.2
  · intro h' hne
    simp only [Bool.false_eq_true, if_false, Option.bind_some]
    rw [find_filter_ne _ _ _ hne]

/-- a call that goes through was permitted with the manifest the storage holds for the caller AT THAT MOMENT (the
argument of `consulted` before Domovoi): the machine computes it, the program does not supply it. -/
theorem call_consults_current_storage (P : Params) (s : State) (p : Prim) (tk : Bool) (rq : CallFlags) (t : Target)
    (cur : Frame) (rest : List Frame) (hs : s.halted = false) (hst : s.stack = cur :: rest)
    (hgo : (step P s (.call p tk rq t)).halted = false) :
    permitted P cur t (lookupStored s.storage cur.hash) = true := by
  cases hp : permitted P cur t (lookupStored s.storage cur.hash) with
  | true => rfl
  | false => simp [step, hs, hst, hp, halt] at hgo

/-- negation witness for "a deployed contract calls a non-safe method only with a matching permission" under the
hardfork configurations before Domovoi, as a HISTORY of the machine: contract 9 (stored with the single permission
"ContractManagement (1000): any method", running with it) calls ContractManagement, which destroys it, returns, and
then enters the non-safe method `a` of contract 2: not halted at hardfork index 3, halted at index 4 (Domovoi: the
executing context's manifest counts). Reproduced on the chain (known finding
`call-without-permission:destroyed-caller`). With `update` to a manifest without permissions instead, a wildcard
caller is refused before Domovoi and allowed after. -/
theorem legacy_destroyed_caller_calls_unchecked :
    let m9 : Manifest := ⟨[], [⟨.hash 1000, Option.none⟩]⟩
    let caller : Frame := { flags := all, manifest := some m9, viaSafe := false, hash := some 9 }
    let sc : Prim := ⟨ofNat 5, c⟩
    let prog : List Instr := [.call sc false all ⟨1000, ⟨[], []⟩, "destroy", false⟩, .destroy, .ret,
                              .call sc false all ⟨2, ⟨[], []⟩, "a", false⟩]
    (run (Params.realAt 3) (State.init caller [(9, m9)]) prog).halted = false ∧
    (run (Params.realAt 4) (State.init caller [(9, m9)]) prog).halted = true ∧
    (let w : Manifest := ⟨[], [⟨.wildcard, Option.none⟩]⟩
     let cw : Frame := { flags := all, manifest := some w, viaSafe := false, hash := some 1 }
     let prog2 : List Instr := [.call sc false all ⟨1000, ⟨[], []⟩, "update", false⟩, .update ⟨[], []⟩, .ret,
                                .call sc false all ⟨2, ⟨[], []⟩, "a", false⟩]
     (run (Params.realAt 3) (State.init cw [(1, w)]) prog2).halted = true ∧
     (run (Params.realAt 4) (State.init cw [(1, w)]) prog2).halted = false) := by decide


/-! ## 2b. Call paths: requested flags, and the exact exception to the safe-method drop -/

/-- `frames_bounded`: for every program (hence every call tree, of any depth and shape, with returns and further
calls after them) every context on the invocation stack at every moment — and on the stack recorded with every
event — holds at most the flags of its caller AND at most the flags its creator requested (System.Contract.Call:
the flags argument; CALLT: the flags of the NEF method token; LoadScript: the flags argument; CallFromNative:
All). -/
theorem frames_bounded (P : Params) (f : Frame) (hf : FrameOk f) (prog : List Instr) :
    (Antitone (run P (State.init f) prog).stack ∧ ∀ g ∈ (run P (State.init f) prog).stack, g.flags ≤ g.requested) ∧
    ∀ ev ∈ (run P (State.init f) prog).events, Antitone ev.stack ∧ ∀ g ∈ ev.stack, g.flags ≤ g.requested := by
  have h1 := run_inv P InvAnti (fun _ => True) (fun s i _ h => step_invAnti P s i h) prog (State.init f)
    (fun _ _ => trivial) ⟨by simp [State.init, Antitone], by simp [State.init]⟩
  have h2 := run_inv P InvVia (fun _ => True) (fun s i _ h => step_invVia P s i h) prog (State.init f)
    (fun _ _ => trivial) ⟨by intro g hg; simp [State.init] at hg; subst hg; exact hf, by simp [State.init]⟩
  exact ⟨⟨h1.1, fun g hg => (h2.1 g hg).1⟩, fun ev hev => ⟨h1.2 ev hev, fun g hg => (h2.2 ev hev g hg).1⟩⟩

/-- `safe_target_exception_exact`: if both callInternal paths drop WriteStates|AllowNotify for safe methods, then in
every reachable state a context that runs a method MARKED SAFE and nevertheless holds WriteStates or AllowNotify
was created by contract.CallFromNative — no other way of creating a context (System.Contract.Call, CALLT,
LoadScript, at any depth, after any history) produces one. So the known finding
`safe-method-modifies:native-callback` is the ONLY exception to "a safe method runs without WriteStates|AllowNotify",
and any other path showing it is a violation of the model (hence a disagreement of the tie). -/
theorem safe_target_exception_exact (P : Params) (hP : P.SafeDrops) (f : Frame) (hf : FrameOk f)
    (hf0 : f.viaSafe = false) (prog : List Instr) :
    (∀ g ∈ (run P (State.init f) prog).stack, g.safeTarget = true →
        (g.flags.write = true ∨ g.flags.notify = true) → g.via = .native) ∧
    ∀ ev ∈ (run P (State.init f) prog).events, ∀ g ∈ ev.stack, g.safeTarget = true →
        (g.flags.write = true ∨ g.flags.notify = true) → g.via = .native := by
  have h2 := run_inv P InvVia (fun _ => True) (fun s i _ h => step_invVia P s i h) prog (State.init f)
    (fun _ _ => trivial) ⟨by intro g hg; simp [State.init] at hg; subst hg; exact hf, by simp [State.init]⟩
  have h3 := run_inv P InvSafe (fun _ => True) (fun s i _ h => step_invSafe P hP s i h) prog (State.init f)
    (fun _ _ => trivial) ⟨by intro g hg; simp [State.init] at hg; subst hg; simp [hf0], by simp [State.init]⟩
  have key : ∀ g : Frame, FrameOk g → (g.viaSafe = true → g.flags.write = false ∧ g.flags.notify = false) →
      g.safeTarget = true → (g.flags.write = true ∨ g.flags.notify = true) → g.via = .native := by
    intro g ⟨_, hv, hs⟩ hsafe ht hw
    cases hvia : g.via with
    | native => rfl
    | entry => have := hs (Or.inr hvia); simp [ht] at this
    | script => have := hs (Or.inl hvia); simp [ht] at this
    | call =>
      have : g.viaSafe = true := by rw [hv, ht, hvia]; rfl
      have := hsafe this
      rcases hw with hw | hw <;> simp [this.1, this.2] at hw
    | token =>
      have : g.viaSafe = true := by rw [hv, ht, hvia]; rfl
      have := hsafe this
      rcases hw with hw | hw <;> simp [this.1, this.2] at hw
  exact ⟨fun g hg => key g (h2.1 g hg) (h3.1 g hg), fun ev hev g hg => key g (h2.2 ev hev g hg) (h3.2 ev hev g hg)⟩

/-- the exception is real on the node's constants (negation witness of "a safe method never runs with
WriteStates|AllowNotify"): a native method starting `onNEP17Payment` of a contract that marks it safe creates a
context with flags All. -/
theorem native_callback_keeps_write_for_safe :
    let t : Target := ⟨1, ⟨[], []⟩, "onNEP17Payment", true⟩
    ((run Params.real (State.init (Frame.entry all Option.none)) [.nativeCall ⟨ofNat 15, wnc⟩ t]).stack.map
      (fun g => (g.flags.toNat, g.safeTarget, g.via == .native))) = [(15, true, true), (15, false, false)] := by decide

-- non-vacuity of `frames_bounded` / `safe_target_exception_exact`: a tree with two children of the entry, the first
-- returns before the second is called; requested 7 then 13 from flags 15: children hold 7 and 13
example :
    let A : Target := ⟨1, ⟨[], []⟩, "m", false⟩
    let sc : Prim := ⟨ofNat 5, c⟩
    let s := run Params.real (State.init (Frame.entry all Option.none)) [.call sc false (ofNat 7) A, .ret, .call sc true (ofNat 13) A]
    (s.stack.map (fun g => (g.flags.toNat, g.requested.toNat)), s.events.length) = ([(13, 13), (15, 15)], 2) := by decide

/-! ## 3. Permission matching -/

/-- the permission's contract descriptor matches the callee: wildcard, its hash, or one of its groups. -/
def calleeMatches (p : Permission) (hash : Nat) (callee : Manifest) : Prop :=
  p.contract = .wildcard ∨ p.contract = .hash hash ∨ ∃ g, p.contract = .group g ∧ g ∈ callee.groups

/-- the permission's method list matches: wildcard or it contains the name. -/
def methodMatches (p : Permission) (method : String) : Prop :=
  p.methods = Option.none ∨ ∃ ms, p.methods = some ms ∧ method ∈ ms

theorem isAllowed_iff (p : Permission) (hash : Nat) (callee : Manifest) (method : String) :
    p.isAllowed hash callee method = true ↔ calleeMatches p hash callee ∧ methodMatches p method := by
  obtain ⟨d, ms⟩ := p
  cases d <;> cases ms <;>
    simp [Permission.isAllowed, calleeMatches, methodMatches, wildContains]

/-- `canCall_iff`: a manifest allows calling `method` of `callee` iff one of its permissions matches both the
callee (wildcard, hash or group membership) and the method name. -/
theorem canCall_iff (m : Manifest) (hash : Nat) (callee : Manifest) (method : String) :
    m.canCall hash callee method = true ↔
      ∃ p ∈ m.permissions, calleeMatches p hash callee ∧ methodMatches p method := by
  simp [Manifest.canCall, List.any_eq_true, isAllowed_iff]

-- non-vacuity / regression (the defect fixed by d153840): {group 7, methods [a]} allows a, not b
example : (Manifest.mk [] [⟨.group 7, some ["a"]⟩]).canCall 1 ⟨[7], []⟩ "a" = true := by decide
example : (Manifest.mk [] [⟨.group 7, some ["a"]⟩]).canCall 1 ⟨[7], []⟩ "b" = false := by decide

/-! ## 4. The node's own tables in the machine -/

/-- primitives the node offers to contract code at hardfork index `hf`: system calls (except the two
system-trigger-only ones), CALLT, native methods active at `hf`. -/
def realPrims (hf : Nat) : List Prim :=
  (Interops.table.filterMap fun e =>
    match classifySyscall hf e.name with
    | some (eff, false) => some ⟨ofNat e.flags, eff⟩
    | _ => Option.none)
  ++ [callTPrim hf]
  ++ ((NativeMethods.table.filter (activeAt hf)).filterMap (nativePrim hf))

/-- the natives that pay a GAS reward with an `onNEP17Payment` callback without requiring AllowCall
(see `table_guards_natives_partial`). -/
def isCallbackException (p : Prim) : Bool := p.eff.call && !p.req.call

set_option maxRecDepth 1000000 in
theorem realPrims_guard_write : ∀ hf ∈ List.range 9, ∀ p ∈ realPrims hf, p.eff.write = true → p.req.write = true := by
  decide +kernel

set_option maxRecDepth 1000000 in
theorem realPrims_guard_notify : ∀ hf ∈ [5, 6, 7, 8], ∀ p ∈ realPrims hf, p.eff.notify = true → p.req.notify = true := by
  decide +kernel

/-- a program over the node's primitives at hardfork `hf`. -/
def RealProg (hf : Nat) (prog : List Instr) : Prop := ∀ i ∈ prog, ∀ p, i.prim? = some p → p ∈ realPrims hf

/-- C16 "without WriteStates never changes storage", on the node's tables, every hardfork. -/
theorem real_no_write_without_flag (hf : Nat) (hhf : hf ∈ List.range 9) (f : Frame) (prog : List Instr)
    (hp : RealProg hf prog) :
    ∀ ev ∈ (run Params.real (State.init f) prog).events, ev.kind = .write → ∀ g ∈ ev.stack, g.flags.write = true :=
  no_effect_without_flag Params.real .write f prog
    (fun i hi p hpi => realPrims_guard_write hf hhf p (hp i hi p hpi))

/-- C16 "without AllowNotify never emits a notification", on the node's tables, from Echidna on. -/
theorem real_no_notify_without_flag (hf : Nat) (hhf : hf ∈ [5, 6, 7, 8]) (f : Frame) (prog : List Instr)
    (hp : RealProg hf prog) :
    ∀ ev ∈ (run Params.real (State.init f) prog).events, ev.kind = .notify → ∀ g ∈ ev.stack, g.flags.notify = true :=
  no_effect_without_flag Params.real .notify f prog
    (fun i hi p hpi => realPrims_guard_notify hf hhf p (hp i hi p hpi))

/-- C16 "without AllowCall never calls a contract", PARTIAL: on the node's tables it holds for programs that do
not use the reward-callback natives (`isCallbackException`: NEO.vote, Policy.blockAccount,
ContractManagement.destroy at the latest hardfork); for those the full statement is false, see
`vote_calls_without_allowcall`. -/
theorem real_no_call_without_flag_partial (f : Frame) (prog : List Instr)
    (hp : ∀ i ∈ prog, ∀ p, i.prim? = some p → isCallbackException p = false) :
    ∀ ev ∈ (run Params.real (State.init f) prog).events, ev.kind = .call → ∀ g ∈ ev.stack, g.flags.call = true := by
  refine no_effect_without_flag Params.real .call f prog ?_
  intro i hi p hpi hc
  have := hp i hi p hpi
  simp [isCallbackException, hc] at this
  exact this

/-- C16 "calling a safe method never modifies state", on the node's tables, from Echidna on. -/
theorem real_safe_never_modifies (hf : Nat) (hhf : hf ∈ [5, 6, 7, 8]) (f : Frame) (hf0 : f.viaSafe = false)
    (prog : List Instr) (hp : RealProg hf prog) :
    ∀ ev ∈ (run Params.real (State.init f) prog).events, (∃ g ∈ ev.stack, g.viaSafe = true) → ev.kind = .call :=
  safe_never_modifies Params.real (by unfold Params.SafeDrops; decide) f hf0 prog
    (fun i hi p hpi => realPrims_guard_write hf (by
      simp only [List.mem_cons, List.not_mem_nil, or_false] at hhf
      rcases hhf with rfl | rfl | rfl | rfl <;> decide) p (hp i hi p hpi))
    (fun i hi p hpi => realPrims_guard_notify hf hhf p (hp i hi p hpi))

-- non-vacuity: with the node's tables, an entry script holding All calls a deployed contract (wildcard
-- permission irrelevant: the entry script is not deployed) which puts to storage and notifies: 3 events …
example :
    let A : Target := ⟨1, ⟨[], []⟩, "m", false⟩
    (syscallPrim 8 "System.Contract.Call").bind (fun sc =>
    (syscallPrim 8 "System.Storage.Put").bind (fun put =>
    (syscallPrim 8 "System.Runtime.Notify").map (fun ntf =>
      ((run Params.real (State.init (Frame.entry all Option.none))
        [.call sc false all A, .prim put, .prim ntf, .ret]).events.map (·.kind))))) = some [.notify, .write, .call] := by
  decide +kernel
-- … and the same program entered through a safe method faults at the Put, before any write:
example :
    let A : Target := ⟨1, ⟨[], []⟩, "m", true⟩
    (syscallPrim 8 "System.Contract.Call").bind (fun sc =>
    (syscallPrim 8 "System.Storage.Put").bind (fun put =>
    (syscallPrim 8 "System.Runtime.Notify").map (fun ntf =>
      let s := run Params.real (State.init (Frame.entry all Option.none)) [.call sc false all A, .prim put, .prim ntf, .ret]
      (s.events.map (·.kind), s.halted)))) = some ([.call], true) := by
  decide +kernel
-- … also when it is entered with CALLT through a method token whose flags are All:
example :
    let A : Target := ⟨1, ⟨[], []⟩, "m", true⟩
    (syscallPrim 8 "System.Storage.Put").map (fun put =>
      let s := run Params.real (State.init (Frame.entry all Option.none)) [.call (callTPrim 8) true all A, .prim put]
      (s.stack.map (·.flags.toNat), s.events.map (·.kind), s.halted)) = some ([5, 15], [.call], true) := by
  decide +kernel
-- a deployed caller without a matching permission cannot call a non-safe method, but can call a safe one
example :
    let caller : Frame := Frame.entry all (some ⟨[], [⟨.hash 2, Option.none⟩]⟩)
    let sc : Prim := ⟨ofNat 5, c⟩
    ((run Params.real (State.init caller) [.call sc false all ⟨1, ⟨[], []⟩, "m", false⟩]).halted,
     (run Params.real (State.init caller) [.call sc true all ⟨1, ⟨[], []⟩, "m", true⟩]).halted,
     (run Params.real (State.init caller) [.call sc false all ⟨2, ⟨[], []⟩, "m", false⟩]).halted) = (true, false, false) := by
  decide +kernel

end NeoModel.Flags

namespace NeoModel.Flags.MF
open NeoModel.Generated

/-! ## 5. Whole manifests: validity, the stored (stack-item) form, the permission check on concrete ids -/

/-- the literals of the model are the node's constants (regenerated from the linked packages). -/
theorem manifest_consts :
    ManifestConsts.voidType = voidType ∧ ManifestConsts.signatureLen = 64 ∧ ManifestConsts.uint160Size = 20 ∧
    ManifestConsts.compressedKeyLen = 33 ∧ ManifestConsts.permissionTypes = [0, 1, 2] ∧
    ManifestConsts.voidType ∈ ManifestConsts.validParamTypes ∧
    ManifestConsts.maxSerialized = maxSerialized ∧ ManifestConsts.maxItemSize = maxItemSize := by decide

/-- `manifest_item_roundtrip`: for EVERY manifest value whose strings are valid UTF-8, whose parameter / return
types are valid, whose keys are canonical encodings of decodable keys and whose signatures have 64 bytes (what JSON
decoding and the Go types establish), Manifest.FromStackItem(Manifest.ToStackItem(m)) succeeds and yields `m` up to
`normalize` (nil slices become empty, features become `{}`, the trusts container canonical, `extra` re-marshalled)
— whatever the numbers of groups, methods, parameters, events, permissions, trusts. -/
theorem manifest_item_roundtrip (d : Dec) (compact : Bytes → Bytes) (m : Man) (h : m.WF d) :
    d.man (m.toItem compact) = some (m.normalize compact) := man_roundtrip d compact m h

/-- the stored form decides every call exactly as the original: as the caller … -/
theorem roundtrip_keeps_canCall (compact : Bytes → Bytes) (m callee : Man) (hash method : Bytes) :
    (m.normalize compact).canCall hash callee method = m.canCall hash callee method ∧
    m.canCall hash (callee.normalize compact) method = m.canCall hash callee method := by
  constructor <;> rfl

theorem trustsValid_normalize (t : Trusts) (h : trustsValid t = none) :
    trustsValid (if t.wildcard then ⟨none, true⟩ else ⟨some (t.value.getD []), false⟩) = none := by
  obtain ⟨v, w⟩ := t
  cases w
  · cases v with
    | none => simp [trustsValid] at h
    | some v => simpa [trustsValid] using h
  · simp [trustsValid, hasDupBy]

theorem orElse_none {α : Type} (a b : Option α) : (a <|> b) = none ↔ a = none ∧ b = none := by
  cases a <;> simp

/-- … and it stays valid: `IsValid` of the manifest read back from storage does not fail if the original passed. -/
theorem roundtrip_keeps_valid (validTypes : List Nat) (verify : Bytes → Bytes → Bool) (checkHash : Bool)
    (compact : Bytes → Bytes) (m : Man) (h : m.isValid validTypes verify checkHash = none) :
    (m.normalize compact).isValid validTypes verify checkHash = none := by
  simp only [Man.isValid, orElse_none] at h ⊢
  obtain ⟨h1, h2, h3, h4, h5, h6, h7, h8⟩ := h
  refine ⟨h1, h2, h3, h4, by simp [Man.normalize, featuresOk], ?_, trustsValid_normalize _ h7, h8⟩
  cases hg : m.groups with
  | none => rw [hg] at h6; simp [groupsValid] at h6
  | some gs => rw [hg] at h6; simpa [Man.normalize, hg] using h6

/-- the stack item of the manifest read back from storage is the stack item of the original (so it serialises to
the same bytes): `compact` is the re-marshalling of `extra`, idempotent on its own output. -/
theorem toItem_normalize (compact : Bytes → Bytes)
    (hc : ∀ e, extraItem compact (extraItem compact e) = extraItem compact e) (m : Man) :
    (m.normalize compact).toItem compact = m.toItem compact := by
  cases hw : m.trusts.wildcard <;> simp [Man.toItem, Man.normalize, hw, hc]

/-- `roundtrip_keeps_valid` with the size check (`IsValid(hash, true)`, what ContractManagement.deploy / update
run): item count ≤ MaxSerialized and byte size ≤ MaxSize of the stack item are preserved, because the item is. -/
theorem roundtrip_keeps_valid_full (validTypes : List Nat) (verify : Bytes → Bytes → Bool) (checkHash checkSize : Bool)
    (compact : Bytes → Bytes) (hc : ∀ e, extraItem compact (extraItem compact e) = extraItem compact e) (m : Man)
    (h : m.isValidFull validTypes verify checkHash checkSize compact = none) :
    (m.normalize compact).isValidFull validTypes verify checkHash checkSize compact = none := by
  simp only [Man.isValidFull, orElse_none] at h ⊢
  refine ⟨roundtrip_keeps_valid validTypes verify checkHash compact m h.1, ?_⟩
  simpa [Man.serializable, toItem_normalize compact hc m] using h.2

/-- a valid manifest has at most one permission per contract descriptor (so "the first matching permission" and
"any matching permission" could only differ in which method list applies, and there is only one). -/
theorem valid_perms_one_per_contract (validTypes : List Nat) (verify : Bytes → Bytes → Bool) (checkHash : Bool)
    (m : Man) (h : m.isValid validTypes verify checkHash = none) :
    m.perms.Pairwise (fun p q => p.contract ≠ q.contract) := by
  simp only [Man.isValid, orElse_none] at h
  have h8 := h.2.2.2.2.2.2.2
  simp only [permsValid, orElse_none] at h8
  have hd : hasDupBy (fun a b : Perm => a.contract == b.contract) m.perms = false := by
    cases hh : hasDupBy (fun a b : Perm => a.contract == b.contract) m.perms with
    | false => rfl
    | true => simp [hh] at h8
  have hp : m.perms.Pairwise (fun a b => (a.contract == b.contract) = false) := by
    apply Classical.byContradiction
    intro hn
    have := (hasDupBy_iff (fun a b : Perm => a.contract == b.contract) m.perms).2 hn
    rw [hd] at this; cases this
  exact hp.imp (fun {a b} hab => by simpa using hab)

/-- the answer of CanCall is a function of the SET of permissions: the code evaluates
`slices.ContainsFunc(m.Permissions, IsAllowed)`, an existential — invariant under any reordering or duplication. -/
theorem canCall_set_only (m m' : Man) (h : ∀ p, p ∈ m.perms ↔ p ∈ m'.perms) (hash : Bytes) (callee : Man) (method : Bytes) :
    m.canCall hash callee method = m'.canCall hash callee method := canCall_congr m m' h hash callee method

theorem canCall_order_free (m m' : Man) (h : m.perms.Perm m'.perms) (hash : Bytes) (callee : Man) (method : Bytes) :
    m.canCall hash callee method = m'.canCall hash callee method :=
  canCall_congr m m' (fun _ => h.mem_iff) hash callee method

/-- `canCall_iff` on concrete hashes and keys: some permission matches the callee (wildcard, its hash, or a key of
one of its groups) AND the method (wildcard or listed). -/
theorem Man.canCall_iff (m : Man) (hash : Bytes) (callee : Man) (method : Bytes) :
    m.canCall hash callee method = true ↔
      ∃ p ∈ m.perms,
        (p.contract = .wildcard ∨ p.contract = .hash hash ∨ ∃ g ∈ callee.groups.getD [], p.contract = .group g.key) ∧
        (p.methods = none ∨ ∃ ms, p.methods = some ms ∧ method ∈ ms) := by
  rw [canCall_iff_exists]
  constructor
  · rintro ⟨p, hp, ha⟩
    refine ⟨p, hp, ?_⟩
    obtain ⟨c, ms⟩ := p
    cases c <;> cases ms <;> simp_all [Perm.isAllowed] <;> grind
  · rintro ⟨p, hp, hc, hm⟩
    refine ⟨p, hp, ?_⟩
    obtain ⟨c, ms⟩ := p
    cases c <;> cases ms <;> simp_all [Perm.isAllowed] <;> grind

/-- `sliceHasDups` (sort, then compare neighbours) decides "two positions hold equivalent elements" for every
comparison that is a total preorder, whatever correct sorting algorithm is used. -/
theorem sliceHasDups_correct {α : Type} {le : α → α → Prop} {eqv : α → α → Bool} (P : Preorder' le eqv)
    (sort : List α → List α) (hperm : ∀ l, (sort l).Perm l) (hsorted : ∀ l, (sort l).Pairwise le) (x : List α) :
    (if x.length < 2 then false else adjDup eqv (if x.length > 2 then sort x else x)) = hasDupBy eqv x :=
  sliceHasDups_spec P sort hperm hsorted x

-- non-vacuity: a manifest with a group, two permissions (one by group key), explicit trusts: it is valid, survives
-- the round trip, and is refused once a second permission for the same key is added
def exKey (b : UInt8) : Bytes := 2 :: List.replicate 32 b
def exMan : Man :=
  { name := [0x63], groups := some [⟨exKey 7, List.replicate 64 1⟩], features := [0x7b, 0x20, 0x7d], standards := [[0x78]],
    methods := [⟨[0x6d], 0, [⟨[0x61], 17⟩], 255, true⟩], events := [⟨[0x45], []⟩],
    perms := [⟨.group (exKey 9), some [[0x61]]⟩, ⟨.hash (List.replicate 20 3), none⟩],
    trusts := ⟨some [.wildcard], false⟩, extra := [] }
def exDec : Dec := ⟨fun _ => true, fun k => if k.length == 33 then some k else none, ManifestConsts.validParamTypes⟩

example : exMan.isValid ManifestConsts.validParamTypes (fun _ _ => true) true = none := by decide
example : exDec.man (exMan.toItem id) = some (exMan.normalize id) := by decide
-- the item limit: 11 + 6n items for n methods without parameters — 339 methods pass, 340 do not
def manyMethods (n : Nat) : Man :=
  { exMan with groups := some [], standards := [], events := [], perms := [], trusts := ⟨some [], false⟩,
               methods := (List.range n).map (fun (i : Nat) => ⟨[0x6d, UInt8.ofNat (i % 256), UInt8.ofNat (i / 256)], (i : Int), [], 255, false⟩) }
example : ((manyMethods 339).toItem id).count = 2045 ∧ (manyMethods 339).serializable id = true ∧
          ((manyMethods 340).toItem id).count = 2051 ∧ (manyMethods 340).serializable id = false := by decide +kernel
example : (manyMethods 340).isValidFull ManifestConsts.validParamTypes (fun _ _ => true) false true id = some .notSerializable ∧
          (manyMethods 340).isValidFull ManifestConsts.validParamTypes (fun _ _ => true) false false id = Option.none := by decide +kernel
-- items ToStackItem never produces: an Integer 2^64+16 in a type position is read as `int(x.Int64())` = 16 (Boolean), a
-- Boolean as a name is the byte 01, a Buffer is no permission descriptor, a 33-byte ByteArray is no integer
example : exDec.toType (.int (2 ^ 64 + 16)) = some 16 ∧ exDec.toType (.int (-(2 ^ 64 - 16))) = some 16 ∧
          exDec.toStr (.bool true) = some [1] ∧ exDec.desc (.buffer (List.replicate 20 3)) = Option.none ∧
          tryInt (.bytes (List.replicate 33 0)) = Option.none ∧ tryInt (.bytes [0xff, 0x7f]) = some 32767 := by decide
example : exMan.WF exDec := by
  refine ⟨rfl, ?_, ?_, ?_, ?_, ?_, ?_⟩ <;> simp [exMan, exDec, exKey, Group.WF, Method.WF, Param.WF, Event.WF, Perm.WF, Desc.WF, ManifestConsts.validParamTypes]
example : ({ exMan with perms := exMan.perms ++ [(⟨.group (exKey 9), none⟩ : Perm)] } : Man).isValid ManifestConsts.validParamTypes (fun _ _ => true) true
    = some .dupPermissions := by decide
example : exMan.canCall (List.replicate 20 4) { exMan with groups := some [⟨exKey 9, []⟩] } [0x61] = true ∧
          exMan.canCall (List.replicate 20 4) { exMan with groups := some [⟨exKey 9, []⟩] } [0x62] = false := by decide

end NeoModel.Flags.MF
