/-
C19 — consensus through the node's dBFT integration is safe, and live under synchrony.
Property theorems only. Model: `NeoModel/Model/Dbft.lean` (dBFT 2.0 as driven by pkg/consensus: `n`
validators, per-validator ledger/height/view/knowledge, network = multiset of in-flight payloads, steps
`deliver | drop | dup | timeout i` and the validators' guarded sends/transitions, in ANY order; faults are
silence and lateness: no step is ever forced). Helper lemmas: `NeoModel/Proofs/Dbft*.lean`.

All safety theorems quantify over every `n ≥ 1` (so in particular every `n = 3f+1`), every reachable
state, i.e. every schedule of deliveries, losses, duplications, timeouts and sends, and any number of
validators that stay silent for any stretch of the run.

Sections 1–5: the guarded-command model (agreement, its invariants, validity, liveness under synchrony, the
dBFT 2.0 liveness lock). Section 6: a committed block passes C06's model of Blockchain.AddBlock (the backup's
checks of a PrepareRequest: Model/DbftProposal.lean). Section 7: the witness of the block handed to the ledger
(known finding `relabelled-commit-witness`). Section 8: the deterministic validator machine
(Model/DbftMach.lean) REFINES the guarded-command model, recovery messages, cached payloads and view changes
included (Proofs/DbftSim*.lean), so sections 1–3 hold for networks of machines. Timer arithmetic and the
real-time reading of the synchronous round: Proofs/DbftTimed.lean.

The tie to the real code (`Driver/Dbft.lean`, on every run of the check): 4 (also 7) real `consensus.Service`
instances are executed under adversarial schedules and a fixed corpus; after EVERY event the exact sequence of
things each real service did and its complete dBFT context must equal what the machine model computes, and
every payload emitted / transition made must be an ENABLED step of the guarded-command model.
-/
import NeoModel.Model.Dbft
import NeoModel.Proofs.DbftRun
import NeoModel.Proofs.DbftLock
import NeoModel.Proofs.DbftLive
import NeoModel.Proofs.DbftChain
import NeoModel.Proofs.DbftProposal
import NeoModel.Proofs.DbftWitness
import NeoModel.Proofs.DbftTimed
import NeoModel.Proofs.DbftSimX
import NeoModel.Proofs.DbftStuck
import NeoModel.Proofs.DbftProposalX
import NeoModel.Proofs.DbftTimedExec
import NeoModel.Proofs.DbftEpochBlock
import NeoModel.Proofs.DbftWitnessM
namespace NeoModel.Dbft

/-! ### 1. Agreement -/

/-- C19 (agreement): in every reachable state, two blocks accepted at the same height by any two
validators (by their own consensus or through block relay) are equal. -/
theorem agreement (c : Cfg) (hn : 0 < c.n) (s : State) (hr : Reachable c s) (i j : Nat) (b b' : Block)
    (hb : b ∈ (s.nodes i).chain) (hb' : b' ∈ (s.nodes j).chain) (hh : b.h = b'.h) : b = b' := by
  have inv := inv_reachable c s hr
  have q1 := inv.chainQuorum i b hb
  have q2 := inv.chainQuorum j b' hb'
  have := two_m_gt_n c hn
  obtain ⟨k, _, h1, h2⟩ := quorum_inter c.n (signed s b) (signed s b') (by omega)
  simp only [signed, decide_eq_true_eq] at h1 h2
  exact inv.commitUniq k b b' h1 h2 hh

/-- the same, phrased on the ledgers' block-at-height lookup -/
theorem agreement_at (c : Cfg) (hn : 0 < c.n) (s : State) (hr : Reachable c s) (i j h : Nat) (b b' : Block)
    (hb : blockAt (s.nodes i) h = some b) (hb' : blockAt (s.nodes j) h = some b') : b = b' := by
  obtain ⟨m1, e1⟩ := blockAt_some hb
  obtain ⟨m2, e2⟩ := blockAt_some hb'
  exact agreement c hn s hr i j b b' m1 m2 (by omega)

/-- C19 (ledgers are complete): a validator working on height `H` has exactly one block for each of the
heights `1 … H-1` on its ledger, and nothing else. -/
theorem ledger_contiguous (c : Cfg) (s : State) (hr : Reachable c s) (i : Nat) :
    (s.nodes i).chain.length + 1 = (s.nodes i).height ∧
    ∀ h, 1 ≤ h → h < (s.nodes i).height → ∃ b, b ∈ (s.nodes i).chain ∧ b.h = h :=
  have cs := (inv_reachable c s hr).chainShape i
  ⟨chainAt_length cs, chainAt_mem cs⟩

/-- C19 (one chain): in every reachable state the ledgers of any two validators are prefixes of one
another — the ledger of the validator that is behind is exactly the older part of the other's ledger
(`<:+` because ledgers are kept newest first). -/
theorem ledgers_are_prefixes (c : Cfg) (hn : 0 < c.n) (s : State) (hr : Reachable c s) (i j : Nat)
    (hle : (s.nodes i).height ≤ (s.nodes j).height) : (s.nodes i).chain <:+ (s.nodes j).chain := by
  have inv := inv_reachable c s hr
  exact chainAt_suffix (inv.chainShape i) (inv.chainShape j) hle
    (fun b b' hb hb' hh => agreement c hn s hr i j b b' hb hb' hh)

private abbrev c4 : Cfg := cfg4
private def blk (h v p : Nat) : Block := ⟨h, v, p⟩
private def it (x : Item) : Msg := .item x

/-- one full round at height 1 among 4 validators (primary = 1), validator 3 silent throughout,
    with a duplicated and a dropped payload and a spurious timeout on the way -/
private def round1 : List Action :=
  let b := blk 1 0 7
  [.timeout 1, .sendPrepReq 1 7,
   .deliver 0 (it (.prepReq 1 b)), .deliver 2 (it (.prepReq 1 b)), .drop 3 (it (.prepReq 1 b)),
   .sendPrepResp 0 b, .sendPrepResp 2 b, .timeout 3,
   .dup 1 (it (.prepResp 0 b)), .deliver 1 (it (.prepResp 0 b)), .deliver 1 (it (.prepResp 0 b)),
   .deliver 1 (it (.prepResp 2 b)), .deliver 0 (it (.prepResp 2 b)), .deliver 2 (it (.prepResp 0 b)),
   .sendCommit 1 b, .sendCommit 0 b, .sendCommit 2 b,
   .deliver 0 (it (.commit 1 b)), .deliver 0 (it (.commit 2 b)),
   .deliver 2 (it (.commit 1 b)), .deliver 2 (it (.commit 0 b)),
   .accept 0 b, .accept 2 b, .syncBlock 3 0]

-- non-vacuity: the schedule is enabled step by step, three ledgers end up holding the block
example : (run c4 init round1).map (fun s => ((s.nodes 0).chain, (s.nodes 2).chain, (s.nodes 3).chain,
    (s.nodes 1).chain, (s.nodes 3).height)) = some ([blk 1 0 7], [blk 1 0 7], [blk 1 0 7], [], 2) := by decide

-- non-vacuity: after `round1` validator 1 is still at height 1 with an empty ledger, a proper prefix of the others'
example : (run c4 init round1).map (fun s => ((s.nodes 1).height, (s.nodes 0).height,
    decide ((s.nodes 1).chain <:+ (s.nodes 0).chain), (s.nodes 0).chain.length)) = some (1, 2, true, 1) := by decide

/-! ### 2. The invariants behind it -/

/-- C19 (one preparation per validator per view): a validator never sends two different
PrepareRequest/PrepareResponse payloads for the same height and view. -/
theorem one_preparation_per_view (c : Cfg) (s : State) (hr : Reachable c s) (i : Nat) (b b' : Block)
    (hb : b ∈ (s.nodes i).myPreps) (hb' : b' ∈ (s.nodes i).myPreps) (hh : b.h = b'.h) (hv : b.v = b'.v) :
    b = b' :=
  (inv_reachable c s hr).prepUniq i b b' hb hb' hh hv

/-- C19 (a view has one prepared hash): whatever two validators prepared for the same height and view is
the same block, namely the one the primary of that view proposed. -/
theorem prepared_unique (c : Cfg) (s : State) (hr : Reachable c s) (i j : Nat) (b b' : Block)
    (hb : b ∈ (s.nodes i).myPreps) (hb' : b' ∈ (s.nodes j).myPreps) (hh : b.h = b'.h) (hv : b.v = b'.v) :
    b = b' ∧ b ∈ (s.nodes (c.primary b.h b.v)).myPreps := by
  have inv := inv_reachable c s hr
  have p1 := inv.prepFollows i b hb
  have p2 := inv.prepFollows j b' hb'
  rw [← hh, ← hv] at p2
  exact ⟨inv.prepUniq _ b b' p1 p2 hh hv, p1⟩

/-- C19 (commits carry the view's unique prepared hash): a validator signs a block only if `M` validators
prepared exactly this block, and nothing else was prepared by anybody in that view. -/
theorem commits_carry_prepared (c : Cfg) (hn : 0 < c.n) (s : State) (hr : Reachable c s) (i : Nat) (b : Block)
    (hb : b ∈ (s.nodes i).myCommits) :
    c.m ≤ countP c.n (preparedBy s b) ∧
    ∀ j b', b' ∈ (s.nodes j).myPreps → b'.h = b.h → b'.v = b.v → b' = b := by
  have inv := inv_reachable c s hr
  have hq := inv.commitPrepared i b hb
  refine ⟨hq, ?_⟩
  intro j b' hb' hh hv
  obtain ⟨k, _, hk⟩ := countP_pos c.n _ (Nat.lt_of_lt_of_le (m_pos c hn) hq)
  simp only [preparedBy, decide_eq_true_eq] at hk
  exact (prepared_unique c s hr j k b' b hb' hk hh hv).1

-- non-vacuity: after `round1`, validator 0 signed the block 0, 1 and 2 prepared
example : (run c4 init round1).map (fun s => ((s.nodes 0).myCommits, countP 4 (preparedBy s (blk 1 0 7)))) =
    some ([blk 1 0 7], 3) := by decide

/-- C19 (commitSent ⇒ the view never changes): once a validator has signed a block of the height it is
working on, then after ANY further schedule, as long as it is still at that height it is still in the
view it signed in (the guard of `changeView` can never hold again, check.go:153-180 / dbft.go:535-539). -/
theorem commit_freezes_view (c : Cfg) (s : State) (hr : Reachable c s) (i : Nat) (b : Block)
    (hb : b ∈ (s.nodes i).myCommits) (as : List Action) (s' : State) (hrun : run c s as = some s')
    (hsame : (s'.nodes i).height = b.h) : (s'.nodes i).view = b.v := by
  have inv' := inv_reachable c s' (run_reachable c s as s' hr hrun)
  have hb' := (run_grows c s as s' hrun).commits i b hb
  exact (inv'.viewFrozen i b hb' hsame.symm).symm

/-- a validator signs at most one block per height -/
theorem one_commit_per_height (c : Cfg) (s : State) (hr : Reachable c s) (i : Nat) (b b' : Block)
    (hb : b ∈ (s.nodes i).myCommits) (hb' : b' ∈ (s.nodes i).myCommits) (hh : b.h = b'.h) : b = b' :=
  (inv_reachable c s hr).commitUniq i b b' hb hb' hh

-- non-vacuity: validator 1 signed in view 0; three ChangeViews for view 1 reach it; it cannot move
private def stuck : List Action :=
  let b := blk 1 0 7
  [.sendPrepReq 1 7, .deliver 0 (it (.prepReq 1 b)), .deliver 2 (it (.prepReq 1 b)),
   .sendPrepResp 0 b, .sendPrepResp 2 b,
   .deliver 1 (it (.prepResp 0 b)), .deliver 1 (it (.prepResp 2 b)), .sendCommit 1 b,
   .sendChangeView 0, .sendChangeView 2, .sendChangeView 3,
   .deliver 1 (it (.changeView 0 1 0 1)), .deliver 1 (it (.changeView 2 1 0 1)), .deliver 1 (it (.changeView 3 1 0 1)),
   .deliver 3 (it (.changeView 0 1 0 1)), .deliver 3 (it (.changeView 2 1 0 1))]

example : (run c4 init stuck).map (fun s => (decide (Enabled c4 s (.changeView 1 1)),
    decide (Enabled c4 s (.changeView 3 1)), (s.nodes 1).view)) = some (false, true, 0) := by decide

/-- C19 (quorums): any two sets of `M = n − f` validators share a validator outside any set of at most
`f` silent ones (`f = ⌊(n−1)/3⌋`, i.e. `n ≥ 3f+1`). -/
theorem quorums_intersect_in_nonsilent (c : Cfg) (hn : 0 < c.n) (P Q silent : Nat → Bool)
    (hP : c.m ≤ countP c.n P) (hQ : c.m ≤ countP c.n Q) (hs : countP c.n silent ≤ c.f) :
    ∃ j, j < c.n ∧ P j = true ∧ Q j = true ∧ silent j = false :=
  quorum_inter_nonsilent c hn P Q silent hP hQ hs

example : ∃ j, j < 7 ∧ (fun j => decide (j < 5)) j = true ∧ (fun j => decide (2 ≤ j)) j = true ∧
    (fun j => decide (j = 2 ∨ j = 3)) j = false :=
  quorums_intersect_in_nonsilent { n := 7 } (by decide) _ _ _ (by decide) (by decide) (by decide)

/-! ### 3. Validity of committed blocks -/

/-- C19 (committed_block_valid): a block on any validator's ledger was signed by `M` validators and
prepared by `M` validators; every one of the preparers checked it — the primary of its view built it from
its own verified pool (`propose`), every backup ran `verifyRequest`/`verifyBlock` on it (`verify`) — and
nothing else was prepared in that view. -/
theorem committed_block_valid (c : Cfg) (hn : 0 < c.n) (s : State) (hr : Reachable c s) (i : Nat) (b : Block)
    (hb : b ∈ (s.nodes i).chain) :
    c.m ≤ countP c.n (signed s b) ∧ c.m ≤ countP c.n (preparedBy s b) ∧
    (∀ j, b ∈ (s.nodes j).myPreps →
      (j = c.primary b.h b.v → c.propose j b = true) ∧ (j ≠ c.primary b.h b.v → c.verify j b = true)) ∧
    b.h < (s.nodes i).height := by
  have inv := inv_reachable c s hr
  have hq := inv.chainQuorum i b hb
  obtain ⟨k, _, hk⟩ := countP_pos c.n _ (Nat.lt_of_lt_of_le (m_pos c hn) hq)
  simp only [signed, decide_eq_true_eq] at hk
  exact ⟨hq, inv.commitPrepared k b hk, fun j hj => inv.checked j b hj, inv.chainHeight i b hb⟩

/-- … hence, as soon as `M ≥ 2` (any `n ≥ 2`), some BACKUP validator verified the block against its
ledger; if what `verify` accepts on one ledger is what `addBlock` accepts on every ledger with the same
history (`ledger`, property C06/C01), every node's ledger accepts a committed block. -/
theorem committed_block_accepted_by_ledgers (c : Cfg) (hm : 2 ≤ c.m) (s : State) (hr : Reachable c s)
    (i : Nat) (b : Block) (hb : b ∈ (s.nodes i).chain)
    (ledger : Block → Bool) (hsound : ∀ j b, c.verify j b = true → ledger b = true) : ledger b = true := by
  have hn : 0 < c.n := by unfold Cfg.m at hm; omega
  obtain ⟨_, hp, hck, _⟩ := committed_block_valid c hn s hr i b hb
  obtain ⟨j, _, hne, hj⟩ := countP_other c.n (c.primary b.h b.v) _ (Nat.le_trans hm hp)
  simp only [preparedBy, decide_eq_true_eq] at hj
  exact hsound j b ((hck j hj).2 hne)

-- non-vacuity: with a `verify` that rejects proposal 9, the round for proposal 7 goes through and the
-- primary's proposal 9 gets no response
private def c4v : Cfg := { n := 4, verify := fun _ b => b.p != 9 }
example : (run c4v init round1).map (fun s => (s.nodes 0).chain) = some [blk 1 0 7] ∧
    (run c4v init [.sendPrepReq 1 9, .deliver 0 (it (.prepReq 1 (blk 1 0 9))), .sendPrepResp 0 (blk 1 0 9)]).isNone := by
  decide

/-! ### 4. Liveness under synchrony -/

/- Full statement: under partial synchrony — after some point all validators are honest, every payload is
delivered within a view's timeout, timers fire in deadline order — every fair run eventually increases
every ledger's height, whatever state the asynchronous prefix left behind. That statement is FALSE for
dBFT 2.0 (section 5 proves the negation on a concrete reachable state; the real services reproduce it:
known finding `dbft20-liveness-lock`). What is proved is liveness of runs that are synchronous from a
clean state on (all validators honest, in every height the primary's timer fires and every payload is
delivered to everybody before any other timer): for EVERY n ≥ 1, from EVERY clean state (everybody at
height h, view 0, nothing prepared or signed for h yet — e.g. the state after any decided height in which
everybody caught up, or the initial state), every step of the synchronous schedule is enabled and k rounds
put the k proposed blocks, in order, on every ledger, leaving a clean state again. The same schedule is run
against the real services by the harness (profile `fair`: every height must be decided in view 0 after
exactly the primary's timeout and carry the pending transactions). -/

/-- C19 (liveness under synchrony, one height): for every n and every clean state, every step of the
synchronous schedule of height `h` with proposal `p` is enabled; afterwards every validator's ledger has the
proposed block on top, everybody is at height `h+1` in view 0 with nothing prepared or signed for it, and
the network holds what it held before (nothing of the round is left in flight). -/
theorem liveness_sync_round (c : Cfg) (hn : 0 < c.n) (s : State) (h p : Nat) (hc : Clean c s h)
    (hprop : c.propose (c.primary h 0) ⟨h, 0, p⟩ = true) (hver : ∀ j, c.verify j ⟨h, 0, p⟩ = true) :
    ∃ s', run c s (fairRound c h p) = some s' ∧ Clean c s' (h + 1) ∧ s'.net = s.net ∧
      ∀ i, i < c.n → (s'.nodes i).chain = ⟨h, 0, p⟩ :: (s.nodes i).chain :=
  sync_round c hn s h p hc hprop hver

/-- C19 (liveness under synchrony, blocks keep being produced): `k` synchronous rounds from a clean state
decide `k` consecutive heights; every ledger grows by exactly the `k` proposals, in order. -/
theorem liveness_sync_partial (c : Cfg) (hn : 0 < c.n)
    (hprop : ∀ i b, c.propose i b = true) (hver : ∀ i b, c.verify i b = true)
    (k : Nat) (s : State) (h : Nat) (props : Nat → Nat) (hc : Clean c s h) :
    ∃ s', run c s (fairRounds c h props k) = some s' ∧ Clean c s' (h + k) ∧ s'.net = s.net ∧
      ∀ i, i < c.n → (s'.nodes i).chain = decided h props k ++ (s.nodes i).chain :=
  sync_rounds c hn hprop hver k s h props hc

/-- … in particular from the initial state, for any number of validators and rounds -/
theorem liveness_sync_from_init (c : Cfg) (hn : 0 < c.n)
    (hprop : ∀ i b, c.propose i b = true) (hver : ∀ i b, c.verify i b = true) (k : Nat) (props : Nat → Nat) :
    ∃ s', run c init (fairRounds c 1 props k) = some s' ∧
      ∀ i, i < c.n → (s'.nodes i).height = 1 + k ∧ (s'.nodes i).view = 0 ∧ (s'.nodes i).chain = decided 1 props k := by
  obtain ⟨s', hrun, hclean, _, hch⟩ := liveness_sync_partial c hn hprop hver k init 1 props (clean_init c)
  refine ⟨s', hrun, fun i hi => ⟨(hclean i hi).1, (hclean i hi).2.1, ?_⟩⟩
  rw [hch i hi]; simp [init]

-- non-vacuity: the concrete instances below run the schedule for n = 4 and n = 7 by evaluation
private def c7 : Cfg := { n := 7 }

set_option maxRecDepth 100000 in
/-- C19 (liveness, synchronous schedule, n = 4): three consecutive heights are decided, each in view 0,
every ledger ends with the three proposals in order. -/
theorem liveness_sync_partial_4 :
    (run c4 init (fairRounds c4 1 (fun r => 10 + r) 3)).map
      (fun s => (List.range 4).map (fun i => ((s.nodes i).height, (s.nodes i).view, (s.nodes i).chain.map (·.p)))) =
    some ((List.range 4).map (fun _ => (4, 0, [12, 11, 10]))) := by decide

set_option maxRecDepth 100000 in
/-- C19 (liveness, synchronous schedule, n = 7): two consecutive heights are decided in view 0. -/
theorem liveness_sync_partial_7 :
    (run c7 init (fairRounds c7 1 (fun r => 10 + r) 2)).map
      (fun s => (List.range 7).map (fun i => ((s.nodes i).height, (s.nodes i).view, (s.nodes i).chain.map (·.p)))) =
    some ((List.range 7).map (fun _ => (3, 0, [11, 10]))) := by decide

/-! ### 5. What is false: liveness after an asynchronous prefix (the dBFT 2.0 liveness lock) -/

/-- A schedule among 4 honest validators that ends in the lock: validator 1 proposes, 0 and 2 respond
and (having seen each other's responses) sign, but before signing 0 had asked for a view change together
with 1 and 3, who collect the three ChangeViews and move to view 1. Nothing is lost for ever: every
payload not delivered here is still in flight and may be delivered later. -/
def lockSched : List Action :=
  let b := lockB
  [.sendPrepReq 1 7,
   .deliver 0 (it (.prepReq 1 b)), .deliver 2 (it (.prepReq 1 b)), .deliver 3 (it (.prepReq 1 b)),
   .sendPrepResp 0 b, .sendPrepResp 2 b,
   .deliver 0 (it (.prepResp 2 b)), .deliver 2 (it (.prepResp 0 b)),
   .timeout 0, .sendChangeView 0, .timeout 1, .sendChangeView 1, .timeout 3, .sendChangeView 3,
   .deliver 1 (it (.changeView 0 1 0 1)), .deliver 1 (it (.changeView 3 1 0 1)), .changeView 1 1,
   .deliver 3 (it (.changeView 0 1 0 1)), .deliver 3 (it (.changeView 1 1 0 1)), .changeView 3 1,
   .sendCommit 0 b, .sendCommit 2 b]

private def lockedOpt : Option State → Bool
  | some s => decide (Lock s)
  | none => false

private theorem lockSched_locks : lockedOpt (run cfg4 init lockSched) = true := by decide

/-- C19 (negation witness for unrestricted liveness; the replay of the known finding
`dbft20-liveness-lock`): there is a reachable state of 4 validators, none of them faulty, from which NO
schedule whatsoever — all payloads delivered, any timeouts, any sends — ever decides height 1: validators
0 and 2 signed in view 0 and are frozen there, 1 and 3 are in view 1 and can never gather M = 3. So
"blocks keep being produced" holds for synchronous runs (`liveness_sync_partial_*`) but not for runs
that become synchronous after an asynchronous prefix. -/
theorem liveness_lock_witness :
    ∃ s, run cfg4 init lockSched = some s ∧
      ∀ (as : List Action) (s' : State), run cfg4 s as = some s' →
        ∀ i, i < 4 → (s'.nodes i).height = 1 ∧ (s'.nodes i).chain = [] := by
  have h := lockSched_locks
  cases hr : run cfg4 init lockSched with
  | none => rw [hr] at h; simp [lockedOpt] at h
  | some s =>
    rw [hr] at h
    have h : Lock s := by simpa [lockedOpt] using h
    refine ⟨s, rfl, ?_⟩
    intro as s' hrun i hi
    have hreach : Reachable cfg4 s := run_reachable cfg4 init lockSched s Reachable.init hr
    exact (lock_forever s hreach h as s' hrun).fresh i hi

-- non-vacuity of the hypothesis: in the locked state plenty of steps are still enabled (validator 3
-- can ask for view 2, validator 0 can re-send what it holds, payloads can be delivered) — just no accept
example : (run cfg4 init lockSched).map (fun s =>
    (decide (Enabled cfg4 s (.sendChangeView 3)), decide (Enabled cfg4 s (.sendRecMsg 0 [.commit 0 lockB])),
     decide (Enabled cfg4 s (.deliver 1 (it (.commit 0 lockB)))), decide (Enabled cfg4 s (.accept 0 lockB)))) =
    some (true, true, true, false) := by decide

/-! ### 6. Validity of committed blocks against the ledger's own checks (C06's model of AddBlock) -/

/-- C19 (committed_block_valid at full strength): take for `verify j b` "validator j, holding the ledger of
node `t'`, ran the backup's checks of a PrepareRequest — `verifyRequest`, `hasAllTransactions`, `verifyBlock`,
modelled in Model/DbftProposal.lean as written in pkg/consensus — on the request block `b` stands for, and
`blk` is the block assembled from it with a witness that verifies for the previous block's consensus address"
(`Proposal.Answered`). Then in every reachable state, for every `n` with `M ≥ 2`, a block on any validator's
ledger passes `Blockchain.AddBlock` (C06's model `AddBlock.addBlock`: index, state-root flag, previous hash,
timestamp, witness, Merkle root, duplicate check, the transaction loop with its scratch pool, execution) on
`t'`: M validators signed it, M prepared it, so some BACKUP checked it. -/
theorem committed_block_passes_addBlock {L : Type} (c : Cfg) (hm : 2 ≤ c.m) (s : State) (hr : Reachable c s)
    (i : Nat) (b : Block) (hb : b ∈ (s.nodes i).chain)
    (env : AddBlock.Env L) (t' : AddBlock.Node L) (blk : AddBlock.Block)
    (hverify : ∀ j, c.verify j b = true → Proposal.Answered env t' blk) :
    (AddBlock.addBlock env t' blk).2 = none := by
  have hn : 0 < c.n := by unfold Cfg.m at hm; omega
  obtain ⟨_, hp, hck, _⟩ := committed_block_valid c hn s hr i b hb
  obtain ⟨j, _, hne, hj⟩ := countP_other c.n (c.primary b.h b.v) _ (Nat.le_trans hm hp)
  simp only [preparedBy, decide_eq_true_eq] at hj
  exact Proposal.Answered.accepted env t' blk (hverify j ((hck j hj).2 hne))

open Proposal in
-- non-vacuity: the concrete backup of Proofs/DbftProposal.lean answers `reqOK`; the assembled block is `Answered`
-- on another validator's node (same ledger, another mempool) and that node's AddBlock takes it
example : Answered exEnv exOther (blockOf exEnv exBackup exTip reqOK 77 7 84 1) :=
  ⟨exBackup, exLim, exTip, 5, reqOK, 77, 7, 84, 1, rfl, by decide, by decide, by decide, by decide, by decide,
   by decide, by decide, by decide, by decide, by decide, by decide, by decide, rfl, rfl, rfl, rfl⟩

/-! ### 7. The witness of the block a validator hands to its ledger (machine model, Model/DbftMach.lean)

Statement: in every run of honest validators, the block a validator's consensus hands to its ledger
(`Out.block b sigs`: consensus.go:646-697 processBlock / getBlockWitness) carries signatures OF THAT BLOCK only, so
the validator's own ledger and every other one accept its witness. It was FALSE before ec63204 (fixed defect
`relabelled-commit-witness`: recovery_message.go GetCommits labelled every relayed Commit with the recovery message's
view, and dbft checks the stored Commits while MakeHeader is still nil, dbft.go:355-357); with each relayed Commit
keeping the view it was sent in, it is proved at full strength over the network of machines: a Commit held under the
current view was signed for a block of this height and view, M validators prepared that block, and a view has one
prepared block — the request held (`Mach.good_commitsSign`, through the refinement of section 8). -/

/-- C19 (block witness, full statement): in every reachable network of validator machines and whatever event
happens next, every block the machine concerned hands to its ledger carries only signatures of that block. -/
theorem block_witness_valid (e : Mach.Env) (ms : Mach.MNet) (hr : Mach.MReachable e ms) (ev : Mach.NEv)
    (inp : Mach.Inp) (hen : Mach.NEnabled e ms inp ev) (b : Block) (sigs : List (Nat × Bool))
    (hb : Mach.Out.block b sigs ∈ Mach.evOuts e ms inp ev) : ∀ t ∈ sigs, t.2 = true :=
  Mach.mach_block_witness_valid e ms hr ev inp hen b sigs hb

-- non-vacuity: in the two-machine run `Mach.xRun` the last event (validator 1 receives validator 0's Commit) makes
-- validator 1 hand the block to its ledger with both signatures valid
set_option maxRecDepth 100000 in
example : ((Mach.runNet Mach.xEnv (Mach.minit Mach.xEnv) (Mach.xRun.take 5)).map fun s =>
    (Mach.evOuts Mach.xEnv s Mach.xi (.deliver 1 (Mach.xCM 0))).filter fun o => match o with | .block _ _ => true | _ => false) =
    some [.block ⟨1, 0, 1⟩ [(0, true), (1, true)]] := by decide

/-- the local form: if every Commit held for the current view signs the header, the block handed to the ledger
carries only signatures of that block (dbft.go:620-642 guarantees the premise for Commits that arrive while the
header is at hand, `Mach.onCommit_checked`) -/
theorem block_witness_valid_of_checked (e : Mach.Env) (w : Mach.W) (b : Block) (hh : w.nd.header = some b)
    (hs : Mach.CommitsSign w.nd b) (b' : Block) (sigs : List (Nat × Bool))
    (hout : Mach.Out.block b' sigs ∈ (Mach.checkCommit e w).out) :
    Mach.Out.block b' sigs ∈ w.out ∨ (b' = b ∧ ∀ s ∈ sigs, s.2 = true) :=
  Mach.checkCommit_block_valid e w b hh hs b' sigs hout

/-- C19 (regression, fixed defect `relabelled-commit-witness`, ec63204): the events validator 5 sees in the harness'
scripted case `relabelled-commit` (seven honest validators, height 1). With GetCommits as fixed — a relayed Commit
keeps its own view — validator 6's view-0 signature does not count in view 1 and nothing is handed to the ledger;
under the OLD rule (label = the recovery message's view) the same events put that signature into the witness. -/
theorem block_witness_regression :
    ((Mach.runEvents Mach.wEnv 5 (Mach.initNode Mach.wEnv 5) Mach.wEvents).2 = [] ∧
      (Mach.runEvents Mach.wEnv 5 (Mach.initNode Mach.wEnv 5) Mach.wEvents).1.blockProcessed = false) ∧
    (Mach.runEvents Mach.wEnv 5 (Mach.initNode Mach.wEnv 5) (Mach.wEventsWith 1)).2 =
      [.block Mach.wb2 [(0, true), (2, true), (3, true), (5, true), (6, false)]] :=
  ⟨Mach.relabelled_commit_not_counted, Mach.relabelled_commit_in_witness_old_rule⟩

/-! ### 8. The validator machines refine the guarded-command model (so sections 1–3 hold for them)

`Model/DbftMach.lean` is the deterministic machine of one validator — the machine `Driver/Dbft.lean` compares,
after every event, with the real service (exact sequence of actions, full dBFT context). `Model/DbftMachNet.lean`
is a network of `n` such machines under arbitrary delivery, loss, duplication, timer ticks, transaction arrivals,
block relay and mempool changes. `Proofs/DbftSim*.lean` prove that every run of that network is simulated by a run
of the guarded-command model: every payload a machine holds, caches or finds in flight is a TRUE claim about what
validators prepared, signed or asked for; a machine broadcasts/accepts/changes view only when the corresponding
abstract guard can be made to hold by delivering (copies of) what was truly broadcast. RecoveryMessages included:
`Mach.prog_onRecoveryMessage` is "processing a RecoveryMessage is processing the payloads it carries" (the
ChangeViews, the request re-addressed to the receiver's primary, the responses with the preparation hash the
event loop filled in — even a wrong one —, the Commits re-labelled with the message's view), each of which is a
true claim, so nothing a recovery message makes a validator do leaves the model. -/

/-- C19 (refinement): every reachable network of validator machines is simulated by a reachable state of the
guarded-command model with the same ledgers. -/
theorem machines_refine_model (e : Mach.Env) (ms : Mach.MNet) (hr : Mach.MReachable e ms) :
    ∃ as : State, Reachable (Mach.cfgOf e) as ∧ ∀ i, i < e.n →
      (as.nodes i).chain = (ms.nodes i).chain ∧ (as.nodes i).height = (ms.nodes i).chain.length + 1 ∧
      ((ms.nodes i).bi ≠ 0 → (ms.nodes i).blockProcessed = false →
        (ms.nodes i).bi = (as.nodes i).height ∧ (ms.nodes i).view = (as.nodes i).view) :=
  Mach.mach_refines e ms hr

/-- C19 (agreement, for the machines that are tied to the real services): in every reachable network of validator
machines — every schedule, with recovery, caching and re-labelled Commits — two blocks of the same height on any two
validators' ledgers are equal. -/
theorem machines_agree (e : Mach.Env) (hn : 0 < e.n) (ms : Mach.MNet) (hr : Mach.MReachable e ms) (i j : Nat)
    (hi : i < e.n) (hj : j < e.n) (b b' : Block)
    (hb : b ∈ (ms.nodes i).chain) (hb' : b' ∈ (ms.nodes j).chain) (hh : b.h = b'.h) : b = b' :=
  Mach.mach_agreement e hn ms hr i j hi hj b b' hb hb' hh

/-- C19: the Commit a machine holds as its own is a block M validators prepared. -/
theorem machine_commit_prepared (e : Mach.Env) (ms : Mach.MNet) (hr : Mach.MReachable e ms) (i : Nat) (hi : i < e.n)
    (x : Mach.Hd) (sb : Block) (hs : Mach.slot (ms.nodes i).commit i = some (.commit x sb)) :
    ∃ as : State, Reachable (Mach.cfgOf e) as ∧ sb ∈ (as.nodes i).myCommits ∧
      (Mach.cfgOf e).m ≤ countP (Mach.cfgOf e).n (preparedBy as sb) :=
  Mach.mach_own_commit e ms hr i hi x sb hs

-- non-vacuity: two machines (M = 2) run a whole round — start, proposal, response, two Commits — and both ledgers
-- hold the block (`Mach.xRun`, evaluated through `Mach.napply`)
example : ∃ ms, Mach.MReachable Mach.xEnv ms ∧ (ms.nodes 0).chain = [⟨1, 0, 1⟩] ∧ (ms.nodes 1).chain = [⟨1, 0, 1⟩] :=
  Mach.mach_reachable_nonvacuous

/-! ### 9. Second round: the lock for every n, the backup's checks exactly, the synchronous round as a timed run -/

/-- C19 (no liveness from a stuck height; every n, every schedule): if in a reachable state every validator works on
height `h` and NO view of it can gather M participants — a validator can take part in view `v` iff it signed in exactly
`v`, or has not signed and is in a view `≤ v` — then no schedule whatsoever ever puts a block of height `h` on any ledger.
This is the general form of the dBFT 2.0 liveness lock (`liveness_lock_witness` is the instance `lock_is_stuck`), and
the criterion by which the harness classifies a stall as `dbft20-liveness-lock` (sched.go stallKey). Equivalently: a
height can only be decided from states in which some view still has M participants. -/
theorem liveness_impossible_when_stuck (c : Cfg) (s : State) (h : Nat) (hr : Reachable c s) (l : Stuck c s h)
    (as : List Action) (s' : State) (hrun : run c s as = some s') :
    Stuck c s' h ∧ ∀ i, i < c.n → (s'.nodes i).height = h ∧ ∀ b ∈ (s'.nodes i).chain, b.h < h :=
  stuck_forever c s h hr l as s' hrun

-- non-vacuity: the state reached by `lockSched` (4 honest validators) is stuck at height 1
example : ∃ s, run cfg4 init lockSched = some s ∧ Stuck cfg4 s 1 := by
  have h : (match run cfg4 init lockSched with | some s => decide (Lock s) | none => false) = true := by decide
  cases hr : run cfg4 init lockSched with
  | none => rw [hr] at h; cases h
  | some s =>
    rw [hr] at h
    have hl : Lock s := by simpa using h
    exact ⟨s, rfl, lock_is_stuck s (inv_reachable cfg4 s (run_reachable cfg4 init lockSched s Reachable.init hr)) hl⟩

/-- C19 (the backup's checks against the ledger's, exact; replaces the observation behind
`conflicting_proposal_accepted_by_backup`): for a PrepareRequest a backup answers, AddBlock (verification on) on any node
with the backup's ledger accepts the assembled block iff no scratch-pool addition evicts an earlier transaction of the
proposal, and otherwise rejects it with the transaction-loop error — the eviction count (`mp.Count() != added`) is the
one and only check of AddBlock that `verifyBlock` lacks. -/
theorem backup_vs_ledger_exact {L : Type} (env : AddBlock.Env L) (s t' : AddBlock.Node L) (lim : Proposal.Limits)
    (top : AddBlock.Header) (lastTs : Nat) (r : Proposal.Req) (hash nc wit primary : Nat) (hprim : primary < env.nvals)
    (hacc : Proposal.backupAccepts env s lim top lastTs r = true) (hpv : Proposal.PoolValid env s)
    (hown : ∀ t ∈ r.txs, ∀ q ∈ s.pool, q.id = t.id → q = t)
    (hne : s.headers ≠ []) (hhh : s.headerHeight = s.blockHeight)
    (hlook : s.lookup top.hash = some top) (htopi : top.index = s.blockHeight) (hlast : top.ts ≤ lastTs)
    (hsig : env.signedBy wit hash top.nextConsensus = true)
    (happly : (env.apply s.ledger (Proposal.blockOf env s top r hash nc wit primary)).isSome)
    (hc : t'.cfg = s.cfg) (hl : t'.ledger = s.ledger) (hb : t'.blockHeight = s.blockHeight)
    (hh : t'.headers = s.headers) (hver : s.cfg.verifyTx = true) (hskip : s.cfg.skip = false) :
    (AddBlock.addBlock env t' (Proposal.blockOf env s top r hash nc wit primary)).2 =
      if Proposal.noEvict (env.balance s.ledger) [] r.txs then none else some AddBlock.Err.tx :=
  Proposal.answered_proposal_exact env s t' lim top lastTs r hash nc wit primary hprim hacc hpv hown hne hhh hlook htopi
    hlast hsig happly hc hl hb hh hver hskip

/-- C19 (liveness under synchrony as a timed execution, one height, every n): from a clean state whose clocks are
`ClocksOk` for the previous proposal time `P0`, with hop delays `d1 d2 d3 ≤ δ`, `4δ < TimePerBlock`: the steps of the
synchronous round are enabled one after the other (untimed model), and with the instants of `Timed.timedRound` they form a
timed run — time monotone, no validator's timer overdue at any step, the only timeout the primary's at exactly its
deadline `P1 = lastBlockTime + TimePerBlock ∈ [P0+tpb, P0+tpb+δ]`; afterwards every ledger has the block, the state is
clean at `h+1` and the clocks are `ClocksOk` for `P1`: the theorem applies again. -/
theorem liveness_sync_round_timed_exec (c : Cfg) (hn : 0 < c.n) (s : State) (h p : Nat) (hc : Clean c s h)
    (hprop : c.propose (c.primary h 0) ⟨h, 0, p⟩ = true) (hver : ∀ j, c.verify j ⟨h, 0, p⟩ = true)
    (tpb δ P0 d1 d2 d3 : Nat) (hδ : 4 * δ < tpb) (h1 : d1 ≤ δ) (h2 : d2 ≤ δ) (h3 : d3 ≤ δ) (ts : Timed.TS)
    (hok : Timed.ClocksOk c tpb δ P0 (c.primary h 0) ts) :
    let P1 := ts.lb (c.primary h 0) + tpb
    let sched := Timed.timedRound c h p P1 (P1 + d1) (P1 + d1 + d2) (P1 + d1 + d2 + d3)
    ∃ s' ts', run c s (sched.map (·.1)) = some s' ∧ Timed.TRun c tpb h ts sched ts' ∧
      Clean c s' (h + 1) ∧ (∀ i, i < c.n → (s'.nodes i).chain = ⟨h, 0, p⟩ :: (s.nodes i).chain) ∧
      P0 + tpb ≤ P1 ∧ P1 ≤ P0 + tpb + δ ∧ Timed.ClocksOk c tpb δ P1 (c.primary (h + 1) 0) ts' := by
  intro P1 sched
  obtain ⟨s', hrun, hclean, _, hch⟩ := liveness_sync_round c hn s h p hc hprop hver
  obtain ⟨ts', htr, ha, hb, hck⟩ := Timed.sync_round_timed_exec c hn tpb δ P0 h p d1 d2 d3 hδ h1 h2 h3 ts hok
  exact ⟨s', ts', by rw [Timed.timedRound_steps]; exact hrun, htr, hclean, hch, ha, hb, hck⟩

-- non-vacuity: TimePerBlock 15 s, δ = 1 s, previous proposal at 100 s; 4 validators, height 5 (primary 1)
example : Timed.ClocksOk { n := 4 } 15 1 100 1
    { now := 103, lb := fun k => if k = 1 then 100 else 101, dl := fun k => if k = 1 then 115 else 131 } := by
  refine ⟨by decide, fun k hk => ?_⟩
  have : k = 0 ∨ k = 1 ∨ k = 2 ∨ k = 3 := by simp at hk; omega
  rcases this with rfl | rfl | rfl | rfl <;> decide

/-! ### 10. Validator epochs (Model/DbftEpoch.lean)

The keys that run the consensus for block h+1 are a function of the ledger of height h (`GetNextBlockValidators`:
the NEO contract's `nextValidators`, switched to `newEpochNextValidators` when a block with index ≡ 0 mod
committee size is persisted; `newEpochNextValidators` is recomputed from votes and `GetNumOfCNs` when the last block of
an epoch is persisted). `service.newBlockFromContext` fills NextConsensus of block h+1 with the address of
`ComputeNextBlockValidators` on the ledger of height h. -/

/-- C19 (validator epochs): on every history — whatever is elected at the boundaries, however the NUMBER of validators
changes — the NextConsensus field of block h+1 names exactly the keys dBFT runs block h+2 with. -/
theorem next_consensus_names_next_signers {σ : Type} (committee : Nat) (g : σ) (elect : Nat → σ) (h : Nat) :
    Epoch.signers committee g elect (h + 1) = Epoch.nextConsensus committee g elect h :=
  Epoch.nextConsensus_names_signers committee g elect h

/-- so a chain made by the services passes the ledger's witness check (`verifyHeader`: the witness of block h+1 against
NextConsensus of block h) at every height -/
theorem consensus_chain_passes_witness_check {σ : Type} (committee : Nat) (g : σ) (elect : Nat → σ) (upTo : Nat) :
    Epoch.ChainOK g (fun h => Epoch.signers committee g elect (h - 1))
      (fun h => Epoch.nextConsensus committee g elect (h - 1)) upTo :=
  Epoch.consensus_chain_ok committee g elect upTo

/-- C19 + C06 over histories where the validator set changes: `committed_block_passes_addBlock` with the hypothesis "the
witness verifies for the previous block's consensus address" DERIVED. If every backup's verification callback answers
true only on proposals for which `Epoch.AnsweredAt` holds at ledger height `ht` (the tip carries the NextConsensus the
rule gave it, the assembled block is multi-signed by `GetNextBlockValidators` of that ledger and carries the rule's
NextConsensus itself), then every block on a validator's chain passes `AddBlock` on `t'`, and the new tip satisfies the
tip hypothesis for height `ht + 1`. -/
theorem committed_block_passes_addBlock_epochs {L σ : Type} (c : Cfg) (hm : 2 ≤ c.m) (s : State) (hr : Reachable c s)
    (i : Nat) (b : Block) (hb : b ∈ (s.nodes i).chain)
    (env : AddBlock.Env L) (t' : AddBlock.Node L) (blk : AddBlock.Block)
    (addr : σ → Nat) (committee : Nat) (g : σ) (elect : Nat → σ) (ht : Nat)
    (hverify : ∀ j, c.verify j b = true → Epoch.AnsweredAt env t' blk addr committee g elect ht) :
    (AddBlock.addBlock env t' blk).2 = none ∧
    blk.hdr.nextConsensus = addr (Epoch.tipNC committee g elect (ht + 1)) := by
  have hn : 0 < c.n := by unfold Cfg.m at hm; omega
  obtain ⟨_, hp, hck, _⟩ := committed_block_valid c hn s hr i b hb
  obtain ⟨j, _, hne, hj⟩ := countP_other c.n (c.primary b.h b.v) _ (Nat.le_trans hm hp)
  simp only [preparedBy, decide_eq_true_eq] at hj
  exact Epoch.AnsweredAt.accepted env t' blk addr committee g elect ht (hverify j ((hck j hj).2 hne))

/-- regression for seeded change C19-m6 (NextConsensus from the CURRENT validators unless the block after the one being
made starts an epoch — off by one): in the README scenario block 7 names the old keys, block 8 is signed by the new
ones, the chain of headers fails the witness check; the rule differs from the code's only at boundaries where the
set changes. -/
theorem next_consensus_m6_regression :
    Epoch.nextConsensusM6 7 4 Epoch.exElect 6 = 4 ∧ Epoch.signers 7 4 Epoch.exElect 7 = 7 ∧
    ¬ Epoch.ChainOK 4 (fun h => Epoch.signers 7 4 Epoch.exElect (h - 1))
        (fun h => Epoch.nextConsensusM6 7 4 Epoch.exElect (h - 1)) 8 :=
  Epoch.m6_rule_breaks_chain

-- non-vacuity of the scenario: 4 keys up to block 7, 7 keys from block 8, 4 again from block 15
example : (List.range 17).map (Epoch.signers 7 4 (fun h => if h < 7 then 4 else if h < 14 then 7 else 4)) =
    [4, 4, 4, 4, 4, 4, 4, 7, 7, 7, 7, 7, 7, 7, 4, 4, 4] := by decide

/-! ### 11. The block witness has exactly M signatures (machine model; schedule class "one validator is last within a view")

A validator that hears the PrepareRequest last holds the Commits of ALL the others when it signs (dbft stores Commits that
arrive before the request, dbft.go:630-642): `checkCommit` runs with N > M Commits of the view. `getBlockWitness`
(consensus.go:666-696) must emit exactly M of them for the M-of-N script. -/

/-- C19 (witness shape): for EVERY set of held Commits of the current view with at least M members, the witness has exactly
M signatures … -/
theorem block_witness_exactly_M (e : Mach.Env) (nd : Mach.Node) (b : Block) (h : e.m ≤ Mach.viewCommits e nd) :
    (Mach.blockWitness e nd b).length = e.m :=
  Mach.blockWitness_length e nd b h

/-- … each from a Commit of the node's current view, held in the signer's own slot … -/
theorem block_witness_from_view (e : Mach.Env) (nd : Mach.Node) (b : Block) (s : Nat × Bool)
    (hs : s ∈ Mach.blockWitness e nd b) :
    s.1 < e.n ∧ ∃ x sb, Mach.slot nd.commit s.1 = some (.commit x sb) ∧ x.v = nd.view ∧ s.2 = decide (sb = b) :=
  Mach.blockWitness_from_view e nd b s hs

/-- … in validator order, nobody twice. -/
theorem block_witness_in_validator_order (e : Mach.Env) (nd : Mach.Node) (b : Block) :
    (Mach.blockWitness e nd b).Pairwise (fun s t => s.1 < t.1) :=
  Mach.blockWitness_ordered e nd b

/-- Hypothesis removed: in every state of the refinement invariant `RN` (all reachable machine states, §8), passing
`checkCommit`'s own threshold implies the premise of `block_witness_exactly_M` — the model's "ledger rejects a witness of
the wrong length" branch is dead. -/
theorem check_commit_witness_exact {e : Mach.Env} {as : State} {i : Nat} {nd : Mach.Node} (h : Mach.RN e as i nd)
    (b : Block)
    (hc : ¬ (nd.commit.filter fun s => match s with
      | some m => m.hd.v == nd.view
      | none => false).length < e.m) :
    (Mach.blockWitness e nd b).length = e.m ∧ (Mach.blockWitness e nd b).Pairwise (fun s t => s.1 < t.1) :=
  Mach.checkCommit_witness_exact h b hc

/-- regression (seeded C19-m7, the `j < m` cap removed): a validator holding more than M Commits of the view emits more
than M signatures. -/
theorem block_witness_uncapped_regression (e : Mach.Env) (nd : Mach.Node) (b : Block) (h : e.m < Mach.viewCommits e nd) :
    e.m < (Mach.blockWitnessUncapped e nd b).length :=
  Mach.uncapped_too_long e nd b h

/-- C19 (witness shape, network level — the hypothesis "at least M Commits of the view are held" is gone): in every
reachable state of the network of machines, whatever event happens next, every block a machine hands to its ledger carries
EXACTLY M signatures, in validator order (and, `block_witness_valid`, of that block only). -/
theorem block_witness_exact_network (e : Mach.Env) (ms : Mach.MNet) (hr : Mach.MReachable e ms) (ev : Mach.NEv)
    (inp : Mach.Inp) (hen : Mach.NEnabled e ms inp ev) (b : Block) (sigs : List (Nat × Bool))
    (hb : Mach.Out.block b sigs ∈ Mach.evOuts e ms inp ev) :
    sigs.length = e.m ∧ sigs.Pairwise (fun s t => s.1 < t.1) :=
  Mach.mach_block_witness_exact e ms hr ev inp hen b sigs hb

end NeoModel.Dbft
