/-
C06 — witness facts as model computations: for the standard single-signature witness the model's run of
the scripts (Model/AddBlock/WitnessRun over C07's price interpreter Model/Fees, imported read-only) gives
exactly "signature verifies" and `fee.Calculate`'s price. The driver builds every transaction witness
whose scripts consist of the interpreter's opcodes this way (no result / cost fact from the harness).
-/
import NeoModel.Model.AddBlock.WitnessRun
import NeoModel.Proofs.FeesCalc
namespace NeoModel.AddBlock
open NeoModel.Fees

/-- C06: for a standard single-signature witness (verification script = `sigScript key`, invocation script
= one 64-byte push) the facts the model computes by RUNNING the scripts are: well-formed, result = "the
signature verifies for this key", GAS consumed = `fee.Calculate`'s execution fee of the script — for every
key, signature, exec fee factor, with or without the 64-byte rule. -/
theorem witnessRun_sig (base : Nat) (gorgon hashOk : Bool) (verify : Bytes → Bytes → Bool) (key sig : Bytes)
    (hk : key.length = 33) (hs : sig.length = 64) (hvk : keyOk key = true) :
    witnessRun base gorgon hashOk verify (emitBytes sig) (sigScript key) =
      .script hashOk false true (verify key sig) (calculate base (sigScript key)).1 := by
  unfold witnessRun
  have h := run_sig_witness base gorgon keyOk verify key sig (by omega) (by omega) hvk (fun _ => by rw [hs]; rfl)
  simp only [envU] at h
  rw [h, calculate_sig base key hk]
  cases verify key sig <;> rfl

/-- … and so `verifyOne` on it is the budget test of the model: it verifies iff the script hashes to the
signer, the signature verifies and the fee left covers `fee.Calculate`'s price (capped by MaxVerificationGas). -/
theorem verifyOne_sig (c : Chain) (gas base : Nat) (gorgon hashOk : Bool) (verify : Bytes → Bytes → Bool) (key sig : Bytes)
    (hk : key.length = 33) (hs : sig.length = 64) (hvk : keyOk key = true) (used : Nat) :
    verifyOne c gas (witnessRun base gorgon hashOk verify (emitBytes sig) (sigScript key)) = some used ↔
      hashOk = true ∧ verify key sig = true ∧ (calculate base (sigScript key)).1 ≤ min gas c.maxVerGas ∧
        used = (calculate base (sigScript key)).1 := by
  rw [witnessRun_sig base gorgon hashOk verify key sig hk hs hvk]
  unfold verifyOne
  cases hashOk <;> cases verify key sig <;> simp <;> omega

-- non-vacuity: a 33-byte key, a 64-byte signature that verifies: the witness is sound and costs what fee.Calculate says
example : witnessRun 300000 true true (fun _ _ => true) (emitBytes (List.replicate 64 7)) (sigScript (List.replicate 33 2)) =
    .script true false true true (calculate 300000 (sigScript (List.replicate 33 2))).1 :=
  witnessRun_sig 300000 true true (fun _ _ => true) (List.replicate 33 2) (List.replicate 64 7) (by simp) (by simp) (by decide)

end NeoModel.AddBlock
