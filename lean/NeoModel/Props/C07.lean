/-
C07 — transaction admission is sound and fee-exact. Property theorems only
(helper lemmas: Proofs/FeesGas, FeesRun, FeesCalc, FeesAdmit; models: Model/Fees, Model/Admission).

Reading guide. `Fees.runWitness e inv ver` is the price interpreter over the bytes of invocation +
verification script (the gas the VM charges); `Fees.calculate base script` is `fee.Calculate`;
`Fees.builtMultisig m keys` / `Fees.sigScript key` are the scripts the builders emit;
`Admission.admit c p t = none` means "PoolTx / VerifyTx accept". Signature cryptography is a parameter
(`validKey`, `verify`), the transaction size a number (codecs: C17).
-/
import NeoModel.Proofs.FeesAdmit
import NeoModel.Proofs.FeesPack
namespace NeoModel.C07
open NeoModel NeoModel.Fees NeoModel.Admission
open NeoModel.Generated.FeeConsts
open NeoModel.Wire (varUintSize)

/-! ## 1. the calculator's execution part is what the VM charges; its size part is the encoded witness -/

/-- **sig_cost_exact.** For every key (33 bytes), signature (64 bytes), base price, with or without the
64-byte rule: the standard signature witness runs to a single Boolean, the picoGAS it consumes, rounded
the way `GasConsumed` rounds, is `fee.Calculate`'s fee, and `fee.Calculate`'s size is the length of the
encoded witness (both var-length prefixes included). -/
theorem sig_cost_exact (base : Nat) (gorgon : Bool) (validKey : Bytes → Bool) (verify : Bytes → Bytes → Bool)
    (key sig : Bytes) (hk : key.length = 33) (hs : sig.length = 64) (hvk : validKey key = true) :
    ∃ pico,
      runWitness ⟨base, none, gorgon, validKey, verify⟩ (emitBytes sig) (sigScript key)
        = some ⟨[.bool (verify key sig)], pico, .op⟩
      ∧ picoToDatoshi pico = (calculate base (sigScript key)).1
      ∧ (encodeWitness (emitBytes sig) (sigScript key)).length = (calculate base (sigScript key)).2 := by
  refine ⟨sigPico base, ?_, ?_, ?_⟩
  · exact run_sig_witness base gorgon validKey verify key sig (by omega) (by omega) hvk (fun _ => by rw [hs]; rfl)
  · rw [calculate_sig base key hk]
  · rw [calculate_sig base key hk, encodeWitness_length _ _ (by simp [emitBytes, hs]) (by rw [sigScript_length, hk]; decide)]
    have h1 : (emitBytes sig).length = 66 := by simp [emitBytes, hs]
    rw [h1, sigScript_length, hk]
    simp [varUintSize]

-- non-vacuity: a concrete key and signature meet the hypotheses
example : ∃ pico, runWitness ⟨300000, none, true, fun _ => true, fun _ _ => true⟩
      (emitBytes (List.replicate 64 7)) (sigScript (List.replicate 33 2))
        = some ⟨[.bool true], pico, .op⟩ ∧ picoToDatoshi pico = (calculate 300000 (sigScript (List.replicate 33 2))).1 :=
  let ⟨p, h1, h2, _⟩ := sig_cost_exact 300000 true (fun _ => true) (fun _ _ => true) (List.replicate 33 2) (List.replicate 64 7)
    (by simp) (by simp) rfl
  ⟨p, h1, h2⟩

/-- **multisig_cost_exact.** For all `1 ≤ m ≤ n ≤ 1024`, any `n` keys of 33 bytes and `m` signatures of
64 bytes: the builder succeeds, `fee.Calculate` recognises its output, and its execution part equals the
rounded picoGAS the interpreter charges for invocation + verification script; the size part is the
length of the encoded witness. The interpreter halts (with the Boolean CheckMultisig computes) whenever
the evaluation stack limit allows it, `m + n + 2 ≤ MaxStackSize`, and no key is malformed. -/
theorem multisig_cost_exact (base : Nat) (gorgon : Bool) (validKey : Bytes → Bool) (verify : Bytes → Bytes → Bool)
    (keys sigs : List Bytes)
    (hm1 : 1 ≤ sigs.length) (hmn : sigs.length ≤ keys.length) (hn : keys.length ≤ 1024)
    (hk : ∀ k ∈ keys, k.length = 33) (hs : ∀ sg ∈ sigs, sg.length = 64) :
    multisigScript sigs.length keys = some (builtMultisig sigs.length keys)
    ∧ (calculate base (builtMultisig sigs.length keys)).1 = picoToDatoshi (multisigPico base sigs.length keys.length)
    ∧ (encodeWitness (invScript sigs) (builtMultisig sigs.length keys)).length = (calculate base (builtMultisig sigs.length keys)).2
    ∧ (sigs.length + keys.length + 2 ≤ maxStackSize →
        ∀ r, multisigResult validKey verify keys.reverse sigs.reverse = some r →
          runWitness ⟨base, none, gorgon, validKey, verify⟩ (invScript sigs) (builtMultisig sigs.length keys)
            = some ⟨[.bool r], multisigPico base sigs.length keys.length, .op⟩) := by
  have hcalc := calculate_built base sigs.length keys hm1 hmn hn hk
  refine ⟨multisigScript_some _ _ hm1 hmn (by omega), by rw [hcalc], ?_, ?_⟩
  · have hlen := builtMultisig_length sigs.length keys hk
    have hi := invScript_length sigs hs
    have e1 := emitInt_length_le sigs.length
    have e2 := emitInt_length_le keys.length
    rw [hcalc, encodeWitness_length _ _ (by rw [hi]; omega) (by rw [hlen]; omega), hi]
  · intro hst r hr
    exact run_multisig_witness base gorgon validKey verify keys sigs r hm1 hmn (by omega)
      (fun k hk' => by rw [hk k hk']; decide) (fun s hs' => by rw [hs s hs']; decide)
      (fun _ s hs' => by rw [hs s hs']; rfl) hst hr

-- non-vacuity: 2-of-3
example : runWitness ⟨300000, none, true, fun _ => true, fun _ _ => true⟩
      (invScript [List.replicate 64 1, List.replicate 64 2])
      (builtMultisig 2 [List.replicate 33 1, List.replicate 33 2, List.replicate 33 3])
    = some ⟨[.bool true], multisigPico 300000 2 3, .op⟩ :=
  (multisig_cost_exact 300000 true (fun _ => true) (fun _ _ => true)
    [List.replicate 33 1, List.replicate 33 2, List.replicate 33 3] [List.replicate 64 1, List.replicate 64 2]
    (by decide) (by decide) (by decide) (by simp) (by simp)).2.2.2 (by decide) true (by decide)

/-! The same statement over *every* script `scparser.ParseMultiSigContract` takes for a standard multisig
contract (not only the builder's output),

    ∀ script inv s, parseMultiSig script ≠ none → runWitness e inv script = some s →
        picoToDatoshi s.gas = (calculate e.base script).1,

does not hold for the code as written (known finding `calc-vs-vm-noncanonical-script`): the parser also accepts
`m`/`n` pushed with PUSHINT128/PUSHINT256 (price 4), `calculateMultisig` prices the opcode `emit.Int` would
have used (price 1). Witness: 2-of-3 with `m` pushed as `PUSHINT128 2`. -/

def ncKeys : List Bytes := [List.replicate 33 1, List.replicate 33 2, List.replicate 33 3]
def ncScript : Bytes :=
  (4 :: 2 :: List.replicate 15 0) ++ (ncKeys.flatMap emitBytes ++ (emitInt 3 ++ emitSyscall checkMultisigId))
def ncInv : Bytes := invScript [List.replicate 64 1, List.replicate 64 2]

set_option maxRecDepth 100000 in
theorem standard_cost_exact_fails :
    (parseMultiSig ncScript).map (·.1) = some 2
    ∧ (calculate 300000 ncScript).1 = 2950380
    ∧ (runWitness ⟨300000, none, true, fun _ => true, fun _ _ => true⟩ ncInv ncScript).map
        (fun s => (s.stack, picoToDatoshi s.gas)) = some ([.bool true], 2950470) := by
  decide

/-- the gas limit never changes what is charged: running under a limit of `L` picoGAS is running without
and failing iff the total exceeds `L` (the VM checks after every charge; gas only grows). -/
theorem limit_is_final_check (e : Env) (L : Nat) (inv ver : Bytes) :
    runWitness { e with limit := some L } inv ver
      = (runWitness { e with limit := none } inv ver).bind fun s => if s.gas ≤ L then some s else none :=
  runWitness_lim e L inv ver

example : runWitness ⟨1, some 5, false, fun _ => true, fun _ _ => true⟩ [0x11] [] = some ⟨[.int 1], 1, .op⟩ := by decide

/-! ## 2. the calculator's value is exactly the acceptance threshold -/

/-- a standard witness whose signatures verify; the second component is its verification script. -/
inductive StdWit (c : Chain) : Wit → Bytes → Prop where
  | sig (key sg : Bytes) (hk : key.length = 33) (hs : sg.length = 64) (hvk : c.validKey key = true)
      (hv : c.verify key sg = true) :
      StdWit c (.std true (emitBytes sg) (sigScript key)) (sigScript key)
  | multi (keys sigs : List Bytes) (hm1 : 1 ≤ sigs.length) (hmn : sigs.length ≤ keys.length) (hn : keys.length ≤ 1024)
      (hk : ∀ k ∈ keys, k.length = 33) (hs : ∀ sg ∈ sigs, sg.length = 64)
      (hst : sigs.length + keys.length + 2 ≤ maxStackSize)
      (hv : multisigResult c.validKey c.verify keys.reverse sigs.reverse = some true) :
      StdWit c (.std true (invScript sigs) (builtMultisig sigs.length keys)) (builtMultisig sigs.length keys)

/-- a standard witness verifies iff `fee.Calculate`'s fee fits the gas it is given, and consumes exactly it. -/
theorem stdWit_cost (c : Chain) (w : Wit) (ver : Bytes) (h : StdWit c w ver) :
    WitCost c w (calculate c.base ver).1 := by
  intro gas
  cases h with
  | sig key sg hk hs hvk hv =>
    have hrun := run_sig_witness c.base c.gorgon c.validKey c.verify key sg (by omega) (by omega) hvk (fun _ => by rw [hs]; rfl)
    rw [hv] at hrun
    simp only [verifyOne, calculate_sig c.base key hk]
    exact verifyWitness_of_run _ _ _ _ _ gas _ _ _ hrun
  | multi keys sigs hm1 hmn hn hk hs hst hv =>
    have hrun := run_multisig_witness c.base c.gorgon c.validKey c.verify keys sigs true hm1 hmn (by omega)
      (fun k hk' => by rw [hk k hk']; decide) (fun s hs' => by rw [hs s hs']; decide)
      (fun _ s hs' => by rw [hs s hs']; rfl) hst hv
    simp only [verifyOne, calculate_built c.base sigs.length keys hm1 hmn hn hk]
    exact verifyWitness_of_run _ _ _ _ _ gas _ _ _ hrun

/-- the network fee a wallet computes: size·feePerByte + attribute fees + Σ fee.Calculate over the witnesses. -/
def calculatorFee (c : Chain) (t : Tx) (vers : List Bytes) : Nat :=
  need c t + (vers.map fun v => (calculate c.base v).1).sum

/-- **threshold_exact.** A transaction whose witnesses are all standard (signature or m-of-n, signatures
valid, each within MaxVerificationGas and the stack limit) and that passes every check not involving the
fee: with `NetworkFee` = the calculator's value it is accepted, with any smaller value (in particular one
unit less) it is rejected, as "network fee too small" or by the witness check running out of gas. -/
theorem threshold_exact (c : Chain) (p : Pool) (t : Tx) (wvs : List (Wit × Bytes))
    (hpre : PreOk c t)
    (hw : t.signers.map (·.wit) = wvs.map (·.1))
    (hstd : ∀ q ∈ wvs, StdWit c q.1 q.2 ∧ (calculate c.base q.2).1 ≤ c.maxVerGas)
    (hattrs : verifyAttrs c { t with netFee := calculatorFee c t (wvs.map (·.2)) } = true)
    (hpool : poolAdd p { t with netFee := calculatorFee c t (wvs.map (·.2)) } = none) :
    admit c p { t with netFee := calculatorFee c t (wvs.map (·.2)) } = none
    ∧ ∀ f, f < calculatorFee c t (wvs.map (·.2)) →
        admit c p { t with netFee := f } = some .smallNetFee ∨ admit c p { t with netFee := f } = some .witness := by
  let wcs : List (Wit × Nat) := wvs.map fun q => (q.1, (calculate c.base q.2).1)
  have hsum : calculatorFee c t (wvs.map (·.2)) = need c t + costSum wcs := by
    simp [calculatorFee, costSum, wcs, List.map_map, Function.comp_def]
  have hw' : t.signers.map (·.wit) = wcs.map (·.1) := by
    rw [hw]; simp [wcs, List.map_map, Function.comp_def]
  have hc : ∀ q ∈ wcs, WitCost c q.1 q.2 ∧ q.2 ≤ c.maxVerGas := by
    intro q hq
    simp only [wcs, List.mem_map] at hq
    obtain ⟨q0, hq0, rfl⟩ := hq
    exact ⟨stdWit_cost c q0.1 q0.2 (hstd q0 hq0).1, (hstd q0 hq0).2⟩
  rw [hsum] at hattrs hpool ⊢
  exact threshold_exact_costs c p t wcs hpre hw' hc hattrs hpool

/-! ## 3. whatever is admitted satisfies every clause of the statement -/

/-- **admit_sound.** If `admit` accepts then: system fee within the block limit, script well-formed, inside
the validity window, no signer blocked, size within the maximum; the hash is not a transaction on chain and
no traceable on-chain conflict record for it is signed by one of its signers; every witness verifies and
size·feePerByte + attribute fees + the gas the witnesses consumed ≤ NetworkFee; every attribute rule holds;
not yet pooled and payer's balance covers its fees together with those already pooled.
(`OpaqueSound`: contract-based witnesses report at most the gas they were given — a fact of `vm.GasConsumed`.) -/
theorem admit_sound (c : Chain) (p : Pool) (t : Tx) (hne : t.signers ≠ [])
    (hop : OpaqueSound (t.signers.map (·.wit))) (h : admit c p t = none) :
    (t.sysFee ≤ c.maxBlockSysFee ∧ t.scriptOk = true ∧ c.height < t.validUntil ∧ t.validUntil ≤ c.height + c.maxVUBInc
      ∧ (∀ s ∈ t.signers, c.blocked s.account = false) ∧ t.size ≤ maxTransactionSize)
    ∧ (c.lookup t.hash ≠ .tx
        ∧ ∀ idx recs, c.lookup t.hash = .stub idx recs → isTraceable idx c.height c.mtb = true →
            ∀ s ∈ t.signers, ∀ q ∈ recs, q.1 = s.account → isTraceable q.2 c.height c.mtb = false)
    ∧ (∃ gs, AllVerify c (t.signers.map (·.wit)) gs
        ∧ t.size * c.feePerByte + attrsFee c t.signers.length t.attrs + gs.sum ≤ t.netFee)
    ∧ (∀ a ∈ t.attrs, checkAttr c t a = true)
    ∧ (p.has t.hash = false ∧ t.sysFee + t.netFee + p.feeSum ≤ p.balance) := by
  obtain ⟨hpre, hwit, hattr, hpool⟩ := admit_sound_full c p t hop h
  have hsig : t.signers.map (·.account) ≠ [] := by simpa using hne
  have hch := hasTransaction_none _ _ _ _ hsig hpre.chain
  refine ⟨⟨hpre.sysFee, hpre.script, hpre.notExpired, hpre.notFar, ?_, hpre.size⟩, ⟨hch.1, ?_⟩, hwit, hattr, hpool.1, hpool.2.2.1⟩
  · have := hpre.notBlocked
    simp only [List.any_eq_false, Bool.not_eq_true] at this
    exact this
  · intro idx recs hl htr s hs q hq hqa
    exact hch.2 idx recs hl htr s.account (List.mem_map.mpr ⟨s, hs, rfl⟩) q hq hqa

end NeoModel.C07

namespace NeoModel.C07
open NeoModel NeoModel.Fees NeoModel.Admission
open NeoModel.Generated.FeeConsts

/-! ### non-vacuity of `threshold_exact` / `admit_sound`: a concrete chain, pool and single-signature transaction -/

def exKey : Bytes := List.replicate 33 2
def exSig : Bytes := List.replicate 64 7

def exChain : Chain :=
  { height := 10, maxVUBInc := 100, maxBlockSysFee := 1000000, feePerByte := 1000, base := 300000, maxVerGas := 150000000,
    mtb := 1000, gorgon := true, p2pSigExt := false, reservedAttrs := false, notaryActive := true,
    attrFee := fun _ => 0, blocked := fun _ => false, lookup := fun _ => .none, committee := 1, oracleHash := none,
    notary := 2, validKey := fun _ => true, verify := fun _ _ => true }

def exPool : Pool := { has := fun _ => false, conflictsAttrErr := false, balance := 10 ^ 10, feeSum := 0, oracleErr := false, full := false }

def exTx : Tx :=
  { hash := 0, version := 0, scriptLen := 1, scriptOk := true, sysFee := 100, netFee := 0, validUntil := 20, size := 200,
    signers := [⟨10, false, .std true (emitBytes exSig) (sigScript exKey)⟩], attrs := [] }

theorem exStd : StdWit exChain (.std true (emitBytes exSig) (sigScript exKey)) (sigScript exKey) :=
  StdWit.sig exKey exSig (by simp [exKey]) (by simp [exSig]) rfl rfl

theorem exCalc : (calculate exChain.base (sigScript exKey)).1 = 983520 := by
  rw [calculate_sig _ _ (by simp [exKey])]; decide

/-- the hypotheses of `threshold_exact` are met: accepted with the calculator's fee 200·1000 + 983520, rejected below. -/
example : admit exChain exPool { exTx with netFee := 1183520 } = none
    ∧ (admit exChain exPool { exTx with netFee := 1183519 } = some .smallNetFee
        ∨ admit exChain exPool { exTx with netFee := 1183519 } = some .witness) := by
  have hfee : calculatorFee exChain exTx [sigScript exKey] = 1183520 := by
    simp only [calculatorFee, List.map_cons, List.map_nil, List.sum_cons, List.sum_nil, exCalc]; decide
  have h := threshold_exact exChain exPool exTx [(.std true (emitBytes exSig) (sigScript exKey), sigScript exKey)]
    ⟨by decide, rfl, by decide, by decide, rfl, by decide, rfl⟩ rfl
    (by intro q hq; simp only [List.mem_singleton] at hq; subst hq; exact ⟨exStd, by rw [exCalc]; decide⟩)
    rfl (by simp only [List.map_cons, List.map_nil, hfee]; decide)
  simp only [List.map_cons, List.map_nil, hfee] at h
  exact ⟨h.1, h.2 1183519 (by decide)⟩

/-- and `admit_sound` applies to it: e.g. its witness verified within the fee. -/
example : ∃ gs, AllVerify exChain ((exTx.signers).map (·.wit)) gs ∧ 200 * 1000 + 0 + gs.sum ≤ 1183520 :=
  (admit_sound exChain exPool { exTx with netFee := 1183520 } (by simp [exTx])
    (by intro f hf; simp [exTx] at hf) (by decide)).2.2.1

end NeoModel.C07

namespace NeoModel.C07
open NeoModel NeoModel.Fees NeoModel.Admission
open NeoModel.Wire (varUintSize)

/-! ## 4. what is packed is a prefix of the pool within the limits -/

/-- **packing_valid_partial.** `ApplyPolicyToTxSet` returns a prefix of the pool (in pool order), at most
MaxTransactionsPerBlock long, whose system fees are within MaxBlockSystemFee and for which
`overhead + varsize(count) + Σ sizes ≤ MaxBlockSize`, where `overhead` is the size of the block without
transactions (header incl. `PrevStateRoot` when StateRootInHeader, default block witness).

Partial with respect to the statement's last sentence: "… is accepted by the ledger after being serialised
and parsed again", i.e. `addBlock s (decode (encode (mkBlock (applyPolicy pool)))) = ok`, needs the block model
of C06 and the codecs of C17; here it is covered by the `proposal` stream (tie + search on the real code:
wire round trip, backup-side checks and AddBlock on a replica) only. That `overhead` is the real size of the
empty block is tied by the same stream (the oracle measures the encoded block); before fix 2cbe22b it omitted
the 32 bytes of `PrevStateRoot` and the stream's boundary-directed cases found blocks above MaxBlockSize. -/
theorem packing_valid_partial (cfg : PackCfg) (txs : List (Nat × Nat)) :
    applyPolicy cfg txs <+: txs
    ∧ (cfg.maxTx ≠ 0 → (applyPolicy cfg txs).length ≤ cfg.maxTx)
    ∧ (applyPolicy cfg txs = [] ∨
        (cfg.overhead + varUintSize (applyPolicy cfg txs).length + sizes (applyPolicy cfg txs) ≤ cfg.maxBlockSize
          ∧ fees (applyPolicy cfg txs) ≤ cfg.maxBlockSysFee)) := by
  rw [applyPolicy_eq]
  have hp := packLoop_prefix cfg (capped cfg txs) (cfg.overhead + varUintSize (capped cfg txs).length) 0
  refine ⟨List.IsPrefix.trans hp (capped_prefix cfg txs), ?_, ?_⟩
  · intro h
    exact Nat.le_trans hp.length_le (capped_length cfg txs h)
  · rcases packLoop_bounds cfg (capped cfg txs) (cfg.overhead + varUintSize (capped cfg txs).length) 0 with h0 | ⟨h1, h2⟩
    · left; exact h0
    · right
      have := varUintSize_mono hp.length_le
      constructor <;> omega

-- non-vacuity: a pool of four, the third breaks the size limit
example : applyPolicy ⟨10, 1000, 100, 700⟩ [(100, 1), (100, 2), (150, 3), (10, 4)] = [(100, 1), (100, 2)] := by decide

end NeoModel.C07


namespace NeoModel.C07

/-! ## 5. what comes from the wire is well-formed -/
open NeoModel NeoModel.Fees NeoModel.Admission
open NeoModel.Generated.FeeConsts

/-- **admit_wellformed.** What is admitted from the wire is well-formed: version 0, between 1 and 16 signers,
signers + attributes ≤ 16, no account signs twice, at most one attribute of each type other than Conflicts,
a non-empty script of at most 65535 bytes — and it passed `admit` (so `admit_sound` applies). -/
theorem admit_wellformed (c : Chain) (p : Pool) (t : Tx) (h : admitWire c p t = none) :
    t.version = 0 ∧ t.signers ≠ [] ∧ t.attrs.length + t.signers.length ≤ maxAttributes
    ∧ (t.signers.map (·.account)).Nodup
    ∧ ((t.attrs.filter fun a => a.typ != attrConflicts).map (·.typ)).Nodup
    ∧ t.scriptLen ≠ 0 ∧ t.scriptLen ≤ maxScriptLength
    ∧ admit c p t = none := by
  unfold admitWire at h
  split at h
  · contradiction
  · rename_i hw
    simp only [Bool.not_eq_true, Bool.not_eq_false'] at hw
    simp only [wellFormed, Bool.and_eq_true, beq_iff_eq, Bool.not_eq_true', decide_eq_true_eq, bne_iff_ne, ne_eq] at hw
    obtain ⟨⟨⟨⟨⟨⟨⟨h1, h2⟩, _⟩, h4⟩, h5⟩, h6⟩, h7⟩, h8⟩ := hw
    refine ⟨h1, ?_, h4, allDistinct_nodup _ h5, allDistinct_nodup _ h6, h7, h8, h⟩
    intro hn; rw [hn] at h2; simp at h2

example : admitWire exChain exPool { exTx with netFee := 1183520 } = none := by decide
example : admitWire exChain exPool { exTx with netFee := 1183520, signers := exTx.signers ++ exTx.signers } = some .malformed := by decide

end NeoModel.C07
