/-
C07 — transaction admission is sound and fee-exact, and the pool's content forms proposable blocks. Property theorems only
(helper lemmas: Proofs/FeesGas, FeesRun, FeesCalc, FeesAdmit, FeesBlock, FeesBlockPool, FeesPick, FeesRelevant, FeesNative,
FeesFields, FeesFrame; models: Model/Fees, Model/Admission, Model/Fees/Block, Model/Fees/Native, Model/Fees/FeeFields).

Reading guide. `Fees.runWitness e inv ver` is the price interpreter over the bytes of invocation +
verification script (the gas the VM charges); `Fees.calculate base script` is `fee.Calculate`;
`Fees.builtMultisig m keys` / `Fees.sigScript key` are the scripts the builders emit;
`Admission.admit c p t = none` means "PoolTx / VerifyTx accept". Signature cryptography is a parameter
(`validKey`, `verify`), the transaction size a number (codecs: C17).
Sections: 1 calculator = VM charge; 2 calculator = acceptance threshold; 3 admission is sound; 4 packing
(`Pack.applyPolicyM`, `Pack.pick`, `Pack.verifyBlock`, `Pack.ledgerLoop`), 4b the pool's filter after a block
(`Pack.stillRelevant`); 5 well-formedness from the wire; 6 NotaryAssisted / OracleResponse transactions
(`Native.notaryVerify`, `Native.oracleVerify`); 7 sign and overflow of the fee fields (`FeeFields`); 8 what the
admission reads of the chain.
-/
import NeoModel.Proofs.FeesAdmit
import NeoModel.Proofs.FeesRelevant
import NeoModel.Proofs.FeesNative
import NeoModel.Proofs.FeesFields
import NeoModel.Proofs.FeesFrame
import NeoModel.Proofs.FeesSolvent
import NeoModel.Proofs.FeesAfterBlock
namespace NeoModel.C07
open NeoModel NeoModel.Fees NeoModel.Admission
open NeoModel.Generated.FeeConsts
open NeoModel.Wire (varUintSize)

/-! ## 1. the calculator's execution part is what the VM charges; its size part is the encoded witness -/

/-- **sig_cost_exact.** For every key (33 bytes), signature (64 bytes), base price, with or without the
64-byte rule: the standard signature witness runs to a single Boolean, the picoGAS it consumes, rounded
the way `GasConsumed` rounds, is `fee.Calculate`'s fee, and `fee.Calculate`'s size is the length of the
encoded witness (both var-length prefixes included). -/
theorem sig_cost_exact (base : Nat) (gorgon : Bool) (validKey : Bytes → Bool) (verify : Bytes → Bytes → Bool)
    (key sig : Bytes) (hk : key.length = 33) (hs : sig.length = 64) (hvk : validKey key = true) :
    ∃ pico,
      runWitness ⟨base, none, gorgon, validKey, verify⟩ (emitBytes sig) (sigScript key)
        = some ⟨[.bool (verify key sig)], pico, .op⟩
      ∧ picoToDatoshi pico = (calculate base (sigScript key)).1
      ∧ (encodeWitness (emitBytes sig) (sigScript key)).length = (calculate base (sigScript key)).2 := by
  refine ⟨sigPico base, ?_, ?_, ?_⟩
  · exact run_sig_witness base gorgon validKey verify key sig (by omega) (by omega) hvk (fun _ => by rw [hs]; rfl)
  · rw [calculate_sig base key hk]
  · rw [calculate_sig base key hk, encodeWitness_length _ _ (by simp [emitBytes, hs]) (by rw [sigScript_length, hk]; decide)]
    have h1 : (emitBytes sig).length = 66 := by simp [emitBytes, hs]
    rw [h1, sigScript_length, hk]
    simp [varUintSize]

-- non-vacuity: a concrete key and signature meet the hypotheses
example : ∃ pico, runWitness ⟨300000, none, true, fun _ => true, fun _ _ => true⟩
      (emitBytes (List.replicate 64 7)) (sigScript (List.replicate 33 2))
        = some ⟨[.bool true], pico, .op⟩ ∧ picoToDatoshi pico = (calculate 300000 (sigScript (List.replicate 33 2))).1 :=
  let ⟨p, h1, h2, _⟩ := sig_cost_exact 300000 true (fun _ => true) (fun _ _ => true) (List.replicate 33 2) (List.replicate 64 7)
    (by simp) (by simp) rfl
  ⟨p, h1, h2⟩

/-- **multisig_cost_exact.** For all `1 ≤ m ≤ n ≤ 1024`, any `n` keys of 33 bytes and `m` signatures of
64 bytes: the builder succeeds, `fee.Calculate` recognises its output, and its execution part equals the
rounded picoGAS the interpreter charges for invocation + verification script; the size part is the
length of the encoded witness. The interpreter halts (with the Boolean CheckMultisig computes) whenever
the evaluation stack limit allows it, `m + n + 2 ≤ MaxStackSize`, and no key is malformed. -/
theorem multisig_cost_exact (base : Nat) (gorgon : Bool) (validKey : Bytes → Bool) (verify : Bytes → Bytes → Bool)
    (keys sigs : List Bytes)
    (hm1 : 1 ≤ sigs.length) (hmn : sigs.length ≤ keys.length) (hn : keys.length ≤ 1024)
    (hk : ∀ k ∈ keys, k.length = 33) (hs : ∀ sg ∈ sigs, sg.length = 64) :
    multisigScript sigs.length keys = some (builtMultisig sigs.length keys)
    ∧ (calculate base (builtMultisig sigs.length keys)).1 = picoToDatoshi (multisigPico base sigs.length keys.length)
    ∧ (encodeWitness (invScript sigs) (builtMultisig sigs.length keys)).length = (calculate base (builtMultisig sigs.length keys)).2
    ∧ (sigs.length + keys.length + 2 ≤ maxStackSize →
        ∀ r, multisigResult validKey verify keys.reverse sigs.reverse = some r →
          runWitness ⟨base, none, gorgon, validKey, verify⟩ (invScript sigs) (builtMultisig sigs.length keys)
            = some ⟨[.bool r], multisigPico base sigs.length keys.length, .op⟩) := by
  have hcalc := calculate_built base sigs.length keys hm1 hmn hn hk
  refine ⟨multisigScript_some _ _ hm1 hmn (by omega), by rw [hcalc], ?_, ?_⟩
  · have hlen := builtMultisig_length sigs.length keys hk
    have hi := invScript_length sigs hs
    have e1 := emitInt_length_le sigs.length
    have e2 := emitInt_length_le keys.length
    rw [hcalc, encodeWitness_length _ _ (by rw [hi]; omega) (by rw [hlen]; omega), hi]
  · intro hst r hr
    exact run_multisig_witness base gorgon validKey verify keys sigs r hm1 hmn (by omega)
      (fun k hk' => by rw [hk k hk']; decide) (fun s hs' => by rw [hs s hs']; decide)
      (fun _ s hs' => by rw [hs s hs']; rfl) hst hr

-- non-vacuity: 2-of-3
example : runWitness ⟨300000, none, true, fun _ => true, fun _ _ => true⟩
      (invScript [List.replicate 64 1, List.replicate 64 2])
      (builtMultisig 2 [List.replicate 33 1, List.replicate 33 2, List.replicate 33 3])
    = some ⟨[.bool true], multisigPico 300000 2 3, .op⟩ :=
  (multisig_cost_exact 300000 true (fun _ => true) (fun _ _ => true)
    [List.replicate 33 1, List.replicate 33 2, List.replicate 33 3] [List.replicate 64 1, List.replicate 64 2]
    (by decide) (by decide) (by decide) (by simp) (by simp)).2.2.2 (by decide) true (by decide)

/-- **standard_cost_exact.** The same over *every* script `scparser.ParseMultiSigContract` takes for a standard multisig
contract — `m` and the key count pushed with any of PUSH1..PUSH16 / PUSHINT8..PUSHINT256, keys of 33..255 bytes — not
only the builder's output: with `m` signatures of 64 bytes the interpreter (whenever CheckMultisig reaches a verdict and
the stack limit allows) halts with that verdict having charged exactly what `fee.Calculate` (since fix c9cbbdc: the
prices of the instructions the script really has) says. -/
theorem standard_cost_exact (base : Nat) (gorgon : Bool) (validKey : Bytes → Bool) (verify : Bytes → Bytes → Bool)
    (script : Bytes) (pubs sigs : List Bytes) (r : Bool)
    (hp : parseMultiSig script = some (sigs.length, pubs))
    (hs : ∀ sg ∈ sigs, sg.length = 64)
    (hst : sigs.length + pubs.length + 2 ≤ maxStackSize)
    (hr : multisigResult validKey verify pubs.reverse sigs.reverse = some r) :
    ∃ pico, runWitness ⟨base, none, gorgon, validKey, verify⟩ (invScript sigs) script = some ⟨[.bool r], pico, .op⟩
      ∧ picoToDatoshi pico = (calculate base script).1 := by
  obtain ⟨mIns, nIns, hsh, hm, hn, hcalc⟩ := calculate_parsed base script sigs.length pubs hp
  obtain ⟨_, _, _, _, _, hm1, hmn, _, hk⟩ := parseMultiSig_inv script sigs.length pubs hp
  refine ⟨shapePico base sigs.length pubs.length (opOf mIns) (opOf nIns), ?_, hcalc.symm⟩
  rw [hsh]
  exact run_shape_witness base gorgon validKey verify mIns nIns pubs sigs r hm hn hm1 hmn
    (fun k hk' => (hk k hk').2) (fun s hs' => by rw [hs s hs']; decide) (fun _ s hs' => by rw [hs s hs']; rfl) hst hr

/-! Regression example for the defect this theorem used to fail on (known finding `calc-vs-vm-noncanonical-script`, fixed by
c9cbbdc): 2-of-3 with `m` pushed as `PUSHINT128 2` (price 4). The old rule (`calculateOld`) priced the opcode `emit.Int`
would have used (price 1) and was 90 datoshi short of the interpreter; the rule as it is now agrees with it. -/

def ncKeys : List Bytes := [List.replicate 33 1, List.replicate 33 2, List.replicate 33 3]
def ncScript : Bytes :=
  (4 :: 2 :: List.replicate 15 0) ++ (ncKeys.flatMap emitBytes ++ (emitInt 3 ++ emitSyscall checkMultisigId))
def ncInv : Bytes := invScript [List.replicate 64 1, List.replicate 64 2]

set_option maxRecDepth 100000 in
theorem standard_cost_exact_fails :
    (parseMultiSig ncScript).map (·.1) = some 2
    ∧ (calculateOld 300000 ncScript).1 = 2950380
    ∧ (calculate 300000 ncScript).1 = 2950470
    ∧ (runWitness ⟨300000, none, true, fun _ => true, fun _ _ => true⟩ ncInv ncScript).map
        (fun s => (s.stack, picoToDatoshi s.gas)) = some ([.bool true], 2950470) := by
  decide

set_option maxRecDepth 100000 in
/-- and `standard_cost_exact` applies to that script. -/
example : ∃ pico, runWitness ⟨300000, none, true, fun _ => true, fun _ _ => true⟩ ncInv ncScript = some ⟨[.bool true], pico, .op⟩
    ∧ picoToDatoshi pico = (calculate 300000 ncScript).1 :=
  standard_cost_exact 300000 true (fun _ => true) (fun _ _ => true) ncScript ncKeys [List.replicate 64 1, List.replicate 64 2] true
    (by decide) (by simp) (by decide) (by decide)

/-- the gas limit never changes what is charged: running under a limit of `L` picoGAS is running without
and failing iff the total exceeds `L` (the VM checks after every charge; gas only grows). -/
theorem limit_is_final_check (e : Env) (L : Nat) (inv ver : Bytes) :
    runWitness { e with limit := some L } inv ver
      = (runWitness { e with limit := none } inv ver).bind fun s => if s.gas ≤ L then some s else none :=
  runWitness_lim e L inv ver

example : runWitness ⟨1, some 5, false, fun _ => true, fun _ _ => true⟩ [0x11] [] = some ⟨[.int 1], 1, .op⟩ := by decide

/-! ## 2. the calculator's value is exactly the acceptance threshold -/

/-- a standard witness whose signatures verify; the second component is its verification script. -/
inductive StdWit (c : Chain) : Wit → Bytes → Prop where
  | sig (key sg : Bytes) (hk : key.length = 33) (hs : sg.length = 64) (hvk : c.validKey key = true)
      (hv : c.verify key sg = true) :
      StdWit c (.std true (emitBytes sg) (sigScript key)) (sigScript key)
  | multi (keys sigs : List Bytes) (hm1 : 1 ≤ sigs.length) (hmn : sigs.length ≤ keys.length) (hn : keys.length ≤ 1024)
      (hk : ∀ k ∈ keys, k.length = 33) (hs : ∀ sg ∈ sigs, sg.length = 64)
      (hst : sigs.length + keys.length + 2 ≤ maxStackSize)
      (hv : multisigResult c.validKey c.verify keys.reverse sigs.reverse = some true) :
      StdWit c (.std true (invScript sigs) (builtMultisig sigs.length keys)) (builtMultisig sigs.length keys)
  | parsed (script : Bytes) (pubs sigs : List Bytes) (hp : parseMultiSig script = some (sigs.length, pubs))
      (hs : ∀ sg ∈ sigs, sg.length = 64) (hst : sigs.length + pubs.length + 2 ≤ maxStackSize)
      (hv : multisigResult c.validKey c.verify pubs.reverse sigs.reverse = some true) :
      StdWit c (.std true (invScript sigs) script) script

/-- a standard witness verifies iff `fee.Calculate`'s fee fits the gas it is given, and consumes exactly it. -/
theorem stdWit_cost (c : Chain) (w : Wit) (ver : Bytes) (h : StdWit c w ver) :
    WitCost c w (calculate c.base ver).1 := by
  intro gas
  cases h with
  | sig key sg hk hs hvk hv =>
    have hrun := run_sig_witness c.base c.gorgon c.validKey c.verify key sg (by omega) (by omega) hvk (fun _ => by rw [hs]; rfl)
    rw [hv] at hrun
    simp only [verifyOne, calculate_sig c.base key hk]
    exact verifyWitness_of_run _ _ _ _ _ gas _ _ _ hrun
  | multi keys sigs hm1 hmn hn hk hs hst hv =>
    have hrun := run_multisig_witness c.base c.gorgon c.validKey c.verify keys sigs true hm1 hmn (by omega)
      (fun k hk' => by rw [hk k hk']; decide) (fun s hs' => by rw [hs s hs']; decide)
      (fun _ s hs' => by rw [hs s hs']; rfl) hst hv
    simp only [verifyOne, calculate_built c.base sigs.length keys hm1 hmn hn hk]
    exact verifyWitness_of_run _ _ _ _ _ gas _ _ _ hrun
  | parsed _ pubs sigs hp hs hst hv =>
    obtain ⟨pico, hrun, hpico⟩ := standard_cost_exact c.base c.gorgon c.validKey c.verify ver pubs sigs true hp hs hst hv
    simp only [verifyOne, ← hpico]
    exact verifyWitness_of_run _ _ _ _ _ gas _ _ _ hrun

/-- the network fee a wallet computes: size·feePerByte + attribute fees + Σ fee.Calculate over the witnesses. -/
def calculatorFee (c : Chain) (t : Tx) (vers : List Bytes) : Nat :=
  need c t + (vers.map fun v => (calculate c.base v).1).sum

/-- **threshold_exact.** A transaction whose witnesses are all standard (signature or m-of-n, signatures
valid, each within MaxVerificationGas and the stack limit) and that passes every check not involving the
fee: with `NetworkFee` = the calculator's value it is accepted, with any smaller value (in particular one
unit less) it is rejected, as "network fee too small" or by the witness check running out of gas. -/
theorem threshold_exact (c : Chain) (p : Pool) (t : Tx) (wvs : List (Wit × Bytes))
    (hpre : PreOk c t)
    (hw : t.signers.map (·.wit) = wvs.map (·.1))
    (hstd : ∀ q ∈ wvs, StdWit c q.1 q.2 ∧ (calculate c.base q.2).1 ≤ c.maxVerGas)
    (hattrs : verifyAttrs c { t with netFee := calculatorFee c t (wvs.map (·.2)) } = true)
    (hpool : poolAdd p { t with netFee := calculatorFee c t (wvs.map (·.2)) } = none) :
    admit c p { t with netFee := calculatorFee c t (wvs.map (·.2)) } = none
    ∧ ∀ f, f < calculatorFee c t (wvs.map (·.2)) →
        admit c p { t with netFee := f } = some .smallNetFee ∨ admit c p { t with netFee := f } = some .witness := by
  let wcs : List (Wit × Nat) := wvs.map fun q => (q.1, (calculate c.base q.2).1)
  have hsum : calculatorFee c t (wvs.map (·.2)) = need c t + costSum wcs := by
    simp [calculatorFee, costSum, wcs, List.map_map, Function.comp_def]
  have hw' : t.signers.map (·.wit) = wcs.map (·.1) := by
    rw [hw]; simp [wcs, List.map_map, Function.comp_def]
  have hc : ∀ q ∈ wcs, WitCost c q.1 q.2 ∧ q.2 ≤ c.maxVerGas := by
    intro q hq
    simp only [wcs, List.mem_map] at hq
    obtain ⟨q0, hq0, rfl⟩ := hq
    exact ⟨stdWit_cost c q0.1 q0.2 (hstd q0 hq0).1, (hstd q0 hq0).2⟩
  rw [hsum] at hattrs hpool ⊢
  exact threshold_exact_costs c p t wcs hpre hw' hc hattrs hpool

/-! ## 3. whatever is admitted satisfies every clause of the statement -/

/-- **admit_sound.** If `admit` accepts then: system fee within the block limit, script well-formed, inside
the validity window, no signer blocked, size within the maximum; the hash is not a transaction on chain and
no traceable on-chain conflict record for it is signed by one of its signers; every witness verifies and
size·feePerByte + attribute fees + the gas the witnesses consumed ≤ NetworkFee; every attribute rule holds;
not yet pooled and payer's balance covers its fees together with those already pooled.
(`OpaqueSound`: contract-based witnesses report at most the gas they were given — a fact of `vm.GasConsumed`.) -/
theorem admit_sound (c : Chain) (p : Pool) (t : Tx) (hne : t.signers ≠ [])
    (hop : OpaqueSound (t.signers.map (·.wit))) (h : admit c p t = none) :
    (t.sysFee ≤ c.maxBlockSysFee ∧ t.scriptOk = true ∧ c.height < t.validUntil ∧ t.validUntil ≤ c.height + c.maxVUBInc
      ∧ (∀ s ∈ t.signers, c.blocked s.account = false) ∧ t.size ≤ maxTransactionSize)
    ∧ (c.lookup t.hash ≠ .tx
        ∧ ∀ idx recs, c.lookup t.hash = .stub idx recs → isTraceable idx c.height c.mtb = true →
            ∀ s ∈ t.signers, ∀ q ∈ recs, q.1 = s.account → isTraceable q.2 c.height c.mtb = false)
    ∧ (∃ gs, AllVerify c (t.signers.map (·.wit)) gs
        ∧ t.size * c.feePerByte + attrsFee c t.signers.length t.attrs + gs.sum ≤ t.netFee)
    ∧ (∀ a ∈ t.attrs, checkAttr c t a = true)
    ∧ (p.has t.hash = false ∧ t.sysFee + t.netFee + p.feeSum ≤ p.balance) := by
  obtain ⟨hpre, hwit, hattr, hpool⟩ := admit_sound_full c p t hop h
  have hsig : t.signers.map (·.account) ≠ [] := by simpa using hne
  have hch := hasTransaction_none _ _ _ _ hsig hpre.chain
  refine ⟨⟨hpre.sysFee, hpre.script, hpre.notExpired, hpre.notFar, ?_, hpre.size⟩, ⟨hch.1, ?_⟩, hwit, hattr, hpool.1, hpool.2.2.1⟩
  · have := hpre.notBlocked
    simp only [List.any_eq_false, Bool.not_eq_true] at this
    exact this
  · intro idx recs hl htr s hs q hq hqa
    exact hch.2 idx recs hl htr s.account (List.mem_map.mpr ⟨s, hs, rfl⟩) q hq hqa

end NeoModel.C07

namespace NeoModel.C07
open NeoModel NeoModel.Fees NeoModel.Admission
open NeoModel.Generated.FeeConsts

/-! ### non-vacuity of `threshold_exact` / `admit_sound`: a concrete chain, pool and single-signature transaction -/

def exKey : Bytes := List.replicate 33 2
def exSig : Bytes := List.replicate 64 7

def exChain : Chain :=
  { height := 10, maxVUBInc := 100, maxBlockSysFee := 1000000, feePerByte := 1000, base := 300000, maxVerGas := 150000000,
    mtb := 1000, gorgon := true, p2pSigExt := false, reservedAttrs := false, notaryActive := true,
    attrFee := fun _ => 0, blocked := fun _ => false, lookup := fun _ => .none, committee := 1, oracleHash := none,
    notary := 2, validKey := fun _ => true, verify := fun _ _ => true }

def exPool : Pool := { has := fun _ => false, conflictsAttrErr := false, balance := 10 ^ 10, feeSum := 0, oracleErr := false, full := false }

def exTx : Tx :=
  { hash := 0, version := 0, scriptLen := 1, scriptOk := true, sysFee := 100, netFee := 0, validUntil := 20, size := 200,
    signers := [⟨10, false, .std true (emitBytes exSig) (sigScript exKey)⟩], attrs := [] }

theorem exStd : StdWit exChain (.std true (emitBytes exSig) (sigScript exKey)) (sigScript exKey) :=
  StdWit.sig exKey exSig (by simp [exKey]) (by simp [exSig]) rfl rfl

theorem exCalc : (calculate exChain.base (sigScript exKey)).1 = 983520 := by
  rw [calculate_sig _ _ (by simp [exKey])]; decide

/-- the hypotheses of `threshold_exact` are met: accepted with the calculator's fee 200·1000 + 983520, rejected below. -/
example : admit exChain exPool { exTx with netFee := 1183520 } = none
    ∧ (admit exChain exPool { exTx with netFee := 1183519 } = some .smallNetFee
        ∨ admit exChain exPool { exTx with netFee := 1183519 } = some .witness) := by
  have hfee : calculatorFee exChain exTx [sigScript exKey] = 1183520 := by
    simp only [calculatorFee, List.map_cons, List.map_nil, List.sum_cons, List.sum_nil, exCalc]; decide
  have h := threshold_exact exChain exPool exTx [(.std true (emitBytes exSig) (sigScript exKey), sigScript exKey)]
    ⟨by decide, rfl, by decide, by decide, rfl, by decide, rfl⟩ rfl
    (by intro q hq; simp only [List.mem_singleton] at hq; subst hq; exact ⟨exStd, by rw [exCalc]; decide⟩)
    rfl (by simp only [List.map_cons, List.map_nil, hfee]; decide)
  simp only [List.map_cons, List.map_nil, hfee] at h
  exact ⟨h.1, h.2 1183519 (by decide)⟩

/-- and `admit_sound` applies to it: e.g. its witness verified within the fee. -/
example : ∃ gs, AllVerify exChain ((exTx.signers).map (·.wit)) gs ∧ 200 * 1000 + 0 + gs.sum ≤ 1183520 :=
  (admit_sound exChain exPool { exTx with netFee := 1183520 } (by simp [exTx])
    (by intro f hf; simp [exTx] at hf) (by decide)).2.2.1

end NeoModel.C07

namespace NeoModel.C07
open NeoModel NeoModel.Fees NeoModel.Admission NeoModel.Pack
open NeoModel.Generated.FeeConsts
open NeoModel.Wire (varUintSize)

/-! ## 4. what the proposer packs is a proposable block

`Pack.applyPolicyM` is `ApplyPolicyToTxSet` with the code's uint32 / int64 arithmetic; `Pack.pick cfg pool` is what the
proposer puts into the block (pool order, then the cut); `Pack.encodeBlock` is `Block.EncodeBinary`;
`Pack.verifyBlock` the backup's check of a proposal, `Pack.ledgerLoop` the transaction loop of `AddBlock`;
`Pack.stillRelevant` the filter the pool applies to its content after every block. -/

/-- **block_wire_size.** `GetExpectedBlockSize` — the number `ApplyPolicyToTxSet` and the backups compare with
MaxBlockSize — is the length of `Block.EncodeBinary`, for every header (with or without state root), every block
witness and all transactions (byte strings). -/
theorem block_wire_size (h : Header) (txs : List Bytes) (hw : h.WF) (hn : txs.length ≤ 0xFFFFFFFF) :
    (encodeBlock h txs).length = expectedBlockSize h.stateRootEnabled h.inv h.ver (txs.map List.length) :=
  encodeBlock_length h txs hw hn

set_option maxRecDepth 100000 in
example : (encodeBlock { zeroHeader with stateRootEnabled := true, inv := [1, 2], ver := [3] } [[7, 7, 7], [8]]).length
    = expectedBlockSize true [1, 2] [3] [3, 1] := by decide

/-- the generated constant `expectedHeaderSizeWithEmptyWitness` is the wire size of `new(Header)` and the
size of the empty block is what the linked package reports (regenerated from the source on every run). -/
theorem header_size_constant :
    (Header.encode zeroHeader).length = expectedHeaderSizeWithEmptyWitness
    ∧ expectedSizeWithoutTx false [] [] 0 = emptyBlockExpectedSize := ⟨zeroHeader_size, emptyBlock_size⟩

/-- **block_witness_size.** The default block witness `ApplyPolicyToTxSet` sizes the proposal with (66·m zero
bytes + the validators' script) has exactly the wire size of the witness the block finally carries (m signatures
of 64 bytes pushed with PUSHDATA1, same script). -/
theorem block_witness_size (ver : Bytes) (sigs : List Bytes) (hs : ∀ sg ∈ sigs, sg.length = 64) :
    (encodeWitness (invScript sigs) ver).length = (encodeWitness (List.replicate (66 * sigs.length) 0) ver).length := by
  simp [encodeWitness, invScript_length sigs hs]

/-- **no_wraparound.** On admitted transactions (size ≤ MaxTransactionSize, 0 ≤ system fee ≤ MaxBlockSystemFee)
and with `overhead + 9 + MaxTransactionSize < 2^32`, `MaxBlockSize + MaxTransactionSize < 2^32`,
`2·MaxBlockSystemFee < 2^63`, the uint32 block size and the int64 fee total of `ApplyPolicyToTxSet` never wrap:
the function computes with exact integers. -/
theorem no_wraparound (cfg : Cfg) (hs : Sane cfg) (ps : List (Nat × Int))
    (hb : ∀ t ∈ ps, t.1 ≤ maxTransactionSize ∧ 0 ≤ t.2 ∧ t.2 ≤ cfg.maxBlockSysFee) :
    applyPolicyM cfg ps = packLoopN cfg.maxBlockSize cfg.maxBlockSysFee
      (overheadOf cfg.stateRoot cfg.inv cfg.ver + varUintSize (capped cfg.maxTx ps).length) 0 (capped cfg.maxTx ps) :=
  applyPolicyM_exact cfg hs ps hb

/-- the hypothesis is needed: with MaxBlockSize at the top of the uint32 range the size counter wraps and a
transaction that does not fit is taken. -/
example : applyPolicyM ⟨0, 2 ^ 32 - 50, 10, false, [], []⟩ [(40, 0), (102400, 0)] = [(40, 0), (102400, 0)] := by decide

/-- **packing_valid_partial.** Let `pool` be the pool's content in pool order, consistent in the sense C08 proves
of every reachable pool (each transaction once, no two in conflict, one response per oracle request, every payer's
fees within its balance), every transaction individually admissible on the current chain state; let the
configuration be free of wrap-around and the block's witness have the size of the default one. Then what the
proposer packs
* is a prefix of the pool in pool order (so any order the pool keeps is kept), at most MaxTransactionsPerBlock long;
* is cut exactly: every non-empty prefix of it satisfies `overhead + varsize(count of the capped list) + Σ sizes ≤
  MaxBlockSize` and `Σ system fees ≤ MaxBlockSystemFee` (with equality allowed), and unless the count limit cut,
  the next pool transaction breaks one of the two;
* passes the backup's `verifyBlock` — wire size of the real block within MaxBlockSize, every transaction accepted into
  the scratch pool (whether or not the backup already holds it), system fee total — and the transaction loop of
  `AddBlock` with its count check (an empty selection needs the empty block to fit).

Partial with respect to the statement: (1) "every transaction individually admissible on the current state" is what
`stillRelevant_sound` derives from the pool's filter, except for witnesses `scparser` takes for standard multisig
contracts without their being the builder's output (`stillRelevant_noncanonical_gap`, the known finding
`calc-vs-vm-noncanonical-script`); (2) the wire round trip of the block is C17 (`block_lawful`), the header checks of
`AddBlock` are C06; both are exercised on the real code by the `proposal` stream. -/
theorem packing_valid_partial (c : Chain) (bal : Nat × Nat → Nat) (cfg : Cfg) (pool : List Tx) (inMain : Nat → Bool)
    (inv ver : Bytes)
    (hs : Sane cfg) (hfee : cfg.maxBlockSysFee = c.maxBlockSysFee)
    (hwit : (encodeWitness inv ver).length = (encodeWitness cfg.inv cfg.ver).length)
    (hcons : Consistent c.notary bal pool)
    (hadm : ∀ t ∈ pool, admit c (freePool t) t = none) :
    pick cfg pool <+: pool
    ∧ (∀ R : Tx → Tx → Prop, pool.Pairwise R → (pick cfg pool).Pairwise R)
    ∧ (cfg.maxTx ≠ 0 → (pick cfg pool).length ≤ cfg.maxTx)
    ∧ (∀ j, 0 < j → j ≤ (pick cfg pool).length →
        overheadOf cfg.stateRoot cfg.inv cfg.ver + varUintSize (capped cfg.maxTx pool).length
            + ((pool.take j).map (·.size)).sum ≤ cfg.maxBlockSize
        ∧ ((pool.take j).map (·.sysFee)).sum ≤ c.maxBlockSysFee)
    ∧ ((pick cfg pool).length < (capped cfg.maxTx pool).length →
        ∃ t, pool[(pick cfg pool).length]? = some t ∧
          (overheadOf cfg.stateRoot cfg.inv cfg.ver + varUintSize (capped cfg.maxTx pool).length
              + ((pick cfg pool).map (·.size)).sum + t.size > cfg.maxBlockSize
            ∨ ((pick cfg pool).map (·.sysFee)).sum + t.sysFee > c.maxBlockSysFee))
    ∧ (pick cfg pool ≠ [] ∨ expectedSizeWithoutTx cfg.stateRoot inv ver 0 ≤ cfg.maxBlockSize →
        verifyBlock c bal inMain cfg.maxBlockSize cfg.stateRoot inv ver (pick cfg pool) = none
        ∧ ledgerLoop c bal inMain 0 [] (pick cfg pool) = none) := by
  obtain ⟨h1, h2, h3⟩ := pick_spec c cfg hs hfee pool hadm
  have hp : pick cfg pool <+: pool := List.take_prefix _ _
  refine ⟨hp, fun R hR => hR.sublist hp.sublist, ?_, h2, h3, pick_passes c bal cfg pool inMain inv ver hs hfee hwit hcons hadm⟩
  intro hm
  exact Nat.le_trans h1.length_le (Pack.capped_length _ _ hm)

end NeoModel.C07


namespace NeoModel.C07
open NeoModel NeoModel.Fees NeoModel.Admission NeoModel.Pack
open NeoModel.Generated.FeeConsts
open NeoModel.Wire (varUintSize)

/-! ### non-vacuity of `packing_valid_partial`: three admissible transactions, the size limit cuts after two -/

def exT (h : Nat) : Tx := { exTx with hash := h, netFee := 1183520 }
def exPoolTxs : List Tx := [exT 1, exT 2, exT 3]
def exVals : List Bytes := [List.replicate 33 2]
def exCfg : Cfg :=
  { maxTx := 10, maxBlockSize := 700, maxBlockSysFee := 1000000, stateRoot := true,
    inv := (defaultWitness exVals).1, ver := (defaultWitness exVals).2 }

theorem sumFees_le_total (n : Nat) (q : Nat × Nat) (l : List Tx) : sumFees n q l ≤ (l.map fee).sum := by
  induction l with
  | nil => simp [sumFees]
  | cons t ts ih =>
    rw [sumFees_cons]
    simp only [List.map_cons, List.sum_cons]
    split <;> omega

set_option maxRecDepth 100000 in
theorem exPool_consistent : Consistent exChain.notary (fun _ => 10 ^ 10) exPoolTxs := by
  refine ⟨by decide, by decide, by decide, ?_⟩
  intro q
  exact Nat.le_trans (sumFees_le_total _ q _) (by decide)

set_option maxRecDepth 100000 in
theorem exPool_admissible : ∀ t ∈ exPoolTxs, admit exChain (freePool t) t = none := by decide

set_option maxRecDepth 100000 in
theorem exCfg_sane : Sane exCfg := ⟨by decide, by decide, by decide, by decide⟩

set_option maxRecDepth 100000 in
/-- the hypotheses are met; two of the three transactions are taken (the third would make 853 > 700 bytes),
and the block of two passes the backup's and the ledger's checks. -/
example : (pick exCfg exPoolTxs).map (·.hash) = [1, 2]
    ∧ verifyBlock exChain (fun _ => 10 ^ 10) (fun _ => false) 700 true exCfg.inv exCfg.ver (pick exCfg exPoolTxs) = none := by
  have h := packing_valid_partial exChain (fun _ => 10 ^ 10) exCfg exPoolTxs (fun _ => false) exCfg.inv exCfg.ver
    exCfg_sane rfl rfl exPool_consistent exPool_admissible
  have hp : (pick exCfg exPoolTxs).map (·.hash) = [1, 2] := by decide
  exact ⟨hp, (h.2.2.2.2.2 (Or.inl (by intro hn; rw [hn] at hp; simp at hp))).1⟩


/-! ## 4b. what stays pooled after a block is admissible on the new state -/

/-- **stillRelevant_sound.** A transaction that once passed the state-independent checks (system fee within the
configured block limit, script, size) and whose standard witnesses are the builders' scripts with valid signatures
(cost within MaxVerificationGas): if `IsTxStillRelevant` keeps it in the pool on state `c` — whatever happened to
ExecFeeFactor, FeePerByte, attribute fees, MaxValidUntilBlockIncrement, blocked accounts, on-chain conflicts and
height since it was pooled — then the chain part of `VerifyTx` accepts it on `c`. Contract-based and other
non-standard witnesses are run again by the filter, so nothing is assumed about them. -/
theorem stillRelevant_sound (c : Chain) (t : Tx)
    (h1 : t.sysFee ≤ c.maxBlockSysFee) (h2 : t.scriptOk = true) (h3 : t.size ≤ maxTransactionSize)
    (hstd : ∀ s ∈ t.signers, Wit.isStandard s.wit = true →
      ∃ ver, StdWit c s.wit ver ∧ (calculate c.base ver).1 ≤ c.maxVerGas)
    (h : stillRelevant c t = true) : admit c (freePool t) t = none := by
  apply stillRelevant_sound_costs c t h1 h2 h3 _ h
  intro w hw k hk
  obtain ⟨s, hs, rfl⟩ := List.mem_map.mp hw
  have hst : Wit.isStandard s.wit = true := by
    cases hsw : s.wit with
    | std a b ver =>
      simp only [Wit.stdCost, hsw] at hk
      split at hk
      · rename_i hh; exact hh
      · contradiction
    | missing => simp [Wit.stdCost, hsw] at hk
    | contract f => simp [Wit.stdCost, hsw] at hk
  obtain ⟨ver, hsv, hle⟩ := hstd s hs hst
  have hk' : k = (calculate c.base ver).1 := by
    generalize s.wit = w at hsv hst hk
    cases hsv with
    | sig key sg hk1 hs1 hvk hv =>
      simp only [Wit.stdCost, hst, if_true, Option.some.injEq] at hk
      exact hk.symm
    | multi keys sigs hm1 hmn hn hk1 hs1 hst1 hv =>
      simp only [Wit.stdCost, hst, if_true, Option.some.injEq] at hk
      exact hk.symm
    | parsed _ pubs sigs hp hs1 hst1 hv =>
      simp only [Wit.stdCost, hst, if_true, Option.some.injEq] at hk
      exact hk.symm
  subst hk'
  exact ⟨stdWit_cost c s.wit ver hsv, hle⟩

-- non-vacuity: the example transaction is kept on the example chain, and the theorem applies to it
example : stillRelevant exChain (exT 1) = true ∧ admit exChain (freePool (exT 1)) (exT 1) = none := by
  have hr : stillRelevant exChain (exT 1) = true := by decide
  refine ⟨hr, stillRelevant_sound exChain (exT 1) (by decide) rfl (by decide) ?_ hr⟩
  intro s hs _
  simp only [exT, exTx, List.mem_singleton] at hs
  subst hs
  exact ⟨sigScript exKey, exStd, by rw [exCalc]; decide⟩

/-! Regression examples for the two defects this property's check found in `IsTxStillRelevant` (fixed by 4f45775 and
0375dbe; `stillRelevantOld` is the function before the fixes). The example transaction pays exactly the calculator's
fee at base price 300000. -/

/-- after the committee doubles ExecFeeFactor the old filter kept the transaction although `VerifyTx` rejects it
(its witness runs out of gas); the fixed filter drops it. -/
example : stillRelevantOld { exChain with base := 600000 } (exT 1) = true
    ∧ admit { exChain with base := 600000 } (freePool (exT 1)) (exT 1) = some .witness
    ∧ stillRelevant { exChain with base := 600000 } (exT 1) = false := by decide

/-- the same after a raise of FeePerByte that the network fee still covers, but not together with the witness. -/
example : stillRelevantOld { exChain with feePerByte := 1001 } (exT 1) = true
    ∧ admit { exChain with feePerByte := 1001 } (freePool (exT 1)) (exT 1) = some .witness
    ∧ stillRelevant { exChain with feePerByte := 1001 } (exT 1) = false := by decide

/-- after MaxValidUntilBlockIncrement is lowered from 100 to 5 the old filter kept a transaction valid until
block 20 at height 10. -/
example : stillRelevantOld { exChain with maxVUBInc := 5 } (exT 1) = true
    ∧ admit { exChain with maxVUBInc := 5 } (freePool (exT 1)) (exT 1) = some .notYetValid
    ∧ stillRelevant { exChain with maxVUBInc := 5 } (exT 1) = false := by decide

/-- **stillRelevant_noncanonical_gap** — now a regression example (the gap was closed together with the known finding
`calc-vs-vm-noncanonical-script` by fix c9cbbdc). `ncScript` (2-of-3 with `m` pushed as PUSHINT128) is a standard
contract for `scparser`, so the filter prices it with `fee.Calculate`. Under the old rule that was 90 datoshi below what
the VM charges: a transaction paying exactly the VM's price at base 300000 stayed pooled when the base price moved to
300001 (old calculator 2950390 ≤ 2950470) although `VerifyTx` rejects it (the VM charges 2950480). With the calculator
as it is now the filter drops it. -/
def ncTx : Tx :=
  { hash := 5, version := 0, scriptLen := 1, scriptOk := true, sysFee := 100, netFee := 200 * 1000 + 2950470, validUntil := 20,
    size := 200, signers := [⟨10, false, .std true ncInv ncScript⟩], attrs := [] }

set_option maxRecDepth 1000000 in
theorem stillRelevant_noncanonical_gap :
    admit exChain (freePool ncTx) ncTx = none
    ∧ (calculateOld 300001 ncScript).1 = 2950390 ∧ (calculate 300001 ncScript).1 = 2950480
    ∧ stillRelevant { exChain with base := 300001 } ncTx = false
    ∧ admit { exChain with base := 300001 } (freePool ncTx) ncTx = some .witness := by decide

end NeoModel.C07


namespace NeoModel.C07

/-! ## 5. what comes from the wire is well-formed -/
open NeoModel NeoModel.Fees NeoModel.Admission
open NeoModel.Generated.FeeConsts

/-- **admit_wellformed.** What is admitted from the wire is well-formed: version 0, between 1 and 16 signers,
signers + attributes ≤ 16, no account signs twice, at most one attribute of each type other than Conflicts,
a non-empty script of at most 65535 bytes — and it passed `admit` (so `admit_sound` applies). -/
theorem admit_wellformed (c : Chain) (p : Pool) (t : Tx) (h : admitWire c p t = none) :
    t.version = 0 ∧ t.signers ≠ [] ∧ t.attrs.length + t.signers.length ≤ maxAttributes
    ∧ (t.signers.map (·.account)).Nodup
    ∧ ((t.attrs.filter fun a => a.typ != attrConflicts).map (·.typ)).Nodup
    ∧ t.scriptLen ≠ 0 ∧ t.scriptLen ≤ maxScriptLength
    ∧ admit c p t = none := by
  unfold admitWire at h
  split at h
  · contradiction
  · rename_i hw
    simp only [Bool.not_eq_true, Bool.not_eq_false'] at hw
    simp only [wellFormed, Bool.and_eq_true, beq_iff_eq, Bool.not_eq_true', decide_eq_true_eq, bne_iff_ne, ne_eq] at hw
    obtain ⟨⟨⟨⟨⟨⟨⟨h1, h2⟩, _⟩, h4⟩, h5⟩, h6⟩, h7⟩, h8⟩ := hw
    refine ⟨h1, ?_, h4, allDistinct_nodup _ h5, allDistinct_nodup _ h6, h7, h8, h⟩
    intro hn; rw [hn] at h2; simp at h2

example : admitWire exChain exPool { exTx with netFee := 1183520 } = none := by decide
example : admitWire exChain exPool { exTx with netFee := 1183520, signers := exTx.signers ++ exTx.signers } = some .malformed := by decide

end NeoModel.C07

namespace NeoModel.C07
open NeoModel NeoModel.Fees NeoModel.Admission NeoModel.Pack NeoModel.Native
open NeoModel.Generated.FeeConsts

/-! ## 6. NotaryAssisted and OracleResponse transactions

`Native.notaryVerify` / `Native.oracleVerify` are the `verify` methods of the native Notary / Oracle contracts;
`Native.nativeWit k res` is such a method as a witness (price `k` observed on the real VM, result modelled). -/

/-- a witness with the price a wallet computes for it: `fee.Calculate` for a standard one, a test run for a native
contract's `verify` (neotest/basic.go:341-359, rpcsrv/server.go:1040-1050). -/
def PricedWit (c : Chain) (w : Wit) (k : Nat) : Prop :=
  (∃ ver, StdWit c w ver ∧ k = (calculate c.base ver).1) ∨ w = nativeWit k true

/-- **special_threshold_exact.** A transaction whose witnesses are standard ones and native `verify`s that return
true (each within MaxVerificationGas) and that passes every check not involving the fee — in particular a
NotaryAssisted transaction (Notary's `verify`) or an oracle response (oracle nodes' multisig, optionally Oracle's
`verify`): with NetworkFee = size·feePerByte + attribute fees + Σ prices it is accepted, with any smaller value
rejected as "network fee too small" or by a witness running out of gas. -/
theorem special_threshold_exact (c : Chain) (p : Pool) (t : Tx) (wcs : List (Wit × Nat))
    (hpre : PreOk c t)
    (hw : t.signers.map (·.wit) = wcs.map (·.1))
    (hp : ∀ q ∈ wcs, PricedWit c q.1 q.2 ∧ q.2 ≤ c.maxVerGas)
    (hattrs : verifyAttrs c { t with netFee := need c t + costSum wcs } = true)
    (hpool : poolAdd p { t with netFee := need c t + costSum wcs } = none) :
    admit c p { t with netFee := need c t + costSum wcs } = none
    ∧ ∀ f, f < need c t + costSum wcs →
        admit c p { t with netFee := f } = some .smallNetFee ∨ admit c p { t with netFee := f } = some .witness := by
  apply threshold_exact_costs c p t wcs hpre hw _ hattrs hpool
  intro q hq
  obtain ⟨w, k⟩ := q
  obtain ⟨h1, h2⟩ := hp (w, k) hq
  refine ⟨?_, h2⟩
  simp only at h1 ⊢
  rcases h1 with ⟨ver, hs, rfl⟩ | rfl
  · exact stdWit_cost c _ ver hs
  · exact nativeWit_cost c k

/-- **notary_fee_rule.** The attribute part of the threshold: a NotaryAssisted attribute adds
`(NKeys + 1) · NotaryServiceFeePerKey` when P2PSigExtensions are on and nothing otherwise; an OracleResponse
attribute adds its (flat) attribute fee. -/
theorem notary_fee_rule (c : Chain) (n nk : Nat) (f : OracleFacts) (pre post : List Attr) :
    attrsFee c n (pre ++ .notaryAssisted nk :: post)
      = attrsFee c n pre + (if c.p2pSigExt then c.attrFee attrNotaryAssisted * (nk + 1) else 0) + attrsFee c n post
    ∧ attrsFee c n (pre ++ .oracleResponse f :: post)
      = attrsFee c n pre + c.attrFee attrOracleResponse + attrsFee c n post :=
  ⟨attrsFee_notary c n nk pre post, attrsFee_oracle c n f pre post⟩

/-- **notary_admit_sound.** If a transaction carrying a NotaryAssisted attribute is admitted and the witness of its
Notary signer `s` (the first signer whose account is Notary; signers are distinct in every decodable transaction) is
Notary's `verify` (price `k`, deposit of the second signer `dep`, `sigOk` = signed by a designated notary node), then:
the attribute's hardfork is active, Notary signs with scope None, the signature is a designated node's, a transaction
sent by Notary has exactly two signers and the payer's deposit covers system + network fee, and the network fee covers
size, attribute fees and `k`. -/
theorem notary_admit_sound (c : Chain) (p : Pool) (t : Tx) (nk k : Nat) (dep : Option Nat) (sigOk : Bool) (s : Signer)
    (hop : OpaqueSound (t.signers.map (·.wit)))
    (hattr : Attr.notaryAssisted nk ∈ t.attrs)
    (hfind : t.signers.find? (·.account == c.notary) = some s)
    (hwit : s.wit = nativeWit k (notaryVerify c t dep sigOk))
    (h : admit c p t = none) :
    c.notaryActive = true ∧ s.scopeNone = true ∧ sigOk = true
    ∧ (sender t = c.notary → t.signers.length = 2 ∧ ∃ d, dep = some d ∧ t.netFee + t.sysFee ≤ d)
    ∧ need c t + k ≤ t.netFee := by
  obtain ⟨_, ⟨gs, hall, hsum⟩, hat, _⟩ := admit_sound_full c p t hop h
  have hca := hat _ hattr
  simp only [checkAttr, Bool.and_eq_true] at hca
  have hs : s ∈ t.signers := List.mem_of_find?_eq_some hfind
  obtain ⟨lim, g, hv, hg⟩ := allVerify_mem c _ gs hall s.wit (List.mem_map.mpr ⟨s, hs, rfl⟩)
  rw [hwit] at hv
  obtain ⟨hres, hgk⟩ := nativeWit_ok c k _ lim g hv
  subst hgk
  cases dep with
  | none =>
    simp [notaryVerify, hfind] at hres
    obtain ⟨_, hsc, hmid, hsig⟩ := hres
    exact ⟨hca.1.1, hsc, hsig, fun hsend => absurd hsend hmid, by omega⟩
  | some d =>
    simp [notaryVerify, hfind] at hres
    obtain ⟨_, hsc, hmid, hsig⟩ := hres
    refine ⟨hca.1.1, hsc, hsig, ?_, by omega⟩
    intro hsend
    rcases hmid with hn | ⟨h2, hd⟩
    · exact absurd hsend hn
    · exact ⟨h2, d, rfl, hd⟩

/-- **oracle_admit_sound.** If a transaction carrying an OracleResponse attribute is admitted then: oracle nodes are
designated and their account is among the signers, every signer has scope None, the script is the oracle response
script, the request exists and system + network fee cover its GasForResponse. -/
theorem oracle_admit_sound (c : Chain) (p : Pool) (t : Tx) (f : OracleFacts)
    (hop : OpaqueSound (t.signers.map (·.wit)))
    (hattr : Attr.oracleResponse f ∈ t.attrs) (h : admit c p t = none) :
    ∃ hsh, c.oracleHash = some hsh ∧ (∀ s ∈ t.signers, s.scopeNone = true) ∧ (∃ s ∈ t.signers, s.account = hsh)
      ∧ f.scriptOk = true ∧ f.requestOk = true ∧ f.gasForResponse ≤ t.netFee + t.sysFee := by
  obtain ⟨_, _, hat, _⟩ := admit_sound_full c p t hop h
  have hca := hat _ hattr
  simp only [checkAttr] at hca
  cases ho : c.oracleHash with
  | none => simp [ho] at hca
  | some hsh =>
    simp only [ho, Bool.and_eq_true, List.all_eq_true, List.any_eq_true, beq_iff_eq, Bool.not_eq_true',
      decide_eq_false_iff_not, Nat.not_lt] at hca
    obtain ⟨⟨⟨⟨h1, h2⟩, h3⟩, h4⟩, h5⟩ := hca
    exact ⟨hsh, rfl, h1, h2, h3, h4, h5⟩


/-! ### non-vacuity: a NotaryAssisted and an oracle response transaction on the example chain -/

def exNChain : Chain :=
  { exChain with p2pSigExt := true, oracleHash := some 10,
                 attrFee := fun t => if t = attrNotaryAssisted then 10000000 else if t = attrOracleResponse then 7 else 0 }

/-- sender 10 (signature account), Notary (account 2, scope None) with its `verify` at 1000000 datoshi, NKeys = 1. -/
def exNTx0 : Tx :=
  { hash := 7, version := 0, scriptLen := 1, scriptOk := true, sysFee := 100, netFee := 0, validUntil := 20, size := 250,
    signers := [⟨10, false, .std true (emitBytes exSig) (sigScript exKey)⟩, ⟨2, true, .missing⟩],
    attrs := [.notaryAssisted 1] }
def exNWit (fee : Nat) : Wit := nativeWit 1000000 (notaryVerify exNChain { exNTx0 with netFee := fee } none true)
def exNTx (fee : Nat) : Tx :=
  { exNTx0 with netFee := fee, signers := [⟨10, false, .std true (emitBytes exSig) (sigScript exKey)⟩, ⟨2, true, exNWit fee⟩] }

/-- size·1000 + (1+1)·10000000 + 983520 (signature) + 1000000 (Notary.verify) = 22233520: accepted, one less: rejected. -/
example : admit exNChain exPool (exNTx 22233520) = none ∧ admit exNChain exPool (exNTx 22233519) = some .witness := by decide

example : need exNChain (exNTx 22233520) = 250 * 1000 + 10000000 * (1 + 1) := by decide

/-- `notary_admit_sound` applies to it. -/
example : exNChain.notaryActive = true ∧ need exNChain (exNTx 22233520) + 1000000 ≤ 22233520 := by
  have h := notary_admit_sound exNChain exPool (exNTx 22233520) 1 1000000 none true ⟨2, true, exNWit 22233520⟩
    (by intro f hf lim used hu
        simp only [exNTx, exNWit, nativeWit, List.map_cons, List.map_nil, List.mem_cons, List.mem_nil_iff, or_false,
          reduceCtorEq, false_or, Wit.contract.injEq] at hf
        subst hf
        exact nativeWit_le _ _ _ _ hu)
    (by simp [exNTx, exNTx0]) rfl rfl (by decide)
  exact ⟨h.1, h.2.2.2.2⟩

/-- an oracle response: signed by the designated oracle nodes' account (10) with scope None, response script,
existing request with GasForResponse 1500000, system fee making up the difference. -/
def exOTx (fee sys : Nat) : Tx :=
  { hash := 8, version := 0, scriptLen := 1, scriptOk := true, sysFee := sys, netFee := fee, validUntil := 20, size := 250,
    signers := [⟨10, true, .std true (emitBytes exSig) (sigScript exKey)⟩],
    attrs := [.oracleResponse ⟨0, true, true, 1500000⟩] }

/-- 250·1000 + 7 + 983520 = 1233527 network fee; accepted when system fee makes up GasForResponse, rejected as invalid
attribute with one unit less of it, and by the witness with one unit less of network fee. -/
example : admit exNChain exPool (exOTx 1233527 266473) = none
    ∧ admit exNChain exPool (exOTx 1233527 266472) = some .invalidAttr
    ∧ admit exNChain exPool (exOTx 1233526 266474) = some .witness := by decide

example : ∃ hsh, exNChain.oracleHash = some hsh ∧ (1500000 : Nat) ≤ 1233527 + 266473 := by
  obtain ⟨hsh, h1, _, _, _, _, h6⟩ := oracle_admit_sound exNChain exPool (exOTx 1233527 266473) ⟨0, true, true, 1500000⟩
    (by intro f hf; simp [exOTx] at hf) (by simp [exOTx]) (by decide)
  exact ⟨hsh, h1, h6⟩

end NeoModel.C07

namespace NeoModel.C07
open NeoModel NeoModel.Fees NeoModel.Admission NeoModel.Pack NeoModel.FeeFields
open NeoModel.Generated.FeeConsts

/-! ## 7. sign and overflow of the fee fields

`FeeFields.feesValid` is the fee part of `Transaction.isValid` on the two 64-bit words of the wire form;
`FeeFields.needM` / `attrsFeeM` / `smallNetFeeM` are `needNetworkFee`, `CalculateAttributesFee` and the test
`NetworkFee - need < 0` with int64 wrap-around. -/

/-- **fee_fields_wellformed.** Two wire words pass the decoder's checks iff, read as int64, both are non-negative
and their mathematical sum is below 2^63 — so for every decoded transaction `SystemFee`, `NetworkFee` and
`SystemFee + NetworkFee` (used as uint64 by the pool and by the oracle gas test) are the natural numbers the
admission model computes with. -/
theorem fee_fields_wellformed (sysU netU : Nat) (hs : sysU < 2 ^ 64) (hn : netU < 2 ^ 64) :
    feesValid sysU netU = none ↔ sysU < 2 ^ 63 ∧ netU < 2 ^ 63 ∧ sysU + netU < 2 ^ 63 :=
  feesValid_iff sysU netU hs hn

example : feesValid (2 ^ 64 - 1) 5 = some .negSys ∧ feesValid 5 (2 ^ 63) = some .negNet
    ∧ feesValid (2 ^ 63 - 1) 1 = some .tooBig ∧ feesValid (2 ^ 63 - 2) 1 = none := by decide

/-- **fee_arithmetic_exact.** At verification time nothing wraps either: for a transaction within
MaxTransactionSize, FeePerByte and attribute fees within Policy's maxima, at most 16 signers and 16 attributes and
one-byte key counts, the int64 values of `CalculateAttributesFee` and of `needNetworkFee` are the exact sums of the
admission model, and `NetworkFee - need < 0` is `NetworkFee < need`. -/
theorem fee_arithmetic_exact (c : Chain) (t : Tx)
    (hsz : t.size ≤ maxTransactionSize) (hfpb : c.feePerByte ≤ policy_maxFeePerByte)
    (hns : t.signers.length ≤ maxAttributes) (hna : t.attrs.length ≤ maxAttributes)
    (hattr : ∀ a ∈ t.attrs, c.attrFee a.typ ≤ policy_maxAttributeFee ∧ ∀ nk, a = .notaryAssisted nk → nk ≤ 255)
    (hnet : t.netFee < 2 ^ 63) :
    attrsFeeM c.p2pSigExt t.signers.length (t.attrs.map (toM c)) 0 = (attrsFee c t.signers.length t.attrs : Int)
    ∧ needM t.size c.feePerByte (attrsFee c t.signers.length t.attrs) = (need c t : Int)
    ∧ smallNetFeeM t.netFee (needM t.size c.feePerByte (attrsFee c t.signers.length t.attrs)) = decide (t.netFee < need c t) := by
  have hb : t.attrs.length * attrBound ≤ 16 * attrBound := Nat.mul_le_mul_right _ (by simpa [maxAttributes] using hna)
  have h16 : 16 * attrBound < 2 ^ 62 := by decide
  obtain ⟨h1, h2⟩ := attrsFeeM_exact c t.signers.length hns t.attrs 0 hattr (by simp only [Nat.reducePow] at h16 ⊢; omega)
  have haf : attrsFee c t.signers.length t.attrs < 2 ^ 62 := by omega
  obtain ⟨h3, h4⟩ := needM_exact t.size c.feePerByte (attrsFee c t.signers.length t.attrs) t.netFee hsz hfpb haf hnet
  refine ⟨by simpa using h1, by simpa [need] using h3, by unfold need; exact h4⟩

example : needM 200 1000 0 = 200000 ∧ smallNetFeeM 199999 (needM 200 1000 0) = true := by decide

end NeoModel.C07

namespace NeoModel.C07
open NeoModel NeoModel.Fees NeoModel.Admission NeoModel.Pack
open NeoModel.Generated.FeeConsts

/-! ## 8. what the admission reads of the chain -/

/-- **admit_depends_only_on.** The verdict on a transaction depends on the chain state only through: height,
configuration and Policy values, the cryptography, the attribute fee of the attribute types the transaction carries,
the blocked flag of its signers, and what is stored under its own hash and under the hashes its Conflicts attributes
name. Two states that agree on these give the same verdict, whatever else they hold — other transactions, other
conflict records, other accounts. -/
theorem admit_depends_only_on (c c' : Chain) (p : Pool) (t : Tx) (s : SameFor c c' t) : admit c p t = admit c' p t :=
  admit_congr c c' p t s

-- non-vacuity: a chain with an unrelated conflict record and an unrelated blocked account
example : admit { exChain with lookup := fun h => if h = 99 then .stub 3 [(10, 3)] else .none,
                               blocked := fun a => a == 77 } exPool (exT 1) = admit exChain exPool (exT 1) :=
  admit_depends_only_on _ _ _ _ ⟨rfl, rfl, rfl, rfl, rfl, rfl, rfl, rfl, rfl, rfl, rfl, rfl, rfl, rfl, rfl, rfl,
    by simp [exT, exTx], by simp [exT, exTx, exChain], by simp [exT, exTx, exChain], by simp [exT, exTx, conflictHashes]⟩

/-- **conflict_record_blocks_iff.** The exact dependence on a conflict record (`dao.HasTransaction`): the record
under the transaction's hash makes the transaction inadmissible iff it is inside the traceability window
(`index ≤ height < index + MaxTraceableBlocks`) and some signer of the transaction has a per-signer record inside
the window. Records of other signers, or of its signers but beyond the edge, never block. -/
theorem conflict_record_blocks_iff (idx : Nat) (recs : List (Nat × Nat)) (signers : List Nat) (height mtb : Nat)
    (hne : signers ≠ []) :
    hasTransaction (.stub idx recs) signers height mtb = some .hasConflicts
      ↔ isTraceable idx height mtb = true ∧ ∃ a ∈ signers, ∃ q ∈ recs, q.1 = a ∧ isTraceable q.2 height mtb = true :=
  stub_blocks_iff idx recs signers height mtb hne

-- at the edge: a record of signer 10 at index 6 with MaxTraceableBlocks 5 blocks at height 10 and not at 11; the stub's
-- own (newest) index 9 stays in the window
example : hasTransaction (.stub 9 [(10, 6), (11, 9)]) [10] 10 5 = some .hasConflicts
    ∧ hasTransaction (.stub 9 [(10, 6), (11, 9)]) [10] 11 5 = none := by decide

/-- **standard_witness_state_independent.** Running a witness reads, of the chain, only the base execution fee,
MaxVerificationGas, the signature-length rule and the cryptography: between two states that agree on these a witness
made of the modelled opcodes gives the same result with the same gas. (Only contract-based witnesses — a function of
the state in the real node — can change their verdict when the chain moves without a Policy change; those are the ones
the pool's filter runs again.) -/
theorem standard_witness_state_independent (c c' : Chain) (gas : Nat) (hashOk : Bool) (inv ver : Bytes)
    (hb : c.base = c'.base) (hm : c.maxVerGas = c'.maxVerGas) (hg : c.gorgon = c'.gorgon)
    (hk : c.validKey = c'.validKey) (hv : c.verify = c'.verify) :
    verifyOne c gas (.std hashOk inv ver) = verifyOne c' gas (.std hashOk inv ver) :=
  verifyOne_congr c c' gas _ hb hm hg hk hv

example : verifyOne { exChain with height := 500, lookup := fun _ => .tx } 1000000 (.std true (emitBytes exSig) (sigScript exKey))
    = verifyOne exChain 1000000 (.std true (emitBytes exSig) (sigScript exKey)) :=
  standard_witness_state_independent _ _ _ _ _ _ rfl rfl rfl rfl rfl

end NeoModel.C07

namespace NeoModel.C07
open NeoModel NeoModel.Fees NeoModel.Admission NeoModel.Pack
open NeoModel.Generated.FeeConsts
open NeoModel.Wire (varUintSize)

/-! ## 9. the pool's consistency is an invariant -/

/-- **pool_add_keeps_consistent.** If `mempool.Add` (on a pool below its capacity) accepts `t` into a consistent pool —
every transaction once, no two tied by a Conflicts attribute, one response per oracle request, every payer's system +
network fees within its balance or Notary deposit — then the pool afterwards (the transactions `t` conflicts with and a
cheaper response to the same request removed, `t` added) is consistent again. The discount of step 3 of
`checkTxConflicts` is sound because only transactions of the same payer are discounted and each of them is removed.
`HashSane`: what a collision-free hash and `verifyTxAttributes` guarantee (no self / mutual naming, no duplicate
Conflicts attribute). -/
theorem pool_add_keeps_consistent (n : Nat) (bal : Nat × Nat → Nat) (sp : List Tx) (t : Tx)
    (hc : Consistent n bal sp) (hs : HashSane sp t) (h : (scratchAdd n bal sp t).1 = none) :
    Consistent n bal (scratchAdd n bal sp t).2 :=
  scratchAdd_consistent n bal sp t hc hs h

/-- the third field of `HashSane` is what the attribute check of the admission establishes. -/
theorem admitted_conflicts_distinct (c : Chain) (t : Tx) (h : verifyAttrs c t = true) : (conflictHashes t).Nodup :=
  conflictHashes_nodup c t h

/-- **pool_consistency_invariant.** Every pool reachable between two blocks — from the empty pool by accepted
additions, removals of any kind and reordering — is consistent. -/
theorem pool_consistency_invariant {n : Nat} {bal : Nat × Nat → Nat} {sp : List Tx} (h : Built n bal sp) :
    Consistent n bal sp := built_consistent h

/-- **packing_valid_reachable.** `packing_valid_partial` for every reachable pool: the consistency hypothesis is
discharged by the invariant. What remains assumed is that every pooled transaction is admissible on the current state
(`stillRelevant_sound`) and a configuration without wrap-around. -/
theorem packing_valid_reachable (c : Chain) (bal : Nat × Nat → Nat) (cfg : Cfg) (pool : List Tx) (inMain : Nat → Bool)
    (inv ver : Bytes)
    (hs : Sane cfg) (hfee : cfg.maxBlockSysFee = c.maxBlockSysFee)
    (hwit : (encodeWitness inv ver).length = (encodeWitness cfg.inv cfg.ver).length)
    (hb : Built c.notary bal pool)
    (hadm : ∀ t ∈ pool, admit c (freePool t) t = none)
    (hne : pick cfg pool ≠ [] ∨ expectedSizeWithoutTx cfg.stateRoot inv ver 0 ≤ cfg.maxBlockSize) :
    pick cfg pool <+: pool
    ∧ verifyBlock c bal inMain cfg.maxBlockSize cfg.stateRoot inv ver (pick cfg pool) = none
    ∧ ledgerLoop c bal inMain 0 [] (pick cfg pool) = none := by
  have h := packing_valid_partial c bal cfg pool inMain inv ver hs hfee hwit (built_consistent hb) hadm
  exact ⟨h.1, h.2.2.2.2.2 hne⟩

/-! non-vacuity: the example pool is reachable; and a replacement through a Conflicts attribute between
transactions of different senders at the edge of the balance (the scenario of seeded change C07-m5). -/

def sT (h : Nat) (accs : List Nat) (net : Nat) (cf : List Nat) : Tx :=
  { hash := h, version := 0, scriptLen := 1, scriptOk := true, sysFee := 0, netFee := net, validUntil := 20, size := 100,
    signers := accs.map fun a => ⟨a, false, .missing⟩, attrs := cf.map Attr.conflicts }

/-- A = account 10 with balance 100, B = account 11. a1 (A, 60), e (sent by B, co-signed by A, 30), a2 (A, 41, names e):
60 + 41 > 100, and e's fees are not A's, so a2 is refused — although 60 + 41 − 30 ≤ 100. -/
example : (scratchAdd 2 (fun q => if q = (10, 0) then 100 else 1000) [sT 1 [10] 60 [], sT 2 [11, 10] 30 []] (sT 3 [10] 41 [2])).1
    = some .poolConflict := by decide

/-- with 40 it is admitted, e is evicted, and the pool stays consistent by the theorem. -/
example : Consistent 2 (fun q => if q = (10, 0) then 100 else 1000)
    (scratchAdd 2 (fun q => if q = (10, 0) then 100 else 1000) [sT 1 [10] 60 [], sT 2 [11, 10] 30 []] (sT 3 [10] 40 [2])).2 := by
  apply pool_consistency_invariant
  have b0 : Built 2 (fun q => if q = (10, 0) then 100 else 1000) [] := Built.empty
  have b1 := Built.add [] (sT 1 [10] 60 []) b0 ⟨by decide, by simp, by decide⟩ (by decide)
  have b2 := Built.add _ (sT 2 [11, 10] 30 []) b1 ⟨by decide, by decide, by decide⟩ (by decide)
  exact Built.add _ (sT 3 [10] 40 [2]) b2 ⟨by decide, by decide, by decide⟩ (by decide)

example : ((scratchAdd 2 (fun q => if q = (10, 0) then 100 else 1000) [sT 1 [10] 60 [], sT 2 [11, 10] 30 []] (sT 3 [10] 40 [2])).2.map (·.hash)) = [1, 3] := by
  decide

end NeoModel.C07

namespace NeoModel.C07
open NeoModel NeoModel.Fees NeoModel.Admission NeoModel.Pack
open NeoModel.Generated.FeeConsts

/-! ## 10. the filter as the pool runs it after a block (scratch pool of the block instead of the ledger lookup) -/

/-- **stillRelevantAfter_sound.** `RemoveStale` drives the filter with the scratch pool of the block just accepted:
`mempool.HasConflicts` replaces the ledger lookup. For a transaction with any number of signers that was not blocked by
an on-chain record before the block: if that form of the filter keeps it after block `blk` (whose transactions are stored
the way `StoreAsTransaction` stores them), the chain part of `VerifyTx` accepts it on the new state — in particular no
transaction of the block signed by ANY of its signers names it. (`HasConflicts` drops `t` whenever some block transaction
names it, whoever signed that; dropping less — e.g. only when the sender of `t` signed — would break this theorem, see
the example below.) -/
theorem stillRelevantAfter_sound (c0 c : Chain) (blk : List Tx) (t : Tx)
    (h0 : hasTransaction (c0.lookup t.hash) (t.signers.map (·.account)) c0.height c0.mtb = none)
    (hok : recOk c0.height (c0.lookup t.hash))
    (hh : c.height = c0.height + 1) (hm : c.mtb = c0.mtb) (hl : c.lookup = storeBlock c0.lookup c.height blk)
    (h1 : t.sysFee ≤ c.maxBlockSysFee) (h2 : t.scriptOk = true) (h3 : t.size ≤ maxTransactionSize)
    (hstd : ∀ s ∈ t.signers, Wit.isStandard s.wit = true →
      ∃ ver, StdWit c s.wit ver ∧ (calculate c.base ver).1 ≤ c.maxVerGas)
    (h : stillRelevantAfter c blk t = true) : admit c (freePool t) t = none := by
  have hb : blockHasConflicts blk t = false := by
    unfold stillRelevantAfter at h
    split at h; · simp at h
    split at h; · simp at h
    split at h; · simp at h
    rename_i a; simpa using a
  simp only [blockHasConflicts, Bool.or_eq_false_iff] at hb
  have hsame : c.lookup t.hash = c0.lookup t.hash := by
    rw [hl]; exact storeBlock_untouched _ t blk _ hb.1.1 hb.1.2
  have hn : hasTransaction (c.lookup t.hash) (t.signers.map (·.account)) c.height c.mtb = none := by
    rw [hsame, hh, hm]; exact hasTransaction_next _ _ _ _ hok h0
  exact stillRelevant_sound c t h1 h2 h3 hstd (stillRelevant_of_after c blk t hn h)

/-! non-vacuity: `t2` is sent by account 10 and co-signed by account 11. -/

def t2 : Tx :=
  { hash := 40, version := 0, scriptLen := 1, scriptOk := true, sysFee := 100, netFee := 250 * 1000 + 2 * 983520, validUntil := 20,
    size := 250, signers := [⟨10, false, .std true (emitBytes exSig) (sigScript exKey)⟩, ⟨11, false, .std true (emitBytes exSig) (sigScript exKey)⟩],
    attrs := [] }
/-- a block transaction signed by the co-signer (11) only that names `t2`; and an unrelated one. -/
def yCo : Tx := { t2 with hash := 41, signers := [⟨11, false, .std true (emitBytes exSig) (sigScript exKey)⟩], attrs := [.conflicts 40], netFee := 2000000 }
def yOther : Tx := { yCo with hash := 42, attrs := [.conflicts 77] }

def exAfter (blk : List Tx) : Chain := { exChain with height := 11, lookup := storeBlock exChain.lookup 11 blk }

/-- after a block with an unrelated transaction `t2` is kept, and the theorem gives its admissibility. -/
example : stillRelevantAfter (exAfter [yOther]) [yOther] t2 = true ∧ admit (exAfter [yOther]) (freePool t2) t2 = none := by
  have hr : stillRelevantAfter (exAfter [yOther]) [yOther] t2 = true := by decide
  refine ⟨hr, stillRelevantAfter_sound exChain (exAfter [yOther]) [yOther] t2 (by decide) trivial rfl rfl rfl (by decide) rfl (by decide) ?_ hr⟩
  intro s hs _
  have : s.wit = .std true (emitBytes exSig) (sigScript exKey) := by
    simp only [t2, List.mem_cons, List.mem_nil_iff, or_false] at hs
    rcases hs with rfl | rfl <;> rfl
  rw [this]
  exact ⟨sigScript exKey, StdWit.sig exKey exSig (by simp [exKey]) (by simp [exSig]) rfl rfl, by
    show (calculate exChain.base (sigScript exKey)).1 ≤ _
    rw [exCalc]; decide⟩

/-- after a block in which the CO-SIGNER's transaction names `t2` the filter drops `t2`, and rightly so: the ledger
(`dao.HasTransaction` on the records the block left) refuses it, although its sender signed nothing in the block. -/
example : stillRelevantAfter (exAfter [yCo]) [yCo] t2 = false
    ∧ admit (exAfter [yCo]) (freePool t2) t2 = some .hasConflicts
    ∧ (accounts yCo).contains (sender t2) = false := by decide

end NeoModel.C07

namespace NeoModel.C07
open NeoModel NeoModel.Fees NeoModel.Admission NeoModel.Pack NeoModel.Native

/-! ## 11. the price of a native `verify` witness -/

/-- **native_verify_price_table.** In the regenerated native method table `Notary.verify` and `OracleContract.verify` cost
`1 << 15` price units; with the opcode prices of the contract's call stub (PUSH0, SYSCALL, RET; PUSHDATA1 for Notary's
signature) a Notary witness costs 32777 and an Oracle witness 32769 units of the base execution fee — at the default fee
983310 and 983070 datoshi. (`Native.nativeVerifyPrice` is compared with the gas the real VM consumes on every run: `nprice`
lines.) -/
theorem native_verify_price_table :
    verifyCpuFee "Notary" = 32768 ∧ verifyCpuFee "OracleContract" = 32768
    ∧ (∀ base, nativeVerifyPrice base "Notary" true = picoToDatoshi (base * 32777))
    ∧ (∀ base, nativeVerifyPrice base "OracleContract" false = picoToDatoshi (base * 32769))
    ∧ nativeVerifyPrice 300000 "Notary" true = 983310 ∧ nativeVerifyPrice 300000 "OracleContract" false = 983070 := by
  have h1 : verifyCpuFee "Notary" = 32768 := by decide
  have h2 : verifyCpuFee "OracleContract" = 32768 := by decide
  refine ⟨h1, h2, ?_, ?_, by decide, by decide⟩
  · intro base; simp only [nativeVerifyPrice, h1]; rfl
  · intro base; simp only [nativeVerifyPrice, h2]; rfl

/-- with that price the threshold theorem applies to a Notary witness that verifies. -/
example (c : Chain) : PricedWit c (nativeWit (nativeVerifyPrice c.base "Notary" true) true) (nativeVerifyPrice c.base "Notary" true) :=
  Or.inr rfl

end NeoModel.C07

namespace NeoModel.C07
open NeoModel NeoModel.Fees NeoModel.Admission NeoModel.Pack

/-! ## 12. what a stored transaction does to the ones it names -/

/-- **store_then_conflict.** Once `StoreAsTransaction` has stored `y` at `index`, every hash `y` names in a Conflicts
attribute (unless a block is stored under it) is refused by `dao.HasTransaction` for every signer set that shares ANY
account with `y`, as long as `index` is inside the traceability window — whether or not the shared account is the sender
of the transaction asking. -/
theorem store_then_conflict (lookup : Nat → Rec) (y : Tx) (index h : Nat) (signers : List Nat) (a height mtb : Nat)
    (hy : h ≠ y.hash) (hn : h ∈ conflictHashes y) (hb : lookup h ≠ .block)
    (ha : a ∈ signers) (hay : a ∈ accounts y) (ht : isTraceable index height mtb = true) :
    hasTransaction (storeTx lookup y index h) signers height mtb = some .hasConflicts := by
  have hne : signers ≠ [] := by intro e; rw [e] at ha; simp at ha
  have hmem : (a, index) ∈ (accounts y).map (·, index) := List.mem_map.mpr ⟨a, hay, rfl⟩
  have hc : (conflictHashes y).contains h = true := by simpa using hn
  simp only [storeTx, hy, if_false, hc, if_true]
  cases hl : lookup h with
  | block => exact absurd hl hb
  | none => exact (conflict_record_blocks_iff _ _ _ _ _ hne).mpr ⟨ht, a, ha, (a, index), hmem, rfl, ht⟩
  | tx => exact (conflict_record_blocks_iff _ _ _ _ _ hne).mpr ⟨ht, a, ha, (a, index), hmem, rfl, ht⟩
  | stub i recs =>
    exact (conflict_record_blocks_iff _ _ _ _ _ hne).mpr ⟨ht, a, ha, (a, index), by simp [hmem], rfl, ht⟩

-- the co-signer's conflict of section 10, at the level of the store
example : hasTransaction (storeTx (fun _ => .none) yCo 11 40) [10, 11] 11 1000 = some .hasConflicts :=
  store_then_conflict _ yCo 11 40 [10, 11] 11 11 1000 (by decide) (by decide) (by simp) (by simp) (by decide) (by decide)

end NeoModel.C07

namespace NeoModel.C07
open NeoModel NeoModel.Fees NeoModel.Admission NeoModel.Pack

/-- **store_covers_every_conflicts_attribute.** The record writer of the model treats all Conflicts attributes alike: for
EVERY position `i` in the list of hashes an on-chain transaction `y` names — first, second, third, … — a later
transaction whose hash is the `i`-th named hash and that shares any signer with `y` is refused while `y`'s block is inside
the traceability window. (`StoreAsTransaction` has to write the per-signer records under each named hash; seeded change
C07-m7 wrote them for the first attribute only.) -/
theorem store_covers_every_conflicts_attribute (lookup : Nat → Rec) (y : Tx) (index : Nat) (i : Nat) (h : Nat)
    (signers : List Nat) (a height mtb : Nat)
    (hi : (conflictHashes y)[i]? = some h) (hy : h ≠ y.hash) (hb : lookup h ≠ .block)
    (ha : a ∈ signers) (hay : a ∈ accounts y) (ht : isTraceable index height mtb = true) :
    hasTransaction (storeTx lookup y index h) signers height mtb = some .hasConflicts :=
  store_then_conflict lookup y index h signers a height mtb hy (List.mem_of_getElem? hi) hb ha hay ht

/-- a transaction naming three hashes: the one whose hash is the 2nd or the 3rd is refused just like the 1st. -/
def y3 : Tx := { yCo with hash := 50, attrs := [.conflicts 61, .conflicts 62, .conflicts 63] }

example : ∀ h ∈ [61, 62, 63], hasTransaction (storeTx (fun _ => .none) y3 11 h) [10, 11] 11 1000 = some .hasConflicts := by decide

example : hasTransaction (storeTx (fun _ => .none) y3 11 63) [10, 11] 11 1000 = some .hasConflicts :=
  store_covers_every_conflicts_attribute _ y3 11 2 63 [10, 11] 11 11 1000 rfl (by decide) (by simp) (by simp) (by decide) (by decide)

end NeoModel.C07

namespace NeoModel.C07
open NeoModel NeoModel.Fees NeoModel.Admission NeoModel.Pack
open NeoModel.Generated.FeeConsts

/-! ## 13. every pooled transaction is admissible: an invariant of the pool's life, not a hypothesis -/

/-- what an accepted admission says about the state-independent checks and the on-chain lookup. -/
theorem admit_pre (c : Chain) (p : Pool) (t : Tx) (h : admit c p t = none) :
    t.sysFee ≤ c.maxBlockSysFee ∧ t.scriptOk = true ∧ t.size ≤ maxTransactionSize
    ∧ hasTransaction (c.lookup t.hash) (t.signers.map (·.account)) c.height c.mtb = none := by
  unfold admit at h
  split at h; · contradiction
  split at h; · contradiction
  split at h; · contradiction
  split at h; · contradiction
  split at h; · contradiction
  split at h; · contradiction
  rename_i h1 h2 _ _ _ h6
  simp only at h
  split at h; · contradiction
  split at h
  · simp at h
  · rename_i hc
    exact ⟨by omega, by simpa using h2, by omega, hc⟩

/-- a block `blk` takes the chain from `c0` to `c` (one block higher, MaxTraceableBlocks and the configured fee limit
unchanged, the block's transactions stored the way `StoreAsTransaction` stores them; Policy values, blocked accounts,
attribute fees may all have changed), seen from a pool: the records under the pooled hashes carry indices of accepted
blocks, and the standard witnesses of the pooled transactions — ANY script the parsers accept, `StdWit.parsed` — carry
valid signatures (a state-independent fact established when they were admitted). -/
structure BlockStep (c0 c : Chain) (blk pool : List Tx) : Prop where
  height : c.height = c0.height + 1
  mtb : c.mtb = c0.mtb
  cfg : c.maxBlockSysFee = c0.maxBlockSysFee
  stored : c.lookup = storeBlock c0.lookup c.height blk
  recs : ∀ t ∈ pool, recOk c0.height (c0.lookup t.hash)
  std : ∀ t ∈ pool, ∀ s ∈ t.signers, Wit.isStandard s.wit = true →
    ∃ ver, StdWit c s.wit ver ∧ (calculate c.base ver).1 ≤ c.maxVerGas

/-- the life of a node's pool: empty; `PoolTx` accepts a transaction (whatever the pool's view was); anything is removed
(Remove, eviction, expiry); a block arrives and `RemoveStale` keeps what `IsTxStillRelevant` keeps. -/
inductive PoolRun : Chain → List Tx → Prop where
  | start (c : Chain) : PoolRun c []
  | pooled (c : Chain) (pool : List Tx) (t : Tx) (v : Pool) : PoolRun c pool → admit c v t = none → PoolRun c (pool ++ [t])
  | removed (c : Chain) (pool pool' : List Tx) : PoolRun c pool → pool'.Sublist pool → PoolRun c pool'
  | block (c0 c : Chain) (blk pool : List Tx) : PoolRun c0 pool → BlockStep c0 c blk pool →
      PoolRun c (pool.filter (stillRelevantAfter c blk))

/-- **pool_admissible_invariant.** At every moment of that life every pooled transaction passes the chain part of
`VerifyTx` on the current state: the hypothesis "every pooled transaction is admissible" of `packing_valid_partial` holds
for every reachable pool. -/
theorem pool_admissible_invariant {c : Chain} {pool : List Tx} (h : PoolRun c pool) :
    ∀ t ∈ pool, admit c (freePool t) t = none := by
  induction h with
  | start c => intro t ht; simp at ht
  | pooled c pool t v _ hadm ih =>
    intro x hx
    simp only [List.mem_append, List.mem_singleton] at hx
    rcases hx with hx | rfl
    · exact ih x hx
    · have := admit_split c v x
      rw [hadm] at this
      cases hf : admit c (freePool x) x with
      | none => rfl
      | some e => rw [hf] at this; simp at this
  | removed c pool pool' _ hs ih => intro t ht; exact ih t (hs.subset ht)
  | block c0 c blk pool _ hb ih =>
    intro t ht
    obtain ⟨htp, hrel⟩ := List.mem_filter.mp ht
    obtain ⟨h1, h2, h3, h0⟩ := admit_pre c0 _ t (ih t htp)
    exact stillRelevantAfter_sound c0 c blk t h0 (hb.recs t htp) hb.height hb.mtb hb.stored
      (by rw [hb.cfg]; exact h1) h2 h3 (hb.std t htp) hrel

/-- **packing_valid_run.** For a pool that is both reachable in that life and built by accepted additions (consistency),
nothing about the pool remains assumed: what the proposer packs passes the backup's check and the ledger's loop. -/
theorem packing_valid_run (c : Chain) (bal : Nat × Nat → Nat) (cfg : Cfg) (pool : List Tx) (inMain : Nat → Bool)
    (inv ver : Bytes)
    (hs : Sane cfg) (hfee : cfg.maxBlockSysFee = c.maxBlockSysFee)
    (hwit : (encodeWitness inv ver).length = (encodeWitness cfg.inv cfg.ver).length)
    (hb : Built c.notary bal pool) (hr : PoolRun c pool)
    (hne : pick cfg pool ≠ [] ∨ expectedSizeWithoutTx cfg.stateRoot inv ver 0 ≤ cfg.maxBlockSize) :
    pick cfg pool <+: pool
    ∧ verifyBlock c bal inMain cfg.maxBlockSize cfg.stateRoot inv ver (pick cfg pool) = none
    ∧ ledgerLoop c bal inMain 0 [] (pick cfg pool) = none :=
  packing_valid_reachable c bal cfg pool inMain inv ver hs hfee hwit hb (pool_admissible_invariant hr) hne

-- non-vacuity: t2 is pooled on the example chain, a block with an unrelated transaction arrives, t2 is still pooled and admissible
example : ∀ t ∈ [t2].filter (stillRelevantAfter (exAfter [yOther]) [yOther]), admit (exAfter [yOther]) (freePool t) t = none := by
  apply pool_admissible_invariant
  have p0 : PoolRun exChain [] := PoolRun.start _
  have p1 : PoolRun exChain ([] ++ [t2]) := PoolRun.pooled exChain [] t2 (freePool t2) p0 (by decide)
  refine PoolRun.block exChain (exAfter [yOther]) [yOther] [t2] p1 ⟨rfl, rfl, rfl, rfl, ?_, ?_⟩
  · intro t ht; simp only [List.mem_singleton] at ht; subst ht; trivial
  · intro t ht s hs _
    simp only [List.mem_singleton] at ht; subst ht
    have : s.wit = .std true (emitBytes exSig) (sigScript exKey) := by
      simp only [t2, List.mem_cons, List.mem_nil_iff, or_false] at hs
      rcases hs with rfl | rfl <;> rfl
    rw [this]
    exact ⟨sigScript exKey, StdWit.sig exKey exSig (by simp [exKey]) (by simp [exSig]) rfl rfl, by
      show (calculate exChain.base (sigScript exKey)).1 ≤ _
      rw [exCalc]; decide⟩

example : ([t2].filter (stillRelevantAfter (exAfter [yOther]) [yOther])).map (·.hash) = [40] := by decide

end NeoModel.C07

namespace NeoModel.C07
open NeoModel NeoModel.Fees NeoModel.Admission NeoModel.Pack

/-! ## 14. a fee that no longer covers size and attribute fees is never "enough gas" -/

/-- **stillRelevant_false_of_underpaid.** Whatever its witnesses are or do — standard, contract-based, a script that
accepts under any gas limit — a transaction whose network fee is below `size·FeePerByte + attribute fees` on the current
state is dropped by the pool's filter, in both forms (ledger lookup / scratch pool of the block). In the model the
remainder is a natural number and the test comes first, as in the code; a negative remainder never reaches the witnesses
as a gas limit (which the VM would read as "unlimited"). -/
theorem stillRelevant_false_of_underpaid (c : Chain) (blk : List Tx) (t : Tx) (h : t.netFee < need c t) :
    stillRelevant c t = false ∧ stillRelevantAfter c blk t = false := by
  have h' : t.netFee < t.size * c.feePerByte + attrsFee c t.signers.length t.attrs := h
  constructor
  · unfold stillRelevant
    repeat' split
    all_goals (first | rfl | simp_all)
  · unfold stillRelevantAfter
    repeat' split
    all_goals (first | rfl | simp_all)

/-- a transaction with a contract-based witness that verifies under every gas limit, carrying a NotValidBefore
attribute and paying exactly its fees; after the attribute's fee goes up by one the filter drops it. -/
def tFree : Tx :=
  { hash := 70, version := 0, scriptLen := 1, scriptOk := true, sysFee := 100, netFee := 250 * 1000 + 5, validUntil := 20, size := 250,
    signers := [⟨10, false, .contract fun _ => .ok 0⟩], attrs := [.notValidBefore 0] }
def exFee (f : Nat) : Chain := { exChain with attrFee := fun t => if t = Generated.FeeConsts.attrNotValidBefore then f else 0 }

example : stillRelevant (exFee 5) tFree = true ∧ admit (exFee 5) (freePool tFree) tFree = none
    ∧ stillRelevant (exFee 6) tFree = false ∧ admit (exFee 6) (freePool tFree) tFree = some .smallNetFee := by decide

example : stillRelevant (exFee 6) tFree = false :=
  (stillRelevant_false_of_underpaid (exFee 6) [] tFree (by decide)).1

end NeoModel.C07
