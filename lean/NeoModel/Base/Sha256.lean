/-
Base: SHA-256 (FIPS 180-4) over `List UInt8`, executable only.
Used by drivers so that model-side hashes can be compared byte for byte with the
implementation. No theorem depends on its definition: in theorems a hash is a parameter.
-/
import NeoModel.Base.Hex
namespace NeoModel.Sha256

def K : Array UInt32 := #[
  0x428a2f98, 0x71374491, 0xb5c0fbcf, 0xe9b5dba5, 0x3956c25b, 0x59f111f1, 0x923f82a4, 0xab1c5ed5,
  0xd807aa98, 0x12835b01, 0x243185be, 0x550c7dc3, 0x72be5d74, 0x80deb1fe, 0x9bdc06a7, 0xc19bf174,
  0xe49b69c1, 0xefbe4786, 0x0fc19dc6, 0x240ca1cc, 0x2de92c6f, 0x4a7484aa, 0x5cb0a9dc, 0x76f988da,
  0x983e5152, 0xa831c66d, 0xb00327c8, 0xbf597fc7, 0xc6e00bf3, 0xd5a79147, 0x06ca6351, 0x14292967,
  0x27b70a85, 0x2e1b2138, 0x4d2c6dfc, 0x53380d13, 0x650a7354, 0x766a0abb, 0x81c2c92e, 0x92722c85,
  0xa2bfe8a1, 0xa81a664b, 0xc24b8b70, 0xc76c51a3, 0xd192e819, 0xd6990624, 0xf40e3585, 0x106aa070,
  0x19a4c116, 0x1e376c08, 0x2748774c, 0x34b0bcb5, 0x391c0cb3, 0x4ed8aa4a, 0x5b9cca4f, 0x682e6ff3,
  0x748f82ee, 0x78a5636f, 0x84c87814, 0x8cc70208, 0x90befffa, 0xa4506ceb, 0xbef9a3f7, 0xc67178f2]

def H0 : Array UInt32 := #[
  0x6a09e667, 0xbb67ae85, 0x3c6ef372, 0xa54ff53a, 0x510e527f, 0x9b05688c, 0x1f83d9ab, 0x5be0cd19]

@[inline] def rotr (x : UInt32) (n : UInt32) : UInt32 := (x >>> n) ||| (x <<< (32 - n))

def pad (msg : Bytes) : Bytes :=
  let l := msg.length
  let zeros := (55 + 64 - l % 64) % 64   -- so that l + 1 + zeros + 8 ≡ 0 (mod 64)
  let bits := l * 8
  let lenBytes : Bytes := (List.range 8).map fun i => UInt8.ofNat ((bits >>> (8 * (7 - i))) % 256)
  msg ++ [0x80] ++ List.replicate zeros 0 ++ lenBytes

def be32 (a b c d : UInt8) : UInt32 :=
  (a.toUInt32 <<< 24) ||| (b.toUInt32 <<< 16) ||| (c.toUInt32 <<< 8) ||| d.toUInt32

def schedule (block : Array UInt8) : Array UInt32 := Id.run do
  let mut w : Array UInt32 := Array.mkEmpty 64
  for i in [0:16] do
    w := w.push (be32 block[4*i]! block[4*i+1]! block[4*i+2]! block[4*i+3]!)
  for i in [16:64] do
    let w15 := w[i-15]!
    let w2 := w[i-2]!
    let s0 := rotr w15 7 ^^^ rotr w15 18 ^^^ (w15 >>> 3)
    let s1 := rotr w2 17 ^^^ rotr w2 19 ^^^ (w2 >>> 10)
    w := w.push (w[i-16]! + s0 + w[i-7]! + s1)
  return w

def compress (h : Array UInt32) (block : Array UInt8) : Array UInt32 := Id.run do
  let w := schedule block
  let mut a := h[0]!; let mut b := h[1]!; let mut c := h[2]!; let mut d := h[3]!
  let mut e := h[4]!; let mut f := h[5]!; let mut g := h[6]!; let mut hh := h[7]!
  for i in [0:64] do
    let s1 := rotr e 6 ^^^ rotr e 11 ^^^ rotr e 25
    let ch := (e &&& f) ^^^ ((~~~ e) &&& g)
    let t1 := hh + s1 + ch + K[i]! + w[i]!
    let s0 := rotr a 2 ^^^ rotr a 13 ^^^ rotr a 22
    let mj := (a &&& b) ^^^ (a &&& c) ^^^ (b &&& c)
    let t2 := s0 + mj
    hh := g; g := f; f := e; e := d + t1; d := c; c := b; b := a; a := t1 + t2
  return #[h[0]! + a, h[1]! + b, h[2]! + c, h[3]! + d, h[4]! + e, h[5]! + f, h[6]! + g, h[7]! + hh]

def hash (msg : Bytes) : Bytes := Id.run do
  let p := (pad msg).toArray
  let mut h := H0
  for i in [0:p.size / 64] do
    h := compress h (p.extract (64*i) (64*i + 64))
  let mut out : Array UInt8 := Array.mkEmpty 32
  for x in h do
    out := out.push (x >>> 24).toUInt8
    out := out.push (x >>> 16).toUInt8
    out := out.push (x >>> 8).toUInt8
    out := out.push x.toUInt8
  return out.toList

/-- double SHA-256 (`hash.DoubleSha256`). -/
def hash2 (msg : Bytes) : Bytes := hash (hash msg)

end NeoModel.Sha256
