/-
Base: bytes as `List UInt8`, hex parsing/printing for the line protocol.
Core-only (no Mathlib) so that drivers link as native executables.
-/
namespace NeoModel

abbrev Bytes := List UInt8

namespace Hex

def digit (n : Nat) : Char :=
  if n < 10 then Char.ofNat (48 + n) else Char.ofNat (87 + n)

def ofByte (b : UInt8) : String :=
  String.ofList [digit (b.toNat / 16), digit (b.toNat % 16)]

/-- lower-case hex, `-` for the empty string (so that a field is never empty on a line). -/
def encode (bs : Bytes) : String :=
  if bs.isEmpty then "-" else String.join (bs.map ofByte)

def val (c : Char) : Option Nat :=
  if '0' ≤ c ∧ c ≤ '9' then some (c.toNat - 48)
  else if 'a' ≤ c ∧ c ≤ 'f' then some (c.toNat - 87)
  else if 'A' ≤ c ∧ c ≤ 'F' then some (c.toNat - 55)
  else none

def decodeChars : List Char → Option Bytes
  | [] => some []
  | [_] => none
  | a :: b :: rest => do
    let x ← val a
    let y ← val b
    let r ← decodeChars rest
    pure (UInt8.ofNat (x * 16 + y) :: r)

/-- inverse of `encode`: `-` is the empty string. -/
def decode (s : String) : Option Bytes :=
  if s == "-" then some [] else decodeChars s.toList

end Hex

/-- bytes as natural numbers (for models that prefer `List Nat`). -/
def Bytes.toNats (b : Bytes) : List Nat := b.map (·.toNat)
def Bytes.ofNats (l : List Nat) : Bytes := l.map UInt8.ofNat

end NeoModel
