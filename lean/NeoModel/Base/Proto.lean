/-
Base: the line protocol loop shared by all drivers.
A driver is `init : σ` and `step : σ → List String → σ × String` (one output line per input line).
-/
namespace NeoModel.Proto

def words (line : String) : List String :=
  (line.splitOn " ").filter (fun w => !w.isEmpty)

def stripNL (s : String) : String :=
  let cs := s.toList
  let cs := if cs.getLast? == some '\n' then cs.dropLast else cs
  let cs := if cs.getLast? == some '\r' then cs.dropLast else cs
  String.ofList cs

partial def loop {σ : Type} (hIn hOut : IO.FS.Stream) (step : σ → List String → σ × String) (s : σ) : IO Unit := do
  let line ← hIn.getLine
  if line.isEmpty then
    hOut.flush
    return ()
  let (s', out) := step s (words (stripNL line))
  hOut.putStrLn out
  loop hIn hOut step s'

def run {σ : Type} (init : σ) (step : σ → List String → σ × String) : IO Unit := do
  let hIn ← IO.getStdin
  let hOut ← IO.getStdout
  loop hIn hOut step init

end NeoModel.Proto
