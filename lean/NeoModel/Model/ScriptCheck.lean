/-
C12, static script check: instruction decoding with the regenerated operand-size table
(Generated/Opcodes.lean, measured on the real decoder), `isScriptCorrect` as in
pkg/smartcontract/scparser/contract_checks.go:135-200 (instruction boundaries; targets of
JMP*/CALL*/ENDTRY*/PUSHA/TRY* inside the script and on boundaries; type operands of
NEWARRAY_T/ISTYPE/CONVERT), and an abstract control-flow machine of one script context family
(what `ip` can become: next instruction, jump/call/try/endtry/endfinally targets, a saved return
address, a PUSHA pointer used by CALLA, an exception handler).
Core Lean only.
-/
import NeoModel.Base.Hex
import NeoModel.Generated.Opcodes
namespace NeoModel.ScriptCheck

abbrev Prog := List UInt8

/-- (width of the length prefix, fixed operand size) of a valid opcode -/
def opInfo (b : Nat) : Option (Nat × Nat) :=
  match Generated.Opcodes.table.find? (fun e => e.1 == b) with
  | some e => some (e.2.2.1, e.2.2.2.1)
  | none => none

def leNat : List UInt8 → Nat
  | [] => 0
  | b :: r => b.toNat + 256 * leNat r

/-- little-endian two's complement of `n` bytes -/
def leInt (bs : List UInt8) : Int :=
  let u := leNat bs
  if 2 * u ≥ 256 ^ bs.length then (u : Int) - (256 ^ bs.length : Nat) else u

/-- length of the instruction that starts the byte string (scparser.Context.Next, context.go:46-127);
`none` = incorrect opcode / missing or too long operand -/
def instrLen (bs : Prog) : Option Nat :=
  match bs with
  | [] => none
  | b :: tl =>
    match opInfo b.toNat with
    | none => none
    | some (pre, fix) =>
      if pre = 0 then (if fix ≤ tl.length then some (1 + fix) else none)
      else if pre ≤ tl.length then
        let n := leNat (tl.take pre)
        if pre = 4 ∧ n > Generated.Opcodes.maxItemSize then none
        else if pre + n ≤ tl.length then some (1 + pre + n) else none
      else none

/-- linear decoding from `ip`: the offsets at which instructions start; `none` = decoding error -/
def scan (p : Prog) : Nat → Nat → Option (List Nat)
  | 0, ip => if p.length ≤ ip then some [] else none
  | f + 1, ip =>
    if p.length ≤ ip then some []
    else match instrLen (p.drop ip) with
      | none => none
      | some n => (scan p f (ip + n)).map (ip :: ·)

def boundaries (p : Prog) : Option (List Nat) := scan p (p.length + 1) 0

inductive Kind where
  | plain
  | jump (w : Nat)        -- one relative offset of w bytes (JMP*, CALL*, ENDTRY*, PUSHA)
  | try_ (w : Nat)        -- two relative offsets of w bytes
  | typed (anyOk : Bool)  -- a stack item type operand
deriving Repr, DecidableEq

def kindOf (b : Nat) : Kind :=
  if b = 0x0a then .jump 4                                   -- PUSHA
  else if 0x22 ≤ b ∧ b ≤ 0x35 then (if b % 2 = 0 then .jump 1 else .jump 4)   -- JMP … CALL_L
  else if b = 0x3d then .jump 1 else if b = 0x3e then .jump 4  -- ENDTRY, ENDTRY_L
  else if b = 0x3b then .try_ 1 else if b = 0x3c then .try_ 4  -- TRY, TRY_L
  else if b = 0xc4 then .typed true                           -- NEWARRAY_T
  else if b = 0xd9 ∨ b = 0xdb then .typed false               -- ISTYPE, CONVERT
  else .plain

/-- CalcJumpOffset (context.go:155-172): absolute target, must be within [0, len] -/
def target (len ip : Nat) (rel : List UInt8) : Option Nat :=
  let t : Int := (ip : Int) + leInt rel
  if 0 ≤ t ∧ t ≤ (len : Int) then some t.toNat else none

/-- the jump targets the instruction at `ip` mentions (`none` = the static check rejects it) -/
def targetsAt (p : Prog) (ip : Nat) : Option (List Nat) :=
  match p.drop ip with
  | [] => some []
  | b :: tl =>
    match kindOf b.toNat with
    | .plain => some []
    | .jump w => (target p.length ip (tl.take w)).map (fun t => [t])
    | .try_ w =>
      match target p.length ip (tl.take w), target p.length ip ((tl.drop w).take w) with
      | some a, some c => some [a, c]
      | _, _ => none
    | .typed anyOk =>
      match tl.head? with
      | none => none
      | some t =>
        if Generated.Opcodes.itemTypes.any (fun e => e.1 == t.toNat) && (anyOk || t.toNat != 0) then some [] else none

def okTarget (len : Nat) (bs : List Nat) (t : Nat) : Bool := t == len || bs.contains t

/-- scparser.IsScriptCorrect(script, nil) -/
def isScriptCorrect (p : Prog) : Bool :=
  match boundaries p with
  | none => false
  | some bs => bs.all (fun ip => match targetsAt p ip with
      | none => false
      | some ts => ts.all (okTarget p.length bs))

/-! ### what the instruction pointer can do -/

/-- control state of the contexts that run script `p`: current ip, the saved return addresses of
the callers, the PUSHA pointers that exist, the exception-handler offsets that were registered -/
structure CF where
  ip : Nat
  rets : List Nat := []
  ptrs : List Nat := []
  handlers : List Nat := []
deriving Repr

/-- one step of the control-flow relation (data-independent over-approximation of vm.go) -/
inductive Step (p : Prog) : CF → CF → Prop where
  /-- any instruction may fall through to the next one -/
  | next (s : CF) (n : Nat) : s.ip < p.length → instrLen (p.drop s.ip) = some n → Step p s { s with ip := s.ip + n }
  /-- JMP*, ENDTRY*: jump to the mentioned target (Context.Jump panics unless target < len) -/
  | jump (s : CF) (ts : List Nat) (t : Nat) : s.ip < p.length → targetsAt p s.ip = some ts → t ∈ ts → Step p s { s with ip := t }
  /-- CALL, CALL_L: the next instruction is saved as the return address -/
  | call (s : CF) (n : Nat) (ts : List Nat) (t : Nat) : s.ip < p.length → instrLen (p.drop s.ip) = some n →
      targetsAt p s.ip = some ts → t ∈ ts → Step p s { s with ip := t, rets := (s.ip + n) :: s.rets }
  /-- PUSHA creates a pointer -/
  | pusha (s : CF) (n : Nat) (ts : List Nat) (t : Nat) : s.ip < p.length → instrLen (p.drop s.ip) = some n →
      targetsAt p s.ip = some ts → t ∈ ts → Step p s { s with ip := s.ip + n, ptrs := t :: s.ptrs }
  /-- CALLA: calls any pointer of this script -/
  | calla (s : CF) (n : Nat) (t : Nat) : s.ip < p.length → instrLen (p.drop s.ip) = some n → t ∈ s.ptrs →
      Step p s { s with ip := t, rets := (s.ip + n) :: s.rets }
  /-- TRY*, ENDTRY*: catch / finally / end offsets are registered -/
  | register (s : CF) (n : Nat) (ts : List Nat) : s.ip < p.length → instrLen (p.drop s.ip) = some n →
      targetsAt p s.ip = some ts → Step p s { s with ip := s.ip + n, handlers := ts ++ s.handlers }
  /-- exception handling, ENDTRY into FINALLY, ENDFINALLY: `k` contexts are left, control continues at a registered offset -/
  | handle (s : CF) (k : Nat) (t : Nat) : t ∈ s.handlers → Step p s { s with ip := t, rets := s.rets.drop k }
  /-- RET (explicit, or implicit at the end of the script) -/
  | ret (s : CF) (r : Nat) (rest : List Nat) : s.rets = r :: rest → Step p s { s with ip := r, rets := rest }

inductive Reach (p : Prog) : CF → Prop where
  | start : Reach p { ip := 0 }
  | step {s s' : CF} : Reach p s → Step p s s' → Reach p s'

end NeoModel.ScriptCheck
