import NeoModel.Model.Wire.P256
import NeoModel.Model.Wire.Item
import NeoModel.Model.Wire.Mpt
import NeoModel.Model.Wire.Nef
import NeoModel.Model.Wire.Exec
import NeoModel.Model.Wire.Cons
import NeoModel.Model.Wire.P2P
/-
Token text of model values (the Go harness prints the same text from the real values, show.go) and the
parser of the same text (value -> bytes direction of the tie). Driver-side code: not used by any theorem.
-/
namespace NeoModel.Wire
namespace Text

abbrev Toks := List String

def hx (b : Bytes) : String := Hex.encode b
def num (n : Nat) : String := toString n

def showWitness (w : Witness) : Toks := [hx w.inv, hx w.ver]

partial def showCond : Cond → Toks
  | .bool b => [if b then "b1" else "b0"]
  | .not c => "not" :: showCond c
  | .and l => "and" :: num l.length :: (l.map showCond).flatten
  | .or l => "or" :: num l.length :: (l.map showCond).flatten
  | .scriptHash h => ["sh", hx h]
  | .group k => ["grp", hx k]
  | .calledByEntry => ["cbe"]
  | .calledByContract h => ["cbc", hx h]
  | .calledByGroup k => ["cbg", hx k]

def showRule (r : Rule) : Toks := num r.action.toNat :: showCond r.cond

def showSigner (s : Signer) : Toks :=
  [hx s.account, num s.scopes.toNat, num s.contracts.length] ++ s.contracts.map hx
    ++ [num s.groups.length] ++ s.groups.map hx
    ++ [num s.rules.length] ++ (s.rules.map showRule).flatten

def showAttr (a : Attr) : Toks :=
  num a.typ.toNat :: (match a.val with
    | .none => []
    | .oracle i c r => [num i, num c.toNat, hx r]
    | .notValidBefore h => [num h]
    | .conflicts h => [hx h]
    | .notaryAssisted n => [num n.toNat]
    | .reserved v => [hx v])

def showTx (t : Tx) : Toks :=
  [num t.body.version.toNat, num t.body.nonce, num t.body.sysFee, num t.body.netFee, num t.body.vub,
    num t.body.signers.length] ++ (t.body.signers.map showSigner).flatten
    ++ [num t.body.attrs.length] ++ (t.body.attrs.map showAttr).flatten
    ++ [hx t.body.script, num t.witnesses.length] ++ (t.witnesses.map showWitness).flatten

def showHeader (sr : Bool) (h : Header) : Toks :=
  [num h.version, hx h.prevHash, hx h.merkleRoot, num h.timestamp, num h.nonce, num h.index, num h.primary.toNat,
    hx h.nextConsensus] ++ (if sr then [hx h.prevStateRoot] else []) ++ showWitness h.witness

def showBlock (sr : Bool) (b : Block) : Toks :=
  showHeader sr b.header ++ [num b.txs.length] ++ (b.txs.map showTx).flatten

def showStateRoot (s : StateRoot) : Toks :=
  [num s.version.toNat, num s.index, hx s.root, num s.witnesses.length] ++ (s.witnesses.map showWitness).flatten

def showExtensible (e : Extensible) : Toks :=
  [hx e.category, num e.validStart, num e.validEnd, hx e.sender, hx e.data] ++ showWitness e.witness

/-! parsing: `P α = tokens → Option (α × rest)` -/

abbrev P (α : Type) := Toks → Option (α × Toks)

def pNum : P Nat
  | t :: r => t.toNat?.map (·, r)
  | [] => none

def pByte : P UInt8 := fun ts => (pNum ts).bind fun (n, r) => if n < 256 then some (UInt8.ofNat n, r) else none

def pHex : P Bytes
  | t :: r => (Hex.decode t).map (·, r)
  | [] => none

def pList (p : P α) : Nat → P (List α)
  | 0, ts => some ([], ts)
  | n+1, ts => (p ts).bind fun (a, r) => (pList p n r).map fun (as, r') => (a :: as, r')

def pCounted (p : P α) : P (List α) := fun ts => (pNum ts).bind fun (n, r) => pList p n r

def pWitness : P Witness := fun ts =>
  (pHex ts).bind fun (i, r) => (pHex r).map fun (v, r') => (⟨i, v⟩, r')

partial def pCond : P Cond
  | "b0" :: r => some (.bool false, r)
  | "b1" :: r => some (.bool true, r)
  | "not" :: r => (pCond r).map fun (c, r') => (.not c, r')
  | "and" :: r => (pCounted pCond r).map fun (l, r') => (.and l, r')
  | "or" :: r => (pCounted pCond r).map fun (l, r') => (.or l, r')
  | "sh" :: r => (pHex r).map fun (h, r') => (.scriptHash h, r')
  | "grp" :: r => (pHex r).map fun (h, r') => (.group h, r')
  | "cbe" :: r => some (.calledByEntry, r)
  | "cbc" :: r => (pHex r).map fun (h, r') => (.calledByContract h, r')
  | "cbg" :: r => (pHex r).map fun (h, r') => (.calledByGroup h, r')
  | _ => none

def pRule : P Rule := fun ts =>
  (pByte ts).bind fun (a, r) => (pCond r).map fun (c, r') => (⟨a, c⟩, r')

def pSigner : P Signer := fun ts =>
  (pHex ts).bind fun (acc, r) => (pByte r).bind fun (sc, r) => (pCounted pHex r).bind fun (cs, r) =>
    (pCounted pHex r).bind fun (gs, r) => (pCounted pRule r).map fun (rs, r) => (⟨acc, sc, cs, gs, rs⟩, r)

def pAttr : P Attr := fun ts =>
  (pByte ts).bind fun (t, r) =>
    if t = UInt8.ofNat NeoModel.Generated.WireLimits.attrHighPriority then some (⟨t, .none⟩, r)
    else if t = UInt8.ofNat NeoModel.Generated.WireLimits.attrOracleResponse then
      (pNum r).bind fun (i, r) => (pByte r).bind fun (c, r) => (pHex r).map fun (x, r) => (⟨t, .oracle i c x⟩, r)
    else if t = UInt8.ofNat NeoModel.Generated.WireLimits.attrNotValidBefore then
      (pNum r).map fun (h, r) => (⟨t, .notValidBefore h⟩, r)
    else if t = UInt8.ofNat NeoModel.Generated.WireLimits.attrConflicts then
      (pHex r).map fun (h, r) => (⟨t, .conflicts h⟩, r)
    else if t = UInt8.ofNat NeoModel.Generated.WireLimits.attrNotaryAssisted then
      (pByte r).map fun (n, r) => (⟨t, .notaryAssisted n⟩, r)
    else (pHex r).map fun (v, r) => (⟨t, .reserved v⟩, r)

def pTx : P Tx := fun ts =>
  (pByte ts).bind fun (ver, r) => (pNum r).bind fun (nonce, r) => (pNum r).bind fun (sf, r) =>
  (pNum r).bind fun (nf, r) => (pNum r).bind fun (vub, r) => (pCounted pSigner r).bind fun (ss, r) =>
  (pCounted pAttr r).bind fun (as, r) => (pHex r).bind fun (scr, r) => (pCounted pWitness r).map fun (ws, r) =>
    (⟨⟨ver, nonce, sf, nf, vub, ss, as, scr⟩, ws⟩, r)

def pHeader (sr : Bool) : P Header := fun ts =>
  (pNum ts).bind fun (ver, r) => (pHex r).bind fun (prev, r) => (pHex r).bind fun (mr, r) =>
  (pNum r).bind fun (tsm, r) => (pNum r).bind fun (nonce, r) => (pNum r).bind fun (idx, r) =>
  (pByte r).bind fun (pri, r) => (pHex r).bind fun (nc, r) =>
  ((if sr then pHex r else some ([], r))).bind fun (psr, r) => (pWitness r).map fun (w, r) =>
    (⟨ver, prev, mr, tsm, nonce, idx, pri, nc, psr, w⟩, r)

def pBlock (sr : Bool) : P Block := fun ts =>
  (pHeader sr ts).bind fun (h, r) => (pCounted pTx r).map fun (txs, r) => (⟨h, txs⟩, r)

def pStateRoot : P StateRoot := fun ts =>
  (pByte ts).bind fun (v, r) => (pNum r).bind fun (i, r) => (pHex r).bind fun (root, r) =>
    (pCounted pWitness r).map fun (ws, r) => (⟨v, i, root, ws⟩, r)

def pExtensible : P Extensible := fun ts =>
  (pHex ts).bind fun (c, r) => (pNum r).bind fun (s, r) => (pNum r).bind fun (e, r) => (pHex r).bind fun (snd, r) =>
    (pHex r).bind fun (d, r) => (pWitness r).map fun (w, r) => (⟨c, s, e, snd, d, w⟩, r)

/-! stack items -/

mutual
def showItem : Item → Toks
  | .byteArray b => ["ba", hx b]
  | .buffer b => ["buf", hx b]
  | .bool b => [if b then "bool1" else "bool0"]
  | .int c => ["int", toString (Item.intFromLE c)]
  | .array l => "arr" :: num l.length :: showItems l
  | .struct l => "struct" :: num l.length :: showItems l
  | .map m => "map" :: num m.length :: showPairs m
  | .null => ["null"]
  | .interop => ["interop"]
  | .pointer p => ["ptr", num p]
  | .invalid => ["invalid"]
def showItems : List Item → Toks
  | [] => []
  | x :: xs => showItem x ++ showItems xs
def showPairs : List (Item × Item) → Toks
  | [] => []
  | (k, v) :: rest => showItem k ++ showItem v ++ showPairs rest
end

partial def pItem : P Item
  | "ba" :: r => (pHex r).map fun (b, r') => (.byteArray b, r')
  | "buf" :: r => (pHex r).map fun (b, r') => (.buffer b, r')
  | "bool0" :: r => some (.bool false, r)
  | "bool1" :: r => some (.bool true, r)
  | "int" :: t :: r => t.toInt?.map fun v => (.int (Item.intToLE v), r)
  | "arr" :: r => (pCounted pItem r).map fun (l, r') => (.array l, r')
  | "struct" :: r => (pCounted pItem r).map fun (l, r') => (.struct l, r')
  | "map" :: r => (pCounted (fun ts => (pItem ts).bind fun (k, r1) => (pItem r1).map fun (v, r2) => ((k, v), r2)) r).map
      fun (m, r') => (.map m, r')
  | "null" :: r => some (.null, r)
  | "interop" :: r => some (.interop, r)
  | "ptr" :: r => (pNum r).map fun (p, r') => (.pointer p, r')
  | "invalid" :: r => some (.invalid, r)
  | _ => none

/-! MPT nodes -/

mutual
def showNode : Node → Toks
  | .branch cs => "br" :: showNodes cs
  | .ext k n => "ext" :: hx k :: showNode n
  | .leaf v => ["leaf", hx v]
  | .hash h => ["hash", hx h]
  | .empty => ["empty"]
def showNodes : List Node → Toks
  | [] => []
  | c :: cs => showNode c ++ showNodes cs
end

partial def pNode : P Node
  | "br" :: r => (pList pNode NeoModel.Generated.WireLimits.mptChildrenCount r).map fun (cs, r') => (.branch cs, r')
  | "ext" :: r => (pHex r).bind fun (k, r1) => (pNode r1).map fun (n, r2) => (.ext k n, r2)
  | "leaf" :: r => (pHex r).map fun (v, r') => (.leaf v, r')
  | "hash" :: r => (pHex r).map fun (h, r') => (.hash h, r')
  | "empty" :: r => some (.empty, r)
  | _ => none

/-! NEF -/

def showToken (t : MethodToken) : Toks :=
  [hx t.hash, hx t.method, num t.paramCount, if t.hasReturn then "1" else "0", num t.callFlag.toNat]

def showNef (n : Nef) : Toks :=
  [hx n.body.compiler, hx n.body.source, num n.body.tokens.length] ++ (n.body.tokens.map showToken).flatten
    ++ [hx n.body.script, num n.checksum]

def pToken : P MethodToken := fun ts =>
  (pHex ts).bind fun (h, r) => (pHex r).bind fun (m, r) => (pNum r).bind fun (pc, r) => (pNum r).bind fun (hr, r) =>
    (pByte r).map fun (cf, r) => (⟨h, m, pc, hr != 0, cf⟩, r)

def pNef : P Nef := fun ts =>
  (pHex ts).bind fun (c, r) => (pHex r).bind fun (s, r) => (pCounted pToken r).bind fun (tk, r) =>
    (pHex r).bind fun (scr, r) => (pNum r).map fun (cs, r) => (⟨⟨c, s, tk, scr⟩, cs⟩, r)

/-! execution results -/

def showNotification (n : Notification) : Toks := [hx n.scriptHash, hx n.name] ++ showItem (.array n.state)

def showAer (a : ExecResult) : Toks :=
  [hx a.container, num a.trigger.toNat, num a.vmState, num a.gas, num a.stack.length] ++ showItems a.stack
    ++ [num a.events.length] ++ (a.events.map showNotification).flatten
    ++ [hx a.fault, num a.invocations.length] ++ a.invocations.map (fun i => hx (invocationC.enc i))

def pNotification : P Notification := fun ts =>
  (pHex ts).bind fun (h, r) => (pHex r).bind fun (n, r) => (pItem r).bind fun (it, r) =>
    match it with
    | .array l => some (⟨h, n, l⟩, r)
    | _ => none

def pInvocation : P Invocation := fun ts =>
  (pHex ts).bind fun (b, r) =>
    match invocationC.dec b with
    | some (i, []) => some (i, r)
    | _ => none

def pAer : P ExecResult := fun ts =>
  (pHex ts).bind fun (c, r) => (pByte r).bind fun (t, r) => (pNum r).bind fun (st, r) => (pNum r).bind fun (g, r) =>
  (pCounted pItem r).bind fun (stack, r) => (pCounted pNotification r).bind fun (ev, r) => (pHex r).bind fun (f, r) =>
  (pCounted pInvocation r).map fun (inv, r) => (⟨c, t, st, g, stack, ev, f, inv⟩, r)

/-! dBFT messages -/

def showHashes (l : List Bytes) : Toks := num l.length :: l.map hx

def showPrepReq (sr : Bool) (p : PrepareRequest) : Toks :=
  [num p.version, hx p.prevHash, num p.timestamp, num p.nonce] ++ showHashes p.txHashes
    ++ (if sr then [hx p.stateRoot] else [])

def showMsgHeader (h : MsgHeader) : Toks := [num h.typ.toNat, num h.blockIndex, num h.validator.toNat, num h.view.toNat]

def showRecovery (sr : Bool) (r : Recovery) : Toks :=
  [num r.changeViews.length] ++ (r.changeViews.map fun c => [num c.validator.toNat, num c.origView.toNat, num c.timestamp, hx c.inv]).flatten
    ++ (match r.prep with
      | .request h p => "req" :: (showMsgHeader h ++ showPrepReq sr p)
      | .hash h => ["hash", hx h]
      | .none => ["none"])
    ++ [num r.preparations.length] ++ (r.preparations.map fun c => [num c.validator.toNat, hx c.inv]).flatten
    ++ [num r.commits.length] ++ (r.commits.map fun c => [num c.view.toNat, num c.validator.toNat, hx c.signature, hx c.inv]).flatten

def showConsMsg (sr : Bool) (m : ConsMsg) : Toks :=
  showMsgHeader m.header ++ (match m.body with
    | .changeView c => [num c.timestamp, num c.reason.toNat] ++ showHashes c.rejected
    | .prepareRequest p => showPrepReq sr p
    | .prepareResponse h => [hx h]
    | .commit s => [hx s]
    | .recoveryRequest t => [num t]
    | .recoveryMessage r => showRecovery sr r)

/-! P2P payloads -/

def showCap (c : Capability) : Toks :=
  num c.typ.toNat :: (match c.data with
    | .server p => [num p]
    | .node h => [num h]
    | .flag => []
    | .unknown d => [hx d])

def showCaps (l : List Capability) : Toks := num l.length :: (l.map showCap).flatten

def showVersion (v : Version) : Toks :=
  [num v.magic, num v.version, num v.timestamp, num v.nonce, hx v.userAgent] ++ showCaps v.caps

def showAddrs (l : List AddressAndTime) : Toks :=
  num l.length :: (l.map fun a => [num a.timestamp, hx a.ip] ++ showCaps a.caps).flatten

def showHashList (l : List Bytes) : Toks := num l.length :: l.map hx

def showInventory (i : Inventory) : Toks := num i.typ.toNat :: showHashList i.hashes
def showGetBlocks (g : GetBlocks) : Toks := [hx g.hashStart, num g.count]
def showGetBlockByIndex (g : GetBlockByIndex) : Toks := [num g.indexStart, num g.count]
def showHeaders (sr : Bool) (l : List Header) : Toks := num l.length :: (l.map (showHeader sr)).flatten
def showMerkleBlock (m : MerkleBlock) : Toks :=
  showHeader false m.header ++ [num m.hashes.length] ++ showHashList m.hashes ++ [hx m.flags]
def showPing (p : Ping) : Toks := [num p.lastBlock, num p.timestamp, num p.nonce]
def showNotary (r : NotaryRequest) : Toks := showTx r.main ++ showTx r.fallback ++ showWitness r.witness

def showPayload (sr : Bool) : P2PPayload → Toks
  | .null => []
  | .version v => showVersion v
  | .addr l => showAddrs l
  | .ping p => showPing p
  | .getBlockByIndex g => showGetBlockByIndex g
  | .headers l => showHeaders sr l
  | .getBlocks g => showGetBlocks g
  | .inventory i => showInventory i
  | .tx t => showTx t
  | .block b => showBlock sr b
  | .extensible e => showExtensible e
  | .notary r => showNotary r
  | .mptInventory l => showHashList l
  | .mptData l => showHashList l
  | .merkleBlock m => showMerkleBlock m

end Text
end NeoModel.Wire
