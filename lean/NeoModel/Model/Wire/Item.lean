import NeoModel.Model.Wire.Codec
import NeoModel.Generated.WireLimits
/-
C17 — model of stack item (de)serialisation (pkg/vm/stackitem/serialization.go), as written after the fix
commits 24c2bbf / 8551e12: the decoder threads ONE counter (`limit`, MaxDeserialized = 2048 items) through the
whole item, compares every array/map size with what is left of it before allocating, bounds byte strings by
MaxSize and integers by 32 bytes; map keys must be primitive and at most MaxKeySize bytes; a repeated key
replaces the earlier value. The serialiser counts every item of the tree unfolding against MaxSerialized and
the output against MaxSize. Core Lean only.
-/
namespace NeoModel.Wire
open NeoModel.Generated

inductive Item where
  | byteArray (b : Bytes)
  | buffer (b : Bytes)
  | bool (b : Bool)
  | int (c : Bytes)         -- the integer as its canonical (minimal two's complement, little-endian) bytes
  | array (l : List Item)
  | struct (l : List Item)
  | map (l : List (Item × Item))
  | null
  | interop                -- protected form only
  | pointer (pos : Nat)    -- protected form only
  | invalid                -- protected form only (a nil item)

namespace Item

/-- drop redundant sign bytes of a negative number, most significant byte first: `ff x …` with x ≥ 0x80. -/
def stripNeg : Bytes → Bytes
  | a :: x :: t => if a = 0xff ∧ x.toNat ≥ 0x80 then stripNeg (x :: t) else a :: x :: t
  | l => l

/-- drop redundant zero bytes of a non-negative number, most significant byte first; zero is the empty string. -/
def stripPos : Bytes → Bytes
  | a :: x :: t => if a = 0 ∧ x.toNat < 0x80 then stripPos (x :: t) else a :: x :: t
  | [a] => if a = 0 then [] else [a]
  | [] => []

/-- drop the redundant sign bytes of a number given most significant byte first. -/
def stripSign : Bytes → Bytes
  | [] => []
  | top :: rest => if top.toNat ≥ 0x80 then stripNeg (top :: rest) else stripPos (top :: rest)

/-- `bigint.ToBytes (bigint.FromBytes d)` as a function on bytes (encoding/bigint/bigint.go:21-150): the minimal
little-endian two's complement form of the number `d` denotes; zero is the empty string. -/
def canonInt (d : Bytes) : Bytes := (stripSign d.reverse).reverse

/-- the number little-endian two's complement bytes denote (for printing; bigint.FromBytes). -/
def intFromLE (data : Bytes) : Int :=
  match data.getLast? with
  | none => 0
  | some top =>
    if top.toNat ≥ 0x80 then (leVal data : Int) - (256 ^ data.length : Nat) else (leVal data : Int)

/-- little-endian two's complement of `n` in 33 bytes, canonicalised (for parsing the text form; bigint.ToBytes). -/
def intToLE (n : Int) : Bytes :=
  canonInt (leBytes 33 (n % ((256 ^ 33 : Nat) : Int)).toNat)

/-- the identity of a map key: type and canonical bytes (stackitem.hashCode). Only valid keys have one
(IsValidMapKey: Boolean, Integer, ByteString of at most MaxKeySize bytes). -/
def keyCode : Item → Option (Nat × Bytes)
  | .bool b => some (WireLimits.itemBooleanT, [if b then 1 else 0])
  | .int c => some (WireLimits.itemIntegerT, c)
  | .byteArray b => if b.length > WireLimits.stackMaxKeySize then none else some (WireLimits.itemByteArrayT, b)
  | _ => none

/-- Map.Add: replace the value of an equal key, else append. -/
def mapAdd (m : List (Item × Item)) (k v : Item) : List (Item × Item) :=
  match m with
  | [] => [(k, v)]
  | (k', v') :: rest => if keyCode k' = keyCode k then (k', v) :: rest else (k', v') :: mapAdd rest k v

/-- the state threaded through the decoder: what is left of the item counter. -/
abbrev DecRes (α : Type) := Option (α × Bytes × Nat)

/-- `n` items in sequence with decoder `f`. -/
def decListWith (f : Nat → Bytes → DecRes Item) : Nat → Nat → Bytes → DecRes (List Item)
  | 0, lim, b => some ([], b, lim)
  | n+1, lim, b =>
    match f lim b with
    | none => none
    | some (x, r, lim') =>
      match decListWith f n lim' r with
      | none => none
      | some (xs, r', lim'') => some (x :: xs, r', lim'')

/-- `n` key/value pairs, added to the map one by one; an invalid key is an error. -/
def decPairsWith (f : Nat → Bytes → DecRes Item) : Nat → List (Item × Item) → Nat → Bytes → DecRes (List (Item × Item))
  | 0, m, lim, b => some (m, b, lim)
  | n+1, m, lim, b =>
    match f lim b with
    | none => none
    | some (k, r, lim') =>
      match f lim' r with
      | none => none
      | some (v, r', lim'') =>
        match keyCode k with
        | none => none
        | some _ => decPairsWith f n (mapAdd m k v) lim'' r'

/-- `deserContext.decodeBinary` (serialization.go:285-372). `fuel` bounds the nesting (every level costs one
item of `lim`, so `fuel = lim` is never the reason of a failure); `prot` = allowInvalid. -/
def decItem (prot : Bool) : Nat → Nat → Bytes → DecRes Item
  | 0, _, _ => none
  | fuel+1, lim, b =>
    match b with
    | [] => none
    | t :: r =>
      if lim = 0 then none else
      let lim := lim - 1
      if t.toNat = WireLimits.itemByteArrayT ∨ t.toNat = WireLimits.itemBufferT then
        match readVarBytes WireLimits.stackMaxSize r with
        | none => none
        | some (d, r') => some (if t.toNat = WireLimits.itemByteArrayT then .byteArray d else .buffer d, r', lim)
      else if t.toNat = WireLimits.itemBooleanT then
        match r with
        | [] => none
        | x :: r' => some (.bool (x != 0), r', lim)
      else if t.toNat = WireLimits.itemIntegerT then
        match readVarBytes WireLimits.bigintMaxBytesLen r with
        | none => none
        | some (d, r') => some (.int (canonInt d), r', lim)
      else if t.toNat = WireLimits.itemArrayT ∨ t.toNat = WireLimits.itemStructT then
        match readVarUint r with
        | none => none
        | some (n, r') =>
          if n ≥ 2 ^ 63 ∨ n > lim then none else
          match decListWith (decItem prot fuel) n lim r' with
          | none => none
          | some (xs, r'', lim') => some (if t.toNat = WireLimits.itemArrayT then .array xs else .struct xs, r'', lim')
      else if t.toNat = WireLimits.itemMapT then
        match readVarUint r with
        | none => none
        | some (n, r') =>
          if n ≥ 2 ^ 63 ∨ n > lim / 2 then none else
          match decPairsWith (decItem prot fuel) n [] lim r' with
          | none => none
          | some (m, r'', lim') => some (.map m, r'', lim')
      else if t.toNat = WireLimits.itemAnyT then some (.null, r, lim)
      else if prot ∧ t.toNat = WireLimits.itemInteropT then some (.interop, r, lim)
      else if prot ∧ (t.toNat = WireLimits.itemInteropT ∨ t.toNat = WireLimits.itemPointerT) then
        match readVarUint r with
        | none => none
        | some (p, r') => some (.pointer p, r', lim)
      else if prot ∧ t.toNat = WireLimits.itemInvalidT then some (.invalid, r, lim)
      else none

/-- stackitem.DecodeBinary / DecodeBinaryProtected: one item, counter = MaxDeserialized. -/
def decode (prot : Bool) (b : Bytes) : Option (Item × Bytes) :=
  (decItem prot (WireLimits.stackMaxDeserialized + 1) WireLimits.stackMaxDeserialized b).map fun (v, r, _) => (v, r)

/-! serialisation -/

mutual
/-- the tree serialisation (no limits). Interop/pointer/invalid are written the way the protected form does. -/
def enc : Item → Bytes
  | .byteArray b => UInt8.ofNat WireLimits.itemByteArrayT :: (putVarUint b.length ++ b)
  | .buffer b => UInt8.ofNat WireLimits.itemBufferT :: (putVarUint b.length ++ b)
  | .bool b => [UInt8.ofNat WireLimits.itemBooleanT, if b then 1 else 0]
  | .int c => UInt8.ofNat WireLimits.itemIntegerT :: (UInt8.ofNat c.length :: c)
  | .array l => UInt8.ofNat WireLimits.itemArrayT :: (putVarUint l.length ++ encList l)
  | .struct l => UInt8.ofNat WireLimits.itemStructT :: (putVarUint l.length ++ encList l)
  | .map m => UInt8.ofNat WireLimits.itemMapT :: (putVarUint m.length ++ encPairs m)
  | .null => [UInt8.ofNat WireLimits.itemAnyT]
  | .interop => [UInt8.ofNat WireLimits.itemInteropT]
  | .pointer p => UInt8.ofNat WireLimits.itemPointerT :: putVarUint p
  | .invalid => [UInt8.ofNat WireLimits.itemInvalidT]
def encList : List Item → Bytes
  | [] => []
  | x :: xs => enc x ++ encList xs
def encPairs : List (Item × Item) → Bytes
  | [] => []
  | (k, v) :: rest => enc k ++ enc v ++ encPairs rest
end

mutual
/-- number of items of the tree (every reference is a copy in the model). -/
def count : Item → Nat
  | .array l => 1 + countList l
  | .struct l => 1 + countList l
  | .map m => 1 + countPairs m
  | _ => 1
def countList : List Item → Nat
  | [] => 0
  | x :: xs => count x + countList xs
def countPairs : List (Item × Item) → Nat
  | [] => 0
  | (k, v) :: rest => count k + count v + countPairs rest
end

mutual
/-- items only the protected form can carry. -/
def hasInvalid : Item → Bool
  | .interop => true
  | .pointer _ => true
  | .invalid => true
  | .array l => hasInvalidList l
  | .struct l => hasInvalidList l
  | .map m => hasInvalidPairs m
  | _ => false
def hasInvalidList : List Item → Bool
  | [] => false
  | x :: xs => hasInvalid x || hasInvalidList xs
def hasInvalidPairs : List (Item × Item) → Bool
  | [] => false
  | (k, v) :: rest => hasInvalid k || hasInvalid v || hasInvalidPairs rest
end

/-- `SerializationContext.serialize` on a tree (serialization.go:136-236): fails when the tree has more than
MaxSerialized items, when the output exceeds MaxSize, or (unprotected) on interop/pointer/nil. -/
def serialize (prot : Bool) (v : Item) : Option Bytes :=
  if count v > WireLimits.stackMaxSerialized then none
  else if !prot && hasInvalid v then none
  else if (enc v).length > WireLimits.stackMaxSize then none
  else some (enc v)

/-- EncodeBinaryProtected: a failed serialisation is written as one InvalidT byte. -/
def serializeProtected (v : Item) : Bytes :=
  match serialize true v with
  | some b => b
  | none => [UInt8.ofNat WireLimits.itemInvalidT]

/-- valid, pairwise different map keys (w.r.t. the keys already seen). -/
def keysOkB (seen : List (Nat × Bytes)) : List (Item × Item) → Bool
  | [] => true
  | (k, _) :: rest =>
    match keyCode k with
    | none => false
    | some c => !seen.contains c && keysOkB (c :: seen) rest

mutual
/-- the items the decoder can produce (= the items that round-trip); `prot` = the protected form, which also
carries interop / pointer / nil items. -/
def wfB (prot : Bool) : Item → Bool
  | .byteArray b => decide (b.length ≤ WireLimits.stackMaxSize)
  | .buffer b => decide (b.length ≤ WireLimits.stackMaxSize)
  | .bool _ => true
  | .int c => decide (canonInt c = c) && decide (c.length ≤ WireLimits.bigintMaxBytesLen)
  | .array l => wfListB prot l
  | .struct l => wfListB prot l
  | .map m => wfPairsB prot m && keysOkB [] m
  | .null => true
  | .interop => prot
  | .pointer p => prot && decide (p < 2 ^ 64)
  | .invalid => prot
def wfListB (prot : Bool) : List Item → Bool
  | [] => true
  | x :: xs => wfB prot x && wfListB prot xs
def wfPairsB (prot : Bool) : List (Item × Item) → Bool
  | [] => true
  | (k, v) :: rest => wfB prot k && wfB prot v && wfPairsB prot rest
end
end Item
end NeoModel.Wire
