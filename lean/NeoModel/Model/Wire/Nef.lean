/-
C17 — model of the NEF file format (pkg/smartcontract/nef/nef.go, method_token.go), written with the codec
combinators. The checksum is a parameter `H` (double SHA-256 in the driver). Core Lean only.
-/
import NeoModel.Model.Wire.Tx
namespace NeoModel.Wire
open Codec
open NeoModel.Generated

/-! ### NEF file (pkg/smartcontract/nef) -/

/-- drop trailing zero bytes (`bytes.TrimRightFunc(buf, r == 0)`). -/
def trimZeros (b : Bytes) : Bytes := (b.reverse.dropWhile (· == 0)).reverse

/-- pad with zero bytes up to `n` (`copy` into a zeroed buffer). -/
def padZeros (n : Nat) (b : Bytes) : Bytes := b ++ List.replicate (n - b.length) 0

/-- the fixed-width, zero-padded compiler field of the NEF header (nef.go:74-98). -/
def paddedC (n : Nat) : Codec Bytes where
  enc v := padZeros n v
  dec b := (takeN n b).map fun (x, r) => (trimZeros x, r)
  size _ := n
  wf v := v.length ≤ n ∧ trimZeros v = v
  alloc _ := 0
  allocK := 0
  allocC := 0

structure MethodToken where
  hash : Bytes
  method : Bytes
  paramCount : Nat
  hasReturn : Bool
  callFlag : UInt8

/-- nef.MethodToken (method_token.go:38-63) -/
def methodTokenC : Codec MethodToken :=
  map (seq (fixed 20) (seq (refine (varBytes WireLimits.nefMaxMethodLength) (fun m => m.head? != some 0x5f))
      (seq (uintLE 2) (seq boolC (refine byte (fun f => f &&& ~~~(UInt8.ofNat WireLimits.callFlagAll) == 0))))))
    (fun q => ⟨q.1, q.2.1, q.2.2.1, q.2.2.2.1, q.2.2.2.2⟩)
    (fun t => (t.hash, t.method, t.paramCount, t.hasReturn, t.callFlag))

structure NefBody where
  compiler : Bytes
  source : Bytes
  tokens : List MethodToken
  script : Bytes

structure Nef where
  body : NefBody
  checksum : Nat

/-- everything before the checksum (nef.go:100-139): magic, compiler, source, reserved 0, tokens, reserved 00 00,
non-empty script. -/
def nefBodyC : Codec NefBody :=
  map (seq (refine (uintLE 4) (fun m => m == WireLimits.nefMagic)) (seq (paddedC WireLimits.nefCompilerFieldSize)
      (seq (varBytes WireLimits.nefMaxSourceURLLength) (seq (refine byte (fun x => x == 0))
        (seq (array WireLimits.nefMaxTokens WireLimits.slotMethodToken methodTokenC)
          (seq (refine (uintLE 2) (fun x => x == 0))
            (refine (varBytes WireLimits.stackMaxSize) (fun s => !s.isEmpty))))))))
    (fun q => ⟨q.2.1, q.2.2.1, q.2.2.2.2.1, q.2.2.2.2.2.2⟩)
    (fun n => (WireLimits.nefMagic, n.compiler, n.source, 0, n.tokens, 0, n.script))

/-- `hash.Checksum`: the first four bytes of H (= double SHA-256) as a little-endian number. -/
def checksumOf (H : Bytes → Bytes) (b : Bytes) : Nat := leVal ((H b).take 4)

/-- nef.File (nef.go:100-147): the checksum is verified against the RE-ENCODING of the decoded fields
(`CalculateChecksum` serialises the struct), not against the received bytes. -/
def nefC (H : Bytes → Bytes) : Codec Nef :=
  map (refine (seq nefBodyC (uintLE 4)) (fun p => p.2 == checksumOf H (nefBodyC.enc p.1)))
    (fun p => ⟨p.1, p.2⟩) (fun n => (n.body, n.checksum))


end NeoModel.Wire

