/-
Model of pkg/io `PutVarUint`/`WriteVarUint` (binaryWriter.go:98-128) and `ReadVarUint`
(binaryReader.go:151-170), as written (after the fix commit "fix: io: encode var-uints 0xFFFF…": bounds `≤ 0xFFFF`,
`≤ 0xFFFFFFFF`); the reader accepts non-minimal forms.
Values are `Nat` with the explicit well-formedness guard `v < 2^64` (Go: uint64).
-/
import NeoModel.Base.Hex
namespace NeoModel.Wire

/-- little-endian bytes of `v`, exactly `n` of them. -/
def leBytes : Nat → Nat → Bytes
  | 0, _ => []
  | n+1, v => UInt8.ofNat (v % 256) :: leBytes n (v / 256)

/-- little-endian value of a byte list. -/
def leVal : Bytes → Nat
  | [] => 0
  | b :: bs => b.toNat + 256 * leVal bs

def putVarUint (v : Nat) : Bytes :=
  if v < 0xfd then [UInt8.ofNat v]
  else if v ≤ 0xFFFF then 0xfd :: leBytes 2 v
  else if v ≤ 0xFFFFFFFF then 0xfe :: leBytes 4 v
  else 0xff :: leBytes 8 v

/-- take exactly `n` bytes or fail (`r.Err = io.ErrUnexpectedEOF`). -/
def takeN (n : Nat) (bs : Bytes) : Option (Bytes × Bytes) :=
  let x := bs.take n
  -- (cost O(n), not O(|bs|): the driver reads megabyte inputs field by field)
  if x.length = n then some (x, bs.drop n) else none

def readVarUint : Bytes → Option (Nat × Bytes)
  | [] => none
  | b :: rest =>
    if b = 0xfd then (takeN 2 rest).map fun (x, r) => (leVal x, r)
    else if b = 0xfe then (takeN 4 rest).map fun (x, r) => (leVal x, r)
    else if b = 0xff then (takeN 8 rest).map fun (x, r) => (leVal x, r)
    else some (b.toNat, rest)

/-- `ReadVarBytes(max)` (binaryReader.go:172-186): the count is compared with the cap before the buffer is made. -/
def readVarBytes (max : Nat) (b : Bytes) : Option (Bytes × Bytes) :=
  match readVarUint b with
  | none => none
  | some (n, r) => if n > max then none else takeN n r

/-- `io.GetVarSize` for integers (size.go). -/
def varUintSize (v : Nat) : Nat :=
  if v < 0xfd then 1 else if v ≤ 0xFFFF then 3 else if v ≤ 0xFFFFFFFF then 5 else 9

end NeoModel.Wire
