import NeoModel.Model.Wire.Identity
/-
C17 — the cached size/hash fields of a Transaction object and the cached hash of an Extensible payload object, as
written (transaction.go:68-75 fields; 231-238 DecodeBinary; 112-119 Hash; 295-307 NewTransactionFromBytes; 343-348
Size; 537-565 Copy; extensible.go:66-92). The object is the decoded value plus its caches; every method is a state
transformer. Core Lean only.
-/
namespace NeoModel.Wire
open Codec

/-- a `*transaction.Transaction`: content, `size` (0 = not computed yet), `hashed`, `hash`. -/
structure TxObj where
  v : Tx
  size : Nat
  hashed : Bool
  hash : Bytes

def zeroHash : Bytes := List.replicate 32 0

/-- `&transaction.Transaction{}` -/
def TxObj.new : TxObj := ⟨⟨⟨0, 0, 0, 0, 0, [], [], []⟩, []⟩, 0, false, zeroHash⟩

/-- `t.DecodeBinary(r)` on an EXISTING object (transaction.go:208-238, after fix 67279e2): the content is replaced,
the hash is recomputed (`createHash`), the size is reset and recomputed (`t.size = 0; _ = t.Size()`). -/
def TxObj.decode (H : Bytes → Bytes) (cv : Curve) (_o : TxObj) (b : Bytes) : Option TxObj :=
  match (txC cv).dec b with
  | none => none
  | some (t, _) => some { v := t, hashed := true, hash := txHash H cv t, size := ((txC cv).enc t).length }

/-- the rule BEFORE fix 67279e2 (kept for the regression example): `_ = t.Size()` without the reset filled the size
only if it was still 0 — the size of a used object was kept. -/
def TxObj.decodeOld (H : Bytes → Bytes) (cv : Curve) (o : TxObj) (b : Bytes) : Option TxObj :=
  match (txC cv).dec b with
  | none => none
  | some (t, _) =>
    some { v := t, hashed := true, hash := txHash H cv t, size := if o.size = 0 then ((txC cv).enc t).length else o.size }

/-- `NewTransactionFromBytes(b)`: a new object; hash of the received hashable bytes, size = number of received bytes. -/
def TxObj.fromBytes (H : Bytes → Bytes) (cv : Curve) (b : Bytes) : Option TxObj :=
  match txFromBytes H cv b with
  | none => none
  | some (t, h, n) => some ⟨t, n, true, h⟩

/-- `t.Size()` (transaction.go:343-348) -/
def TxObj.sizeOf (cv : Curve) (o : TxObj) : TxObj × Nat :=
  if o.size = 0 then ({ o with size := ((txC cv).enc o.v).length }, ((txC cv).enc o.v).length) else (o, o.size)

/-- `t.Hash()` (transaction.go:112-119) -/
def TxObj.hashOf (H : Bytes → Bytes) (cv : Curve) (o : TxObj) : TxObj × Bytes :=
  if o.hashed then (o, o.hash) else ({ o with hashed := true, hash := txHash H cv o.v }, txHash H cv o.v)

/-- `t.Copy()` (transaction.go:537-565): same content, caches reset. -/
def TxObj.copy (o : TxObj) : TxObj := ⟨o.v, 0, false, zeroHash⟩

/-- an in-place edit of the fields (the caches are not touched: documented behaviour). -/
def TxObj.edit (o : TxObj) (f : Tx → Tx) : TxObj := { o with v := f o.v }

/-- a `*payload.Extensible`: content and the cached hash (`none` = the zero value). -/
structure ExtObj where
  v : Extensible
  hash : Option Bytes

def ExtObj.new : ExtObj := ⟨⟨[], 0, 0, List.replicate 20 0, [], ⟨[], []⟩⟩, none⟩

/-- `e.DecodeBinary(r)` (extensible.go:66-79, after fix 264f88d): the cached hash is dropped, the content replaced. -/
def ExtObj.decode (_o : ExtObj) (b : Bytes) : Option ExtObj :=
  match extensibleC.dec b with
  | none => none
  | some (e, _) => some { v := e, hash := none }

/-- the rule BEFORE fix 264f88d (kept for the regression example): the cached hash survived the decode. -/
def ExtObj.decodeOld (o : ExtObj) (b : Bytes) : Option ExtObj :=
  match extensibleC.dec b with
  | none => none
  | some (e, _) => some { o with v := e }

/-- `e.Hash()` (extensible.go:80-92): computed when the cache holds the zero hash. -/
def ExtObj.hashOf (H : Bytes → Bytes) (o : ExtObj) : ExtObj × Bytes :=
  match o.hash with
  | some h => (o, h)
  | none => ({ o with hash := some (extensibleHash H o.v) }, extensibleHash H o.v)

/-! ### `io.GetVarSize` of a collection (pkg/io/size.go:71-92) -/

/-- what `GetVarSize` finds out about the first ELEMENT of the collection (size.go:75-99, after fix 756d84c). -/
inductive ElemKind where
  | serializable          -- the element value implements io.Serializable (pointers; value types with value receivers)
  | pointerOnly (addressable : Bool)
                          -- a structure whose methods have pointer receivers ([]Attribute, []Signer, []Witness, []util.Uint256 …):
                          -- counted through `elem.Addr()` when the element is addressable (elements of a slice are; those of
                          -- an array passed by value are not)
  | int1 | int2 | int4 | int8
  | other                 -- anything else: 0 bytes per element (before the fix this was also the fate of `pointerOnly`)

/-- `GetVarSize(collection)`: var-int size of the length + the elements as the kind says; `sizes` = encoded size of
each element. -/
def getVarSizeSlice (kind : ElemKind) (sizes : List Nat) : Nat :=
  varUintSize sizes.length + (match kind with
    | .serializable => sizes.sum
    | .pointerOnly true => sizes.sum
    | .pointerOnly false => 0
    | .int1 => sizes.length
    | .int2 => sizes.length * 2
    | .int4 => sizes.length * 4
    | .int8 => sizes.length * 8
    | .other => 0)

end NeoModel.Wire
