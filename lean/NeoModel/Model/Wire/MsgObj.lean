/-
C17: a `network.Message` OBJECT across several serialisations (pkg/network/message.go: Decode, EncodeCompressed,
tryCompressPayload). The flags byte is a field of the object — Decode sets it, every serialisation sets it — so what
one serialisation writes depends on what an earlier one (or the decoder) left. `frame` is the rule of the current
code (817a9b3: the Compressed bit is cleared before the decision), `frameOld` the rule before it (kept for the
regression statements). LZ4 itself stays abstract (`compress` / `decompress`).
-/
import NeoModel.Model.Wire.P2P
open NeoModel NeoModel.Wire NeoModel.Wire.Codec NeoModel.Generated

namespace NeoModel.Wire

/-- the payload types `tryCompressPayload` never compresses (message.go: Headers, MerkleBlock, NullPayload,
Inventory, MPTInventory). -/
def P2PPayload.compressible : P2PPayload → Bool
  | .null | .headers _ | .merkleBlock _ | .inventory _ | .mptInventory _ => false
  | _ => true

/-- a `network.Message` OBJECT between serialisations: the flags byte survives (it is set by Decode and by every
Encode), the payload is re-encoded every time. (`Payload == nil` — a message that was never given a payload — is not
modelled: tryCompressPayload returns before touching anything.) -/
structure MsgObj where
  flags : UInt8
  cmd : UInt8
  payload : P2PPayload

/-- NewMessage. -/
def MsgObj.new (cmd : UInt8) (p : P2PPayload) : MsgObj := ⟨0, cmd, p⟩

/-- Message.Decode into an object: as `messageDec`, and the flags byte of the frame stays in the object. -/
def MsgObj.decode (decompress : Bytes → Option Bytes) (H : Bytes → Bytes) (cv : Curve) (sr : Bool) (b : Bytes) :
    Option (MsgObj × Bytes) :=
  match frameC.dec b with
  | none => none
  | some (f, r) => (messageDec decompress H cv sr b).map fun (c, p, _) => (⟨f.flags, c, p⟩, r)

/-- does this serialisation compress (current code, 817a9b3): allowed, compressible type, over CompressionMinSize;
the flag left by the history of the object plays no role. -/
def MsgObj.compresses (H : Bytes → Bytes) (cv : Curve) (sr : Bool) (allow : Bool) (o : MsgObj) : Bool :=
  allow && o.payload.compressible && decide ((payloadEnc H cv sr o.payload).length > WireLimits.compressionMinSize)

/-- the frame one `EncodeCompressed(allow)` writes: the Compressed bit is cleared first and set again exactly when
the payload is compressed now; the other bits of the flags byte are kept. -/
def MsgObj.frame (compress : Bytes → Bytes) (H : Bytes → Bytes) (cv : Curve) (sr : Bool) (allow : Bool) (o : MsgObj) : Frame :=
  let body := payloadEnc H cv sr o.payload
  if o.compresses H cv sr allow then ⟨(o.flags &&& 0xfe) ||| 1, o.cmd, compress body⟩
  else ⟨o.flags &&& 0xfe, o.cmd, body⟩

/-- EncodeCompressed: the object afterwards (its flags are those written) and the bytes. -/
def MsgObj.encode (compress : Bytes → Bytes) (H : Bytes → Bytes) (cv : Curve) (sr : Bool) (allow : Bool) (o : MsgObj) :
    MsgObj × Bytes :=
  let f := o.frame compress H cv sr allow
  ({ o with flags := f.flags }, frameC.enc f)

/-- the rule before 817a9b3: the flag is never cleared, and a set flag suppresses the compression. -/
def MsgObj.frameOld (compress : Bytes → Bytes) (H : Bytes → Bytes) (cv : Curve) (sr : Bool) (allow : Bool) (o : MsgObj) : Frame :=
  let body := payloadEnc H cv sr o.payload
  if o.flags &&& 1 == 0 && o.compresses H cv sr allow then ⟨o.flags ||| 1, o.cmd, compress body⟩
  else ⟨o.flags, o.cmd, body⟩

def MsgObj.encodeOld (compress : Bytes → Bytes) (H : Bytes → Bytes) (cv : Curve) (sr : Bool) (allow : Bool) (o : MsgObj) :
    MsgObj × Bytes :=
  let f := o.frameOld compress H cv sr allow
  ({ o with flags := f.flags }, frameC.enc f)

end NeoModel.Wire
