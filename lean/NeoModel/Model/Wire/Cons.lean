/-
C17 — models of the dBFT messages (pkg/consensus: change_view.go, prepare_request.go, prepare_response.go,
commit.go, recovery_request.go, recovery_message.go, payload.go) with the codec combinators. `sr` =
StateRootInHeader. Core Lean only.
-/
import NeoModel.Model.Wire.Tx
namespace NeoModel.Wire
open Codec
open NeoModel.Generated

/-! ### dBFT messages (pkg/consensus) -/

/-- `n` hashes with a cap. -/
def hashesC (max : Nat) : Codec (List Bytes) := array max WireLimits.slotUint256 (fixed 32)

structure ChangeView where
  timestamp : Nat
  reason : UInt8
  rejected : List Bytes

def cvHasHashes (reason : UInt8) : Bool := reason == 3 || reason == 4   -- CVTxRejectedByPolicy, CVTxInvalid

/-- changeView (change_view.go:20-36): the rejected hashes are present for two reasons only. -/
def changeViewC : Codec ChangeView :=
  map (bind (seq (uintLE 8) byte)
      (fun p => if cvHasHashes p.2 then hashesC WireLimits.maxTransactionsPerBlock else const [])
      WireLimits.slotUint256 (WireLimits.maxTransactionsPerBlock * WireLimits.slotUint256))
    (fun q => ⟨q.1.1, q.1.2, q.2⟩) (fun c => ((c.timestamp, c.reason), c.rejected))

structure PrepareRequest where
  version : Nat
  prevHash : Bytes
  timestamp : Nat
  nonce : Nat
  txHashes : List Bytes
  stateRoot : Bytes     -- [] unless StateRootInHeader

/-- prepareRequest (prepare_request.go:24-48) -/
def prepareRequestC (sr : Bool) : Codec PrepareRequest :=
  map (seq (uintLE 4) (seq (fixed 32) (seq (uintLE 8) (seq (uintLE 8)
      (seq (hashesC WireLimits.maxTransactionsPerBlock) (if sr then fixed 32 else const []))))))
    (fun q => ⟨q.1, q.2.1, q.2.2.1, q.2.2.2.1, q.2.2.2.2.1, q.2.2.2.2.2⟩)
    (fun p => (p.version, p.prevHash, p.timestamp, p.nonce, p.txHashes, p.stateRoot))

structure CVCompact where
  validator : UInt8
  origView : UInt8
  timestamp : Nat
  inv : Bytes

structure CommitCompact where
  view : UInt8
  validator : UInt8
  signature : Bytes
  inv : Bytes

structure PrepCompact where
  validator : UInt8
  inv : Bytes

def cvCompactC : Codec CVCompact :=
  map (seq byte (seq byte (seq (uintLE 8) (varBytes WireLimits.maxInvocationScript))))
    (fun q => ⟨q.1, q.2.1, q.2.2.1, q.2.2.2⟩) (fun c => (c.validator, c.origView, c.timestamp, c.inv))
def commitCompactC : Codec CommitCompact :=
  map (seq byte (seq byte (seq (fixed 64) (varBytes WireLimits.maxInvocationScript))))
    (fun q => ⟨q.1, q.2.1, q.2.2.1, q.2.2.2⟩) (fun c => (c.view, c.validator, c.signature, c.inv))
def prepCompactC : Codec PrepCompact :=
  map (seq byte (varBytes WireLimits.maxInvocationScript)) (fun q => ⟨q.1, q.2⟩) (fun c => (c.validator, c.inv))

/-- the fixed header of a dBFT message: type, block index, validator index, view number. -/
structure MsgHeader where
  typ : UInt8
  blockIndex : Nat
  validator : UInt8
  view : UInt8

def msgHeaderC : Codec MsgHeader :=
  map (seq byte (seq (uintLE 4) (seq byte byte))) (fun q => ⟨q.1, q.2.1, q.2.2.1, q.2.2.2⟩)
    (fun h => (h.typ, h.blockIndex, h.validator, h.view))

/-- what a recovery message says about the preparation: the PrepareRequest itself, its hash, or nothing. -/
inductive PrepInfo where
  | request (h : MsgHeader) (p : PrepareRequest)
  | hash (h : Bytes)
  | none

/-- the embedded PrepareRequest message of a recovery message: a full message whose type must be 0x20. -/
def embeddedReqC (sr : Bool) : Codec (MsgHeader × PrepareRequest) :=
  seq (refine msgHeaderC (fun h => h.typ == 0x20)) (prepareRequestC sr)

/-- the alternative: var-uint length 0 (nothing) or 32 (hash) (recovery_message.go:58-70). -/
def prepHashC : Codec (Option Bytes) where
  enc
    | .none => [0]
    | .some h => 32 :: h
  dec b :=
    match readVarUint b with
    | .none => .none
    | .some (n, r) =>
      if n = 0 then some (.none, r)
      else if n = 32 then (takeN 32 r).map fun (h, r') => (some h, r')
      else .none
  size
    | .none => 1
    | .some _ => 33
  wf
    | .none => True
    | .some h => h.length = 32
  alloc _ := 0
  allocK := 0
  allocC := 0

structure Recovery where
  changeViews : List CVCompact
  prep : PrepInfo
  preparations : List PrepCompact
  commits : List CommitCompact

def prepInfoBody (sr : Bool) (hasReq : Bool) : Codec PrepInfo :=
  if hasReq then
    map (embeddedReqC sr) (fun q => PrepInfo.request q.1 q.2)
      (fun i => match i with
        | .request h p => (h, p)
        | _ => (⟨0x20, 0, 0, 0⟩, ⟨0, [], 0, 0, [], []⟩))
  else
    map prepHashC (fun o => match o with | some h => PrepInfo.hash h | none => PrepInfo.none)
      (fun i => match i with | .hash h => some h | _ => none)

def PrepInfo.hasReq : PrepInfo → Bool
  | .request _ _ => true
  | _ => false

/-- the `hasReq` flag (ReadBool) and what follows it. -/
def prepInfoC (sr : Bool) : Codec PrepInfo :=
  map (bind boolC (prepInfoBody sr) WireLimits.slotUint256 (WireLimits.maxTransactionsPerBlock * WireLimits.slotUint256))
    (fun q => q.2) (fun i => (i.hasReq, i))

/-- recoveryMessage (recovery_message.go:46-96): three compact arrays capped at 255. -/
def recoveryC (sr : Bool) : Codec Recovery :=
  map (seq (array WireLimits.maxUint8 WireLimits.slotCompactPtr cvCompactC) (seq (prepInfoC sr)
      (seq (array WireLimits.maxUint8 WireLimits.slotCompactPtr prepCompactC)
        (array WireLimits.maxUint8 WireLimits.slotCompactPtr commitCompactC))))
    (fun q => ⟨q.1, q.2.1, q.2.2.1, q.2.2.2⟩) (fun r => (r.changeViews, r.prep, r.preparations, r.commits))

inductive ConsBody where
  | changeView (c : ChangeView)
  | prepareRequest (p : PrepareRequest)
  | prepareResponse (h : Bytes)
  | commit (sig : Bytes)
  | recoveryRequest (ts : Nat)
  | recoveryMessage (r : Recovery)

structure ConsMsg where
  header : MsgHeader
  body : ConsBody

def consBodyC (sr : Bool) (t : UInt8) : Codec ConsBody :=
  if t = 0x00 then map changeViewC ConsBody.changeView (fun b => match b with | .changeView c => c | _ => ⟨0, 0, []⟩)
  else if t = 0x20 then map (prepareRequestC sr) ConsBody.prepareRequest
    (fun b => match b with | .prepareRequest p => p | _ => ⟨0, [], 0, 0, [], []⟩)
  else if t = 0x21 then map (fixed 32) ConsBody.prepareResponse (fun b => match b with | .prepareResponse h => h | _ => [])
  else if t = 0x30 then map (fixed 64) ConsBody.commit (fun b => match b with | .commit s => s | _ => [])
  else if t = 0x40 then map (uintLE 8) ConsBody.recoveryRequest (fun b => match b with | .recoveryRequest t => t | _ => 0)
  else if t = 0x41 then map (recoveryC sr) ConsBody.recoveryMessage
    (fun b => match b with | .recoveryMessage r => r | _ => ⟨[], .none, [], []⟩)
  else fail (ConsBody.recoveryRequest 0)

def consK : Nat := Nat.max (WireLimits.slotCompactPtr + 1) WireLimits.slotUint256
def consCap : Nat :=
  Nat.max (WireLimits.maxUint8 * WireLimits.slotCompactPtr + WireLimits.maxInvocationScript)
    (WireLimits.maxTransactionsPerBlock * WireLimits.slotUint256)

/-- message (payload.go:150-199) -/
def consMsgC (sr : Bool) : Codec ConsMsg :=
  map (bind msgHeaderC (fun h => consBodyC sr h.typ) consK consCap) (fun q => ⟨q.1, q.2⟩) (fun m => (m.header, m.body))


/-- consensus.Payload (payload.go:125-199): an Extensible whose Data decodes as a dBFT message (trailing bytes of
Data are not checked by decodeData). -/
def consPayloadC (sr : Bool) : Codec Extensible :=
  refine extensibleC (fun e => ((consMsgC sr).dec e.data).isSome)

end NeoModel.Wire

