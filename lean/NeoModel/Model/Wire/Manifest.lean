import NeoModel.Model.Wire.Nef
import NeoModel.Model.Wire.Item
import NeoModel.Generated.WireManifest
/-
C17 — the stack-item form of a contract manifest (pkg/smartcontract/manifest: Manifest / ABI / Method / Event /
Parameter / Group / Permission / PermissionDesc `ToStackItem` and `FromStackItem`) and of a deployed contract as
native ContractManagement stores it (pkg/core/state/contract.go `Contract.ToStackItem` / `FromStackItem`, written with
`stackitem.SerializeConvertible`, read with `stackitem.DeserializeConvertible`). Core Lean only.

The value types hold what the Go structs hold after `FromStackItem`: strings as their bytes (valid UTF-8), public keys
as their compressed form, integers as numbers. The decoders are written the way the Go code is: they use the lenient
conversions of stackitem (`TryBytes`, `TryInteger`, `TryBool`, `ToString`), so they accept many items the encoder never
produces (a Buffer or an Integer for a name, a ByteString or a Boolean for a number, any item for the `safe` flag, an
uncompressed key, a number that does not fit 64 bits and is truncated by `big.Int.Int64`, NEF bytes with a tail …) and
canonicalise them.
-/
namespace NeoModel.Wire
open NeoModel.Generated

/-! ### UTF-8 validity (`unicode/utf8.Valid`, reached through `stackitem.ToString`, conversion.go:12-21) -/

def utf8Valid : Bytes → Bool
  | [] => true
  | b0 :: rest =>
    let c := b0.toNat
    if c < 0x80 then utf8Valid rest
    else if c < 0xC2 then false
    else if c < 0xE0 then
      match rest with
      | b1 :: r => (0x80 ≤ b1.toNat && b1.toNat ≤ 0xBF) && utf8Valid r
      | _ => false
    else if c < 0xF0 then
      match rest with
      | b1 :: b2 :: r =>
        let lo := if c == 0xE0 then 0xA0 else 0x80
        let hi := if c == 0xED then 0x9F else 0xBF
        (lo ≤ b1.toNat && b1.toNat ≤ hi) && (0x80 ≤ b2.toNat && b2.toNat ≤ 0xBF) && utf8Valid r
      | _ => false
    else if c < 0xF5 then
      match rest with
      | b1 :: b2 :: b3 :: r =>
        let lo := if c == 0xF0 then 0x90 else 0x80
        let hi := if c == 0xF4 then 0x8F else 0xBF
        (lo ≤ b1.toNat && b1.toNat ≤ hi) && (0x80 ≤ b2.toNat && b2.toNat ≤ 0xBF) &&
          (0x80 ≤ b3.toNat && b3.toNat ≤ 0xBF) && utf8Valid r
      | _ => false
    else false

namespace Item

/-! ### the lenient conversions of stackitem (item.go) on the tree model of an item -/

/-- `TryBytes` (item.go: ByteArray, Buffer, Bool, BigInteger succeed; everything else is an invalid conversion). -/
def tryBytes : Item → Option Bytes
  | .byteArray b => some b
  | .buffer b => some b
  | .bool b => some [if b then 1 else 0]
  | .int c => some c
  | _ => none

/-- `TryInteger` (item.go: BigInteger, Bool, ByteArray of at most 32 bytes; a Buffer is NOT convertible). -/
def tryInteger : Item → Option Int
  | .int c => some (intFromLE c)
  | .bool b => some (if b then 1 else 0)
  | .byteArray b => if b.length > WireLimits.bigintMaxBytesLen then none else some (intFromLE b)
  | _ => none

/-- `TryBool` (item.go): every item but an over-long ByteArray has a truth value. `.invalid` stands for a nil
interface, on which the Go code would panic; it is not reachable through the unprotected deserialiser. -/
def tryBool : Item → Option Bool
  | .bool b => some b
  | .int c => some (c != [])
  | .byteArray b => if b.length > WireLimits.bigintMaxBytesLen then none else some (b.any (· != 0))
  | .null => some false
  | .invalid => none
  | _ => some true

/-- `stackitem.ToString` (conversion.go:12-21): TryBytes, then the bytes must be valid UTF-8. -/
def toStr (x : Item) : Option Bytes :=
  match tryBytes x with
  | none => none
  | some b => if utf8Valid b then some b else none

end Item

/-- `big.Int.Int64()` (math/big): the low 64 bits of |x| reinterpreted as int64, negated (wrapping) when x < 0.
Used WITHOUT a range check by Parameter/Method.FromStackItem (`int(typ.Int64())`). -/
def int64Of (x : Int) : Int :=
  let lo : Nat := x.natAbs % 2 ^ 64
  let v : Int := if lo < 2 ^ 63 then (lo : Int) else (lo : Int) - (2 ^ 64 : Nat)
  let w : Int := if x < 0 then -v else v
  if w = (2 ^ 63 : Nat) then -((2 ^ 63 : Nat) : Int) else w

/-- the integer item `stackitem.Make(int)` builds for a number that fits 64 bits: its canonical bytes. -/
def intBytes (n : Int) : Bytes := Item.canonInt (leBytes 9 (n % ((256 ^ 9 : Nat) : Int)).toNat)

/-- all elements converted, first failure wins (`for i := range … { if err != nil { return err } }`). -/
def allM {α : Type} (f : Item → Option α) : List Item → Option (List α)
  | [] => some []
  | x :: xs =>
    match f x with
    | none => none
    | some a =>
      match allM f xs with
      | none => none
      | some as => some (a :: as)

/-! ### value types -/

structure MParam where
  name : Bytes
  typ : Int
deriving DecidableEq

structure MMethod where
  name : Bytes
  params : List MParam
  ret : Int
  offset : Int
  safe : Bool
deriving DecidableEq

structure MEvent where
  name : Bytes
  params : List MParam
deriving DecidableEq

inductive PermDesc where
  | wildcard
  | hash (h : Bytes)
  | group (k : Bytes)
deriving DecidableEq

structure MPerm where
  contract : PermDesc
  /-- `none` = wildcard (`WildStrings.Value == nil`) -/
  methods : Option (List Bytes)
deriving DecidableEq

structure MGroup where
  key : Bytes
  sig : Bytes
deriving DecidableEq

structure Manifest where
  name : Bytes
  groups : List MGroup
  standards : List Bytes
  methods : List MMethod
  events : List MEvent
  perms : List MPerm
  /-- `none` = wildcard -/
  trusts : Option (List PermDesc)
  extra : Bytes
deriving DecidableEq

/-- `smartcontract.ConvertToParamType` (param_type.go:392-397): membership in `validParamTypes` (regenerated table;
it contains UnknownType = -1 and VoidType = 0xff). -/
def convParamType (v : Int) : Option Int := if v ∈ WireManifest.validParamTypes then some v else none

/-- `keys.NewPublicKeyFromBytes(b, P256)` (publickey.go:145-157, 264-336): one key, compressed or uncompressed, and
nothing after it; the value is the compressed form. -/
def keyFromBytes (cv : Curve) (b : Bytes) : Option Bytes :=
  match (pubKeyC cv).dec b with
  | some (k, []) => some k
  | _ => none

/-! ### ToStackItem -/

def MParam.toItem (p : MParam) : Item := .struct [.byteArray p.name, .int (intBytes p.typ)]

def MMethod.toItem (m : MMethod) : Item :=
  .struct [.byteArray m.name, .array (m.params.map MParam.toItem), .int (intBytes m.ret), .int (intBytes m.offset),
    .bool m.safe]

def MEvent.toItem (e : MEvent) : Item := .struct [.byteArray e.name, .array (e.params.map MParam.toItem)]

def PermDesc.toItem : PermDesc → Item
  | .wildcard => .null
  | .hash h => .byteArray h
  | .group k => .byteArray k

def MPerm.toItem (p : MPerm) : Item :=
  .struct [p.contract.toItem,
    match p.methods with
    | none => .null
    | some l => .array (l.map Item.byteArray)]

def MGroup.toItem (g : MGroup) : Item := .struct [.byteArray g.key, .byteArray g.sig]

/-- Manifest.ToStackItem (manifest.go:167-200). `norm` = `extraToStackItem` on the raw Extra (manifest.go:260-279:
"null" for nil/"null", otherwise the go-ordered-json re-marshalling — encoding/json is not modelled). -/
def Manifest.toItem (norm : Bytes → Bytes) (m : Manifest) : Item :=
  .struct [.byteArray m.name,
    .array (m.groups.map MGroup.toItem),
    .map [],
    .array (m.standards.map Item.byteArray),
    .struct [.array (m.methods.map MMethod.toItem), .array (m.events.map MEvent.toItem)],
    .array (m.perms.map MPerm.toItem),
    (match m.trusts with
      | none => .null
      | some l => .array (l.map PermDesc.toItem)),
    .byteArray (norm m.extra)]

/-! ### FromStackItem -/

/-- Parameter.FromStackItem (parameter.go:55-77) -/
def MParam.fromItem : Item → Option MParam
  | .struct [n, t] =>
    match Item.toStr n with
    | none => none
    | some name =>
      match Item.tryInteger t with
      | none => none
      | some v =>
        match convParamType (int64Of v) with
        | none => none
        | some ty => some ⟨name, ty⟩
  | _ => none

/-- an item that must be an Array (`Type() != ArrayT` is an error; a Struct is not accepted). -/
def arrayOf {α : Type} (f : Item → Option α) : Item → Option (List α)
  | .array l => allM f l
  | _ => none

/-- Method.FromStackItem (method.go:54-98) -/
def MMethod.fromItem : Item → Option MMethod
  | .struct [n, ps, rt, off, sf] =>
    match Item.toStr n with
    | none => none
    | some name =>
      match arrayOf MParam.fromItem ps with
      | none => none
      | some params =>
        match Item.tryInteger rt with
        | none => none
        | some r =>
          match convParamType (int64Of r) with
          | none => none
          | some ret =>
            match Item.tryInteger off with
            | none => none
            | some o =>
              match Item.tryBool sf with
              | none => none
              | some safe => some ⟨name, params, ret, int64Of o, safe⟩
  | _ => none

/-- Event.FromStackItem (event.go:41-68) -/
def MEvent.fromItem : Item → Option MEvent
  | .struct [n, ps] =>
    match Item.toStr n with
    | none => none
    | some name =>
      match arrayOf MParam.fromItem ps with
      | none => none
      | some params => some ⟨name, params⟩
  | _ => none

/-- PermissionDesc.FromStackItem (permission.go:267-295): Null, or a ByteString (not a Buffer) of 20 or 33 bytes. -/
def PermDesc.fromItem (cv : Curve) : Item → Option PermDesc
  | .null => some .wildcard
  | .byteArray b =>
    if b.length = WireManifest.uint160Size then some (.hash b)
    else if b.length = 33 then
      match keyFromBytes cv b with
      | none => none
      | some k => some (.group k)
    else none
  | _ => none

/-- Permission.FromStackItem (permission.go:317-350) -/
def MPerm.fromItem (cv : Curve) : Item → Option MPerm
  | .struct [c, ms] =>
    match PermDesc.fromItem cv c with
    | none => none
    | some d =>
      match ms with
      | .null => some ⟨d, none⟩
      | _ =>
        match arrayOf Item.toStr ms with
        | none => none
        | some l => some ⟨d, some l⟩
  | _ => none

/-- Group.FromStackItem (group.go:123-148): key in any accepted form, signature of exactly 64 bytes. -/
def MGroup.fromItem (cv : Curve) : Item → Option MGroup
  | .struct [k, s] =>
    match Item.tryBytes k with
    | none => none
    | some kb =>
      match keyFromBytes cv kb with
      | none => none
      | some key =>
        match Item.tryBytes s with
        | none => none
        | some sig => if sig.length = WireManifest.signatureLen then some ⟨key, sig⟩ else none
  | _ => none

/-- ABI.FromStackItem (abi.go:118-151) -/
def abiFromItem : Item → Option (List MMethod × List MEvent)
  | .struct [ms, es] =>
    match arrayOf MMethod.fromItem ms with
    | none => none
    | some methods =>
      match arrayOf MEvent.fromItem es with
      | none => none
      | some events => some (methods, events)
  | _ => none

/-- Manifest.FromStackItem (manifest.go:282-363) -/
def Manifest.fromItem (cv : Curve) : Item → Option Manifest
  | .struct [n, gs, ft, ss, abi, ps, ts, ex] =>
    match Item.toStr n with
    | none => none
    | some name =>
      match arrayOf (MGroup.fromItem cv) gs with
      | none => none
      | some groups =>
        match ft with
        | .map [] =>
          match arrayOf Item.toStr ss with
          | none => none
          | some standards =>
            match abiFromItem abi with
            | none => none
            | some (methods, events) =>
              match arrayOf (MPerm.fromItem cv) ps with
              | none => none
              | some perms =>
                match (match ts with
                    | .null => some none
                    | _ => (arrayOf (PermDesc.fromItem cv) ts).map some) with
                | none => none
                | some trusts =>
                  match Item.tryBytes ex with
                  | none => none
                  | some extra => some ⟨name, groups, standards, methods, events, perms, trusts, extra⟩
        | _ => none
  | _ => none

/-! ### a deployed contract (state.Contract) -/

structure Contract where
  id : Int
  updateCounter : Nat
  hash : Bytes
  nef : Nef
  manifest : Manifest

/-- `nef.File.Bytes()` (nef.go:162-190): the encoding, refused over stackitem.MaxSize. -/
def nefBytes (H : Bytes → Bytes) (n : Nef) : Option Bytes :=
  let b := (nefC H).enc n
  if b.length > WireLimits.stackMaxSize then none else some b

/-- `nef.FileFromBytes` (nef.go:192-204): at most MaxSize bytes; whatever follows the file is ignored. -/
def nefFromBytes (H : Bytes → Bytes) (b : Bytes) : Option Nef :=
  if b.length > WireLimits.stackMaxSize then none
  else (nefC H).dec b |>.map (·.1)

/-- Contract.ToStackItem (contract.go:39-58) -/
def Contract.toItem (H : Bytes → Bytes) (norm : Bytes → Bytes) (c : Contract) : Option Item :=
  match nefBytes H c.nef with
  | none => none
  | some raw =>
    some (.array [.int (intBytes c.id), .int (intBytes c.updateCounter), .byteArray c.hash, .byteArray raw,
      c.manifest.toItem norm])

/-- `stackitem.ToInt64` + range check (conversion.go:53-101): ToInt32 / ToUint16. -/
def toIntRange (lo hi : Int) (x : Item) : Option Int :=
  match Item.tryInteger x with
  | none => none
  | some v => if lo ≤ v ∧ v ≤ hi then some v else none

/-- Contract.FromStackItem (contract.go:62-98): an Array OR a Struct of five items. -/
def Contract.fromItem (H : Bytes → Bytes) (cv : Curve) (it : Item) : Option Contract :=
  let fields : Option (List Item) := match it with
    | .array l => some l
    | .struct l => some l
    | _ => none
  match fields with
  | some [a, b, c, d, e] =>
    match toIntRange WireManifest.contractIdLo WireManifest.contractIdHi a with
    | none => none
    | some id =>
      match toIntRange WireManifest.contractUpdateCounterLo WireManifest.contractUpdateCounterHi b with
      | none => none
      | some uc =>
        match Item.tryBytes c with
        | none => none
        | some h =>
          if h.length ≠ WireManifest.uint160Size then none else
          match Item.tryBytes d with
          | none => none
          | some raw =>
            match nefFromBytes H raw with
            | none => none
            | some nef =>
              match Manifest.fromItem cv e with
              | none => none
              | some m => some ⟨id, uc.toNat, h, nef, m⟩
  | _ => none

/-- `stackitem.SerializeConvertible` (serialization.go:396-402): what ContractManagement writes (dao.PutStorageConvertible). -/
def Contract.store (H : Bytes → Bytes) (norm : Bytes → Bytes) (c : Contract) : Option Bytes :=
  match c.toItem H norm with
  | none => none
  | some it => Item.serialize false it

/-- `stackitem.DeserializeConvertible` (serialization.go:405-411): what ContractManagement reads back; bytes after
the item are ignored. -/
def Contract.load (H : Bytes → Bytes) (cv : Curve) (b : Bytes) : Option Contract :=
  match Item.decode false b with
  | none => none
  | some (it, _) => Contract.fromItem H cv it

def Manifest.store (norm : Bytes → Bytes) (m : Manifest) : Option Bytes := Item.serialize false (m.toItem norm)

def Manifest.load (cv : Curve) (b : Bytes) : Option Manifest :=
  match Item.decode false b with
  | none => none
  | some (it, _) => Manifest.fromItem cv it

end NeoModel.Wire
