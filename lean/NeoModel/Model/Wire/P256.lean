/-
P-256 point validity as keys.PublicKey.DecodeBinary checks it, for the driver (executable only: the theorems
take `Curve.Sound` as a hypothesis and never unfold these definitions). Core Lean only.
-/
import NeoModel.Model.Wire.Tx
namespace NeoModel.Wire

/-- big-endian value of a byte string. -/
def beVal (b : Bytes) : Nat := b.foldl (fun acc x => acc * 256 + x.toNat) 0

namespace P256
def p : Nat := 2^256 - 2^224 + 2^192 + 2^96 - 1
def b : Nat := 0x5ac635d8aa3a93e7b3ebbd55769886bc651d06b0cc53b0f63bce3c3e27d2604b

/-- x^e mod m by square-and-multiply over the bits of `e` (fuel = number of bits). -/
def powMod (x e m : Nat) : Nat → Nat
  | 0 => 1 % m
  | fuel+1 =>
    if e = 0 then 1 % m
    else
      let h := powMod x (e / 2) m fuel
      let s := h * h % m
      if e % 2 = 1 then s * (x % m) % m else s

/-- right-hand side of the curve equation y² = x³ − 3x + b (mod p). -/
def rhs (x : Nat) : Nat := (x * x % p * x + (p - 3 * x % p) + b) % p

def isSquare (a : Nat) : Bool :=
  let y := powMod a ((p + 1) / 4) p 257
  y * y % p == a

def validC (k : Bytes) : Bool :=
  match k with
  | [] => false
  | _ :: x => x.length == 32 && decide (beVal x < p) && isSquare (rhs (beVal x))

def validU (x y : Bytes) : Bool :=
  decide (beVal x < p) && decide (beVal y < p) && (beVal y * beVal y % p == rhs (beVal x))
end P256

/-- the curve checks as the driver evaluates them (crypto/elliptic P-256 is not modelled: the theorems take
`Curve.Sound` as a hypothesis). -/
def p256 : Curve := ⟨P256.validC, P256.validU⟩

end NeoModel.Wire
