import NeoModel.Model.Wire.P2P
/-
C17 — the identity (hash) of every hashed wire type as a function of the decoded value: `H` applied to the encoding
of the hashed fields, which is the wire encoding WITHOUT the witnesses. Core Lean only.
-/
namespace NeoModel.Wire
open Codec
open NeoModel.Generated


/-- Transaction.Hash (transaction.go:190-197, 269-282 on the DecodeBinary path): the hash of the re-encoded hashable
fields — everything but the witnesses. -/
def txHash (H : Bytes → Bytes) (cv : Curve) (t : Tx) : Bytes := H ((txBodyC cv).enc t.body)

def headerHashed (h : Header) : Nat × Bytes × Bytes × Nat × Nat × Nat × UInt8 × Bytes × Bytes :=
  (h.version, h.prevHash, h.merkleRoot, h.timestamp, h.nonce, h.index, h.primary, h.nextConsensus, h.prevStateRoot)

/-- Block.Hash = the header's. -/
def blockHash (H : Bytes → Bytes) (sr : Bool) (b : Block) : Bytes := headerHash H sr b.header

/-- the hashed part of a state root (mpt_root.go: EncodeBinaryUnsigned): version, index, root. -/
def stateRootHashableC : Codec (UInt8 × Nat × Bytes) := seq byte (seq (uintLE 4) (fixed 32))
def stateRootHash (H : Bytes → Bytes) (s : StateRoot) : Bytes := H (stateRootHashableC.enc (s.version, s.index, s.root))

/-- the hashed part of an extensible payload (extensible.go: encodeBinaryUnsigned). -/
def extensibleHashableC : Codec (Bytes × Nat × Nat × Bytes × Bytes) :=
  seq (varBytes WireLimits.maxExtensibleCategorySize) (seq (uintLE 4) (seq (uintLE 4) (seq (fixed 20)
    (varBytes WireLimits.payloadMaxSize))))
def extensibleHash (H : Bytes → Bytes) (e : Extensible) : Bytes :=
  H (extensibleHashableC.enc (e.category, e.validStart, e.validEnd, e.sender, e.data))

/-- the hashed part of a P2P notary request (notary_request.go:85-90): both transactions in full (with THEIR
witnesses); only the request's own witness is outside. -/
def notaryHashableC (cv : Curve) : Codec (Tx × Tx) := seq (txC cv) (txC cv)
def notaryHash (H : Bytes → Bytes) (cv : Curve) (r : NotaryRequest) : Bytes :=
  H ((notaryHashableC cv).enc (r.main, r.fallback))


end NeoModel.Wire
