import NeoModel.Model.Wire.Item
/-
C17 — the stack-item serialiser on items WITH SHARING (pkg/vm/stackitem/serialization.go:105-116, 148-244), as
written: compound items (Array, Struct, Map) are Go pointers, the serialiser keeps `seen : map[Item]sliceNoPointer`
from a compound to the byte range it was written to and the number of items it stands for; a second reference copies
the bytes and charges the recorded count. An item is a graph here: compound nodes have identities (indices into a
list), children are primitives or references to nodes. A node may refer only to EARLIER nodes (`Graph.trees`
resolves the nodes in order), which makes the graph acyclic by construction; the serialiser model itself does not
rely on that (it carries the in-progress marker `sliceNoPointer{}` and reports a recursive item like the code does).
Core Lean only.
-/
namespace NeoModel.Wire
open NeoModel.Generated

/-- the items that are values, not pointers to compounds. -/
inductive Prim where
  | byteArray (b : Bytes)
  | buffer (b : Bytes)
  | bool (b : Bool)
  | int (c : Bytes)
  | null
  | interop
  | pointer (pos : Nat)
  | invalid

def Prim.toItem : Prim → Item
  | .byteArray b => .byteArray b
  | .buffer b => .buffer b
  | .bool b => .bool b
  | .int c => .int c
  | .null => .null
  | .interop => .interop
  | .pointer p => .pointer p
  | .invalid => .invalid

/-- protected-only primitives (`allowInvalid`). -/
def Prim.isInvalid : Prim → Bool
  | .interop => true
  | .pointer _ => true
  | .invalid => true
  | _ => false

/-- a child of a compound / the root: a primitive or a reference to a compound node. -/
inductive GItem where
  | prim (p : Prim)
  | ref (id : Nat)

inductive GComp where
  | array (cs : List GItem)
  | struct (cs : List GItem)
  | map (kvs : List (GItem × GItem))

abbrev Graph := List GComp

/-! ### the tree a graph item stands for -/

def GItem.tree (ts : List Item) : GItem → Option Item
  | .prim p => some p.toItem
  | .ref id => ts[id]?

def treeList (ts : List Item) : List GItem → Option (List Item)
  | [] => some []
  | x :: xs =>
    match x.tree ts with
    | none => none
    | some v =>
      match treeList ts xs with
      | none => none
      | some vs => some (v :: vs)

def treePairs (ts : List Item) : List (GItem × GItem) → Option (List (Item × Item))
  | [] => some []
  | (k, v) :: rest =>
    match k.tree ts with
    | none => none
    | some kt =>
      match v.tree ts with
      | none => none
      | some vt =>
        match treePairs ts rest with
        | none => none
        | some r => some ((kt, vt) :: r)

def GComp.tree (ts : List Item) : GComp → Option Item
  | .array cs => (treeList ts cs).map Item.array
  | .struct cs => (treeList ts cs).map Item.struct
  | .map kvs => (treePairs ts kvs).map Item.map

/-- the trees of the nodes, in order; node `i` may mention only nodes `< i`. -/
def treesAux : List GComp → List Item → Option (List Item)
  | [], acc => some acc
  | c :: cs, acc =>
    match c.tree acc with
    | none => none
    | some t => treesAux cs (acc ++ [t])

def Graph.trees (g : Graph) : Option (List Item) := treesAux g []

/-! ### the serialiser -/

/-- `sliceNoPointer` of the `seen` map, with the node it belongs to; `s = e` is the in-progress marker. -/
structure SeenE where
  id : Nat
  s : Nat
  e : Nat
  c : Nat

structure SerSt where
  data : Bytes
  limit : Nat
  seen : List SeenE

/-- map lookup: the latest entry of the node (updates are consed in front). -/
def seenFind (seen : List SeenE) (id : Nat) : Option SeenE := seen.find? (fun x => x.id == id)

def serListWith (f : SerSt → GItem → Option SerSt) : SerSt → List GItem → Option SerSt
  | st, [] => some st
  | st, x :: xs =>
    match f st x with
    | none => none
    | some st' => serListWith f st' xs

def serPairsWith (f : SerSt → GItem → Option SerSt) : SerSt → List (GItem × GItem) → Option SerSt
  | st, [] => some st
  | st, (k, v) :: rest =>
    match f st k with
    | none => none
    | some st₁ =>
      match f st₁ v with
      | none => none
      | some st₂ => serPairsWith f st₂ rest

/-- the final `if len(w.data) > MaxSize` of `serialize`. -/
def sizeCheck (st : SerSt) : Option SerSt := if st.data.length > WireLimits.stackMaxSize then none else some st

/-- `SerializationContext.serialize` (serialization.go:148-244). `fuel` bounds the nesting of the recursion (a
successful call lowers `limit`, so `limit + 1` levels are never exceeded); `prot` = allowInvalid. -/
def serG (prot : Bool) (g : Graph) : Nat → SerSt → GItem → Option SerSt
  | 0, _, _ => none
  | fuel+1, st, x =>
    match x with
    | .prim p =>
      -- w.limit--; if w.limit < 0 …
      if st.limit = 0 then none
      else if p.isInvalid && !prot then none
      else sizeCheck { st with limit := st.limit - 1, data := st.data ++ Item.enc p.toItem }
    | .ref id =>
      match seenFind st.seen id with
      | some sn =>
        -- l.149-162: a compound seen before
        if sn.s = sn.e then none                                              -- ErrRecursive
        else if st.data.length + (sn.e - sn.s) > WireLimits.stackMaxSize then none   -- ErrTooBig
        else if st.limit < sn.c then none                                     -- errTooBigElements
        else some { st with limit := st.limit - sn.c, data := st.data ++ (st.data.drop sn.s).take (sn.e - sn.s) }
      | none =>
        if st.limit = 0 then none else
        let start := st.data.length
        let limit0 := st.limit - 1
        let open_ (tag : Nat) (n : Nat) : SerSt :=
          { data := st.data ++ (UInt8.ofNat tag :: putVarUint n), limit := limit0,
            seen := ⟨id, 0, 0, 0⟩ :: st.seen }
        let close_ (st' : SerSt) : Option SerSt :=
          sizeCheck { st' with seen := ⟨id, start, st'.data.length, limit0 - st'.limit + 1⟩ :: st'.seen }
        match g[id]? with
        | none => none
        | some (.array cs) =>
          match serListWith (serG prot g fuel) (open_ WireLimits.itemArrayT cs.length) cs with
          | none => none
          | some st' => close_ st'
        | some (.struct cs) =>
          match serListWith (serG prot g fuel) (open_ WireLimits.itemStructT cs.length) cs with
          | none => none
          | some st' => close_ st'
        | some (.map kvs) =>
          match serPairsWith (serG prot g fuel) (open_ WireLimits.itemMapT kvs.length) kvs with
          | none => none
          | some st' => close_ st'

/-- `Serialize` / the body of `EncodeBinaryProtected` on a graph item. -/
def serializeG (prot : Bool) (g : Graph) (root : GItem) : Option Bytes :=
  (serG prot g (WireLimits.stackMaxSerialized + 2) ⟨[], WireLimits.stackMaxSerialized, []⟩ root).map (·.data)

/-- EncodeBinaryProtected: a failed serialisation is written as one InvalidT byte. -/
def serializeProtectedG (g : Graph) (root : GItem) : Bytes :=
  match serializeG true g root with
  | some b => b
  | none => [UInt8.ofNat WireLimits.itemInvalidT]

end NeoModel.Wire
