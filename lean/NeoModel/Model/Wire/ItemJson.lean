import NeoModel.Model.Wire.Item
import NeoModel.Generated.WireManifest
/-
C17 — the typed JSON form of a stack item (pkg/vm/stackitem/json.go:311-535: `ToJSONWithTypes` /
`FromJSONWithTypes`), the form RPC uses for invocation results, notifications and contract invocations.

  * `toJSONTyped` writes the text exactly as the code does (type names, base64 without line breaks, decimal integers
    as strings, MaxSize bound on the text).
  * `fromJ` is `FromJSONWithTypes` on a JSON VALUE: which members of `{"type":…,"value":…}` are looked at (case-folded
    names, last duplicate wins, `null` is "no value"), what each type demands of its value; an integer beyond 256 bits is an error
    (`CheckIntegerSize`; before fix ea79830 `NewBigInteger` panicked on it: flag `old`).
  * `parseJson` reads JSON text of the plain kind the encoder produces — ASCII, no escape sequences — into a value;
    anything else is `unsupported` (encoding/json itself is not modelled).
Core Lean only.
-/
namespace NeoModel.Wire
open NeoModel.Generated

/-- the result of a decoder that can fail in two ways. -/
inductive Out (α : Type) where
  | ok (v : α)
  | err
  | panic

def Out.bind {α β : Type} (x : Out α) (f : α → Out β) : Out β :=
  match x with
  | .ok v => f v
  | .err => .err
  | .panic => .panic

/-! ### base64, standard alphabet with padding (encoding/base64 StdEncoding) -/

namespace B64

/-- the i-th character of the alphabet `A–Z a–z 0–9 + /`. -/
def char (i : Nat) : UInt8 :=
  if i < 26 then UInt8.ofNat (0x41 + i)
  else if i < 52 then UInt8.ofNat (0x61 + (i - 26))
  else if i < 62 then UInt8.ofNat (0x30 + (i - 52))
  else if i = 62 then 0x2b
  else 0x2f

/-- the value of a base64 character. -/
def index (c : UInt8) : Option Nat :=
  let n := c.toNat
  if 0x41 ≤ n ∧ n ≤ 0x5a then some (n - 0x41)
  else if 0x61 ≤ n ∧ n ≤ 0x7a then some (n - 0x61 + 26)
  else if 0x30 ≤ n ∧ n ≤ 0x39 then some (n - 0x30 + 52)
  else if n = 0x2b then some 62
  else if n = 0x2f then some 63
  else none

def pad : UInt8 := 0x3d

/-- `EncodeToString` -/
def encode : Bytes → Bytes
  | a :: b :: c :: rest =>
    let n := a.toNat * 65536 + b.toNat * 256 + c.toNat
    char (n / 262144) :: char (n / 4096 % 64) :: char (n / 64 % 64) :: char (n % 64) :: encode rest
  | [a, b] =>
    let n := a.toNat * 65536 + b.toNat * 256
    [char (n / 262144), char (n / 4096 % 64), char (n / 64 % 64), pad]
  | [a] =>
    let n := a.toNat * 65536
    [char (n / 262144), char (n / 4096 % 64), pad, pad]
  | [] => []

/-- quanta of four characters; padding only in the last quantum; the unused low bits of the last character are
not checked (non-strict mode). -/
def decodeQuanta : Bytes → Option Bytes
  | [] => some []
  | [c0, c1, c2, c3] =>
    match index c0, index c1 with
    | some i0, some i1 =>
      if c2 = pad ∧ c3 = pad then some [UInt8.ofNat ((i0 * 64 + i1) / 16)]
      else
        match index c2 with
        | none => none
        | some i2 =>
          if c3 = pad then
            let n := i0 * 4096 + i1 * 64 + i2
            some [UInt8.ofNat (n / 1024), UInt8.ofNat (n / 4 % 256)]
          else
            match index c3 with
            | none => none
            | some i3 =>
              let n := i0 * 262144 + i1 * 4096 + i2 * 64 + i3
              some [UInt8.ofNat (n / 65536), UInt8.ofNat (n / 256 % 256), UInt8.ofNat (n % 256)]
    | _, _ => none
  | c0 :: c1 :: c2 :: c3 :: rest =>
    match index c0, index c1, index c2, index c3 with
    | some i0, some i1, some i2, some i3 =>
      let n := i0 * 262144 + i1 * 4096 + i2 * 64 + i3
      match decodeQuanta rest with
      | none => none
      | some r => some (UInt8.ofNat (n / 65536) :: UInt8.ofNat (n / 256 % 256) :: UInt8.ofNat (n % 256) :: r)
    | _, _, _, _ => none
  | _ => none

/-- `DecodeString`: CR and LF are skipped anywhere, everything else is strict about alphabet, padding and length. -/
def decode (s : Bytes) : Option Bytes := decodeQuanta (s.filter fun c => c != 0x0d && c != 0x0a)

end B64

/-! ### decimal integers -/

def digitsOf (s : Bytes) : Option Nat :=
  if s.isEmpty then none
  else s.foldl (fun acc c => acc.bind fun n => if 0x30 ≤ c.toNat ∧ c.toNat ≤ 0x39 then some (n * 10 + (c.toNat - 0x30)) else none)
    (some 0)

/-- `big.Int.SetString(s, 10)`: optional sign, at least one digit, nothing else. -/
def parseBigInt : Bytes → Option Int
  | 0x2d :: r => (digitsOf r).map fun n => -(n : Int)
  | 0x2b :: r => (digitsOf r).map fun n => (n : Int)
  | s => (digitsOf s).map fun n => (n : Int)

def showInt (n : Int) : Bytes := (toString n).toUTF8.toList

/-- `CheckIntegerSize` (item.go:434-451): −2^255 ≤ n < 2^255. -/
def intFits (n : Int) : Bool := decide (-((2 ^ 255 : Nat) : Int) ≤ n) && decide (n < ((2 ^ 255 : Nat) : Int))

/-! ### JSON values and the plain-text reader -/

inductive JVal where
  | null
  | bool (b : Bool)
  | num (text : Bytes)
  | str (s : Bytes)
  | arr (l : List JVal)
  | obj (m : List (Bytes × JVal))

inductive Parse (α : Type) where
  | ok (v : α) (rest : Bytes)
  | err
  | unsupported

namespace Json

def isWs (c : UInt8) : Bool := c == 0x20 || c == 0x09 || c == 0x0a || c == 0x0d

def skipWs : Bytes → Bytes
  | c :: r => if isWs c then skipWs r else c :: r
  | [] => []

def isDigit (c : UInt8) : Bool := 0x30 ≤ c.toNat && c.toNat ≤ 0x39

def takeDigits : Bytes → Bytes × Bytes
  | c :: r => if isDigit c then let (d, r') := takeDigits r; (c :: d, r') else ([], c :: r)
  | [] => ([], [])

/-- a string body up to the closing quote: printable ASCII only; a backslash or a non-ASCII byte is outside the
modelled subset, a control character is an error (as in encoding/json). -/
def strBody : Bytes → Parse Bytes
  | [] => .err
  | c :: r =>
    if c = 0x22 then .ok [] r
    else if c = 0x5c ∨ c.toNat ≥ 0x7f then .unsupported
    else if c.toNat < 0x20 then .err
    else
      match strBody r with
      | .ok s r' => .ok (c :: s) r'
      | .err => .err
      | .unsupported => .unsupported

/-- a number literal: -?(0|[1-9][0-9]*)(\.[0-9]+)?([eE][+-]?[0-9]+)? -/
def number (b : Bytes) : Parse Bytes :=
  let (sign, r0) := match b with
    | 0x2d :: r => ([(0x2d : UInt8)], r)
    | r => ([], r)
  let (ip, r1) := takeDigits r0
  if ip.isEmpty then .err
  else if ip.length > 1 ∧ ip.head? = some 0x30 then
    -- "01": the literal ends after the 0; what follows is not a valid continuation of the enclosing value
    .err
  else
    let (frac, r2) : Bytes × Bytes := match r1 with
      | 0x2e :: r => let (d, r') := takeDigits r; (0x2e :: d, r')
      | r => ([], r)
    if frac = [0x2e] then .err
    else
      let (ex, r3) : Bytes × Bytes := match r2 with
        | e :: r =>
          if e = 0x65 ∨ e = 0x45 then
            let (sg, r') : Bytes × Bytes := match r with
              | s :: t => if s = 0x2b ∨ s = 0x2d then ([s], t) else ([], s :: t)
              | [] => ([], [])
            let (d, r'') := takeDigits r'
            (e :: sg ++ d, r'')
          else ([], e :: r)
        | [] => ([], [])
      if ex.length > 0 ∧ ¬ (ex.getLast?.map isDigit = some true) then .err
      else .ok (sign ++ ip ++ frac ++ ex) r3

mutual
def value : Nat → Bytes → Parse JVal
  | 0, _ => .unsupported
  | fuel+1, b =>
    match skipWs b with
    | [] => .err
    | c :: r =>
      if c = 0x7b then members fuel (skipWs r) [] true
      else if c = 0x5b then elements fuel (skipWs r) [] true
      else if c = 0x22 then
        match strBody r with
        | .ok s r' => .ok (.str s) r'
        | .err => .err
        | .unsupported => .unsupported
      else if c = 0x74 then (if r.take 3 = [0x72, 0x75, 0x65] then .ok (.bool true) (r.drop 3) else .err)
      else if c = 0x66 then (if r.take 4 = [0x61, 0x6c, 0x73, 0x65] then .ok (.bool false) (r.drop 4) else .err)
      else if c = 0x6e then (if r.take 3 = [0x75, 0x6c, 0x6c] then .ok .null (r.drop 3) else .err)
      else if c = 0x2d ∨ isDigit c then
        match number (c :: r) with
        | .ok t r' => .ok (.num t) r'
        | .err => .err
        | .unsupported => .unsupported
      else if c.toNat ≥ 0x7f then .unsupported
      else .err
/-- array elements; `first` = nothing read yet (a `]` is allowed only then or after an element). -/
def elements : Nat → Bytes → List JVal → Bool → Parse JVal
  | 0, _, _, _ => .unsupported
  | fuel+1, b, acc, first =>
    match b with
    | [] => .err
    | c :: r =>
      if c = 0x5d ∧ first then .ok (.arr acc.reverse) r
      else
        match value fuel (c :: r) with
        | .err => .err
        | .unsupported => .unsupported
        | .ok v r' =>
          match skipWs r' with
          | 0x2c :: r'' => elements fuel (skipWs r'') (v :: acc) false
          | 0x5d :: r'' => .ok (.arr (v :: acc).reverse) r''
          | _ => .err
def members : Nat → Bytes → List (Bytes × JVal) → Bool → Parse JVal
  | 0, _, _, _ => .unsupported
  | fuel+1, b, acc, first =>
    match b with
    | [] => .err
    | c :: r =>
      if c = 0x7d ∧ first then .ok (.obj acc.reverse) r
      else if c ≠ 0x22 then (if c.toNat ≥ 0x7f then .unsupported else .err)
      else
        match strBody r with
        | .err => .err
        | .unsupported => .unsupported
        | .ok k r₁ =>
          match skipWs r₁ with
          | 0x3a :: r₂ =>
            match value fuel r₂ with
            | .err => .err
            | .unsupported => .unsupported
            | .ok v r₃ =>
              match skipWs r₃ with
              | 0x2c :: r₄ => members fuel (skipWs r₄) ((k, v) :: acc) false
              | 0x7d :: r₄ => .ok (.obj ((k, v) :: acc).reverse) r₄
              | _ => .err
          | _ => .err
end

/-- one JSON value and nothing but white space after it (`json.Unmarshal`). -/
def parse (b : Bytes) : Parse JVal :=
  match value (2 * b.length + 4) b with
  | .ok v r => if (skipWs r).isEmpty then .ok v [] else .err
  | .err => .err
  | .unsupported => .unsupported

end Json

/-! ### ToJSONWithTypes -/

def typeName : Item → Bytes
  | .byteArray _ => ([0x42, 0x79, 0x74, 0x65, 0x53, 0x74, 0x72, 0x69, 0x6e, 0x67] : Bytes)
  | .buffer _ => ([0x42, 0x75, 0x66, 0x66, 0x65, 0x72] : Bytes)
  | .bool _ => ([0x42, 0x6f, 0x6f, 0x6c, 0x65, 0x61, 0x6e] : Bytes)
  | .int _ => ([0x49, 0x6e, 0x74, 0x65, 0x67, 0x65, 0x72] : Bytes)
  | .array _ => ([0x41, 0x72, 0x72, 0x61, 0x79] : Bytes)
  | .struct _ => ([0x53, 0x74, 0x72, 0x75, 0x63, 0x74] : Bytes)
  | .map _ => ([0x4d, 0x61, 0x70] : Bytes)
  | .null => ([0x41, 0x6e, 0x79] : Bytes)
  | .interop => ([0x49, 0x6e, 0x74, 0x65, 0x72, 0x6f, 0x70, 0x49, 0x6e, 0x74, 0x65, 0x72, 0x66, 0x61, 0x63, 0x65] : Bytes)
  | .pointer _ => ([0x50, 0x6f, 0x69, 0x6e, 0x74, 0x65, 0x72] : Bytes)
  | .invalid => ([0x49, 0x4e, 0x56, 0x41, 0x4c, 0x49, 0x44] : Bytes)

def quote (s : Bytes) : Bytes := 0x22 :: s ++ [0x22]

mutual
/-- the text `toJSONWithTypes` appends for an item (json.go:316-427); `.invalid` (a nil item) has none. -/
def jsonTypedText : Item → Bytes
  | .null => ([0x7b, 0x22, 0x74, 0x79, 0x70, 0x65, 0x22, 0x3a, 0x22, 0x41, 0x6e, 0x79, 0x22, 0x7d] : Bytes)
  | .interop => ([0x7b, 0x22, 0x74, 0x79, 0x70, 0x65, 0x22, 0x3a, 0x22, 0x49, 0x6e, 0x74, 0x65, 0x72, 0x6f, 0x70, 0x49, 0x6e, 0x74, 0x65, 0x72, 0x66, 0x61, 0x63, 0x65, 0x22, 0x7d] : Bytes)
  | .invalid => []
  | .bool b => ([0x7b, 0x22, 0x74, 0x79, 0x70, 0x65, 0x22, 0x3a, 0x22, 0x42, 0x6f, 0x6f, 0x6c, 0x65, 0x61, 0x6e, 0x22, 0x2c, 0x22, 0x76, 0x61, 0x6c, 0x75, 0x65, 0x22, 0x3a] : Bytes) ++ (if b then [0x74, 0x72, 0x75, 0x65] else [0x66, 0x61, 0x6c, 0x73, 0x65]) ++ [0x7d]
  | .byteArray b => ([0x7b, 0x22, 0x74, 0x79, 0x70, 0x65, 0x22, 0x3a, 0x22, 0x42, 0x79, 0x74, 0x65, 0x53, 0x74, 0x72, 0x69, 0x6e, 0x67, 0x22, 0x2c, 0x22, 0x76, 0x61, 0x6c, 0x75, 0x65, 0x22, 0x3a] : Bytes) ++ quote (B64.encode b) ++ [0x7d]
  | .buffer b => ([0x7b, 0x22, 0x74, 0x79, 0x70, 0x65, 0x22, 0x3a, 0x22, 0x42, 0x75, 0x66, 0x66, 0x65, 0x72, 0x22, 0x2c, 0x22, 0x76, 0x61, 0x6c, 0x75, 0x65, 0x22, 0x3a] : Bytes) ++ quote (B64.encode b) ++ [0x7d]
  | .int c => ([0x7b, 0x22, 0x74, 0x79, 0x70, 0x65, 0x22, 0x3a, 0x22, 0x49, 0x6e, 0x74, 0x65, 0x67, 0x65, 0x72, 0x22, 0x2c, 0x22, 0x76, 0x61, 0x6c, 0x75, 0x65, 0x22, 0x3a] : Bytes) ++ quote (showInt (Item.intFromLE c)) ++ [0x7d]
  | .pointer p => ([0x7b, 0x22, 0x74, 0x79, 0x70, 0x65, 0x22, 0x3a, 0x22, 0x50, 0x6f, 0x69, 0x6e, 0x74, 0x65, 0x72, 0x22, 0x2c, 0x22, 0x76, 0x61, 0x6c, 0x75, 0x65, 0x22, 0x3a] : Bytes) ++ showInt p ++ [0x7d]
  | .array l => ([0x7b, 0x22, 0x74, 0x79, 0x70, 0x65, 0x22, 0x3a, 0x22, 0x41, 0x72, 0x72, 0x61, 0x79, 0x22, 0x2c, 0x22, 0x76, 0x61, 0x6c, 0x75, 0x65, 0x22, 0x3a, 0x5b] : Bytes) ++ jsonTypedList l ++ [0x5d, 0x7d]
  | .struct l => ([0x7b, 0x22, 0x74, 0x79, 0x70, 0x65, 0x22, 0x3a, 0x22, 0x53, 0x74, 0x72, 0x75, 0x63, 0x74, 0x22, 0x2c, 0x22, 0x76, 0x61, 0x6c, 0x75, 0x65, 0x22, 0x3a, 0x5b] : Bytes) ++ jsonTypedList l ++ [0x5d, 0x7d]
  | .map m => ([0x7b, 0x22, 0x74, 0x79, 0x70, 0x65, 0x22, 0x3a, 0x22, 0x4d, 0x61, 0x70, 0x22, 0x2c, 0x22, 0x76, 0x61, 0x6c, 0x75, 0x65, 0x22, 0x3a, 0x5b] : Bytes) ++ jsonTypedPairs m ++ [0x5d, 0x7d]
def jsonTypedList : List Item → Bytes
  | [] => []
  | [x] => jsonTypedText x
  | x :: y :: rest => jsonTypedText x ++ [0x2c] ++ jsonTypedList (y :: rest)
def jsonTypedPairs : List (Item × Item) → Bytes
  | [] => []
  | [(k, v)] => ([0x7b, 0x22, 0x6b, 0x65, 0x79, 0x22, 0x3a] : Bytes) ++ jsonTypedText k ++ ([0x2c, 0x22, 0x76, 0x61, 0x6c, 0x75, 0x65, 0x22, 0x3a] : Bytes) ++ jsonTypedText v ++ [0x7d]
  | (k, v) :: p :: rest =>
    ([0x7b, 0x22, 0x6b, 0x65, 0x79, 0x22, 0x3a] : Bytes) ++ jsonTypedText k ++ ([0x2c, 0x22, 0x76, 0x61, 0x6c, 0x75, 0x65, 0x22, 0x3a] : Bytes) ++ jsonTypedText v ++ [0x7d, 0x2c]
      ++ jsonTypedPairs (p :: rest)
end

mutual
/-- a nil item anywhere makes the encoder fail (`ErrUnserializable: nil`). -/
def hasNil : Item → Bool
  | .invalid => true
  | .array l => hasNilList l
  | .struct l => hasNilList l
  | .map m => hasNilPairs m
  | _ => false
def hasNilList : List Item → Bool
  | [] => false
  | x :: xs => hasNil x || hasNilList xs
def hasNilPairs : List (Item × Item) → Bool
  | [] => false
  | (k, v) :: rest => hasNil k || hasNil v || hasNilPairs rest
end

/-- `ToJSONWithTypes` on a tree: every append is covered by a later size check, so it fails exactly when the text
is longer than MaxSize (or a nil item occurs). -/
def toJSONTyped (v : Item) : Option Bytes :=
  if hasNil v then none
  else if (jsonTypedText v).length > WireLimits.stackMaxSize then none
  else some (jsonTypedText v)

/-! ### FromJSONWithTypes on a JSON value -/

def lower (c : UInt8) : UInt8 := if 0x41 ≤ c.toNat ∧ c.toNat ≤ 0x5a then c + 0x20 else c

/-- encoding/json matches struct fields case-insensitively (ASCII names). -/
def keyIs (name : Bytes) (k : Bytes) : Bool := k.map lower == name

/-- the `Type string` field after all members were assigned in order: a string sets it, `null` leaves it, anything
else is a type error. -/
def typeField : List (Bytes × JVal) → Bytes → Option Bytes
  | [], cur => some cur
  | (k, v) :: rest, cur =>
    if keyIs [0x74, 0x79, 0x70, 0x65] k then
      match v with
      | .str s => typeField rest s
      | .null => typeField rest cur
      | _ => none
    else typeField rest cur

/-- a `json.RawMessage` field: the last member with that name (`none` = absent). -/
def rawField (name : Bytes) : List (Bytes × JVal) → Option JVal → Option JVal
  | [], cur => cur
  | (k, v) :: rest, cur => if keyIs name k then rawField name rest (some v) else rawField name rest cur

/-- `json.Unmarshal(raw, &int)`: an integer literal within int64; `null` is 0. -/
def asInt : Option JVal → Option Int
  | some .null => some 0
  | some (.num t) =>
    match parseBigInt t with
    | some n =>
      if t.head? = some 0x2b then none
      else if decide (-((2 ^ 63 : Nat) : Int) ≤ n) && decide (n < ((2 ^ 63 : Nat) : Int)) then some n else none
    | none => none
  | _ => none

def asBool : Option JVal → Option Bool
  | some .null => some false
  | some (.bool b) => some b
  | _ => none

def asString : Option JVal → Option Bytes
  | some .null => some []
  | some (.str s) => some s
  | _ => none

def asArray : Option JVal → Option (List JVal)
  | some .null => some []
  | some (.arr l) => some l
  | _ => none

/-- `[]rawMapElement`: every element an object (or null: the zero element, whose key is absent). -/
def asMapElems : List JVal → Option (List (Option JVal × Option JVal))
  | [] => some []
  | .obj m :: rest => (asMapElems rest).map fun r => (rawField [0x6b, 0x65, 0x79] m none, rawField [0x76, 0x61, 0x6c, 0x75, 0x65] m none) :: r
  | .null :: rest => (asMapElems rest).map fun r => (none, none) :: r
  | _ => none

def mapKeyOk : Item → Bool
  | .bool _ => true
  | .int _ => true
  | .byteArray b => decide (b.length ≤ WireLimits.stackMaxKeySize)
  | _ => false

mutual
/-- `FromJSONWithTypes` (json.go:445-540) on a parsed value; an absent value (`none`) fails in `json.Unmarshal`.
`old` = the rule before fix ea79830 (an integer beyond 256 bits made NewBigInteger panic), kept for the regression
example; the code as it is now is `fromJ false`. -/
def fromJ (old : Bool) : Nat → Option JVal → Out Item
  | 0, _ => .err
  | fuel+1, jv =>
    match jv with
    | some (.obj m) =>
      match typeField m [] with
      | none => .err
      | some t =>
        let val := rawField [0x76, 0x61, 0x6c, 0x75, 0x65] m none
        if t = ([0x41, 0x6e, 0x79] : Bytes) then .ok .null
        else if t = ([0x49, 0x6e, 0x74, 0x65, 0x72, 0x6f, 0x70, 0x49, 0x6e, 0x74, 0x65, 0x72, 0x66, 0x61, 0x63, 0x65] : Bytes) then .ok .interop
        else if t = ([0x50, 0x6f, 0x69, 0x6e, 0x74, 0x65, 0x72] : Bytes) then
          match asInt val with
          | some p => .ok (.pointer p.toNat)
          | none => .err
        else if t = ([0x42, 0x6f, 0x6f, 0x6c, 0x65, 0x61, 0x6e] : Bytes) then
          match asBool val with
          | some b => .ok (.bool b)
          | none => .err
        else if t = ([0x49, 0x6e, 0x74, 0x65, 0x67, 0x65, 0x72] : Bytes) then
          match asString val with
          | none => .err
          | some s =>
            match parseBigInt s with
            | none => .err
            | some n =>
              -- CheckIntegerSize, then NewBigInteger (fix ea79830); before the fix NewBigInteger panicked
              if intFits n then .ok (.int (Item.intToLE n)) else if old then .panic else .err
        else if t = ([0x42, 0x79, 0x74, 0x65, 0x53, 0x74, 0x72, 0x69, 0x6e, 0x67] : Bytes) ∨ t = ([0x42, 0x75, 0x66, 0x66, 0x65, 0x72] : Bytes) then
          match asString val with
          | none => .err
          | some s =>
            match B64.decode s with
            | none => .err
            | some b => .ok (if t = ([0x42, 0x79, 0x74, 0x65, 0x53, 0x74, 0x72, 0x69, 0x6e, 0x67] : Bytes) then .byteArray b else .buffer b)
        else if t = ([0x41, 0x72, 0x72, 0x61, 0x79] : Bytes) ∨ t = ([0x53, 0x74, 0x72, 0x75, 0x63, 0x74] : Bytes) then
          match asArray val with
          | none => .err
          | some l => (fromJList old fuel l).bind fun xs => .ok (if t = ([0x41, 0x72, 0x72, 0x61, 0x79] : Bytes) then .array xs else .struct xs)
        else if t = ([0x4d, 0x61, 0x70] : Bytes) then
          match asArray val with
          | none => .err
          | some l =>
            match asMapElems l with
            | none => .err
            | some es => (fromJPairs old fuel es []).bind fun m => .ok (.map m)
        else .err
    | _ => .err
def fromJList (old : Bool) : Nat → List JVal → Out (List Item)
  | 0, _ => .err
  | _, [] => .ok []
  | fuel+1, x :: xs => (fromJ old fuel (some x)).bind fun v => (fromJList old fuel xs).bind fun vs => .ok (v :: vs)
def fromJPairs (old : Bool) : Nat → List (Option JVal × Option JVal) → List (Item × Item) → Out (List (Item × Item))
  | 0, _, _ => .err
  | _, [], acc => .ok acc
  | fuel+1, (k, v) :: rest, acc =>
    (fromJ old fuel k).bind fun kt =>
      if !mapKeyOk kt then .err
      else (fromJ old fuel v).bind fun vt => fromJPairs old fuel rest (Item.mapAdd acc kt vt)
end

/-- the whole decoder on plain JSON text; `none` = the text is outside the modelled subset. -/
def fromJSONTyped (b : Bytes) : Option (Out Item) :=
  match Json.parse b with
  | .ok v _ => some (fromJ false (b.length + 2) (some v))
  | .err => some .err
  | .unsupported => none

end NeoModel.Wire
