/-
C17 — models of the execution-result wire types (pkg/core/state/notification_event.go, contract_invocation.go):
a stack item as a codec, NotificationEvent, ContractInvocation, AppExecResult. Core Lean only.
-/
import NeoModel.Model.Wire.Tx
import NeoModel.Model.Wire.Item
namespace NeoModel.Wire
open Codec
open NeoModel.Generated

/-! ### a normalising change of representation -/

/-! ### stack items as a codec -/

/-- one stack item with its own counter (stackitem.DecodeBinary / DecodeBinaryProtected). The encoder is the tree
serialisation; slice allocation of the item decoder is bounded by its 2048-item counter (item_dec_bounded) and
is not counted in `alloc`. -/
def itemC (prot : Bool) : Codec Item where
  enc := Item.enc
  dec := Item.decode prot
  size v := (Item.enc v).length
  wf v := Item.wfB prot v = true ∧ Item.count v ≤ WireLimits.stackMaxDeserialized
  alloc _ := 0
  allocK := 0
  allocC := 0

/-! ### notification event -/

def isArrOrStruct : Item → Bool
  | .array _ => true
  | .struct _ => true
  | _ => false

def itemList : Item → List Item
  | .array l => l
  | .struct l => l
  | _ => []

/-- the state of a notification: an Array or a Struct on the wire, always an Array in memory
(notification_event.go:57-70). -/
def stateC : Codec (List Item) :=
  map (refine (itemC false) isArrOrStruct) itemList Item.array

structure Notification where
  scriptHash : Bytes
  name : Bytes
  state : List Item

/-- state.NotificationEvent (notification_event.go:42-70): the name is read with the default cap. -/
def notificationC : Codec Notification :=
  map (seq (fixed 20) (seq (varBytes WireLimits.maxArraySize) stateC))
    (fun q => ⟨q.1, q.2.1, q.2.2⟩) (fun n => (n.scriptHash, n.name, n.state))

/-! ### contract invocation, application execution result -/

structure Invocation where
  hash : Bytes
  method : Bytes
  argCount : Nat
  truncated : Bool
  args : Bytes      -- the serialised arguments ([] when truncated)

/-- state.ContractInvocation (contract_invocation.go:48-73) -/
def invocationC : Codec Invocation :=
  map (bind (seq (fixed 20) (seq (varBytes WireLimits.maxArraySize) (seq (uintLE 4) boolC)))
      (fun p => if p.2.2.2 then const [] else varBytes WireLimits.maxArraySize) 1 WireLimits.maxArraySize)
    (fun q => ⟨q.1.1, q.1.2.1, q.1.2.2.1, q.1.2.2.2, q.2⟩)
    (fun i => ((i.hash, i.method, i.argCount, i.truncated), i.args))

structure ExecResult where
  container : Bytes
  trigger : UInt8
  vmState : Nat          -- without the "has invocations" bit (0x80)
  gas : Nat
  stack : List Item
  events : List Notification
  fault : Bytes
  invocations : List Invocation

/-- everything but the invocations; the VM state byte is still raw (bit 0x80 = invocations follow). -/
def aerHeadC : Codec (Bytes × UInt8 × Nat × Nat × List Item × List Notification × Bytes) :=
  seq (fixed 32) (seq byte (seq (uintLE 1) (seq (uintLE 8)
    (seq (array WireLimits.stackMaxDeserialized WireLimits.slotStackItem (itemC true))
      (seq (array WireLimits.maxArraySize WireLimits.slotNotificationEvent notificationC)
        (varBytes WireLimits.maxArraySize))))))

def aerInvC (raw : Nat) : Codec (List Invocation) :=
  if raw ≥ 128 then array WireLimits.maxArraySize WireLimits.slotContractInvocation invocationC else const []

def aerInvK : Nat := WireLimits.slotContractInvocation + invocationC.allocK
def aerInvCap : Nat := WireLimits.maxArraySize * WireLimits.slotContractInvocation + invocationC.allocC

/-- state.AppExecResult (notification_event.go:78-141): Events and Invocations are read with ReadArray's default
cap (io.MaxArraySize) — the known finding aer-uncapped-array. -/
def aerC : Codec ExecResult :=
  map (bind aerHeadC (fun h => aerInvC h.2.2.1) aerInvK aerInvCap)
    (fun q => ⟨q.1.1, q.1.2.1, q.1.2.2.1 % 128, q.1.2.2.2.1, q.1.2.2.2.2.1, q.1.2.2.2.2.2.1, q.1.2.2.2.2.2.2, q.2⟩)
    (fun a => ((a.container, a.trigger, a.vmState % 128 + (if a.invocations.isEmpty then 0 else 128), a.gas, a.stack,
      a.events, a.fault), a.invocations))

end NeoModel.Wire

