import NeoModel.Model.Wire.Tx
/-
C17 — the JSON (text) form of witness scopes (pkg/core/transaction/witness_scope.go:50-120, after fix b6b23d8): `ScopesFromString`
(used by WitnessScope.UnmarshalJSON, hence by the JSON forms of Signer / Transaction / Block and by the RPC `signers`
parameter) and `scopesToString` (MarshalJSON), as written. Core Lean only.
-/
namespace NeoModel.Wire
open NeoModel.Generated

namespace Scopes

def nNone : Bytes := [0x4e, 0x6f, 0x6e, 0x65]
def nCalledByEntry : Bytes := [0x43, 0x61, 0x6c, 0x6c, 0x65, 0x64, 0x42, 0x79, 0x45, 0x6e, 0x74, 0x72, 0x79]
def nCustomContracts : Bytes :=
  [0x43, 0x75, 0x73, 0x74, 0x6f, 0x6d, 0x43, 0x6f, 0x6e, 0x74, 0x72, 0x61, 0x63, 0x74, 0x73]
def nCustomGroups : Bytes := [0x43, 0x75, 0x73, 0x74, 0x6f, 0x6d, 0x47, 0x72, 0x6f, 0x75, 0x70, 0x73]
def nRules : Bytes := [0x57, 0x69, 0x74, 0x6e, 0x65, 0x73, 0x73, 0x52, 0x75, 0x6c, 0x65, 0x73]   -- "WitnessRules"
def nGlobal : Bytes := [0x47, 0x6c, 0x6f, 0x62, 0x61, 0x6c]

/-- the `dict` of ScopesFromString: exact names only. -/
def lookup (s : Bytes) : Option UInt8 :=
  if s = nGlobal then some (UInt8.ofNat WireLimits.scopeGlobal)
  else if s = nCalledByEntry then some (UInt8.ofNat WireLimits.scopeCalledByEntry)
  else if s = nCustomContracts then some (UInt8.ofNat WireLimits.scopeCustomContracts)
  else if s = nCustomGroups then some (UInt8.ofNat WireLimits.scopeCustomGroups)
  else if s = nRules then some (UInt8.ofNat WireLimits.scopeRules)
  else if s = nNone then some 0
  else none

/-- ASCII white space of `strings.TrimSpace`. -/
def isSpace (c : UInt8) : Bool := c == 0x20 || (0x09 ≤ c.toNat && c.toNat ≤ 0x0d)

def trim (s : Bytes) : Bytes := ((s.dropWhile isSpace).reverse.dropWhile isSpace).reverse

/-- `strings.Split(s, ",")` -/
def split : Bytes → Bytes → List Bytes
  | [], cur => [cur.reverse]
  | c :: r, cur => if c = 0x2c then cur.reverse :: split r [] else split r (c :: cur)

/-- the loop of ScopesFromString (witness_scope.go:60-68, after fix b6b23d8): every named scope is ORed in. -/
def fold : List Bytes → UInt8 → Option UInt8
  | [], acc => some acc
  | p :: rest, acc =>
    match lookup (trim p) with
    | none => none
    | some sc => fold rest (acc ||| sc)

/-- `ScopesFromString` (after fix b6b23d8): whatever the order, `Global` combined with anything else is refused. -/
def fromString (s : Bytes) : Option UInt8 :=
  match fold (split s []) 0 with
  | none => none
  | some r =>
    if r &&& UInt8.ofNat WireLimits.scopeGlobal != 0 && r != UInt8.ofNat WireLimits.scopeGlobal then none else some r

/-- the loop BEFORE fix b6b23d8 (kept for the regression example): a scope after `Global` had to be `Global` again;
nothing stopped `Global` from coming AFTER other scopes. -/
def foldOld : List Bytes → UInt8 → Bool → Option UInt8
  | [], acc, _ => some acc
  | p :: rest, acc, isGlobal =>
    match lookup (trim p) with
    | none => none
    | some sc =>
      if isGlobal && sc != UInt8.ofNat WireLimits.scopeGlobal then none
      else foldOld rest (acc ||| sc) (isGlobal || sc == UInt8.ofNat WireLimits.scopeGlobal)

def fromStringOld (s : Bytes) : Option UInt8 := foldOld (split s []) 0 false

def digits (n : Nat) : Bytes :=
  if n < 10 then [UInt8.ofNat (0x30 + n)]
  else if n < 100 then [UInt8.ofNat (0x30 + n / 10), UInt8.ofNat (0x30 + n % 10)]
  else [UInt8.ofNat (0x30 + n / 100), UInt8.ofNat (0x30 + n / 10 % 10), UInt8.ofNat (0x30 + n % 10)]

/-- `WitnessScope.String()` (stringer): the name of a single known value, else `WitnessScope(N)`. -/
def name (s : UInt8) : Bytes :=
  if s = 0 then nNone
  else if s = UInt8.ofNat WireLimits.scopeCalledByEntry then nCalledByEntry
  else if s = UInt8.ofNat WireLimits.scopeCustomContracts then nCustomContracts
  else if s = UInt8.ofNat WireLimits.scopeCustomGroups then nCustomGroups
  else if s = UInt8.ofNat WireLimits.scopeRules then nRules
  else if s = UInt8.ofNat WireLimits.scopeGlobal then nGlobal
  else [0x57, 0x69, 0x74, 0x6e, 0x65, 0x73, 0x73, 0x53, 0x63, 0x6f, 0x70, 0x65, 0x28] ++ digits s.toNat ++ [0x29]

def appendScope (str : Bytes) (scopes : UInt8) (bit : Nat) : Bytes :=
  if scopes &&& UInt8.ofNat bit != 0 then (if str.isEmpty then [] else str ++ [0x2c, 0x20]) ++ name (UInt8.ofNat bit) else str

/-- `scopesToString` (witness_scope.go:91-101) -/
def toString (s : UInt8) : Bytes :=
  if s &&& UInt8.ofNat WireLimits.scopeGlobal != 0 || s == 0 then name s
  else
    appendScope (appendScope (appendScope (appendScope [] s WireLimits.scopeCalledByEntry) s WireLimits.scopeCustomContracts)
      s WireLimits.scopeCustomGroups) s WireLimits.scopeRules

end Scopes
end NeoModel.Wire
