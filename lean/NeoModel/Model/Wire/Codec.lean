/-
Codec combinators for the wire formats (C17). Core Lean only.

A codec packages what a pkg/io based `EncodeBinary`/`DecodeBinary` pair does:
  enc   : value → bytes                      (BinWriter)
  dec   : bytes → Option (value × rest)      (BinReader; its error is sticky, so the first failing read makes the
                                              whole decode fail and `Option` is exact for accept/reject)
  size  : value → Nat                        (io.GetVarSize / Size())
  wf    : value → Prop                       (the values the decoder can produce = the values that round-trip)
  alloc : bytes → Nat                        (bytes of `make` / `reflect.MakeSlice` whose size comes from a decoded
                                              count, requested while decoding the input — success or failure)
`Lawful` is the per-codec obligation (NeoModel/Proofs/WireCodec.lean proves that every combinator preserves it,
so instances follow by composition).
-/
import NeoModel.Model.Wire.VarUint
namespace NeoModel.Wire

structure Codec (α : Type) where
  enc : α → Bytes
  dec : Bytes → Option (α × Bytes)
  size : α → Nat
  wf : α → Prop
  alloc : Bytes → Nat
  /-- allocation bound: `alloc b ≤ allocK * consumed` on success, `≤ allocK * |b| + allocC` on failure -/
  allocK : Nat
  allocC : Nat

structure Codec.Lawful {α : Type} (c : Codec α) : Prop where
  /-- decode (encode v ++ rest) = (v, rest) -/
  roundtrip : ∀ v r, c.wf v → c.dec (c.enc v ++ r) = some (v, r)
  /-- whatever is decoded is a well-formed value (hence re-encodable and stable) -/
  dec_wf : ∀ b v r, c.dec b = some (v, r) → c.wf v
  /-- the rest is a suffix of the input -/
  dec_suffix : ∀ b v r, c.dec b = some (v, r) → ∃ p, b = p ++ r
  /-- reported size = length of the encoding -/
  size_eq : ∀ v, c.wf v → c.size v = (c.enc v).length
  /-- allocation is linear in the consumed input on success … -/
  alloc_ok : ∀ b v r, c.dec b = some (v, r) → c.alloc b ≤ c.allocK * (b.length - r.length)
  /-- … and linear in the input plus one cap-sized constant on failure -/
  alloc_fail : ∀ b, c.dec b = none → c.alloc b ≤ c.allocK * b.length + c.allocC

/-- strict consumption: at least one byte is read (makes count-free loops terminate, bounds counts by input). -/
def Codec.Strict {α : Type} (c : Codec α) : Prop :=
  ∀ b v r, c.dec b = some (v, r) → r.length < b.length

namespace Codec
variable {α β : Type}

/-! ### generic consequences (proved once) -/

/-- canonical input: the bytes are exactly the encoding of the decoded value followed by the rest. -/
def canonical (c : Codec α) (b : Bytes) : Prop :=
  ∃ v r, c.dec b = some (v, r) ∧ b = c.enc v ++ r

/-! ### primitives -/

/-- one byte (`ReadB` / `WriteB`) -/
def byte : Codec UInt8 where
  enc v := [v]
  dec
    | [] => none
    | b :: r => some (b, r)
  size _ := 1
  wf _ := True
  alloc _ := 0
  allocK := 0
  allocC := 0

/-- exactly `n` raw bytes (`ReadBytes` into a fixed array: Uint160, Uint256, signatures). No allocation. -/
def fixed (n : Nat) : Codec Bytes where
  enc v := v
  dec b := takeN n b
  size _ := n
  wf v := v.length = n
  alloc _ := 0
  allocK := 0
  allocC := 0

/-- little-endian unsigned integer of `n` bytes (`ReadU16LE`, `ReadU32LE`, `ReadU64LE`). -/
def uintLE (n : Nat) : Codec Nat where
  enc v := leBytes n v
  dec b := (takeN n b).map fun (x, r) => (leVal x, r)
  size _ := n
  wf v := v < 256 ^ n
  alloc _ := 0
  allocK := 0
  allocC := 0

/-! ### var-uint and var-bytes -/

/-- `WriteVarUint` / `ReadVarUint` (the reader accepts non-minimal forms). -/
def varUint : Codec Nat where
  enc v := putVarUint v
  dec b := readVarUint b
  size v := (putVarUint v).length
  wf v := v < 2 ^ 64
  alloc _ := 0
  allocK := 0
  allocC := 0

/-- `ReadVarBytes(max)` / `WriteVarBytes`: the count is compared with `max` before the buffer is made. -/
def varBytes (max : Nat) : Codec Bytes where
  enc v := putVarUint v.length ++ v
  dec b :=
    match readVarUint b with
    | none => none
    | some (n, r) => if n > max then none else takeN n r
  size v := (putVarUint v.length).length + v.length
  wf v := v.length ≤ max ∧ v.length < 2 ^ 64
  alloc b :=
    match readVarUint b with
    | none => 0
    | some (n, _) => if n > max then 0 else n
  allocK := 1
  allocC := max

/-! ### structure: constant, failure, dependent pair, map, refinement -/

/-- a field that is not on the wire (absent optional field): always decodes to `d`. -/
def const (d : α) : Codec α where
  enc _ := []
  dec b := some (d, b)
  size _ := 0
  wf v := v = d
  alloc _ := 0
  allocK := 0
  allocC := 0

/-- the decoder that rejects everything (unknown tag). -/
def fail (_d : α) : Codec α where
  enc _ := []
  dec _ := none
  size _ := 0
  wf _ := False
  alloc _ := 0
  allocK := 0
  allocC := 0

/-- first `c₁`, then a codec chosen by the first value (scope bits select the arrays of a signer, the type
byte selects the body of an attribute …). `K`/`C` bound the allocation constants of every `f a`. -/
def bind (c₁ : Codec α) (f : α → Codec β) (K C : Nat) : Codec (α × β) where
  enc p := c₁.enc p.1 ++ (f p.1).enc p.2
  dec b :=
    match c₁.dec b with
    | none => none
    | some (a, r) =>
      match (f a).dec r with
      | none => none
      | some (x, r') => some ((a, x), r')
  size p := c₁.size p.1 + (f p.1).size p.2
  wf p := c₁.wf p.1 ∧ (f p.1).wf p.2
  alloc b :=
    c₁.alloc b + (match c₁.dec b with
      | none => 0
      | some (a, r) => (f a).alloc r)
  allocK := Nat.max c₁.allocK K
  allocC := Nat.max c₁.allocC C

/-- two fields in sequence. -/
def seq (c₁ : Codec α) (c₂ : Codec β) : Codec (α × β) := bind c₁ (fun _ => c₂) c₂.allocK c₂.allocC

/-- change of representation (tuple ↔ structure, constructor of a sum type with a junk inverse). -/
def map (c : Codec α) (f : α → β) (g : β → α) : Codec β where
  enc v := c.enc (g v)
  dec b := (c.dec b).map fun (a, r) => (f a, r)
  size v := c.size (g v)
  wf v := c.wf (g v) ∧ f (g v) = v
  alloc := c.alloc
  allocK := c.allocK
  allocC := c.allocC

/-- a validity check after decoding (`if … { br.Err = … }`). -/
def refine (c : Codec α) (p : α → Bool) : Codec α where
  enc := c.enc
  dec b :=
    match c.dec b with
    | none => none
    | some (v, r) => if p v then some (v, r) else none
  size := c.size
  wf v := c.wf v ∧ p v = true
  alloc := c.alloc
  allocK := c.allocK
  allocC := c.allocC

/-! ### sum types: a tag byte selects the codec of the body -/

def tagged (tag : α → UInt8) (br : UInt8 → Codec α) (K C : Nat) : Codec α where
  enc v := tag v :: (br (tag v)).enc v
  dec b :=
    match b with
    | [] => none
    | t :: r =>
      match (br t).dec r with
      | none => none
      | some (v, r') => if tag v = t then some (v, r') else none
  size v := 1 + (br (tag v)).size v
  wf v := (br (tag v)).wf v
  alloc b :=
    match b with
    | [] => 0
    | t :: r => (br t).alloc r
  allocK := K
  allocC := C

/-! ### arrays -/

/-- exactly `n` elements, one after the other (the loop `for i := range l { el.DecodeBinary(r) }`). -/
def decN (c : Codec α) : Nat → Bytes → Option (List α × Bytes)
  | 0, b => some ([], b)
  | n+1, b =>
    match c.dec b with
    | none => none
    | some (a, r) =>
      match decN c n r with
      | none => none
      | some (as, r') => some (a :: as, r')

def allocN (c : Codec α) : Nat → Bytes → Nat
  | 0, _ => 0
  | n+1, b => c.alloc b + (match c.dec b with
      | none => 0
      | some (_, r) => allocN c n r)

def encL (c : Codec α) : List α → Bytes
  | [] => []
  | a :: as => c.enc a ++ encL c as

def sizeL (c : Codec α) : List α → Nat
  | [] => 0
  | a :: as => c.size a + sizeL c as

/-- `ReadArray(&x, max)`: count, cap check, `reflect.MakeSlice(n)` (n slots of `slot` bytes), then the elements. -/
def array (max slot : Nat) (c : Codec α) : Codec (List α) where
  enc l := putVarUint l.length ++ encL c l
  dec b :=
    match readVarUint b with
    | none => none
    | some (n, r) => if n > max then none else decN c n r
  size l := (putVarUint l.length).length + sizeL c l
  wf l := l.length ≤ max ∧ l.length < 2 ^ 64 ∧ ∀ x ∈ l, c.wf x
  alloc b :=
    match readVarUint b with
    | none => 0
    | some (n, r) => if n > max then 0 else n * slot + allocN c n r
  allocK := slot + c.allocK
  allocC := max * slot + c.allocC

end Codec
end NeoModel.Wire

