/-
C17 — models of the P2P layer (pkg/network/payload, pkg/network/capability, pkg/network/message.go): the fixed-shape
payloads, the P2P notary request, message framing (payload bytes with the size cap; compression is an abstract
partial function) and the payload decoder selected by the command byte. Core Lean only.
-/
import NeoModel.Model.Wire.Tx
import NeoModel.Model.Wire.Cons
namespace NeoModel.Wire
open Codec
open NeoModel.Generated

/-! ### P2P payloads (pkg/network/payload, pkg/network/capability) -/

structure Ping where
  lastBlock : Nat
  timestamp : Nat
  nonce : Nat

def pingC : Codec Ping :=
  map (seq (uintLE 4) (seq (uintLE 4) (uintLE 4))) (fun q => ⟨q.1, q.2.1, q.2.2⟩) (fun p => (p.lastBlock, p.timestamp, p.nonce))

/-- a block count sent as int16: −1 (0xffff) or 1 … max. -/
def countOk (max : Nat) (c : Nat) : Bool := c == 0xffff || (decide (1 ≤ c) && decide (c ≤ max))

structure GetBlocks where
  hashStart : Bytes
  count : Nat

/-- payload.GetBlocks (getblocks.go): any positive int16. -/
def getBlocksC : Codec GetBlocks :=
  map (seq (fixed 32) (refine (uintLE 2) (countOk 0x7fff))) (fun q => ⟨q.1, q.2⟩) (fun g => (g.hashStart, g.count))

structure GetBlockByIndex where
  indexStart : Nat
  count : Nat

/-- payload.GetBlockByIndex (getblockbyindex.go): at most MaxHeadersAllowed. -/
def getBlockByIndexC : Codec GetBlockByIndex :=
  map (seq (uintLE 4) (refine (uintLE 2) (countOk WireLimits.maxHeadersAllowed))) (fun q => ⟨q.1, q.2⟩)
    (fun g => (g.indexStart, g.count))

def hashListC (max : Nat) : Codec (List Bytes) := array max WireLimits.slotUint256 (fixed 32)
structure Inventory where
  typ : UInt8
  hashes : List Bytes

def inventoryC : Codec Inventory :=
  map (seq byte (hashListC WireLimits.maxHashesCount)) (fun q => ⟨q.1, q.2⟩) (fun i => (i.typ, i.hashes))

/-- payload.MPTInventory -/
def mptInventoryC : Codec (List Bytes) := hashListC WireLimits.maxMPTHashesCount
/-- payload.MPTData (mptdata.go): a non-empty list of node byte strings; the count itself has no cap (the loop
stops at the first failing read, the slice grows by append — not counted in `alloc`). -/
def mptDataC : Codec (List Bytes) :=
  refine (array (2 ^ 64 - 1) 0 (varBytes WireLimits.maxArraySize)) (fun l => !l.isEmpty)

/-- payload.Headers (headers.go): 1 … MaxHeadersAllowed headers (more is an error after reading that many). -/
def headersC (sr : Bool) : Codec (List Header) :=
  refine (array WireLimits.maxHeadersAllowed WireLimits.slotHeaderPtr (headerC sr)) (fun l => !l.isEmpty)

/-! capabilities -/

inductive CapData where
  | server (port : Nat)
  | node (startHeight : Nat)
  | flag                   -- Archival / DisableCompression: one zero byte
  | unknown (data : Bytes)

structure Capability where
  typ : UInt8
  data : CapData

def capBody (t : UInt8) : Codec CapData :=
  if t.toNat = WireLimits.capTCPServer ∨ t.toNat = WireLimits.capWSServer then
    map (uintLE 2) CapData.server (fun d => match d with | .server p => p | _ => 0)
  else if t.toNat = WireLimits.capFullNode then
    map (uintLE 4) CapData.node (fun d => match d with | .node h => h | _ => 0)
  else if t.toNat = WireLimits.capArchivalNode ∨ t.toNat = WireLimits.capDisableCompression then
    map (refine byte (fun z => z == 0)) (fun _ => CapData.flag) (fun _ => 0)
  else
    map (varBytes WireLimits.maxArraySize) CapData.unknown (fun d => match d with | .unknown b => b | _ => [])

/-- capability.Capability (capability.go:84-110) -/
def capabilityC : Codec Capability :=
  tagged Capability.typ (fun t => map (capBody t) (fun d => ⟨t, d⟩) (fun c => c.data)) 1 WireLimits.maxArraySize

/-- the capability types that may appear only once (checkUniqueCapabilities). -/
def capUnique (t : UInt8) : Bool :=
  t.toNat == WireLimits.capTCPServer || t.toNat == WireLimits.capWSServer || t.toNat == WireLimits.capDisableCompression
    || t.toNat == WireLimits.capFullNode || t.toNat == WireLimits.capArchivalNode

/-- capability.Capabilities (capability.go:31-40) -/
def capabilitiesC : Codec (List Capability) :=
  refine (array WireLimits.maxCapabilities WireLimits.slotCapability capabilityC)
    (fun l => nodupB ((l.map (·.typ)).filter capUnique))

structure Version where
  magic : Nat
  version : Nat
  timestamp : Nat
  nonce : Nat
  userAgent : Bytes
  caps : List Capability

/-- payload.Version (version.go:60-78) -/
def versionC : Codec Version :=
  map (seq (uintLE 4) (seq (uintLE 4) (seq (uintLE 4) (seq (uintLE 4)
      (seq (varBytes WireLimits.maxUserAgentLength) capabilitiesC)))))
    (fun q => ⟨q.1, q.2.1, q.2.2.1, q.2.2.2.1, q.2.2.2.2.1, q.2.2.2.2.2⟩)
    (fun v => (v.magic, v.version, v.timestamp, v.nonce, v.userAgent, v.caps))

structure AddressAndTime where
  timestamp : Nat
  ip : Bytes
  caps : List Capability

def addressAndTimeC : Codec AddressAndTime :=
  map (seq (uintLE 4) (seq (fixed 16) capabilitiesC)) (fun q => ⟨q.1, q.2.1, q.2.2⟩) (fun a => (a.timestamp, a.ip, a.caps))

/-- payload.AddressList (address.go:77-87): 1 … MaxAddrsCount. -/
def addressListC : Codec (List AddressAndTime) :=
  refine (array WireLimits.maxAddrsCount WireLimits.slotAddressAndTimePtr addressAndTimeC) (fun l => !l.isEmpty)

structure MerkleBlock where
  header : Header
  hashes : List Bytes     -- as many as the transaction count says
  flags : Bytes

/-- payload.MerkleBlock (merkleblock.go:20-42, after fix 6ed1937): the tx count is compared with
MaxTransactionsPerBlock as a uint64, then it caps the hashes (which must be exactly that many) and the flag bytes. -/
def merkleTailC (n : Nat) : Codec (List Bytes × Bytes) :=
  -- (`min` is the identity here: the count was already compared with the cap; it keeps the bounds uniform)
  let m := Nat.min n WireLimits.maxTransactionsPerBlock
  seq (refine (hashListC m) (fun l => l.length == n)) (varBytes ((m + 7) / 8))

def merkleK : Nat := Nat.max WireLimits.slotUint256 1
def merkleCap : Nat :=
  Nat.max (WireLimits.maxTransactionsPerBlock * WireLimits.slotUint256) ((WireLimits.maxTransactionsPerBlock + 7) / 8)

def merkleBlockC : Codec MerkleBlock :=
  map (bind (seq (headerC false) (refine varUint (fun n => decide (n ≤ WireLimits.maxTransactionsPerBlock))))
      (fun p => merkleTailC p.2) merkleK merkleCap)
    (fun q => ⟨q.1.1, q.2.1, q.2.2⟩) (fun m => ((m.header, m.hashes.length), (m.hashes, m.flags)))

/-! ### P2P notary request (pkg/network/payload/notary_request.go) -/

structure NotaryRequest where
  main : Tx
  fallback : Tx
  witness : Witness

def attrsOf (t : Tx) (typ : Nat) : List Attr := t.body.attrs.filter (fun a => a.typ.toNat == typ)

/-- P2PNotaryRequest.isValid (notary_request.go:92-128); `H` hashes the signed part of the main transaction. -/
def notaryValid (H : Bytes → Bytes) (cv : Curve) (main fb : Tx) : Bool :=
  (match (attrsOf main WireLimits.attrNotaryAssisted).head? with
    | some ⟨_, .notaryAssisted n⟩ => n != 0
    | _ => false)
  && fb.body.signers.length == 2
  && (match fb.witnesses.head? with
    | some w => w.inv.length == 66 && w.ver.isEmpty && w.inv.take 2 == [0x0c, 64]
    | none => false)
  && !(attrsOf fb WireLimits.attrNotValidBefore).isEmpty
  && (match attrsOf fb WireLimits.attrConflicts with
    | [⟨_, .conflicts h⟩] => h == H ((txBodyC cv).enc main.body)
    | _ => false)
  && (match (attrsOf fb WireLimits.attrNotaryAssisted).head? with
    | some ⟨_, .notaryAssisted n⟩ => n == 0
    | _ => false)
  && main.body.vub == fb.body.vub

def notaryRequestC (H : Bytes → Bytes) (cv : Curve) : Codec NotaryRequest :=
  map (seq (refine (seq (txC cv) (txC cv)) (fun p => notaryValid H cv p.1 p.2)) witnessC)
    (fun q => ⟨q.1.1, q.1.2, q.2⟩) (fun r => ((r.main, r.fallback), r.witness))

/-! ### message framing (pkg/network/message.go) -/

/-- the commands that carry no payload. -/
def isNullCmd (c : UInt8) : Bool := c == 0x01 || c == 0x10 || c == 0x25 || c == 0x32   -- Verack, GetAddr, Mempool, FilterClear

structure Frame where
  flags : UInt8
  command : UInt8
  raw : Bytes         -- the payload as sent (compressed when bit 0 of flags is set)

/-- Message.Decode up to the payload bytes (message.go:91-116): an empty payload only for the four null commands,
at most payload.MaxSize bytes, the buffer is made after the length check. -/
def frameC : Codec Frame :=
  map (refine (seq byte (seq byte (varBytes WireLimits.payloadMaxSize))) (fun p => !p.2.2.isEmpty || isNullCmd p.2.1))
    (fun q => ⟨q.1, q.2.1, q.2.2⟩) (fun f => (f.flags, f.command, f.raw))

/-- what a message can carry. -/
inductive P2PPayload where
  | null
  | version (v : Version)
  | addr (l : List AddressAndTime)
  | ping (p : Ping)
  | getBlockByIndex (g : GetBlockByIndex)
  | headers (l : List Header)
  | getBlocks (g : GetBlocks)
  | inventory (i : Inventory)
  | tx (t : Tx)
  | block (b : Block)
  | extensible (e : Extensible)
  | notary (r : NotaryRequest)
  | mptInventory (l : List Bytes)
  | mptData (l : List Bytes)
  | merkleBlock (m : MerkleBlock)

/-- the payload decoder selected by the command byte (message.go:118-185); the boolean tells whether the whole
buffer must be consumed (only CMDTX: NewTransactionFromBytes). -/
def payloadDec (H : Bytes → Bytes) (cv : Curve) (sr : Bool) (cmd : UInt8) (buf : Bytes) : Option P2PPayload :=
  let run {α : Type} (c : Codec α) (f : α → P2PPayload) : Option P2PPayload := (c.dec buf).map fun (v, _) => f v
  if isNullCmd cmd then (if buf.isEmpty then some .null else none)
  else if cmd = 0x00 then run versionC .version
  else if cmd = 0x27 ∨ cmd = 0x28 ∨ cmd = 0x2a then run inventoryC .inventory
  else if cmd = 0x51 then run mptInventoryC .mptInventory
  else if cmd = 0x52 then run mptDataC .mptData
  else if cmd = 0x11 then run addressListC .addr
  else if cmd = 0x2c then run (blockC cv sr) .block
  else if cmd = 0x2e then run extensibleC .extensible
  else if cmd = 0x50 then run (notaryRequestC H cv) .notary
  else if cmd = 0x24 then run getBlocksC .getBlocks
  else if cmd = 0x20 ∨ cmd = 0x29 then run getBlockByIndexC .getBlockByIndex
  else if cmd = 0x21 then run (headersC sr) .headers
  else if cmd = 0x2b then
    match (txC cv).dec buf with
    | some (t, []) => some (.tx t)
    | _ => none
  else if cmd = 0x38 then run merkleBlockC .merkleBlock
  else if cmd = 0x18 ∨ cmd = 0x19 then run pingC .ping
  else none

/-- the canonical payload bytes of a value. -/
def payloadEnc (H : Bytes → Bytes) (cv : Curve) (sr : Bool) : P2PPayload → Bytes
  | .null => []
  | .version v => versionC.enc v
  | .addr l => addressListC.enc l
  | .ping p => pingC.enc p
  | .getBlockByIndex g => getBlockByIndexC.enc g
  | .headers l => (headersC sr).enc l
  | .getBlocks g => getBlocksC.enc g
  | .inventory i => inventoryC.enc i
  | .tx t => (txC cv).enc t
  | .block b => (blockC cv sr).enc b
  | .extensible e => extensibleC.enc e
  | .notary r => (notaryRequestC H cv).enc r
  | .mptInventory l => mptInventoryC.enc l
  | .mptData l => mptDataC.enc l
  | .merkleBlock m => merkleBlockC.enc m

/-- Message.Decode: frame, optional decompression (an abstract partial function), payload. -/
def messageDec (decompress : Bytes → Option Bytes) (H : Bytes → Bytes) (cv : Curve) (sr : Bool) (b : Bytes) :
    Option (UInt8 × P2PPayload × Bytes) :=
  match frameC.dec b with
  | none => none
  | some (f, r) =>
    if f.raw.isEmpty then some (f.command, .null, r)
    else
      match (if f.flags &&& 1 != 0 then decompress f.raw else some f.raw) with
      | none => none
      | some buf => (payloadDec H cv sr f.command buf).map fun p => (f.command, p, r)

/-- Message.Encode of a fresh message (NewMessage): compressed (abstract `compress`) when the payload is over
CompressionMinSize and the type is compressible. `small` commands are never compressed. -/
def messageEnc (compress : Bytes → Bytes) (compressible : UInt8 → Bool) (H : Bytes → Bytes) (cv : Curve) (sr : Bool)
    (cmd : UInt8) (p : P2PPayload) : Bytes :=
  let body := payloadEnc H cv sr p
  if compressible cmd && decide (body.length > WireLimits.compressionMinSize) then
    frameC.enc ⟨1, cmd, compress body⟩
  else frameC.enc ⟨0, cmd, body⟩

/-- the command byte fits the payload. -/
def cmdOk (cmd : UInt8) : P2PPayload → Prop
  | .null => isNullCmd cmd = true
  | .version _ => cmd = 0x00
  | .addr _ => cmd = 0x11
  | .ping _ => cmd = 0x18 ∨ cmd = 0x19
  | .getBlockByIndex _ => cmd = 0x20 ∨ cmd = 0x29
  | .headers _ => cmd = 0x21
  | .getBlocks _ => cmd = 0x24
  | .inventory _ => cmd = 0x27 ∨ cmd = 0x28 ∨ cmd = 0x2a
  | .tx _ => cmd = 0x2b
  | .block _ => cmd = 0x2c
  | .extensible _ => cmd = 0x2e
  | .notary _ => cmd = 0x50
  | .mptInventory _ => cmd = 0x51
  | .mptData _ => cmd = 0x52
  | .merkleBlock _ => cmd = 0x38

/-- the payload is a well-formed value of its codec. -/
def payloadWf (H : Bytes → Bytes) (cv : Curve) (sr : Bool) : P2PPayload → Prop
  | .null => True
  | .version v => versionC.wf v
  | .addr l => addressListC.wf l
  | .ping p => pingC.wf p
  | .getBlockByIndex g => getBlockByIndexC.wf g
  | .headers l => (headersC sr).wf l
  | .getBlocks g => getBlocksC.wf g
  | .inventory i => inventoryC.wf i
  | .tx t => (txC cv).wf t
  | .block b => (blockC cv sr).wf b
  | .extensible e => extensibleC.wf e
  | .notary r => (notaryRequestC H cv).wf r
  | .mptInventory l => mptInventoryC.wf l
  | .mptData l => mptDataC.wf l
  | .merkleBlock m => merkleBlockC.wf m

end NeoModel.Wire
