import NeoModel.Model.Wire.ItemJson
import NeoModel.Model.Wire.Manifest
/-
C17 — the untyped JSON form of a stack item (pkg/vm/stackitem/json.go:52-309: `ToJSON` / `FromJSON`), the form
StdLib.jsonSerialize / jsonDeserialize use on chain. `toJSONU` writes the text as the code does (Go's string escaping
with HTML characters escaped, `+` as +, integers within ±MaxAllowedInteger, MaxSize bound). `fromJSONU` reads PLAIN
texts only: printable ASCII without escape sequences, numbers that are plain integer literals of at most 2^53 in
magnitude (exact under both precisions; anything else goes through big.ParseFloat, which is not modelled);
a map key over MaxKeySize bytes is an error (fix d98706e): the item-count rule (`maxCount`: every value and every
map key costs one) and the nesting limit MaxJSONDepth. Tied to the real code; no theorem uses this file.
Core Lean only.
-/
namespace NeoModel.Wire
open NeoModel.Generated

def hexDigit (n : Nat) : UInt8 := if n < 10 then UInt8.ofNat (0x30 + n) else UInt8.ofNat (0x61 + (n - 10))

/-- `encoding/json` string escaping with escapeHTML, then `+` → + (json.go:162-171), on valid UTF-8. -/
def jsonEscape : Bytes → Bytes
  | [] => []
  | 0xe2 :: 0x80 :: 0xa8 :: r => [0x5c, 0x75, 0x32, 0x30, 0x32, 0x38] ++ jsonEscape r   -- U+2028
  | 0xe2 :: 0x80 :: 0xa9 :: r => [0x5c, 0x75, 0x32, 0x30, 0x32, 0x39] ++ jsonEscape r   -- U+2029
  | b :: r =>
    (if b = 0x22 ∨ b = 0x5c then [0x5c, b]
     else if b = 0x08 then [0x5c, 0x62]
     else if b = 0x0c then [0x5c, 0x66]
     else if b = 0x0a then [0x5c, 0x6e]
     else if b = 0x0d then [0x5c, 0x72]
     else if b = 0x09 then [0x5c, 0x74]
     else if b.toNat < 0x20 ∨ b = 0x3c ∨ b = 0x3e ∨ b = 0x26 then
       [0x5c, 0x75, 0x30, 0x30, hexDigit (b.toNat / 16), hexDigit (b.toNat % 16)]
     else if b = 0x2b then [0x5c, 0x75, 0x30, 0x30, 0x32, 0x42]
     else [b]) ++ jsonEscape r

/-- `itemToJSONString`: ToString (TryBytes + UTF-8 check) and quoting. -/
def jsonStringOf (x : Item) : Option Bytes :=
  (Item.toStr x).map fun s => 0x22 :: jsonEscape s ++ [0x22]

mutual
def jsonUText : Item → Option Bytes
  | .null => some [0x6e, 0x75, 0x6c, 0x6c]
  | .bool b => some (if b then [0x74, 0x72, 0x75, 0x65] else [0x66, 0x61, 0x6c, 0x73, 0x65])
  | .int c =>
    let n := Item.intFromLE c
    if n.natAbs > WireManifest.maxAllowedInteger then none else some (showInt n)
  | .byteArray b => jsonStringOf (.byteArray b)
  | .buffer b => jsonStringOf (.buffer b)
  | .array l => (jsonUList l).map fun t => 0x5b :: t ++ [0x5d]
  | .struct l => (jsonUList l).map fun t => 0x5b :: t ++ [0x5d]
  | .map m => (jsonUPairs m).map fun t => 0x7b :: t ++ [0x7d]
  | _ => none
def jsonUList : List Item → Option Bytes
  | [] => some []
  | [x] => jsonUText x
  | x :: y :: rest =>
    match jsonUText x, jsonUList (y :: rest) with
    | some a, some b => some (a ++ [0x2c] ++ b)
    | _, _ => none
def jsonUPairs : List (Item × Item) → Option Bytes
  | [] => some []
  | [(k, v)] =>
    match jsonStringOf k, jsonUText v with
    | some a, some b => some (a ++ [0x3a] ++ b)
    | _, _ => none
  | (k, v) :: p :: rest =>
    match jsonStringOf k, jsonUText v, jsonUPairs (p :: rest) with
    | some a, some b, some c => some (a ++ [0x3a] ++ b ++ [0x2c] ++ c)
    | _, _, _ => none
end

/-- `ToJSON` on a tree. -/
def toJSONU (v : Item) : Option Bytes :=
  match jsonUText v with
  | none => none
  | some t => if t.length > WireLimits.stackMaxSize then none else some t

/-! ### FromJSON on plain texts -/

/-- result of the converter: `none` = outside the modelled subset. -/
abbrev UOut (α : Type) := Option (Option α)

/-- a plain integer literal of magnitude ≤ 2^53 (exact at 53 bits of mantissa). -/
def plainInt (t : Bytes) : Option Int :=
  if t.any (fun c => c = 0x2e ∨ c = 0x65 ∨ c = 0x45) then none
  else
    match parseBigInt t with
    | some n => if n.natAbs ≤ 2 ^ 53 then some n else none
    | none => none

mutual
/-- `decoder.decode` (json.go:200-267) on a parsed value; `cnt` = what is left of `maxCount`, `depth` = open
containers. -/
def convU : Nat → JVal → Nat → Nat → UOut (Item × Nat)
  | 0, _, _, _ => none
  | fuel+1, v, cnt, depth =>
    if cnt = 0 then some none else
    let cnt := cnt - 1
    match v with
    | .null => some (some (.null, cnt))
    | .bool b => some (some (.bool b, cnt))
    | .str s => some (some (.byteArray s, cnt))
    | .num t =>
      match plainInt t with
      | some n => some (some (.int (Item.intToLE n), cnt))
      | none => none
    | .arr l =>
      if depth = WireManifest.maxJSONDepth then some none
      else
        match convUList fuel l cnt (depth + 1) with
        | none => none
        | some none => some none
        | some (some (xs, c)) => some (some (.array xs, c))
    | .obj m =>
      if depth = WireManifest.maxJSONDepth then some none
      else
        match convUPairs fuel m [] cnt (depth + 1) with
        | none => none
        | some none => some none
        | some (some (kv, c)) => some (some (.map kv, c))
def convUList : Nat → List JVal → Nat → Nat → UOut (List Item × Nat)
  | 0, _, _, _ => none
  | _, [], cnt, _ => some (some ([], cnt))
  | fuel+1, x :: xs, cnt, depth =>
    match convU fuel x cnt depth with
    | none => none
    | some none => some none
    | some (some (v, c)) =>
      match convUList fuel xs c depth with
      | none => none
      | some none => some none
      | some (some (vs, c')) => some (some (v :: vs, c'))
/-- `decodeMap` (json.go:283-315, after fix d98706e): a key over MaxKeySize is an error (`IsValidMapKey`, checked
first; before the fix `Map.Add` panicked on it); a repeated property is an error; the key costs one. -/
def convUPairs : Nat → List (Bytes × JVal) → List (Item × Item) → Nat → Nat → UOut (List (Item × Item) × Nat)
  | 0, _, _, _, _ => none
  | _, [], acc, cnt, _ => some (some (acc, cnt))
  | fuel+1, (k, x) :: rest, acc, cnt, depth =>
    if k.length > WireLimits.stackMaxKeySize then some none
    else if acc.any (fun p => Item.keyCode p.1 == some (WireLimits.itemByteArrayT, k)) then some none
    else if cnt = 0 then some none
    else
      match convU fuel x (cnt - 1) depth with
      | none => none
      | some none => some none
      | some (some (v, c)) => convUPairs fuel rest (acc ++ [(.byteArray k, v)]) c depth
end

def fromJSONU (maxCount : Nat) (b : Bytes) : UOut Item :=
  match Json.parse b with
  | .unsupported => none
  | .err => some none
  | .ok v _ =>
    match convU (2 * b.length + 4) v maxCount 0 with
    | none => none
    | some none => some none
    | some (some (it, _)) => some (some it)

end NeoModel.Wire
