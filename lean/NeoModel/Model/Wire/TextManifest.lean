import NeoModel.Model.Wire.Text
import NeoModel.Model.Wire.Manifest
import NeoModel.Model.Wire.ItemDag
/-
Token text of manifests and deployed contracts (the Go harness prints the same text from the real values,
showmanifest.go) and its parser. Driver-side code: not used by any theorem.
-/
namespace NeoModel.Wire
namespace Text

def showInt (n : Int) : String := toString n

def showParam (p : MParam) : Toks := [hx p.name, showInt p.typ]
def showParams (l : List MParam) : Toks := num l.length :: (l.map showParam).flatten
def showMethod (m : MMethod) : Toks :=
  hx m.name :: (showParams m.params ++ [showInt m.ret, showInt m.offset, if m.safe then "1" else "0"])
def showEvent (e : MEvent) : Toks := hx e.name :: showParams e.params
def showDesc : PermDesc → Toks
  | .wildcard => ["w"]
  | .hash h => ["h", hx h]
  | .group k => ["g", hx k]
def showPerm (p : MPerm) : Toks :=
  showDesc p.contract ++ (match p.methods with
    | none => ["*"]
    | some l => num l.length :: l.map hx)
def showGroup (g : MGroup) : Toks := [hx g.key, hx g.sig]

/-- the last two tokens are the raw Extra and what `extraToStackItem` makes of it (`norm`, supplied with the op). -/
def showManifest (norm : Bytes → Bytes) (m : Manifest) : Toks :=
  [hx m.name, num m.groups.length] ++ (m.groups.map showGroup).flatten
    ++ [num m.standards.length] ++ m.standards.map hx
    ++ [num m.methods.length] ++ (m.methods.map showMethod).flatten
    ++ [num m.events.length] ++ (m.events.map showEvent).flatten
    ++ [num m.perms.length] ++ (m.perms.map showPerm).flatten
    ++ (match m.trusts with
      | none => ["*"]
      | some l => num l.length :: (l.map showDesc).flatten)
    ++ [hx m.extra, hx (norm m.extra)]

def showContract (norm : Bytes → Bytes) (c : Contract) : Toks :=
  [showInt c.id, num c.updateCounter, hx c.hash] ++ showNef c.nef ++ showManifest norm c.manifest

def pInt : P Int
  | t :: r => t.toInt?.map (·, r)
  | [] => none

def pParam : P MParam := fun ts => (pHex ts).bind fun (n, r) => (pInt r).map fun (t, r) => (⟨n, t⟩, r)

def pMethod : P MMethod := fun ts =>
  (pHex ts).bind fun (n, r) => (pCounted pParam r).bind fun (ps, r) => (pInt r).bind fun (rt, r) =>
    (pInt r).bind fun (off, r) => (pNum r).map fun (s, r) => (⟨n, ps, rt, off, s != 0⟩, r)

def pEvent : P MEvent := fun ts => (pHex ts).bind fun (n, r) => (pCounted pParam r).map fun (ps, r) => (⟨n, ps⟩, r)

def pDesc : P PermDesc
  | "w" :: r => some (.wildcard, r)
  | "h" :: r => (pHex r).map fun (h, r) => (.hash h, r)
  | "g" :: r => (pHex r).map fun (k, r) => (.group k, r)
  | _ => none

def pPerm : P MPerm := fun ts =>
  (pDesc ts).bind fun (d, r) =>
    match r with
    | "*" :: r' => some (⟨d, none⟩, r')
    | _ => (pCounted pHex r).map fun (l, r') => (⟨d, some l⟩, r')

def pGroup : P MGroup := fun ts => (pHex ts).bind fun (k, r) => (pHex r).map fun (s, r) => (⟨k, s⟩, r)

def pTrusts : P (Option (List PermDesc))
  | "*" :: r' => some (none, r')
  | r => (pCounted pDesc r).map fun (l, r') => (some l, r')

/-- the parsed manifest and the normalised Extra that came with it. -/
def pManifest : P (Manifest × Bytes) := fun ts =>
  (pHex ts).bind fun (name, r) => (pCounted pGroup r).bind fun (gs, r) => (pCounted pHex r).bind fun (ss, r) =>
  (pCounted pMethod r).bind fun (ms, r) => (pCounted pEvent r).bind fun (es, r) => (pCounted pPerm r).bind fun (ps, r) =>
  (pTrusts r).bind fun (tr, r) =>
  (pHex r).bind fun (ex, r) => (pHex r).map fun (nx, r) => ((⟨name, gs, ss, ms, es, ps, tr, ex⟩, nx), r)

def pContract : P (Contract × Bytes) := fun ts =>
  (pInt ts).bind fun (id, r) => (pNum r).bind fun (uc, r) => (pHex r).bind fun (h, r) => (pNef r).bind fun (n, r) =>
    (pManifest r).map fun ((m, nx), r) => ((⟨id, uc, h, n, m⟩, nx), r)

/-! item graphs (stack items with shared compounds): `<n> node… root`, node = arr|struct k child… | map k (child child)…,
child = ref <id> | a primitive in the text of `showItem` -/

def primOfItem : Item → Option Prim
  | .byteArray b => some (.byteArray b)
  | .buffer b => some (.buffer b)
  | .bool b => some (.bool b)
  | .int c => some (.int c)
  | .null => some .null
  | .interop => some .interop
  | .pointer p => some (.pointer p)
  | .invalid => some .invalid
  | _ => none

def pGItem : P GItem
  | "ref" :: r => (pNum r).map fun (i, r') => (.ref i, r')
  | ts => (pItem ts).bind fun (v, r) => (primOfItem v).map fun p => (.prim p, r)

def pGComp : P GComp
  | "arr" :: r => (pCounted pGItem r).map fun (l, r') => (.array l, r')
  | "struct" :: r => (pCounted pGItem r).map fun (l, r') => (.struct l, r')
  | "map" :: r => (pCounted (fun ts => (pGItem ts).bind fun (k, r1) => (pGItem r1).map fun (v, r2) => ((k, v), r2)) r).map
      fun (m, r') => (.map m, r')
  | _ => none

def pGraph : P (Graph × GItem) := fun ts =>
  (pCounted pGComp ts).bind fun (g, r) => (pGItem r).map fun (root, r') => ((g, root), r')

end Text
end NeoModel.Wire
