import NeoModel.Model.Wire.Codec
import NeoModel.Generated.WireLimits
/-
C17 — model of the MPT node wire format (pkg/core/mpt/{base,branch,extension,leaf,hash,empty}.go).
The decoder accepts children written inline (a full node with its type byte) up to depth maxPathLength; the
encoder always writes a child as a reference (`03 ‖ hash` or `04` for empty), so a node read with inline children is
re-encoded in "flat" form with the same hash. Core Lean only.
-/
namespace NeoModel.Wire
open NeoModel.Generated

inductive Node where
  | branch (cs : List Node)
  | ext (key : Bytes) (next : Node)
  | leaf (v : Bytes)
  | hash (h : Bytes)
  | empty

namespace Node

/-- `n` nodes in sequence with decoder `f` (the 17 children of a branch). -/
def decListWith (f : Bytes → Option (Node × Bytes)) : Nat → Bytes → Option (List Node × Bytes)
  | 0, b => some ([], b)
  | n+1, b =>
    match f b with
    | none => none
    | some (x, r) =>
      match decListWith f n r with
      | none => none
      | some (xs, r') => some (x :: xs, r')

/-- `DecodeNodeWithType(r, depth)` (base.go:97-127); `fuel` only makes the recursion structural
(`fuel = maxPathLength + 2 − depth` is never the reason of a failure). -/
def decNode : Nat → Nat → Bytes → Option (Node × Bytes)
  | 0, _, _ => none
  | fuel+1, depth, b =>
    if depth > WireLimits.mptMaxPathLength then none else
    match b with
    | [] => none
    | t :: r =>
      if t.toNat = WireLimits.mptBranchT then
        (decListWith (decNode fuel (depth + 1)) WireLimits.mptChildrenCount r).map fun (cs, r') => (.branch cs, r')
      else if t.toNat = WireLimits.mptExtensionT then
        match readVarBytes WireLimits.mptMaxPathLength r with
        | none => none
        | some (k, r') => (decNode fuel (depth + 1) r').map fun (n, r'') => (.ext k n, r'')
      else if t.toNat = WireLimits.mptLeafT then
        (readVarBytes WireLimits.mptMaxValueLength r).map fun (v, r') => (.leaf v, r')
      else if t.toNat = WireLimits.mptHashT then
        (takeN 32 r).map fun (h, r') => (.hash h, r')
      else if t.toNat = WireLimits.mptEmptyT then some (.empty, r)
      else none

/-- NodeObject.DecodeBinary: depth 0. -/
def decode (b : Bytes) : Option (Node × Bytes) := decNode (WireLimits.mptMaxPathLength + 2) 0 b

mutual
/-- `encodeNodeWithType` (base.go:89-93) with `H` = hash.DoubleSha256. -/
def enc (H : Bytes → Bytes) : Node → Bytes
  | .branch cs => UInt8.ofNat WireLimits.mptBranchT :: refs H cs
  | .ext k n => UInt8.ofNat WireLimits.mptExtensionT :: (putVarUint k.length ++ k ++ ref H n)
  | .leaf v => UInt8.ofNat WireLimits.mptLeafT :: (putVarUint v.length ++ v)
  | .hash h => UInt8.ofNat WireLimits.mptHashT :: h
  | .empty => [UInt8.ofNat WireLimits.mptEmptyT]
/-- `encodeBinaryAsChild` (base.go:79-87): empty marker or hash reference. -/
def ref (H : Bytes → Bytes) : Node → Bytes
  | .empty => [UInt8.ofNat WireLimits.mptEmptyT]
  | .hash h => UInt8.ofNat WireLimits.mptHashT :: h
  | .branch cs => UInt8.ofNat WireLimits.mptHashT :: H (UInt8.ofNat WireLimits.mptBranchT :: refs H cs)
  | .ext k n => UInt8.ofNat WireLimits.mptHashT :: H (UInt8.ofNat WireLimits.mptExtensionT :: (putVarUint k.length ++ k ++ ref H n))
  | .leaf v => UInt8.ofNat WireLimits.mptHashT :: H (UInt8.ofNat WireLimits.mptLeafT :: (putVarUint v.length ++ v))
def refs (H : Bytes → Bytes) : List Node → Bytes
  | [] => []
  | c :: cs => ref H c ++ refs H cs
end

/-- Node.Hash(): the stored hash of a hash node, H of the bytes otherwise (empty has none). -/
def hashOf (H : Bytes → Bytes) : Node → Option Bytes
  | .hash h => some h
  | .empty => none
  | n => some (H (enc H n))

/-- the form the encoder writes: children replaced by references. -/
def asRef (H : Bytes → Bytes) : Node → Node
  | .empty => .empty
  | .hash h => .hash h
  | n => .hash (H (enc H n))

def flatten (H : Bytes → Bytes) : Node → Node
  | .branch cs => .branch (cs.map (asRef H))
  | .ext k n => .ext k (asRef H n)
  | n => n

/-- a child the encoder can reference: a hash node carries 32 bytes. -/
def childOK : Node → Prop
  | .hash h => h.length = 32
  | _ => True

/-- the size caps of the decoder, at the top level of a node. -/
def WF : Node → Prop
  | .branch cs => cs.length = WireLimits.mptChildrenCount ∧ ∀ c ∈ cs, childOK c
  | .ext k n => k.length ≤ WireLimits.mptMaxPathLength ∧ childOK n
  | .leaf v => v.length ≤ WireLimits.mptMaxValueLength
  | .hash h => h.length = 32
  | .empty => True

end Node
end NeoModel.Wire
