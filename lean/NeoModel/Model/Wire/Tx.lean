/-
C17 — models of the transaction-level wire types, written with the codec combinators of Codec.lean:
witness, public key, witness condition (depth-bounded), witness rule, signer, attribute, transaction
(with its two hashing paths), header, block, state root, extensible payload. Each definition mirrors one
EncodeBinary/DecodeBinary pair of /repo (file:line in the doc comments); caps come from Generated/WireLimits.lean.
Core Lean only.
-/
import NeoModel.Model.Wire.Codec
import NeoModel.Generated.WireLimits
namespace NeoModel.Wire
open Codec
open NeoModel.Generated

/-! ### small primitives -/

/-- `ReadBool` / `WriteBool`: any non-zero byte reads as true, true is written as 1. -/
def boolC : Codec Bool where
  enc b := [if b then 1 else 0]
  dec
    | [] => none
    | x :: r => some (x != 0, r)
  size _ := 1
  wf _ := True
  alloc _ := 0
  allocK := 0
  allocC := 0

/-- The curve checks of keys.PublicKey.DecodeBinary (crypto/elliptic is not modelled): `validC k` = the 33 bytes
`02|03 ‖ X` decompress to a point of P-256 with X < P; `validU x y` = (X, Y) is on the curve, both < P. -/
structure Curve where
  validC : Bytes → Bool
  validU : Bytes → Bytes → Bool

/-- compressed form of a point given by its big-endian coordinates. -/
def compressKey (x y : Bytes) : Bytes :=
  (if (y.getLast?.getD 0) % 2 = 1 then 3 else 2) :: x

/-- the only fact about the curve the proofs use: compressing a valid point gives a valid compressed key. -/
def Curve.Sound (cv : Curve) : Prop :=
  ∀ x y, x.length = 32 → y.length = 32 → cv.validU x y = true → cv.validC (compressKey x y) = true

/-- `keys.PublicKey` on the wire: written compressed (33 bytes), read compressed or uncompressed
(publickey.go:279-336). The model value is the compressed form. -/
def pubKeyC (cv : Curve) : Codec Bytes where
  enc k := k
  dec
    | [] => none
    | p :: r =>
      if p = 2 ∨ p = 3 then
        match takeN 32 r with
        | none => none
        | some (x, r') => if cv.validC (p :: x) then some (p :: x, r') else none
      else if p = 4 then
        match takeN 32 r with
        | none => none
        | some (x, r₁) =>
          match takeN 32 r₁ with
          | none => none
          | some (y, r₂) => if cv.validU x y then some (compressKey x y, r₂) else none
      else none
  size _ := 33
  wf k := ∃ p x, k = p :: x ∧ (p = 2 ∨ p = 3) ∧ x.length = 32 ∧ cv.validC k = true
  alloc _ := 0
  allocK := 0
  allocC := 0

/-! ### witness -/

structure Witness where
  inv : Bytes
  ver : Bytes
deriving DecidableEq

/-- transaction.Witness (witness.go:30-40) -/
def witnessC : Codec Witness :=
  map (seq (varBytes WireLimits.maxInvocationScript) (varBytes WireLimits.maxVerificationScript))
    (fun p => ⟨p.1, p.2⟩) (fun w => (w.inv, w.ver))

/-! ### witness conditions (depth-bounded) -/

inductive Cond where
  | bool (b : Bool)
  | not (c : Cond)
  | and (l : List Cond)
  | or (l : List Cond)
  | scriptHash (h : Bytes)
  | group (k : Bytes)
  | calledByEntry
  | calledByContract (h : Bytes)
  | calledByGroup (k : Bytes)

def Cond.tag : Cond → UInt8
  | .bool _ => UInt8.ofNat WireLimits.condBoolean
  | .not _ => UInt8.ofNat WireLimits.condNot
  | .and _ => UInt8.ofNat WireLimits.condAnd
  | .or _ => UInt8.ofNat WireLimits.condOr
  | .scriptHash _ => UInt8.ofNat WireLimits.condScriptHash
  | .group _ => UInt8.ofNat WireLimits.condGroup
  | .calledByEntry => UInt8.ofNat WireLimits.condCalledByEntry
  | .calledByContract _ => UInt8.ofNat WireLimits.condCalledByContract
  | .calledByGroup _ => UInt8.ofNat WireLimits.condCalledByGroup

def condK (d : Nat) : Nat := d * WireLimits.slotCondition
def condCap (d : Nat) : Nat := d * (WireLimits.maxSubitems * WireLimits.slotCondition)

/-- `readArrayOfConditions` (witness_condition.go:242-260): 1..maxSubitems sub-conditions. -/
def condListC (c : Codec Cond) : Codec (List Cond) :=
  refine (array WireLimits.maxSubitems WireLimits.slotCondition c) (fun l => !l.isEmpty)

/-- the body selected by the type byte; `inner` decodes a sub-condition one level deeper. -/
def condBr (cv : Curve) (inner : Codec Cond) (t : UInt8) : Codec Cond :=
  if t = UInt8.ofNat WireLimits.condBoolean then
    map boolC Cond.bool (fun c => match c with | .bool b => b | _ => false)
  else if t = UInt8.ofNat WireLimits.condNot then
    map inner Cond.not (fun c => match c with | .not x => x | _ => .calledByEntry)
  else if t = UInt8.ofNat WireLimits.condAnd then
    map (condListC inner) Cond.and (fun c => match c with | .and l => l | _ => [])
  else if t = UInt8.ofNat WireLimits.condOr then
    map (condListC inner) Cond.or (fun c => match c with | .or l => l | _ => [])
  else if t = UInt8.ofNat WireLimits.condScriptHash then
    map (fixed 20) Cond.scriptHash (fun c => match c with | .scriptHash h => h | _ => [])
  else if t = UInt8.ofNat WireLimits.condGroup then
    map (pubKeyC cv) Cond.group (fun c => match c with | .group k => k | _ => [])
  else if t = UInt8.ofNat WireLimits.condCalledByEntry then
    map (const ()) (fun _ => Cond.calledByEntry) (fun _ => ())
  else if t = UInt8.ofNat WireLimits.condCalledByContract then
    map (fixed 20) Cond.calledByContract (fun c => match c with | .calledByContract h => h | _ => [])
  else if t = UInt8.ofNat WireLimits.condCalledByGroup then
    map (pubKeyC cv) Cond.calledByGroup (fun c => match c with | .calledByGroup k => k | _ => [])
  else fail Cond.calledByEntry

/-- `decodeBinaryCondition(r, maxDepth)` (witness_condition.go:625-664): `d` = remaining nesting levels. -/
def condC (cv : Curve) : Nat → Codec Cond
  | 0 => fail Cond.calledByEntry
  | d+1 => tagged Cond.tag (condBr cv (condC cv d)) (condK (d+1)) (condCap (d+1))

/-! ### witness rule, signer -/

structure Rule where
  action : UInt8
  cond : Cond

/-- transaction.WitnessRule (witness_rule.go:47-60): action must be Deny (0) or Allow (1). -/
def ruleC (cv : Curve) : Codec Rule :=
  map (seq (refine byte (fun a => a ≤ 1)) (condC cv WireLimits.maxConditionNesting))
    (fun p => ⟨p.1, p.2⟩) (fun r => (r.action, r.cond))

structure Signer where
  account : Bytes
  scopes : UInt8
  contracts : List Bytes
  groups : List Bytes
  rules : List Rule

/-- the scope checks of Signer.DecodeBinary (signer.go:52-60): no unknown bit, Global only alone. -/
def scopeOk (s : UInt8) : Bool :=
  let known := UInt8.ofNat (WireLimits.scopeGlobal ||| WireLimits.scopeCalledByEntry ||| WireLimits.scopeCustomContracts
    ||| WireLimits.scopeCustomGroups ||| WireLimits.scopeRules)
  (s &&& ~~~known == 0) && !((s &&& UInt8.ofNat WireLimits.scopeGlobal != 0) && s != UInt8.ofNat WireLimits.scopeGlobal)

def hasScope (s : UInt8) (bit : Nat) : Bool := s &&& UInt8.ofNat bit != 0

/-- an array that is on the wire only when a scope bit is set. -/
def optArray (present : Bool) (slot : Nat) (c : Codec α) : Codec (List α) :=
  if present then array WireLimits.maxSubitems slot c else const []

def signerBody (cv : Curve) (sc : UInt8) : Codec (List Bytes × List Bytes × List Rule) :=
  seq (optArray (hasScope sc WireLimits.scopeCustomContracts) WireLimits.slotUint160 (fixed 20))
    (seq (optArray (hasScope sc WireLimits.scopeCustomGroups) WireLimits.slotPublicKeyPtr (pubKeyC cv))
      (optArray (hasScope sc WireLimits.scopeRules) WireLimits.slotWitnessRule (ruleC cv)))

/-- allocation constants of a signer body with every array present (an upper bound for all scopes). -/
def signerK (cv : Curve) : Nat :=
  Nat.max (WireLimits.slotUint160 + (fixed 20).allocK)
    (Nat.max (WireLimits.slotPublicKeyPtr + (pubKeyC cv).allocK) (WireLimits.slotWitnessRule + (ruleC cv).allocK))
def signerCap (cv : Curve) : Nat :=
  Nat.max (WireLimits.maxSubitems * WireLimits.slotUint160 + (fixed 20).allocC)
    (Nat.max (WireLimits.maxSubitems * WireLimits.slotPublicKeyPtr + (pubKeyC cv).allocC)
      (WireLimits.maxSubitems * WireLimits.slotWitnessRule + (ruleC cv).allocC))

/-- transaction.Signer (signer.go:37-71) -/
def signerC (cv : Curve) : Codec Signer :=
  map (bind (seq (fixed 20) (refine byte scopeOk)) (fun p => signerBody cv p.2) (signerK cv) (signerCap cv))
    (fun q => ⟨q.1.1, q.1.2, q.2.1, q.2.2.1, q.2.2.2⟩)
    (fun s => ((s.account, s.scopes), (s.contracts, (s.groups, s.rules))))

/-! ### transaction attributes -/

inductive AttrVal where
  | none
  | oracle (id : Nat) (code : UInt8) (result : Bytes)
  | notValidBefore (height : Nat)
  | conflicts (hash : Bytes)
  | notaryAssisted (nkeys : UInt8)
  | reserved (value : Bytes)
deriving DecidableEq

structure Attr where
  typ : UInt8
  val : AttrVal
deriving DecidableEq

def oracleCodeOk (c : UInt8) : Bool := WireLimits.oracleCodes.contains c.toNat

/-- transaction.OracleResponse (oracle.go:107-125): valid code; a result only with code Success (0). -/
def oracleC : Codec AttrVal :=
  map (refine (seq (uintLE 8) (seq (refine byte oracleCodeOk) (varBytes WireLimits.maxOracleResultSize)))
      (fun p => p.2.1 == 0 || p.2.2.isEmpty))
    (fun p => .oracle p.1 p.2.1 p.2.2)
    (fun v => match v with | .oracle i c r => (i, c, r) | _ => (0, 0, []))

def isReserved (t : UInt8) : Bool :=
  WireLimits.reservedLowerBound ≤ t.toNat && t.toNat ≤ WireLimits.reservedUpperBound

/-- the value selected by the attribute type (attribute.go:38-62). -/
def attrBody (t : UInt8) : Codec AttrVal :=
  if t = UInt8.ofNat WireLimits.attrHighPriority then
    map (const ()) (fun _ => AttrVal.none) (fun _ => ())
  else if t = UInt8.ofNat WireLimits.attrOracleResponse then oracleC
  else if t = UInt8.ofNat WireLimits.attrNotValidBefore then
    map (uintLE 4) AttrVal.notValidBefore (fun v => match v with | .notValidBefore h => h | _ => 0)
  else if t = UInt8.ofNat WireLimits.attrConflicts then
    map (fixed 32) AttrVal.conflicts (fun v => match v with | .conflicts h => h | _ => [])
  else if t = UInt8.ofNat WireLimits.attrNotaryAssisted then
    map byte AttrVal.notaryAssisted (fun v => match v with | .notaryAssisted n => n | _ => 0)
  else if isReserved t then
    map (varBytes WireLimits.maxArraySize) AttrVal.reserved (fun v => match v with | .reserved x => x | _ => [])
  else fail AttrVal.none

def attrCap : Nat := Nat.max WireLimits.maxOracleResultSize WireLimits.maxArraySize

/-- transaction.Attribute (attribute.go:36-80) -/
def attrC : Codec Attr :=
  tagged Attr.typ (fun t => map (attrBody t) (fun v => ⟨t, v⟩) (fun a => a.val)) 1 attrCap

/-! ### transaction -/

/-- the fields that are hashed (everything but the witnesses). -/
structure TxBody where
  version : UInt8
  nonce : Nat
  sysFee : Nat
  netFee : Nat
  vub : Nat
  signers : List Signer
  attrs : List Attr
  script : Bytes

structure Tx where
  body : TxBody
  witnesses : List Witness

def nodupB [DecidableEq β] : List β → Bool
  | [] => true
  | x :: xs => !xs.contains x && nodupB xs

/-- Transaction.isValid (transaction.go:464-500); fees are int64 on the wire (two's complement u64). -/
def txBodyValid (t : TxBody) : Bool :=
  t.version == 0 && decide (t.sysFee < 2 ^ 63) && decide (t.netFee < 2 ^ 63) && decide (t.sysFee + t.netFee < 2 ^ 63)
    && nodupB (t.signers.map (·.account))
    && nodupB ((t.attrs.map (·.typ)).filter (· != UInt8.ofNat WireLimits.attrConflicts))
    && !t.script.isEmpty

def txFixedC : Codec (UInt8 × Nat × Nat × Nat × Nat) :=
  seq byte (seq (uintLE 4) (seq (uintLE 8) (seq (uintLE 8) (uintLE 4))))

/-- 1..MaxAttributes signers (transaction.go:173-186). -/
def signersC (cv : Curve) : Codec (List Signer) :=
  refine (array WireLimits.maxAttributes WireLimits.slotSigner (signerC cv)) (fun l => !l.isEmpty)

/-- attributes (at most MaxAttributes − nsigners) and script (transaction.go:187-196). -/
def txTailC (ns : Nat) : Codec (List Attr × Bytes) :=
  seq (array (WireLimits.maxAttributes - ns) WireLimits.slotAttribute attrC) (varBytes WireLimits.maxScriptLength)

def txTailK : Nat := Nat.max (WireLimits.slotAttribute + attrC.allocK) 1
def txTailCap : Nat :=
  Nat.max (WireLimits.maxAttributes * WireLimits.slotAttribute + attrC.allocC) WireLimits.maxScriptLength

/-- decodeHashableFields (transaction.go:158-206) -/
def txBodyC (cv : Curve) : Codec TxBody :=
  refine
    (map (bind (seq txFixedC (signersC cv)) (fun p => txTailC p.2.length) txTailK txTailCap)
      (fun q => ⟨q.1.1.1, q.1.1.2.1, q.1.1.2.2.1, q.1.1.2.2.2.1, q.1.1.2.2.2.2, q.1.2, q.2.1, q.2.2⟩)
      (fun t => (((t.version, t.nonce, t.sysFee, t.netFee, t.vub), t.signers), (t.attrs, t.script))))
    txBodyValid

/-- the witnesses: exactly one per signer (transaction.go:213-224). -/
def txWitnessesC (ns : Nat) : Codec (List Witness) :=
  refine (array WireLimits.maxAttributes WireLimits.slotWitness witnessC) (fun l => l.length == ns)

/-- Transaction.DecodeBinary / EncodeBinary (transaction.go:208-262) -/
def txC (cv : Curve) : Codec Tx :=
  map (bind (txBodyC cv) (fun b => txWitnessesC b.signers.length)
      (WireLimits.slotWitness + witnessC.allocK) (WireLimits.maxAttributes * WireLimits.slotWitness + witnessC.allocC))
    (fun q => ⟨q.1, q.2⟩) (fun t => (t.body, t.witnesses))

/-! #### identity and size of a transaction along the two decoding paths -/

/-- `NewTransactionFromBytes` (transaction.go:295-307): hash of the received bytes of the hashable part,
size = number of received bytes; the whole input must be consumed. -/
def txFromBytes (H : Bytes → Bytes) (cv : Curve) (b : Bytes) : Option (Tx × Bytes × Nat) :=
  match (txC cv).dec b with
  | some (t, []) =>
    match (txBodyC cv).dec b with
    | some (_, r) => some (t, H (b.take (b.length - r.length)), b.length)
    | none => none
  | _ => none

/-- `DecodeBinary` from a stream (transaction.go:229-236): hash and size of the re-encoding. -/
def txFromStream (H : Bytes → Bytes) (cv : Curve) (b : Bytes) : Option (Tx × Bytes × Nat × Bytes) :=
  match (txC cv).dec b with
  | some (t, r) => some (t, H ((txBodyC cv).enc t.body), (txC cv).size t, r)
  | none => none


/-! ### header, block, state root, extensible payload -/

structure Header where
  version : Nat
  prevHash : Bytes
  merkleRoot : Bytes
  timestamp : Nat
  nonce : Nat
  index : Nat
  primary : UInt8
  nextConsensus : Bytes
  prevStateRoot : Bytes   -- [] unless the state root is in the header
  witness : Witness

/-- the hashed part of a header (header.go:131-163); `sr` = StateRootInHeader. -/
def headerHashableC (sr : Bool) :
    Codec (Nat × Bytes × Bytes × Nat × Nat × Nat × UInt8 × Bytes × Bytes) :=
  seq (uintLE 4) (seq (fixed 32) (seq (fixed 32) (seq (uintLE 8) (seq (uintLE 8) (seq (uintLE 4)
    (seq byte (seq (fixed 20) (if sr then fixed 32 else const []))))))))

/-- Header.DecodeBinary (header.go:104-122): hashable fields, witness count (must be 1), witness. -/
def headerC (sr : Bool) : Codec Header :=
  map (seq (headerHashableC sr) (seq (refine varUint (fun n => n == 1)) witnessC))
    (fun q => ⟨q.1.1, q.1.2.1, q.1.2.2.1, q.1.2.2.2.1, q.1.2.2.2.2.1, q.1.2.2.2.2.2.1, q.1.2.2.2.2.2.2.1,
      q.1.2.2.2.2.2.2.2.1, q.1.2.2.2.2.2.2.2.2, q.2.2⟩)
    (fun h => ((h.version, h.prevHash, h.merkleRoot, h.timestamp, h.nonce, h.index, h.primary, h.nextConsensus,
      h.prevStateRoot), (1, h.witness)))

/-- Header.Hash (header.go:96-102, 124-129): always the hash of the re-encoded hashable fields. -/
def headerHash (H : Bytes → Bytes) (sr : Bool) (h : Header) : Bytes :=
  H ((headerHashableC sr).enc (h.version, h.prevHash, h.merkleRoot, h.timestamp, h.nonce, h.index, h.primary,
    h.nextConsensus, h.prevStateRoot))

structure Block where
  header : Header
  txs : List Tx

/-- Block.DecodeBinary (block.go:145-160) -/
def blockC (cv : Curve) (sr : Bool) : Codec Block :=
  map (seq (headerC sr) (array WireLimits.maxTransactionsPerBlock WireLimits.slotTransactionPtr (txC cv)))
    (fun q => ⟨q.1, q.2⟩) (fun b => (b.header, b.txs))

structure StateRoot where
  version : UInt8
  index : Nat
  root : Bytes
  witnesses : List Witness

/-- state.MPTRoot (mpt_root.go:27-50): at most one witness. -/
def stateRootC : Codec StateRoot :=
  map (seq byte (seq (uintLE 4) (seq (fixed 32) (array 1 WireLimits.slotWitness witnessC))))
    (fun q => ⟨q.1, q.2.1, q.2.2.1, q.2.2.2⟩) (fun s => (s.version, s.index, s.root, s.witnesses))

structure Extensible where
  category : Bytes
  validStart : Nat
  validEnd : Nat
  sender : Bytes
  data : Bytes
  witness : Witness

/-- payload.Extensible (extensible.go:48-82): one padding byte 1 before the witness. -/
def extensibleC : Codec Extensible :=
  map (seq (varBytes WireLimits.maxExtensibleCategorySize) (seq (uintLE 4) (seq (uintLE 4) (seq (fixed 20)
      (seq (varBytes WireLimits.payloadMaxSize) (seq (refine byte (fun x => x == 1)) witnessC))))))
    (fun q => ⟨q.1, q.2.1, q.2.2.1, q.2.2.2.1, q.2.2.2.2.1, q.2.2.2.2.2.2⟩)
    (fun e => (e.category, e.validStart, e.validEnd, e.sender, e.data, (1, e.witness)))

end NeoModel.Wire

