/-
MiniVm — the NeoVM subset that the compiled MiniGo core needs (C14).  Core Lean only.

Two machines over the same instruction set `Op τ` (τ = type of jump targets):
  * the *assembly machine* `Asm.*` — code is a list of items (instructions and label marks), the
    program counter is an index into that list, jumps go to label marks.  The compiler-correctness
    theorems (Props/C14.lean) are stated against it;
  * the *byte machine* `Byte.*` — the script is a byte string, the program counter is a byte offset,
    jump operands are relative byte offsets (pkg/vm/vm.go `execute`).  The driver runs it on the real
    compiler's output and on the model compiler's output.

References: pkg/vm/vm.go (execute: l.726-), pkg/vm/opcode/opcode.go, pkg/vm/emit/emit.go.
-/
import NeoModel.Base.Hex
namespace NeoModel.MiniVm

/-- stack items of the subset: Integer, Boolean, Null (an uninitialised slot). -/
inductive Val
  | int (n : Int)
  | bool (b : Bool)
  | null
  deriving DecidableEq, Repr, Inhabited

/-- comparison kinds of the JMPxx family (vm.go getJumpCondition). -/
inductive Cmp | eq | ne | gt | ge | lt | le
  deriving DecidableEq, Repr

/-- instructions; `τ` is the jump-target type (a label in assembly, a relative byte offset in bytes). -/
inductive Op (τ : Type)
  | pushInt (n : Int) | pushT | pushF | pushNull
  | nop
  | jmp (t : τ) | jmpIf (t : τ) | jmpIfNot (t : τ) | jmpCmp (c : Cmp) (t : τ) | call (t : τ)
  | ret | drop | dup | swap | reverse3 | reverse4 | reverseN
  | initSlot (locals args : Nat)
  | ldloc (i : Nat) | stloc (i : Nat) | ldarg (i : Nat) | starg (i : Nat)
  | add | sub | mul | div | mod | negate | inc | dec
  | not | boolAnd | boolOr
  | numEq | numNe | equal | notEqual | lt | le | gt | ge
  | throw                  -- THROW: without a TRY context (the core has none) the exception is unhandled, FAULT
  | pack                   -- PACK: only emitted by dropItems for ≥ 4 items (codegen.go:1899-1909); encoded and decoded,
                           -- NOT executed by this machine (no Array items): it FAULTs, the theorems stay below 4 items
  deriving Repr, DecidableEq

/-- Element.BigInt(): Integer as is, Boolean as 0/1, Null is an error. -/
def Val.toInt? : Val → Option Int
  | .int n => some n
  | .bool b => some (if b then 1 else 0)
  | .null => none

/-- Element.Bool(): Integer ≠ 0, Boolean as is, Null = false. -/
def Val.toBool : Val → Bool
  | .int n => n != 0
  | .bool b => b
  | .null => false

/-- stackitem.CheckIntegerSize: results of arithmetic must fit 256 bits (two's complement). -/
def fits256 (n : Int) : Bool := -(2 ^ 255) ≤ n && n < 2 ^ 255

def mkInt (n : Int) : Option Val := if fits256 n then some (.int n) else none

def Cmp.eval : Cmp → Int → Int → Bool
  | .eq, a, b => a == b
  | .ne, a, b => a != b
  | .gt, a, b => a > b
  | .ge, a, b => a ≥ b
  | .lt, a, b => a < b
  | .le, a, b => a ≤ b

/-- item equality of EQUAL for the three item kinds (stackitem Equals: same type and same value). -/
def Val.equals : Val → Val → Bool
  | .int a, .int b => a == b
  | .bool a, .bool b => a == b
  | .null, .null => true
  | _, _ => false

/-- one frame of the invocation stack below the current one. -/
structure Frame where
  retPc : Nat
  locals : List Val
  args : List Val
  inited : Bool := false     -- the caller's INITSLOT flag, restored by RET
  deriving Repr

/-- machine state; `pc` is an index (assembly machine) or a byte offset (byte machine).
    The evaluation stack is shared by all frames of one script (CALL does not create a new one). -/
structure State where
  pc : Nat
  stack : List Val
  locals : List Val
  args : List Val
  frames : List Frame
  inited : Bool := false      -- INITSLOT already executed in this frame
  deriving Repr

inductive Outcome
  | running (s : State)
  | halt (stack : List Val)
  | fault
  deriving Repr

def binInt (f : Int → Int → Option Val) : List Val → Option (List Val)
  | b :: a :: r => do
    let x ← a.toInt?
    let y ← b.toInt?
    let v ← f x y
    pure (v :: r)
  | _ => none

def cmpOp (f : Int → Int → Bool) : List Val → Option (List Val)
  | b :: a :: r =>
    -- LT/LE/GT/GE: Null operands give false (vm.go:1222-1243)
    if a == .null || b == .null then some (.bool false :: r) else do
      let x ← a.toInt?
      let y ← b.toInt?
      pure (.bool (f x y) :: r)
  | _ => none

def setAt (l : List Val) (i : Nat) (v : Val) : Option (List Val) :=
  if i < l.length then some (l.set i v) else none

/-- instructions that neither jump nor touch the invocation stack: effect on (stack, locals, args). -/
def stepData {τ : Type} (op : Op τ) (stk loc args : List Val) : Option (List Val × List Val × List Val) :=
  match op with
  | .pushInt n => some (.int n :: stk, loc, args)
  | .pushT => some (.bool true :: stk, loc, args)
  | .pushF => some (.bool false :: stk, loc, args)
  | .pushNull => some (.null :: stk, loc, args)
  | .nop => some (stk, loc, args)
  | .drop => match stk with | _ :: r => some (r, loc, args) | _ => none
  | .dup => match stk with | a :: r => some (a :: a :: r, loc, args) | _ => none
  | .swap => match stk with | a :: b :: r => some (b :: a :: r, loc, args) | _ => none
  | .reverse3 => match stk with | a :: b :: c :: r => some (c :: b :: a :: r, loc, args) | _ => none
  | .reverse4 => match stk with | a :: b :: c :: d :: r => some (d :: c :: b :: a :: r, loc, args) | _ => none
  | .reverseN => match stk with
    | n :: r => match n.toInt? with
      | some k => if 0 ≤ k ∧ k.toNat ≤ r.length then some ((r.take k.toNat).reverse ++ r.drop k.toNat, loc, args) else none
      | none => none
    | _ => none
  | .ldloc i => match loc[i]? with | some v => some (v :: stk, loc, args) | none => none
  | .ldarg i => match args[i]? with | some v => some (v :: stk, loc, args) | none => none
  | .stloc i => match stk with
    | v :: r => (setAt loc i v).map (fun l => (r, l, args))
    | _ => none
  | .starg i => match stk with
    | v :: r => (setAt args i v).map (fun a => (r, loc, a))
    | _ => none
  | .add => (binInt (fun a b => mkInt (a + b)) stk).map (·, loc, args)
  | .sub => (binInt (fun a b => mkInt (a - b)) stk).map (·, loc, args)
  | .mul => (binInt (fun a b => mkInt (a * b)) stk).map (·, loc, args)
  | .div => (binInt (fun a b => if b == 0 then none else mkInt (Int.tdiv a b)) stk).map (·, loc, args)
  | .mod => (binInt (fun a b => if b == 0 then none else mkInt (Int.tmod a b)) stk).map (·, loc, args)
  | .negate => match stk with
    | a :: r => do let x ← a.toInt?; let v ← mkInt (-x); pure (v :: r, loc, args)
    | _ => none
  | .inc => match stk with
    | a :: r => do let x ← a.toInt?; let v ← mkInt (x + 1); pure (v :: r, loc, args)
    | _ => none
  | .dec => match stk with
    | a :: r => do let x ← a.toInt?; let v ← mkInt (x - 1); pure (v :: r, loc, args)
    | _ => none
  | .not => match stk with | a :: r => some (.bool (!a.toBool) :: r, loc, args) | _ => none
  | .boolAnd => match stk with | b :: a :: r => some (.bool (a.toBool && b.toBool) :: r, loc, args) | _ => none
  | .boolOr => match stk with | b :: a :: r => some (.bool (a.toBool || b.toBool) :: r, loc, args) | _ => none
  | .numEq => (binInt (fun a b => some (.bool (a == b))) stk).map (·, loc, args)
  | .numNe => (binInt (fun a b => some (.bool (a != b))) stk).map (·, loc, args)
  | .equal => match stk with | b :: a :: r => some (.bool (a.equals b) :: r, loc, args) | _ => none
  | .notEqual => match stk with | b :: a :: r => some (.bool (!a.equals b) :: r, loc, args) | _ => none
  | .lt => (cmpOp (· < ·) stk).map (·, loc, args)
  | .le => (cmpOp (· ≤ ·) stk).map (·, loc, args)
  | .gt => (cmpOp (· > ·) stk).map (·, loc, args)
  | .ge => (cmpOp (· ≥ ·) stk).map (·, loc, args)
  | _ => none

/-- generic step, parametrised by how a jump target is resolved to a new pc (`none` = bad target)
    and by the pc of the next instruction. -/
def stepOp {τ : Type} (resolve : τ → Option Nat) (next : Nat) (op : Op τ) (s : State) : Outcome :=
  match op with
  | .jmp t => match resolve t with
    | some p => .running { s with pc := p }
    | none => .fault
  | .jmpIf t => match s.stack, resolve t with
    | v :: r, some p => .running { s with pc := if v.toBool then p else next, stack := r }
    | _, _ => .fault
  | .jmpIfNot t => match s.stack, resolve t with
    | v :: r, some p => .running { s with pc := if v.toBool then next else p, stack := r }
    | _, _ => .fault
  | .jmpCmp c t => match s.stack, resolve t with
    | b :: a :: r, some p => match a.toInt?, b.toInt? with
      | some x, some y => .running { s with pc := if c.eval x y then p else next, stack := r }
      | _, _ => .fault
    | _, _ => .fault
  | .call t => match resolve t with
    | some p =>
      -- vm.go checkInvocationStackSize: at most 1024 contexts
      if s.frames.length + 1 ≥ 1024 then .fault else
      .running { pc := p, stack := s.stack, locals := [], args := [], inited := false,
                 frames := { retPc := next, locals := s.locals, args := s.args, inited := s.inited } :: s.frames }
    | none => .fault
  | .ret => match s.frames with
    | [] => .halt s.stack
    | f :: fs => .running { pc := f.retPc, stack := s.stack, locals := f.locals, args := f.args, frames := fs, inited := f.inited }
  | .initSlot l a =>
    if s.inited || (l == 0 && a == 0) || s.stack.length < a then .fault else
    .running { s with pc := next, stack := s.stack.drop a, locals := List.replicate l .null,
                      args := s.stack.take a, inited := true }
  | op => match stepData op s.stack s.locals s.args with
    | some (stk, loc, args) => .running { s with pc := next, stack := stk, locals := loc, args := args }
    | none => .fault

/-! ## Assembly machine -/
namespace Asm

inductive Item
  | ins (op : Op Nat)      -- jump targets are label numbers
  | lbl (l : Nat)
  deriving Repr

abbrev Code := List Item

/-- position of the mark of label `l`. -/
def findLabel (c : Code) (l : Nat) : Option Nat :=
  match c with
  | [] => none
  | .lbl k :: r => if k == l then some 0 else (findLabel r l).map (· + 1)
  | .ins _ :: r => (findLabel r l).map (· + 1)

/-- one step; label marks are skipped, running off the end is an implicit RET (scparser Context.Next). -/
def step (c : Code) (s : State) : Outcome :=
  match c[s.pc]? with
  | none => stepOp (findLabel c) (s.pc + 1) (.ret : Op Nat) s
  | some (.lbl _) => .running { s with pc := s.pc + 1 }
  | some (.ins op) => stepOp (findLabel c) (s.pc + 1) op s

def run (c : Code) : Nat → State → Outcome
  | 0, s => .running s
  | n + 1, s => match step c s with
    | .running s' => run c n s'
    | o => o

end Asm

/-! ## Byte encoding (emit.go, opcode.go) and the byte machine -/
namespace Byte

/-- minimal two's complement little-endian length of `n` in bytes (bigint.ToPreallocatedBytes), n ≠ 0. -/
def minLen (n : Int) : Nat → Nat
  | 0 => 32
  | fuel + 1 =>
    let k := 32 - fuel
    if -(2 ^ (8 * k - 1)) ≤ n ∧ n < 2 ^ (8 * k - 1) then k else minLen n fuel

def leBytes (n : Int) (len : Nat) : Bytes :=
  let m := (n % (2 ^ (8 * len))).toNat
  (List.range len).map (fun i => UInt8.ofNat (m / 256 ^ i % 256))

/-- emit.Int / emit.bigInt: PUSHM1, PUSH0..PUSH15, else PUSHINT8..256 padded to 1,2,4,8,16,32 bytes. -/
def encPushInt (n : Int) : Bytes :=
  if n == -1 then [0x0F]
  else if 0 ≤ n ∧ n < 16 then [UInt8.ofNat (0x10 + n.toNat)]
  else
    let l := minLen n 32
    let (opc, sz) : Nat × Nat :=
      if l ≤ 1 then (0, 1) else if l ≤ 2 then (1, 2) else if l ≤ 4 then (2, 4) else if l ≤ 8 then (3, 8)
      else if l ≤ 16 then (4, 16) else (5, 32)
    UInt8.ofNat opc :: leBytes n sz

def i8 (n : Int) : UInt8 := UInt8.ofNat (n % 256).toNat
def i32 (n : Int) : Bytes := leBytes n 4

def Cmp.code : Cmp → Nat
  | .eq => 0x28 | .ne => 0x2A | .gt => 0x2C | .ge => 0x2E | .lt => 0x30 | .le => 0x32

def slotOp (base : Nat) (i : Nat) : Bytes :=
  if i < 7 then [UInt8.ofNat (base + i)] else [UInt8.ofNat (base + 7), UInt8.ofNat i]

/-- encoding of one instruction; `long` selects the 4-byte operand form of jumps. -/
def encode (long : Bool) : Op Int → Bytes
  | .pushInt n => encPushInt n
  | .pushT => [0x08] | .pushF => [0x09] | .pushNull => [0x0B]
  | .nop => [0x21]
  | .jmp t => if long then 0x23 :: i32 t else [0x22, i8 t]
  | .jmpIf t => if long then 0x25 :: i32 t else [0x24, i8 t]
  | .jmpIfNot t => if long then 0x27 :: i32 t else [0x26, i8 t]
  | .jmpCmp c t => if long then UInt8.ofNat (Cmp.code c + 1) :: i32 t else [UInt8.ofNat (Cmp.code c), i8 t]
  | .call t => if long then 0x35 :: i32 t else [0x34, i8 t]
  | .ret => [0x40] | .drop => [0x45] | .dup => [0x4A] | .swap => [0x50]
  | .reverse3 => [0x53] | .reverse4 => [0x54] | .reverseN => [0x55]
  | .initSlot l a => [0x57, UInt8.ofNat l, UInt8.ofNat a]
  | .ldloc i => slotOp 0x68 i | .stloc i => slotOp 0x70 i
  | .ldarg i => slotOp 0x78 i | .starg i => slotOp 0x80 i
  | .add => [0x9E] | .sub => [0x9F] | .mul => [0xA0] | .div => [0xA1] | .mod => [0xA2]
  | .negate => [0x9B] | .inc => [0x9C] | .dec => [0x9D]
  | .not => [0xAA] | .boolAnd => [0xAB] | .boolOr => [0xAC]
  | .numEq => [0xB3] | .numNe => [0xB4] | .equal => [0x97] | .notEqual => [0x98]
  | .lt => [0xB5] | .le => [0xB6] | .gt => [0xB7] | .ge => [0xB8]
  | .throw => [0x3A]
  | .pack => [0xC0]

def leInt (bs : Bytes) : Int :=
  let n : Nat := bs.foldr (fun b acc => acc * 256 + b.toNat) 0
  let bits := 8 * bs.length
  if bits > 0 ∧ n ≥ 2 ^ (bits - 1) then (n : Int) - 2 ^ bits else (n : Int)

/-- decode the instruction at the head of `bs`: (instruction, its size). -/
def decode (bs : Bytes) : Option (Op Int × Nat) :=
  match bs with
  | [] => none
  | b :: r =>
    let o := b.toNat
    let imm (k : Nat) (f : Int → Op Int) : Option (Op Int × Nat) :=
      if r.length < k then none else some (f (leInt (r.take k)), k + 1)
    let slot (f : Nat → Op Int) : Option (Op Int × Nat) :=
      match r with | i :: _ => some (f i.toNat, 2) | [] => none
    if o ≤ 5 then imm (2 ^ o) .pushInt
    else if o == 0x08 then some (.pushT, 1) else if o == 0x09 then some (.pushF, 1)
    else if o == 0x0B then some (.pushNull, 1)
    else if o == 0x0F then some (.pushInt (-1), 1)
    else if 0x10 ≤ o ∧ o ≤ 0x20 then some (.pushInt (o - 0x10 : Nat), 1)
    else if o == 0x21 then some (.nop, 1)
    else if o == 0x22 then imm 1 .jmp else if o == 0x23 then imm 4 .jmp
    else if o == 0x24 then imm 1 .jmpIf else if o == 0x25 then imm 4 .jmpIf
    else if o == 0x26 then imm 1 .jmpIfNot else if o == 0x27 then imm 4 .jmpIfNot
    else if o == 0x28 then imm 1 (.jmpCmp .eq) else if o == 0x29 then imm 4 (.jmpCmp .eq)
    else if o == 0x2A then imm 1 (.jmpCmp .ne) else if o == 0x2B then imm 4 (.jmpCmp .ne)
    else if o == 0x2C then imm 1 (.jmpCmp .gt) else if o == 0x2D then imm 4 (.jmpCmp .gt)
    else if o == 0x2E then imm 1 (.jmpCmp .ge) else if o == 0x2F then imm 4 (.jmpCmp .ge)
    else if o == 0x30 then imm 1 (.jmpCmp .lt) else if o == 0x31 then imm 4 (.jmpCmp .lt)
    else if o == 0x32 then imm 1 (.jmpCmp .le) else if o == 0x33 then imm 4 (.jmpCmp .le)
    else if o == 0x34 then imm 1 .call else if o == 0x35 then imm 4 .call
    else if o == 0x40 then some (.ret, 1) else if o == 0x45 then some (.drop, 1)
    else if o == 0x4A then some (.dup, 1) else if o == 0x50 then some (.swap, 1)
    else if o == 0x53 then some (.reverse3, 1) else if o == 0x54 then some (.reverse4, 1)
    else if o == 0x55 then some (.reverseN, 1)
    else if o == 0x57 then match r with
      | l :: a :: _ => some (.initSlot l.toNat a.toNat, 3)
      | _ => none
    else if 0x68 ≤ o ∧ o < 0x6F then some (.ldloc (o - 0x68), 1) else if o == 0x6F then slot .ldloc
    else if 0x70 ≤ o ∧ o < 0x77 then some (.stloc (o - 0x70), 1) else if o == 0x77 then slot .stloc
    else if 0x78 ≤ o ∧ o < 0x7F then some (.ldarg (o - 0x78), 1) else if o == 0x7F then slot .ldarg
    else if 0x80 ≤ o ∧ o < 0x87 then some (.starg (o - 0x80), 1) else if o == 0x87 then slot .starg
    else if o == 0x9E then some (.add, 1) else if o == 0x9F then some (.sub, 1)
    else if o == 0xA0 then some (.mul, 1) else if o == 0xA1 then some (.div, 1)
    else if o == 0xA2 then some (.mod, 1) else if o == 0x9B then some (.negate, 1)
    else if o == 0x9C then some (.inc, 1) else if o == 0x9D then some (.dec, 1)
    else if o == 0xAA then some (.not, 1) else if o == 0xAB then some (.boolAnd, 1)
    else if o == 0xAC then some (.boolOr, 1) else if o == 0xB3 then some (.numEq, 1)
    else if o == 0xB4 then some (.numNe, 1) else if o == 0x97 then some (.equal, 1)
    else if o == 0x98 then some (.notEqual, 1) else if o == 0xB5 then some (.lt, 1)
    else if o == 0xB6 then some (.le, 1) else if o == 0xB7 then some (.gt, 1)
    else if o == 0xB8 then some (.ge, 1)
    else if o == 0x3A then some (.throw, 1)
    else if o == 0xC0 then some (.pack, 1)
    else none

/-- one step of the byte machine (vm.go step/execute): jump offsets are relative to the instruction's own
    offset and must land inside [0, len] (scparser CalcJumpOffset). -/
def step (script : Bytes) (s : State) : Outcome :=
  if s.pc ≥ script.length then stepOp (fun (_ : Int) => none) s.pc (.ret : Op Int) s else
  match decode (script.drop s.pc) with
  | none => .fault
  | some (op, sz) =>
    let resolve (off : Int) : Option Nat :=
      let t := (s.pc : Int) + off
      if 0 ≤ t ∧ t ≤ script.length then some t.toNat else none
    stepOp resolve (s.pc + sz) op s

def run (script : Bytes) : Nat → State → Outcome
  | 0, s => .running s
  | n + 1, s => match step script s with
    | .running s' => run script n s'
    | o => o

end Byte
end NeoModel.MiniVm
