/-
MemCachedStore.persist (pkg/core/storage/memcached_store.go:380-437) with its error branch (property C02).

While a flush is in flight the store has three layers: `mem` (fresh maps taking the writes that arrive meanwhile),
`tempstore` (the maps being written) and the persistent store `ps`; reads go mem → tempstore → ps.

    begin   (:392-413)  tempstore := {mem, stor}; s.ps := tempstore; s.mem := fresh        (nothing if no keys, and
                         s.plock lets one flush run at a time)
    commit  (:414,:419-424) tempstore.ps.PutChangeSet(tempstore.mem, …) = nil; s.ps := tempstore.ps
    fail    (:414,:425-433) PutChangeSet ≠ nil: maps.Copy(tempstore.mem, s.mem) — the writes that arrived meanwhile
                         go ON TOP of the ones being flushed — and the merged maps become s.mem again

Change sets are write lists, oldest first (a map merge where the later write wins is list append). Core Lean only.
-/
import NeoModel.Model.Persist
namespace NeoModel.Persist

structure MS where
  ps : Db
  temp : Option Writes := none     -- tempstore while a flush is in flight
  mem : Writes := []

inductive MOp where
  | write (w : Writes)    -- any writes through the cache (a block, headers, GC deletions)
  | begin                 -- persist(): swap the maps out
  | commit                -- the backend accepted the change set
  | fail                  -- the backend returned an error

/-- what a read through the cache sees. -/
def MS.view (s : MS) : Db := applyWrites s.mem (applyWrites (s.temp.getD []) s.ps)

def mstep (s : MS) : MOp → MS × Option Batch
  | .write w => ({ s with mem := s.mem ++ w }, none)
  | .begin =>
    if s.temp.isSome ∨ s.mem.isEmpty then (s, none)
    else ({ s with temp := some s.mem, mem := [] }, none)
  | .commit =>
    match s.temp with
    | some t => ({ ps := applyWrites t s.ps, temp := none, mem := s.mem }, some (ofWrites t))
    | none => (s, none)
  | .fail =>
    match s.temp with
    | some t => ({ s with temp := none, mem := t ++ s.mem }, none)
    | none => (s, none)

def mrunFrom : MS → List MOp → MS × List Batch
  | s, [] => (s, [])
  | s, o :: r =>
    let x := mstep s o
    let t := mrunFrom x.1 r
    (t.1, x.2.toList ++ t.2)

/-- everything written through the cache that has not reached the backend, oldest first. -/
def MS.pending (s : MS) : Writes := s.temp.getD [] ++ s.mem

/-- the writes a schedule issues, in order. -/
def writesOf : List MOp → Writes
  | [] => []
  | .write w :: r => w ++ writesOf r
  | _ :: r => writesOf r

/-- the write list a batch made by `ofWrites` carries. -/
def batchWrites (b : Batch) : Writes := b.filterMap (fun w => match w with | .put k v => some (k, v) | .trans _ => none)

/-- the three-layer store seen as the two-layer node of Model/Persist (write cache over backend). -/
def MS.toNode (s : MS) (n : Node) : Node := { n with db := s.ps, cache := s.pending }

end NeoModel.Persist
