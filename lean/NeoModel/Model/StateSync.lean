/-
C20 (b) — model of the MPT-based state synchronisation of `/repo/pkg/core/statesync` (module.go,
mptpool.go) over an abstract hash-linked trie.

Abstraction level. A serialised MPT node refers to its children by hash (branch: up to 17 hash
children, the 17th without a nibble; extension: key + one child; leaf: a value). Here a node is
`SNode`: an optional leaf value and the list of `(relative path, child hash)` in traversal order.
The source trie is a table `db : Hash → Option SNode`. The module state is
  * `refs`  — the MPT node store with its reference counters (`Billet.incrementRefAndStore`,
              billet.go:186-208, RC mode), keyed by hash;
  * `temp`  — the temporary contract storage filled by `Billet.RestoreHashNode` for leaves
              (billet.go:73-80), keyed by the full path;
  * `pool`  — the unknown-node pool `hash → paths` (mptpool.go), kept as a duplicate-free list of
              `(hash, path)` pairs (the Go code keeps the paths of one hash sorted; only the set matters).
`Billet.RestoreHashNode(path, node)` itself (the walk through the partially restored in-memory trie with
hash validation and collapse, billet.go:61-183) is modelled by its contract: for a `(hash, path)` pair
taken from the pool it stores the node, bumps its counter and, for a leaf, writes the value under the
path. That the real billet never fails on such pairs is checked by the `sync` stream on every run
(any error on valid data is an oracle failure), it is not a theorem here.

  restoreNode   = (*Module).restoreNode, module.go:655-687 (incl. the recursion into children that are
                  already in the store)
  deliver       = the loop of (*Module).AddMPTNodes, module.go:571-607
  rebuild       = the pool reconstruction of (*Module).defineSyncStage, module.go:333-357, i.e.
                  Billet.Traverse over what is in the store with the `process` callback as written
Core Lean only.
-/
namespace NeoModel.StateSync

abbrev Hash := Nat
abbrev Path := List Nat

structure SNode where
  val : Option Nat
  kids : List (Path × Hash)
deriving DecidableEq, Repr

abbrev Pool := List (Hash × Path)

def pathsOf (p : Pool) (h : Hash) : List Path := (p.filter (fun x => x.1 == h)).map (·.2)
def removeHash (p : Pool) (h : Hash) : Pool := p.filter (fun x => x.1 != h)
def addOne (p : Pool) (x : Hash × Path) : Pool := if p.contains x then p else p ++ [x]
def addAll (p : Pool) (xs : List (Hash × Path)) : Pool := xs.foldl addOne p

/-- mpt.GetChildrenPaths (helpers.go:71-98) -/
def childrenPaths (path : Path) (n : SNode) : List (Hash × Path) :=
  n.kids.map (fun k => (k.2, path ++ k.1))

structure MS where
  refs : Hash → Nat
  temp : List (Path × Nat)
  pool : Pool
  /-- ghost (not part of the Go state): the `(hash, path)` pairs `RestoreHashNode` was called with -/
  done : List (Hash × Path)

def MS.init (root : Hash) : MS := { refs := fun _ => 0, temp := [], pool := [(root, [])], done := [] }

/-- The loop `for _, path := range nPaths { billet.RestoreHashNode(path, n.Clone()) }` (module.go:662-669)
under the contract of `RestoreHashNode` for pairs from the pool: one reference and, for a leaf, one
storage item per path. -/
def restoreAll (s : MS) (h : Hash) (n : SNode) (paths : List Path) : MS :=
  { s with refs := fun x => if x = h then s.refs h + paths.length else s.refs x,
           temp := match n.val with
                   | some v => s.temp ++ paths.map (fun p => (p, v))
                   | none => s.temp,
           done := s.done ++ paths.map (fun p => (h, p)) }

/-- module.go:678-686: a child that is already in the store is restored at once from there. -/
def restoreStored (db : Hash → Option SNode) (rec : MS → Hash → SNode → MS) (s : MS) (c : Hash) : MS :=
  if s.refs c > 0 then
    match db c with
    | some cn => rec s c cn
    | none => s
  else s

/-- (*Module).restoreNode. `db` is only consulted for children that are already in the store
(`billet.GetFromStore`). -/
def restoreNode (db : Hash → Option SNode) : Nat → MS → Hash → SNode → MS
  | 0, s, _, _ => s
  | fuel + 1, s, h, n =>
    let paths := pathsOf s.pool h
    if paths.isEmpty then s           -- "it can easily happen after receiving the same data from different peers"
    else
      let kids := paths.flatMap (fun p => childrenPaths p n)
      let s1 := restoreAll s h n paths
      let s2 := { s1 with pool := addAll (removeHash s1.pool h) kids }     -- mptpool.Update
      kids.foldl (fun s k => restoreStored db (restoreNode db fuel) s k.1) s2

inductive Item
  | node (h : Hash) (n : SNode)   -- a decodable node and its hash
  | garbage                       -- bytes that do not decode

/-- The loop of AddMPTNodes: stops with an error at the first undecodable item. -/
def deliver (db : Hash → Option SNode) (fuel : Nat) : MS → List Item → MS × Bool
  | s, [] => (s, true)
  | s, .garbage :: _ => (s, false)
  | s, .node h n :: r => deliver db fuel (restoreNode db fuel s h n) r

/-- Several AddMPTNodes calls (a failed call keeps what its earlier items did). -/
def batches (db : Hash → Option SNode) (fuel : Nat) (s : MS) (bs : List (List Item)) : MS :=
  bs.foldl (fun s b => (deliver db fuel s b).1) s

/-- Billet.Traverse over the stored part of the trie with the callback of defineSyncStage
(module.go:336-353). The callback is invoked once per position; a node that is no longer in the temporary
pool (already processed for all of its paths at an earlier position) is skipped, the traversal goes on
below it. (Before fix 0dd24d5 the callback panicked there.) -/
def traverse (db : Hash → Option SNode) (refs : Hash → Nat) : Nat → Pool → Hash → Path → Pool
  | 0, p, _, _ => p
  | fuel + 1, p, h, path =>
    if refs h = 0 then p                           -- missing from the store: stays a hash node
    else match db h with
      | none => p
      | some n =>
        let paths := pathsOf p h
        let p1 := if paths.isEmpty then p
                  else addAll (removeHash p h) (paths.flatMap (fun q => childrenPaths q n))
        n.kids.foldl (fun q k => traverse db refs fuel q k.2 (path ++ k.1)) p1

/-- Pool reconstruction on module (re)creation. -/
def rebuild (db : Hash → Option SNode) (fuel : Nat) (root : Hash) (s : MS) : MS :=
  { s with pool := traverse db s.refs fuel [(root, [])] root [] }

/-! ### Blocks stage: the body check of (*Module).AddBlock (module.go:508-517)

The block's header is the genuine one (its hash is compared with the stored header hash), the transaction
list is validated through `block.ComputeMerkleRoot() == header.MerkleRoot` and, since fix 6817c0b, by
refusing a repeated transaction hash (the root alone does not exclude one). Hashes are symbolic here
(a collision-free hash = structural equality of the hashed terms): `calcMerkle` is hash.CalcMerkleRoot
(crypto/hash/merkle_tree.go:74-97) including its duplication of the last element of an odd level. -/

inductive MTree
  | zero
  | leaf (i : Nat)
  | node (l r : MTree)
deriving DecidableEq, Repr

def pairUp : List MTree → List MTree
  | [] => []
  | [a] => [.node a a]
  | a :: b :: r => .node a b :: pairUp r

def calcMerkle : Nat → List MTree → MTree
  | _, [] => .zero
  | _, [a] => a
  | 0, _ => .zero
  | f + 1, l => calcMerkle f (pairUp l)

/-- Does AddBlock accept transaction list `body` (transaction identities) for a block whose real list is
`orig`? -/
def merkleMatches (orig body : List Nat) : Bool :=
  calcMerkle (body.length + 1) (body.map .leaf) == calcMerkle (orig.length + 1) (orig.map .leaf)

def noRepeat : List Nat → Bool
  | [] => true
  | a :: r => !r.contains a && noRepeat r

def acceptsBody (orig body : List Nat) : Bool :=
  merkleMatches orig body && noRepeat body

def poolHashes (p : Pool) : List Hash := (p.map (·.1)).eraseDups

end NeoModel.StateSync
