/-
C20 (b) — model of the MPT-based state synchronisation of `/repo/pkg/core/statesync` (module.go,
mptpool.go) over an abstract hash-linked trie.

Abstraction level. A serialised MPT node refers to its children by hash (branch: up to 17 hash
children, the 17th without a nibble; extension: key + one child; leaf: a value). Here a node is
`SNode`: an optional leaf value and the list of `(relative path, child hash)` in traversal order.
The source trie is a table `db : Hash → Option SNode`. The module state is
  * `refs`  — the MPT node store with its reference counters (`Billet.incrementRefAndStore`,
              billet.go:186-208, RC mode), keyed by hash;
  * `temp`  — the temporary contract storage filled by `Billet.RestoreHashNode` for leaves
              (billet.go:73-80), keyed by the full path;
  * `pool`  — the unknown-node pool `hash → paths` (mptpool.go), kept as a duplicate-free list of
              `(hash, path)` pairs (the Go code keeps the paths of one hash sorted; only the set matters).
`Billet.RestoreHashNode(path, node)` is represented here by its contract: for a `(hash, path)` pair taken from
the pool it stores the node, bumps its counter and, for a leaf, writes the value under the path. The billet
itself (the walk through the partially restored in-memory trie with hash validation and collapse,
billet.go:67-190, and Traverse) is Model/Billet.lean; that the module over the real billet refines this
pool-level model on every reachable state is Proofs/BilletRefine.lean / BilletRebuild.lean.

  restoreNode   = (*Module).restoreNode, module.go:655-687 (incl. the recursion into children that are
                  already in the store)
  deliver       = the loop of (*Module).AddMPTNodes, module.go:571-607
  rebuild       = the pool reconstruction of (*Module).defineSyncStage, module.go:333-357, i.e.
                  Billet.Traverse over what is in the store with the `process` callback as written
Core Lean only.
-/
namespace NeoModel.StateSync

abbrev Hash := Nat
abbrev Path := List Nat

structure SNode where
  val : Option Nat
  kids : List (Path × Hash)
deriving DecidableEq, Repr

abbrev Pool := List (Hash × Path)

def pathsOf (p : Pool) (h : Hash) : List Path := (p.filter (fun x => x.1 == h)).map (·.2)
def removeHash (p : Pool) (h : Hash) : Pool := p.filter (fun x => x.1 != h)
def addOne (p : Pool) (x : Hash × Path) : Pool := if p.contains x then p else p ++ [x]
def addAll (p : Pool) (xs : List (Hash × Path)) : Pool := xs.foldl addOne p

/-- mpt.GetChildrenPaths (helpers.go:71-98) -/
def childrenPaths (path : Path) (n : SNode) : List (Hash × Path) :=
  n.kids.map (fun k => (k.2, path ++ k.1))

structure MS where
  refs : Hash → Nat
  temp : List (Path × Nat)
  pool : Pool
  /-- ghost (not part of the Go state): the `(hash, path)` pairs `RestoreHashNode` was called with -/
  done : List (Hash × Path)

def MS.init (root : Hash) : MS := { refs := fun _ => 0, temp := [], pool := [(root, [])], done := [] }

/-- The loop `for _, path := range nPaths { billet.RestoreHashNode(path, n.Clone()) }` (module.go:662-669)
under the contract of `RestoreHashNode` for pairs from the pool: one reference and, for a leaf, one
storage item per path. -/
def restoreAll (s : MS) (h : Hash) (n : SNode) (paths : List Path) : MS :=
  { s with refs := fun x => if x = h then s.refs h + paths.length else s.refs x,
           temp := match n.val with
                   | some v => s.temp ++ paths.map (fun p => (p, v))
                   | none => s.temp,
           done := s.done ++ paths.map (fun p => (h, p)) }

/-- module.go:678-686: a child that is already in the store is restored at once from there. -/
def restoreStored (db : Hash → Option SNode) (rec : MS → Hash → SNode → MS) (s : MS) (c : Hash) : MS :=
  if s.refs c > 0 then
    match db c with
    | some cn => rec s c cn
    | none => s
  else s

/-- (*Module).restoreNode. `db` is only consulted for children that are already in the store
(`billet.GetFromStore`). -/
def restoreNode (db : Hash → Option SNode) : Nat → MS → Hash → SNode → MS
  | 0, s, _, _ => s
  | fuel + 1, s, h, n =>
    let paths := pathsOf s.pool h
    if paths.isEmpty then s           -- "it can easily happen after receiving the same data from different peers"
    else
      let kids := paths.flatMap (fun p => childrenPaths p n)
      let s1 := restoreAll s h n paths
      let s2 := { s1 with pool := addAll (removeHash s1.pool h) kids }     -- mptpool.Update
      kids.foldl (fun s k => restoreStored db (restoreNode db fuel) s k.1) s2

inductive Item
  | node (h : Hash) (n : SNode)   -- a decodable node and its hash
  | garbage                       -- bytes that do not decode

/-- The loop of AddMPTNodes: stops with an error at the first undecodable item. -/
def deliver (db : Hash → Option SNode) (fuel : Nat) : MS → List Item → MS × Bool
  | s, [] => (s, true)
  | s, .garbage :: _ => (s, false)
  | s, .node h n :: r => deliver db fuel (restoreNode db fuel s h n) r

/-! ### Storage-item mode (ContractStorageBased): (*Module).AddContractStorageItems, module.go:609-668

Generic in the trie: `T` the local trie with `putBatch` (= MapToMPTBatch + Trie.PutBatch of a Go map given
as a key-distinct list) and `root` (= StateRoot); Proofs/StateSyncItems.lean instantiates it with the C10
model `NeoModel.Mpt`. Re-creating the trie from the checkpoint's intermediate root (defineSyncStage,
module.go:359-383) yields the same trie (it is loaded lazily from the same store), so a restart only
recomputes the stage from the persisted checkpoint. -/

structure TrieOps (T K V R : Type) where
  putBatch : T → List (K × V) → T
  root : T → R

/-- `batch[string(key)] = kv.Value` in a loop (module.go:634-636): the last value of a key wins. -/
def goMap {K V : Type} [BEq K] : List (K × V) → List (K × V)
  | [] => []
  | e :: r => if r.any (fun x => x.1 == e.1) then goMap r else e :: goMap r

structure ItemSt (T K V R : Type) where
  trie : T                       -- localTrie
  temp : K → Option V            -- temporary contract storage
  lastKey : Option K             -- lastStoredKey
  ckpt : Option (R × R)          -- persisted checkpoint: (IntermediateRoot, Root)
  synced : Bool                  -- mptSynced

def ItemSt.init {T K V R : Type} (empty : T) : ItemSt T K V R :=
  { trie := empty, temp := fun _ => none, lastKey := none, ckpt := none, synced := false }

/-- AddContractStorageItems; the Boolean is "no error". -/
def addItems {T K V R : Type} [BEq K] [DecidableEq R] (ops : TrieOps T K V R) (root : R)
    (s : ItemSt T K V R) (kvs : List (K × V)) : ItemSt T K V R × Bool :=
  if s.synced then (s, false)              -- "contract storage items were not requested"
  else if kvs.isEmpty then (s, false)      -- "key-value pairs are empty"
  else
    let m := goMap kvs
    let trie' := ops.putBatch s.trie m
    let r := ops.root trie'
    ({ trie := trie',
       temp := fun k => (m.lookup k).or (s.temp k),   -- PutChangeSet: the batch overrides
       lastKey := kvs.getLast?.map (·.1),
       ckpt := some (r, root),
       synced := decide (r = root) }, true)

/-- Module re-creation: the stage is recomputed from the checkpoint (module.go:377-382). -/
def restartItems {T K V R : Type} [DecidableEq R] (s : ItemSt T K V R) : ItemSt T K V R :=
  { s with synced := match s.ckpt with
                     | some (ir, r) => decide (ir = r)
                     | none => false }

/-- What the NeoFS state fetcher does after a (re)start (statefetcher.go:380-420): stream the items of the
state object in their order, skipping everything up to and including the last stored key. -/
def resumeFrom {K V : Type} [BEq K] (lastKey : Option K) (items : List (K × V)) : List (K × V) :=
  match lastKey with
  | none => items
  | some k => (items.dropWhile (fun x => x.1 != k)).drop 1

/-- Several AddMPTNodes calls (a failed call keeps what its earlier items did). -/
def batches (db : Hash → Option SNode) (fuel : Nat) (s : MS) (bs : List (List Item)) : MS :=
  bs.foldl (fun s b => (deliver db fuel s b).1) s

/-- Billet.Traverse over the stored part of the trie with the callback of defineSyncStage
(module.go:336-353). The callback is invoked once per position; a node that is no longer in the temporary
pool (already processed for all of its paths at an earlier position) is skipped, the traversal goes on
below it. (Before fix 0dd24d5 the callback panicked there.) -/
def traverse (db : Hash → Option SNode) (refs : Hash → Nat) : Nat → Pool → Hash → Path → Pool
  | 0, p, _, _ => p
  | fuel + 1, p, h, path =>
    if refs h = 0 then p                           -- missing from the store: stays a hash node
    else match db h with
      | none => p
      | some n =>
        let paths := pathsOf p h
        let p1 := if paths.isEmpty then p
                  else addAll (removeHash p h) (paths.flatMap (fun q => childrenPaths q n))
        n.kids.foldl (fun q k => traverse db refs fuel q k.2 (path ++ k.1)) p1

/-- Pool reconstruction on module (re)creation. -/
def rebuild (db : Hash → Option SNode) (fuel : Nat) (root : Hash) (s : MS) : MS :=
  { s with pool := traverse db s.refs fuel [(root, [])] root [] }

/-! ### Blocks stage: the body check of (*Module).AddBlock (module.go:508-517)

The block's header is the genuine one (its hash is compared with the stored header hash), the transaction
list is validated through `block.ComputeMerkleRoot() == header.MerkleRoot` and, since fix 6817c0b, by
refusing a repeated transaction hash (the root alone does not exclude one). Hashes are symbolic here
(a collision-free hash = structural equality of the hashed terms): `calcMerkle` is hash.CalcMerkleRoot
(crypto/hash/merkle_tree.go:74-97) including its duplication of the last element of an odd level. -/

/-- module.go:520-527: no transaction hash twice. -/
def noRepeatH : List Nat → Bool
  | [] => true
  | a :: r => !r.contains a && noRepeatH r

inductive MTree
  | zero
  | leaf (i : Nat)
  | node (l r : MTree)
deriving DecidableEq, Repr

def pairUp : List MTree → List MTree
  | [] => []
  | [a] => [.node a a]
  | a :: b :: r => .node a b :: pairUp r

def calcMerkle : Nat → List MTree → MTree
  | _, [] => .zero
  | _, [a] => a
  | 0, _ => .zero
  | f + 1, l => calcMerkle f (pairUp l)

/-- hash.CalcMerkleRoot over actual hash values: `h2 l r` = DoubleSha256(l ‖ r), `z` = the zero hash. -/
def pairUpH (h2 : Nat → Nat → Nat) : List Nat → List Nat
  | [] => []
  | [a] => [h2 a a]
  | a :: b :: r => h2 a b :: pairUpH h2 r

def calcMerkleH (h2 : Nat → Nat → Nat) (z : Nat) : Nat → List Nat → Nat
  | _, [] => z
  | _, [a] => a
  | 0, _ => z
  | f + 1, l => calcMerkleH h2 z f (pairUpH h2 l)

/-- The body check of AddBlock over actual hash values (`txh i` = hash of transaction `i`). -/
def acceptsBodyH (txh : Nat → Nat) (h2 : Nat → Nat → Nat) (z : Nat) (orig body : List Nat) : Bool :=
  calcMerkleH h2 z (body.length + 1) (body.map txh) == calcMerkleH h2 z (orig.length + 1) (orig.map txh)
    && noRepeatH (body.map txh)

/-- The same check over symbolic hashes (a collision-free hash = structural equality of the hashed terms). -/
def merkleMatches (orig body : List Nat) : Bool :=
  calcMerkle (body.length + 1) (body.map .leaf) == calcMerkle (orig.length + 1) (orig.map .leaf)

def noRepeat : List Nat → Bool
  | [] => true
  | a :: r => !r.contains a && noRepeat r

def acceptsBody (orig body : List Nat) : Bool :=
  merkleMatches orig body && noRepeat body

/-- What happens to the module between two restarts: `AddMPTNodes` calls; and a restart. -/
inductive Ev
  | batch (items : List Item)
  | restart

def runEv (db : Hash → Option SNode) (fuel : Nat) (root : Hash) (s : MS) : Ev → MS
  | .batch items => (deliver db fuel s items).1
  | .restart => rebuild db fuel root s

def runEvs (db : Hash → Option SNode) (fuel : Nat) (root : Hash) (s : MS) (evs : List Ev) : MS :=
  evs.foldl (runEv db fuel root) s

def poolHashes (p : Pool) : List Hash := (p.map (·.1)).eraseDups

end NeoModel.StateSync
