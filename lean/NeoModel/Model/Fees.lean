/-
C07 — fee calculator, standard witness scripts and the gas the VM charges for them, as written now.

  pkg/core/fee/calculate.go:14-49            Calculate, pushIntSize (after fix c9cbbdc)
  pkg/core/fee/opcode.go                     Opcode / coefficients  (table regenerated: Generated/FeeConsts.lean)
  pkg/smartcontract/contract.go:15-39        CreateMultiSigRedeemScript
  pkg/crypto/keys/publickey.go:345-372       GetVerificationScript (signature contract)
  pkg/vm/emit/emit.go:66-113,266-296         Int/smallInt/bigInt, Bytes, Syscall
  pkg/smartcontract/scparser/contract_checks.go:28-141   getNumOfThingsFromInstr, ParseMultiSigContract, ParseSignatureContract
  pkg/smartcontract/scparser/conversion.go:95-121        GetInt64FromInstr
  pkg/smartcontract/scparser/context.go:49-124           Context.Next (operand sizes of the opcodes used here)
  pkg/vm/vm.go:170-175,213-252,257-270,740-747           SetGasLimit, GasConsumed, PicoGasToDatoshi, AddPicoGas, price charge in execute
  pkg/vm/stack.go:336-368                                PopSigElements
  pkg/core/interop/context.go:524-538                    SyscallHandler (price * BaseExecFee)
  pkg/core/interop/crypto/ecdsa.go:19-64                 CheckMultisig (n * ECDSAVerifyPrice), CheckSig
  pkg/core/blockchain.go:3405-3435                       verifyHashAgainstScript (result stack rules)

The VM part is a *price interpreter* for the opcodes that occur in standard witnesses
(PUSHINT8..256, PUSHDATA1/2/4, PUSHM1, PUSH0..16, SYSCALL CheckSig/CheckMultisig): a fold over the
script bytes that keeps the evaluation stack (needed for the element counts of CheckMultisig), the
consumed picoGAS and the gas limit. Every other opcode makes the model give up (`none`), the harness
never sends such scripts. Signature cryptography is a parameter (`verify`, `validKey`).
Core Lean only.
-/
import NeoModel.Base.Hex
import NeoModel.Model.Wire.VarUint
import NeoModel.Generated.FeeConsts
namespace NeoModel.Fees
open NeoModel.Generated.FeeConsts
open NeoModel.Wire (leBytes leVal putVarUint varUintSize)

/-- `fee.coefficients[op]` (opcode.go:18). -/
def coeff (op : Nat) : Nat := coefficients.getD op 0

/-- `vm.PicoGasToDatoshi` (vm.go:239-252): division by ExecFeeFactorMultiplier rounding up. -/
def picoToDatoshi (x : Nat) : Nat := (x + execFeeFactorMultiplier - 1) / execFeeFactorMultiplier

/-! ### emit (pkg/vm/emit/emit.go) -/

/-- length of `bigint.ToPreallocatedBytes(n)` for `0 < n < 2^63`: minimal two's-complement length. -/
def posByteLen (i : Nat) : Nat :=
  if i < 2^7 then 1 else if i < 2^15 then 2 else if i < 2^23 then 3 else if i < 2^31 then 4
  else if i < 2^39 then 5 else if i < 2^47 then 6 else if i < 2^55 then 7 else 8

/-- `8 - bits.LeadingZeros8(byte(len-1))` (emit.go:109) for `1 ≤ len ≤ 8`. -/
def padSizeOf (len : Nat) : Nat :=
  if len ≤ 1 then 0 else if len ≤ 2 then 1 else if len ≤ 4 then 2 else 3

/-- `emit.Int(w, i)` for `0 ≤ i < 2^63` (emit.go:66-113): PUSH0..PUSH16 for `i < 16`, otherwise
PUSHINT8/16/32/64 with the value zero-padded (it is positive) to the operand size. -/
def emitInt (i : Nat) : Bytes :=
  if i < 16 then [UInt8.ofNat (opPUSH0 + i)]
  else
    let p := padSizeOf (posByteLen i)
    UInt8.ofNat (opPUSHINT8 + p) :: leBytes (2 ^ p) i

/-- `emit.Bytes` (emit.go:266-282). -/
def emitBytes (b : Bytes) : Bytes :=
  if b.length < 0x100 then UInt8.ofNat opPUSHDATA1 :: UInt8.ofNat b.length :: b
  else if b.length < 0x10000 then UInt8.ofNat opPUSHDATA2 :: (leBytes 2 b.length ++ b)
  else UInt8.ofNat opPUSHDATA4 :: (leBytes 4 b.length ++ b)

/-- `emit.Syscall` with the 4 id bytes already computed (emit.go:286-296). -/
def emitSyscall (id : Bytes) : Bytes := UInt8.ofNat opSYSCALL :: id

/-- `(*PublicKey).GetVerificationScript` (publickey.go:351-372) for a serialized key `key`. -/
def sigScript (key : Bytes) : Bytes :=
  UInt8.ofNat opPUSHDATA1 :: UInt8.ofNat key.length :: (key ++ emitSyscall checkSigId)

/-- `smartcontract.CreateMultiSigRedeemScript(m, keys)` (contract.go:15-39); `keys` are the serialized
keys in the order the builder emits them (i.e. already sorted). `none` = the builder's error. -/
def multisigScript (m : Nat) (keys : List Bytes) : Option Bytes :=
  if m < 1 then none
  else if m > keys.length then none
  else if m > 1024 then none
  else some (emitInt m ++ (keys.flatMap emitBytes ++ (emitInt keys.length ++ emitSyscall checkMultisigId)))

/-- the invocation script wallets build for a list of signatures: one `emit.Bytes` per signature. -/
def invScript (sigs : List Bytes) : Bytes := sigs.flatMap emitBytes

/-! ### scparser -/

/-- little-endian two's-complement value of an operand. -/
def signedLE (bs : Bytes) : Int :=
  let v := leVal bs
  if v < 2 ^ (8 * bs.length - 1) then (v : Int) else (v : Int) - (2 ^ (8 * bs.length) : Nat)

/-- `ctx.Next()` followed by `getNumOfThingsFromInstr` (contract_checks.go:28-38): the next instruction
must push an integer in `1..MaxMultisigKeys`; returns the number and the rest of the script.
An empty rest is the implicit RET of `Next()`, which is not an integer push. -/
def parseCount (bs : Bytes) : Option (Nat × Bytes) :=
  match bs with
  | [] => none
  | b :: rest =>
    let op := b.toNat
    if op ≤ opPUSHINT256 then
      -- operand of 1 <<< op bytes (context.go:108-110)
      let n := 2 ^ op
      if rest.length < n then none
      else
        let param := rest.take n
        -- GetInt64FromInstr (conversion.go:95-121)
        let v : Option Int :=
          if op ≤ opPUSHINT64 then some (signedLE param)
          else if (param.drop 8).any (· != 0) then none
          else if (param.getD 7 0).toNat ≥ 0x80 then none
          else some (Int.ofNat (leVal (param.take 8)))
        match v with
        | none => none
        | some v => if v < 1 ∨ v > (maxMultisigKeys : Int) then none else some (v.toNat, rest.drop n)
    else if opPUSHM1 ≤ op ∧ op ≤ opPUSH16 then
      let v : Int := (op : Int) - (opPUSH0 : Int)
      if v < 1 ∨ v > (maxMultisigKeys : Int) then none else some (v.toNat, rest)
    else none

/-- the key loop of `ParseMultiSigContract` (contract_checks.go:64-80): consume `PUSHDATA1 len data`
instructions; stop at the first byte that is not PUSHDATA1 (or at the end of the script).
`fuel` ≥ number of instructions. `none` = "not a multisig contract". -/
def parsePubs : Nat → Bytes → List Bytes → Option (List Bytes × Bytes)
  | 0, _, _ => none
  | fuel+1, bs, acc =>
    match bs with
    | [] => some (acc, [])
    | b :: rest =>
      if b.toNat = opPUSHDATA1 then
        match rest with
        | [] => none
        | l :: rest' =>
          if rest'.length < l.toNat then none
          else if l.toNat < 33 then none
          else if acc.length + 1 > maxMultisigKeys then none
          else parsePubs fuel (rest'.drop l.toNat) (acc ++ [rest'.take l.toNat])
      else some (acc, bs)

/-- `scparser.ParseMultiSigContract` (contract_checks.go:49-104). -/
def parseMultiSig (script : Bytes) : Option (Nat × List Bytes) :=
  if script.length < 42 then none
  else match parseCount script with
    | none => none
    | some (nsigs, r1) =>
      match parsePubs (script.length + 1) r1 [] with
      | none => none
      | some (pubs, r2) =>
        if pubs.length < nsigs then none
        else match parseCount r2 with
          | none => none
          | some (nkeys2, r3) =>
            if nkeys2 ≠ pubs.length then none
            else if r3 = emitSyscall checkMultisigId then some (nsigs, pubs)   -- SYSCALL id, then the implicit RET at len(script)
            else none

/-- `scparser.ParseSignatureContract` (contract_checks.go:115-130). -/
def isSignatureContract (script : Bytes) : Bool :=
  script.length == 40 &&
  (script.getD 0 0).toNat == opPUSHDATA1 && (script.getD 1 0).toNat == 33 &&
  (script.getD 35 0).toNat == opSYSCALL && script.drop 36 == checkSigId

/-! ### fee.Calculate -/

/-- the rule before fix c9cbbdc (kept for the regression examples of Props/C07): n PUSHDATA1 plus the opcode
`emit.Int(n)` starts with, whatever the script really contains. -/
def calculateMultisig (base n : Nat) : Nat :=
  coeff opPUSHDATA1 * base * n + coeff ((emitInt n).headD 0).toNat * base

/-- `pushIntSize` (calculate.go:43-49): size of an integer push instruction, opcode and operand. -/
def pushIntSize (op : Nat) : Nat := if op ≤ opPUSHINT256 then 1 + 2 ^ op else 1

/-- `fee.Calculate(base, script)` (calculate.go:14-40, after fix c9cbbdc): (network fee in datoshi, size of the
witness). For a multisig script the two integer pushes are priced as the instructions the script really has:
`mOp = script[0]`, `nOp` = the byte after the m-push and the `2 + len(key)` bytes of every key push. -/
def calculate (base : Nat) (script : Bytes) : Nat × Nat :=
  if isSignatureContract script then
    (picoToDatoshi ((coeff opPUSHDATA1 + coeff opPUSHDATA1) * base + base * ecdsaVerifyPrice),
     67 + (varUintSize script.length + script.length))
  else match parseMultiSig script with
    | some (m, pubs) =>
      let n := pubs.length
      let sizeInv := 66 * m
      let mOp := (script.headD 0).toNat
      let nOff := pushIntSize mOp + (pubs.map fun p => 2 + p.length).sum
      let nOp := (script.getD nOff 0).toNat
      (picoToDatoshi (coeff opPUSHDATA1 * base * (m + n) + (coeff mOp + coeff nOp) * base + base * ecdsaVerifyPrice * n),
       varUintSize sizeInv + sizeInv + (varUintSize script.length + script.length))
    | none => (0, 0)

/-- `fee.Calculate` before fix c9cbbdc (regression examples only). -/
def calculateOld (base : Nat) (script : Bytes) : Nat × Nat :=
  if isSignatureContract script then calculate base script
  else match parseMultiSig script with
    | some (m, pubs) =>
      (picoToDatoshi (calculateMultisig base m + calculateMultisig base pubs.length + base * ecdsaVerifyPrice * pubs.length),
       (calculate base script).2)
    | none => (0, 0)

/-- `Witness.EncodeBinary` (witness.go:33-36): two var-length byte strings. -/
def encodeWitness (inv ver : Bytes) : Bytes :=
  putVarUint inv.length ++ inv ++ (putVarUint ver.length ++ ver)

/-! ### the price interpreter -/

inductive Item where
  | int (v : Int)
  | bytes (b : Bytes)
  | bool (b : Bool)
deriving Repr, DecidableEq, Inhabited

/-- where the byte fold is inside an instruction. -/
inductive Mode where
  | op                                             -- an opcode byte is expected
  | len (opc : Nat) (need : Nat) (acc : Bytes)     -- reading the length prefix of PUSHDATAn
  | data (opc : Nat) (need : Nat) (acc : Bytes)    -- reading `need` more operand bytes
deriving Repr, DecidableEq, Inhabited

/-- what the execution depends on besides the scripts. -/
structure Env where
  base : Nat                     -- ic.baseExecFee, picoGAS per price unit
  limit : Option Nat             -- vm.gasLimit in picoGAS; `none` = -1 (unlimited)
  gorgon : Bool                  -- HFGorgon: signatures must be 64 bytes long
  validKey : Bytes → Bool        -- keys.NewPublicKeyFromBytes succeeds
  verify : Bytes → Bytes → Bool  -- key, signature ↦ signature verifies for the container

structure VM where
  stack : List Item              -- head = top
  gas : Nat                      -- picoGAS consumed
  mode : Mode
deriving Repr, DecidableEq, Inhabited

def VM.init : VM := ⟨[], 0, .op⟩

/-- add `p` picoGAS; FAULT when the limit is exceeded (vm.go:742-745, 262-270). -/
def charge (e : Env) (s : VM) (p : Nat) : Option VM :=
  let g := s.gas + p
  match e.limit with
  | some l => if g > l then none else some { s with gas := g }
  | none => some { s with gas := g }

/-- `n` byte-string items from the top of the stack (stack.go:363-365). -/
def takeBytes : Nat → List Item → Option (List Bytes × List Item)
  | 0, st => some ([], st)
  | n+1, .bytes b :: st => (takeBytes n st).map fun (bs, r) => (b :: bs, r)
  | _+1, _ => none

/-- `Stack.PopSigElements` (stack.go:336-368) for an integer count on top (arrays do not occur). -/
def popSigElements : List Item → Option (List Bytes × List Item)
  | .int v :: st => if v < 1 ∨ v > (st.length : Int) then none else takeBytes v.toNat st
  | _ => none

/-- the signature/key matching of CheckMultisig: signatures must verify against keys in key order. -/
def checkMultisig (verify : Bytes → Bytes → Bool) : List Bytes → List Bytes → Bool
  | _, [] => true
  | [], _ :: _ => false
  | k :: ks, s :: ss => if verify k s then checkMultisig verify ks ss else checkMultisig verify ks (s :: ss)

/-- `vm.CheckMultisigPar` (vm.go:2049-2180) as far as its outcome goes: with one signature the keys are
parsed lazily up to the first match, otherwise all keys are parsed first; a malformed key panics (FAULT). -/
def multisigResult (validKey : Bytes → Bool) (verify : Bytes → Bytes → Bool) (keys sigs : List Bytes) : Option Bool :=
  match sigs with
  | [s] =>
    let rec go : List Bytes → Option Bool
      | [] => some false
      | k :: ks => if !validKey k then none else if verify k s then some true else go ks
    go keys
  | _ => if keys.all validKey then some (checkMultisig verify keys sigs) else none

/-- `crypto.ECDSASecp256r1CheckSig` (ecdsa.go:50-64) after the price was charged. -/
def checkSigBody (gorgon : Bool) (validKey : Bytes → Bool) (verify : Bytes → Bytes → Bool) (s : VM) : Option VM :=
  match s.stack with
  | .bytes key :: .bytes sig :: rest =>
    if !validKey key then none
    else if gorgon && sig.length != signatureLen then none
    else some { s with stack := .bool (verify key sig) :: rest }
  | _ => none

/-- `crypto.ECDSASecp256r1CheckMultisig` (ecdsa.go:28-47) after the elements were popped and the
`n * ECDSAVerifyPrice` was charged; `st` is the stack below the popped elements. -/
def multisigFinish (gorgon : Bool) (validKey : Bytes → Bool) (verify : Bytes → Bytes → Bool)
    (keys sigs : List Bytes) (s : VM) : Option VM :=
  if keys.length < sigs.length then none
  else if gorgon && sigs.any (fun sg => sg.length != signatureLen) then none
  else (multisigResult validKey verify keys sigs).map fun ok => { s with stack := .bool ok :: s.stack }

/-- SYSCALL (interop/context.go:524-538: `Price * BaseExecFee` is charged, then the handler runs;
crypto/ecdsa.go). -/
def syscall (e : Env) (s : VM) (id : Bytes) : Option VM :=
  if id = checkSigId then
    (charge e s (checkSigPrice * e.base)).bind (checkSigBody e.gorgon e.validKey e.verify)
  else if id = checkMultisigId then
    (charge e s (checkMultisigPrice * e.base)).bind fun s =>
      (popSigElements s.stack).bind fun (keys, st1) =>
        (popSigElements st1).bind fun (sigs, st2) =>
          (charge e { s with stack := st2 } (e.base * ecdsaVerifyPrice * keys.length)).bind
            (multisigFinish e.gorgon e.validKey e.verify keys sigs)
  else none

/-- the effect of one instruction of the modelled set, the opcode price already charged. -/
def execBody (e : Env) (s : VM) (opc : Nat) (operand : Bytes) : Option VM :=
  if opc ≤ opPUSHINT256 then some { s with stack := .int (signedLE operand) :: s.stack }
  else if opc = opPUSHDATA1 ∨ opc = opPUSHDATA2 ∨ opc = opPUSHDATA4 then some { s with stack := .bytes operand :: s.stack }
  else if opPUSHM1 ≤ opc ∧ opc ≤ opPUSH16 then some { s with stack := .int ((opc : Int) - (opPUSH0 : Int)) :: s.stack }
  else if opc = opSYSCALL then syscall e s operand
  else none

/-- the check `v.refs > MaxStackSize` after every instruction (vm.go:733-736); no compound items here,
so the reference count is the stack depth. -/
def stackCheck (s : VM) : Option VM := if s.stack.length > maxStackSize then none else some s

/-- one complete instruction: charge the opcode price, run it, check the stack size (vm.go:727-747). -/
def exec (e : Env) (s : VM) (opc : Nat) (operand : Bytes) : Option VM :=
  (charge e { s with mode := .op } (coeff opc * e.base)).bind fun s =>
    (execBody e s opc operand).bind stackCheck

/-- the fold step: one script byte. -/
def step (e : Env) (s : VM) (b : UInt8) : Option VM :=
  match s.mode with
  | .op =>
    let opc := b.toNat
    if opc ≤ opPUSHINT256 then some { s with mode := .data opc (2 ^ opc) [] }
    else if opc = opPUSHDATA1 then some { s with mode := .len opc 1 [] }
    else if opc = opPUSHDATA2 then some { s with mode := .len opc 2 [] }
    else if opc = opPUSHDATA4 then some { s with mode := .len opc 4 [] }
    else if opPUSHM1 ≤ opc ∧ opc ≤ opPUSH16 then exec e s opc []
    else if opc = opSYSCALL then some { s with mode := .data opc 4 [] }
    else none
  | .len opc need acc =>
    let acc := acc ++ [b]
    if need ≤ 1 then
      let n := leVal acc
      if n = 0 then exec e s opc [] else some { s with mode := .data opc n [] }
    else some { s with mode := .len opc (need - 1) acc }
  | .data opc need acc =>
    let acc := acc ++ [b]
    if need ≤ 1 then exec e s opc acc else some { s with mode := .data opc (need - 1) acc }

/-- run the bytes of a script from state `s` (no check that the script ends on an instruction boundary). -/
def runBytes (e : Env) (s : VM) (bs : Bytes) : Option VM := bs.foldlM (step e) s

/-- run a whole script: it must end on an instruction boundary (otherwise `Next()` fails: FAULT). -/
def runScript (e : Env) (s : VM) (bs : Bytes) : Option VM :=
  match runBytes e s bs with
  | some s' => if s'.mode = .op then some s' else none
  | none => none

/-- invocation script, then verification script, on one shared evaluation stack
(blockchain.go:3351-3392: both are loaded, the invocation context runs first). -/
def runWitness (e : Env) (inv ver : Bytes) : Option VM :=
  match runScript e VM.init inv with
  | none => none
  | some s => runScript e s ver

/-- `Item.TryBool` for the items of this model. -/
def Item.tryBool : Item → Option Bool
  | .int v => some (v != 0)
  | .bytes b => if b.length > 32 then none else some (b.any (· != 0))
  | .bool b => some b

/-- result of `verifyHashAgainstScript` (blockchain.go:3405-3435). -/
inductive WRes where
  | ok (gas : Nat)           -- verified, datoshi consumed
  | invalidSig (gas : Nat)   -- ran, returned false (ErrInvalidSignature with the gas consumed)
  | fail                     -- any other error
deriving Repr, DecidableEq

/-- the price in picoGAS the interpreter charges, without limit: `none` if the witness FAULTs. -/
def witnessPico (base : Nat) (gorgon : Bool) (validKey : Bytes → Bool) (verify : Bytes → Bytes → Bool) (inv ver : Bytes) : Option Nat :=
  (runWitness ⟨base, none, gorgon, validKey, verify⟩ inv ver).map (·.gas)

/-- `verifyHashAgainstScript(hash, witness, ic, gas)` for a witness with a verification script:
`hashOk` = the script hashes to the signer account and the account is not a native contract. -/
def verifyWitness (base maxVerGas : Nat) (gorgon : Bool) (validKey : Bytes → Bool) (verify : Bytes → Bytes → Bool)
    (hashOk : Bool) (gas : Nat) (inv ver : Bytes) : WRes :=
  let gas := min gas maxVerGas
  -- SetGasLimit (vm.go:170-175): datoshi → picoGAS
  let e : Env := ⟨base, some (gas * execFeeFactorMultiplier), gorgon, validKey, verify⟩
  if !hashOk then .fail
  else match runWitness e inv ver with
    | none => .fail
    | some s =>
      match s.stack with
      | [it] =>
        match it.tryBool with
        | some true => .ok (picoToDatoshi s.gas)
        | some false => .invalidSig (picoToDatoshi s.gas)
        | none => .fail
      | _ => .fail

end NeoModel.Fees
