/-
C07 — admission of a transaction into the memory pool, as written now.

  pkg/core/transaction/transaction.go:156-198,458-502   decodeHashableFields limits, isValid (well-formedness)
  pkg/core/blockchain.go:2920-2926   verifyAndPoolOffChainTx (SystemFee ≤ MaxBlockSystemFee)
  pkg/core/blockchain.go:2931-3006   verifyAndPoolTx (decision sequence)
  pkg/core/blockchain.go:3010-3028   CalculateAttributesFee
  pkg/core/blockchain.go:3030-3121   verifyTxAttributes
  pkg/core/blockchain.go:3446-3465   verifyTxWitnesses (gas limit threading)
  pkg/core/blockchain.go:3351-3392,3405-3435  InitVerificationContext / verifyHashAgainstScript (via Fees.verifyWitness)
  pkg/core/dao/dao.go:786-826        HasTransaction, isTraceableBlock
  pkg/core/native/policy.go:832-840  CheckPolicy
  pkg/core/mempool/mem_pool.go:218-262,311-316,586-654   Add: ErrDup, checkTxConflicts, checkBalance, ErrOracleResponse, ErrOOM

The chain state and the transaction are abstracted to exactly what these functions read
(a "predicate vector"): accounts and hashes are natural numbers, the transaction size is a number
(the codecs are C17's subject), witnesses are either standard scripts (run through the price
interpreter of `Fees`) or an arbitrary function of the gas limit. PoolTx / VerifyTx pass no
`data`, so `isPartialTx = false` throughout.
Core Lean only.
-/
import NeoModel.Model.Fees
namespace NeoModel.Admission
open NeoModel.Fees
open NeoModel.Generated.FeeConsts

/-- error classes, in the order the checks can produce them. -/
inductive Err where
  | malformed           -- the decoder rejects the bytes (transaction.isValid, counts)
  | policySysFee        -- ErrPolicy: SystemFee > MaxBlockSystemFee (blockchain.go:2922)
  | invalidScript       -- ErrInvalidScript
  | expired             -- ErrTxExpired
  | notYetValid         -- ErrTxNotYetValid
  | policyBlocked       -- ErrPolicy: a signer is blocked
  | tooBig              -- ErrTxTooBig
  | smallNetFee         -- ErrTxSmallNetworkFee
  | alreadyExists       -- ErrAlreadyExists
  | hasConflicts        -- ErrHasConflicts (on-chain conflict record)
  | witness             -- any error of verifyTxWitnesses
  | invalidAttr         -- ErrInvalidAttribute
  | poolDup             -- ErrAlreadyInPool
  | poolConflictsAttr   -- ErrHasConflicts from the pool (mempool.ErrConflictsAttribute)
  | insufficientFunds   -- ErrInsufficientFunds
  | poolConflict        -- ErrMemPoolConflict (balance < fee + fees of pooled transactions)
  | poolOracle          -- mempool.ErrOracleResponse (passed through)
  | oom                 -- ErrOOM
deriving Repr, DecidableEq, Inhabited

/-- what is stored under the executable key of a hash (dao.go:786-826). -/
inductive Rec where
  | none                                              -- nothing stored (or a value shorter than 5 bytes)
  | block                                             -- a block: "no conflict" (dao.go:797-802)
  | tx                                                -- a fully-qualified transaction
  | stub (index : Nat) (signers : List (Nat × Nat))   -- conflict record: newest index, per-signer records (account, index)
deriving Repr, DecidableEq, Inhabited

/-- facts about an OracleResponse attribute that the attribute check reads (blockchain.go:3038-3069);
the ones derivable from the signers are computed, not given. -/
structure OracleFacts where
  id : Nat               -- resp.ID (the request the response answers)
  scriptOk : Bool        -- tx.Script equals the oracle response script
  requestOk : Bool       -- GetRequestInternal(resp.ID) succeeds
  gasForResponse : Nat
deriving Repr, DecidableEq, Inhabited

inductive Attr where
  | highPriority
  | oracleResponse (f : OracleFacts)
  | notValidBefore (h : Nat)
  | conflicts (hash : Nat)
  | notaryAssisted (nkeys : Nat)
  | other (typ : Nat)                 -- any other attribute type value
deriving Repr, DecidableEq, Inhabited

def Attr.typ : Attr → Nat
  | .highPriority => attrHighPriority
  | .oracleResponse _ => attrOracleResponse
  | .notValidBefore _ => attrNotValidBefore
  | .conflicts _ => attrConflicts
  | .notaryAssisted _ => attrNotaryAssisted
  | .other t => t

/-- a witness as the verification sees it. -/
inductive Wit where
  | std (hashOk : Bool) (inv ver : Bytes)   -- non-empty verification script made of the modelled opcodes
  | missing                                  -- empty verification script, no deployed contract under the account
  | contract (f : Nat → WRes)                  -- anything else (contract-based verification): a function of the gas limit

structure Signer where
  account : Nat
  scopeNone : Bool      -- Scopes == transaction.None
  wit : Wit

structure Tx where
  hash : Nat
  version : Nat
  scriptLen : Nat       -- len(t.Script)
  scriptOk : Bool       -- scparser.IsScriptCorrect(t.Script) == nil
  sysFee : Nat
  netFee : Nat
  validUntil : Nat
  size : Nat
  signers : List Signer
  attrs : List Attr

structure Chain where
  height : Nat
  maxVUBInc : Nat
  maxBlockSysFee : Nat
  feePerByte : Nat
  base : Nat                    -- exec fee factor in picoGAS (GetExecFeeFactorInternal)
  maxVerGas : Nat
  mtb : Nat                     -- MaxTraceableBlocks
  gorgon : Bool
  p2pSigExt : Bool
  reservedAttrs : Bool
  notaryActive : Bool           -- hardfork of NotaryAssisted enabled
  attrFee : Nat → Nat           -- GetAttributeFeeInternal by type
  blocked : Nat → Bool
  lookup : Nat → Rec
  committee : Nat               -- committee address
  oracleHash : Option Nat       -- oracle contract initialised and script hash non-zero
  notary : Nat                  -- nativehashes.Notary
  validKey : Bytes → Bool
  verify : Bytes → Bytes → Bool

/-- the view of the memory pool `Add` takes its decisions on (mem_pool.go:233-316). -/
structure Pool where
  has : Nat → Bool
  conflictsAttrErr : Bool       -- checkTxConflicts steps 1-2 reject (C08's subject)
  balance : Nat                 -- payer's GAS
  feeSum : Nat                  -- payer's pooled fees after removing conflicting transactions
  oracleErr : Bool              -- ErrOracleResponse
  full : Bool                   -- at capacity and not more prioritized than the last item

/-- `isTraceableBlock` (dao.go:828-831). -/
def isTraceable (index height mtb : Nat) : Bool := index ≤ height && index + mtb > height

/-- `dao.HasTransaction(hash, signers, height, mtb)` with non-empty signers (dao.go:786-826). -/
def hasTransaction (r : Rec) (signers : List Nat) (height mtb : Nat) : Option Err :=
  match r with
  | .none => none
  | .block => none
  | .tx => some .alreadyExists
  | .stub index recs =>
    if signers.isEmpty then some .hasConflicts
    else if !isTraceable index height mtb then none
    else if signers.any (fun a => recs.any (fun (acc, idx) => acc == a && isTraceable idx height mtb)) then some .hasConflicts
    else none

/-- `CalculateAttributesFee` (blockchain.go:3010-3028). -/
def attrsFee (c : Chain) (nsigners : Nat) : List Attr → Nat
  | [] => 0
  | a :: rest =>
    let b := c.attrFee a.typ
    let f := match a with
      | .conflicts _ => b * nsigners
      | .notaryAssisted nk => if c.p2pSigExt then b * (nk + 1) else 0
      | _ => b
    f + attrsFee c nsigners rest

/-- one witness with `gas` datoshi left (verifyHashAgainstScript). -/
def verifyOne (c : Chain) (gas : Nat) : Wit → WRes
  | .std hashOk inv ver => verifyWitness c.base c.maxVerGas c.gorgon c.validKey c.verify hashOk gas inv ver
  | .missing => .fail
  | .contract f => f (min gas c.maxVerGas)

/-- `verifyTxWitnesses` (blockchain.go:3446-3465), not partial: every witness must verify;
the gas limit of the next one is what the previous ones left. Returns what is left. -/
def verifyWitnesses (c : Chain) : Nat → List Wit → Option Nat
  | gas, [] => some gas
  | gas, w :: ws =>
    match verifyOne c gas w with
    | .ok used => verifyWitnesses c (gas - used) ws
    | _ => none

/-- one attribute (blockchain.go:3033-3118). `all` = all attributes of the transaction. -/
def checkAttr (c : Chain) (t : Tx) (a : Attr) : Bool :=
  match a with
  | .highPriority => t.signers.any (·.account == c.committee)
  | .oracleResponse f =>
    match c.oracleHash with
    | none => false
    | some h =>
      t.signers.all (·.scopeNone) && t.signers.any (·.account == h) && f.scriptOk && f.requestOk
        && !(t.netFee + t.sysFee < f.gasForResponse)
  | .notValidBefore h => !(c.height < h)
  | .conflicts hash =>
    -- at most one Conflicts attribute with this hash, and the hash is not a transaction on chain
    (t.attrs.filter (fun b => match b with | .conflicts h' => h' == hash | _ => false)).length ≤ 1
      && !(c.lookup hash == .tx)
  | .notaryAssisted _ =>
    c.notaryActive && t.signers.any (·.account == c.notary)
      && !((t.signers.head?.map (·.account) == some c.notary) && t.signers.length != 2)
  | .other typ =>
    !(!c.reservedAttrs && attrReservedLowerBound ≤ typ && typ ≤ attrReservedUpperBound)

/-- `verifyTxAttributes`: the first failing attribute makes the transaction invalid. -/
def verifyAttrs (c : Chain) (t : Tx) : Bool := t.attrs.all (checkAttr c t)

/-- `mempool.Add` as far as its errors go (mem_pool.go:233-316, 586-654, 218-230). -/
def poolAdd (p : Pool) (t : Tx) : Option Err :=
  if p.has t.hash then some .poolDup
  else if p.conflictsAttrErr then some .poolConflictsAttr
  else if p.balance < t.sysFee + t.netFee then some .insufficientFunds
  else if p.balance < t.sysFee + t.netFee + p.feeSum then some .poolConflict
  else if p.oracleErr then some .poolOracle
  else if p.full then some .oom
  else none

def allDistinct : List Nat → Bool
  | [] => true
  | a :: l => !l.contains a && allDistinct l

/-- what every decoder enforces before a `Transaction` exists (decodeHashableFields: 1 ≤ signers ≤ 16,
attributes ≤ 16 − signers, script ≤ 65535 bytes; isValid: version 0, unique signers, at most one attribute of
every type except Conflicts, non-empty script and — since fix be87fd7, so that JSON input is covered too —
the same two count limits). The sign / overflow checks of the two fees are not
representable here (fees are naturals). -/
def wellFormed (t : Tx) : Bool :=
  t.version == 0
    && !t.signers.isEmpty && decide (t.signers.length ≤ maxAttributes)
    && decide (t.attrs.length + t.signers.length ≤ maxAttributes)
    && allDistinct (t.signers.map (·.account))
    && allDistinct ((t.attrs.filter fun a => a.typ != attrConflicts).map (·.typ))
    && t.scriptLen != 0 && decide (t.scriptLen ≤ maxScriptLength)

/-- `verifyAndPoolOffChainTx` = what `PoolTx` / `VerifyTx` do; `none` = accepted into the pool. -/
def admit (c : Chain) (p : Pool) (t : Tx) : Option Err :=
  if t.sysFee > c.maxBlockSysFee then some .policySysFee
  else if !t.scriptOk then some .invalidScript
  else if t.validUntil ≤ c.height then some .expired
  else if t.validUntil > c.height + c.maxVUBInc then some .notYetValid
  else if t.signers.any (fun s => c.blocked s.account) then some .policyBlocked
  else if t.size > maxTransactionSize then some .tooBig
  else
    let need := t.size * c.feePerByte + attrsFee c t.signers.length t.attrs
    if t.netFee < need then some .smallNetFee
    else match hasTransaction (c.lookup t.hash) (t.signers.map (·.account)) c.height c.mtb with
      | some e => some e
      | none =>
        match verifyWitnesses c (t.netFee - need) (t.signers.map (·.wit)) with
        | none => some .witness
        | some _ =>
          if !verifyAttrs c t then some .invalidAttr
          else poolAdd p t

/-- bytes from a peer or an RPC client: decode, then `PoolTx`. -/
def admitWire (c : Chain) (p : Pool) (t : Tx) : Option Err :=
  if !wellFormed t then some .malformed else admit c p t

/-! Block packing (`ApplyPolicyToTxSet`) and the checks run on a packed block: `Model/Fees/Block.lean`. -/

end NeoModel.Admission
