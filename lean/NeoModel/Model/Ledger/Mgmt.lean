/-
C01 — ContractManagement with the contract MANIFEST, as written in pkg/core/native/management.go:

  storage   prefix 8 ++ hash ↦ the serialized state.Contract: id, update counter, … and the manifest as the STACK ITEM
            Manifest.ToStackItem produces (state/contract.go ToStackItem; manifest.go:168-200); key 15 ↦ next id
  cache     ManagementCache.contracts: hash ↦ *state.Contract, holding the manifest OBJECT — at deploy / update time the
            object parsed from the transaction's JSON (management.go deploy/update → putContractState →
            markUpdated), after a restart the object Manifest.FromStackItem rebuilds from the stored item
            (InitializeCache, management.go:757-780, through stackitem.DeserializeConvertible)

so `init` is `fromStackItem ∘ stored item`, and the cache of a running node and of a restarted node are NOT equal as
values (nil slices become empty, `features` becomes `{}`, `extra` is re-marshalled: `Man.normalize`): coherence is the
relation "the cached manifest is well-formed and serialises to exactly the stored item" (Proofs/LedgerMgmt.lean), and
what must not differ are the decisions taken on the cached object:

  the permission check of System.Contract.Call (interop/contract/call.go: a non-safe method of the callee needs
  `caller.Manifest.CanCall(calleeHash, calleeManifest, method)`), getContract's answer, and what a NEF-only update
  (manifest = nil: the OLD manifest object is kept and serialised again) writes back to storage.

The manifest type, its stack-item form, decoder and `canCall` are C16's (Model/Flags/Manifest.lean, imported read-only).
Contracts are identified by a number; `hashOf` gives the 20 bytes permissions mention. The NEF, script/ABI consistency
checks and the `_deploy` call are not modelled. Core Lean only.
-/
import NeoModel.Model.Flags.Manifest
import NeoModel.Model.Ledger.Comp
namespace NeoModel.Ledger.Mgmt
open NeoModel.Flags.MF

/-- state.Contract, modelled fields; `α` = the form of the manifest (item in storage, object in the cache) -/
structure Rec (α : Type) where
  id : Int
  upd : Nat
  man : α

structure MStore where
  contracts : Nat → Option (Rec Item)
  nextId : Int

abbrev MCache := Nat → Option (Rec Man)

def upd {β : Type} (f : Nat → Option β) (k : Nat) (v : Option β) : Nat → Option β :=
  fun k' => if k' = k then v else f k'

/-- what the model is parametrised by -/
structure Params where
  /-- the decoding parameters of Manifest.FromStackItem (utf8.Valid, key decoding, valid parameter types) -/
  dec : Dec
  /-- the ordered-JSON re-marshalling of `extra` -/
  compact : Bytes → Bytes
  /-- everything deploy / update check on a manifest parsed from JSON (Manifest.IsValid(hash, true), name/ABI checks) -/
  valid : Man → Bool
  /-- contract number ↦ script hash -/
  hashOf : Nat → Bytes

inductive MOp where
  | deploy (k : Nat) (m : Man)
  /-- `manifest = none`: NEF-only update, the old manifest object is kept -/
  | update (k : Nat) (m : Option Man)
  | destroy (k : Nat)
  /-- System.Contract.Call(callee, method) executed inside a method of `caller` -/
  | call (caller callee : Nat) (method : Bytes)

def descWfB (d : Dec) : Desc → Bool
  | .wildcard => true
  | .hash h => h.length == 20
  | .group k => k.length == 33 && d.decodeKey k == some k

/-- what Go's types and encoding/json establish about a manifest value (`Man.WF`, Proofs/FlagsManifest.lean), decidably -/
def wfB (d : Dec) (m : Man) : Bool :=
  let paramOk := fun (p : Param) => d.utf8 p.name && d.validTypes.contains p.typ && decide (p.typ < 2 ^ 63)
  d.utf8 m.name &&
  (m.groups.getD []).all (fun g => d.decodeKey g.key == some g.key && g.sig.length == 64) &&
  m.standards.all d.utf8 &&
  m.methods.all (fun x => d.utf8 x.name && d.validTypes.contains x.ret && x.params.all paramOk &&
    decide (x.ret < 2 ^ 63) && decide (-(2 ^ 63) ≤ x.offset) && decide (x.offset < 2 ^ 63)) &&
  m.events.all (fun e => d.utf8 e.name && e.params.all paramOk) &&
  m.perms.all (fun p => descWfB d p.contract && (match p.methods with | none => true | some ms => ms.all d.utf8)) &&
  (m.trusts.value.getD []).all (descWfB d)

/-- what deploy / update accept: a manifest value as encoding/json and the Go types deliver it (`wfB`) that passes the
    validity checks -/
def accept (P : Params) (m : Man) : Bool := wfB P.dec m && P.valid m

def exec (P : Params) (s : MStore) (c : MCache) : MOp → Option (MStore × MCache)
  | .deploy k m =>
    match c k with
    | some _ => none                                                  -- "contract already exists"
    | none =>
      if !accept P m then none
      else some ({ contracts := upd s.contracts k (some ⟨s.nextId, 0, m.toItem P.compact⟩), nextId := s.nextId + 1 },
                 upd c k (some ⟨s.nextId, 0, m⟩))
  | .update k mo =>
    match c k with
    | none => none                                                    -- "contract doesn't exist"
    | some r =>
      match mo with
      | none =>                                                       -- contract = *oldcontract; PutContractState
        some ({ s with contracts := upd s.contracts k (some ⟨r.id, r.upd + 1, r.man.toItem P.compact⟩) },
              upd c k (some ⟨r.id, r.upd + 1, r.man⟩))
      | some m =>
        if !accept P m || m.name != r.man.name then none               -- "contract name can't be changed"
        else some ({ s with contracts := upd s.contracts k (some ⟨r.id, r.upd + 1, m.toItem P.compact⟩) },
                   upd c k (some ⟨r.id, r.upd + 1, m⟩))
  | .destroy k =>
    match c k with
    | none => none
    | some _ => some ({ s with contracts := upd s.contracts k none }, upd c k none)
  | .call a b meth =>
    match c a, c b with
    | some ra, some rb =>
      match rb.man.methods.find? (·.name == meth) with
      | none => none                                                  -- method not found
      | some md =>
        if !md.safe && !ra.man.canCall (P.hashOf b) rb.man meth then none   -- "disallowed method call"
        else some (s, c)
    | _, _ => none

/-- InitializeCache: every stored contract record with its manifest read back by FromStackItem -/
def init (P : Params) (s : MStore) : MCache :=
  fun k => (s.contracts k).bind fun r => (P.dec.man r.man).map fun m => ⟨r.id, r.upd, m⟩

def management (P : Params) : Comp MStore MCache MOp where
  exec := fun s c _ o => exec P s c o
  init := init P
  leak := fun c _ => c

/-- ContractManagement.getContract / Blockchain.GetContractState as seen from outside: id, update counter and the
    manifest in its stack-item form -/
def getContract (P : Params) (c : MCache) (k : Nat) : Option (Int × Nat × Item) :=
  (c k).map fun r => (r.id, r.upd, r.man.toItem P.compact)

def emptyStore : MStore := { contracts := fun _ => none, nextId := 1 }

-- an executable instance (the driver's) ----------------------------------------------------------------------------

/-- smartcontract.validParamTypes -/
def paramTypes : List Nat := [0x00, 0x10, 0x11, 0x12, 0x13, 0x14, 0x15, 0x16, 0x17, 0x20, 0x22, 0x30, 0x40, 0xff]

/-- the driver's parameters: every byte string is accepted as UTF-8 and every 33-byte string as a canonical key (the
    harness only sends valid ones), group signatures are not re-verified, `extra` is never set -/
def driverParams (hashOf : Nat → Bytes) : Params where
  dec := { utf8 := fun _ => true, decodeKey := fun b => some b, validTypes := paramTypes }
  compact := fun b => b
  valid := fun m =>
    wfB { utf8 := fun _ => true, decodeKey := fun b => some b, validTypes := paramTypes } m &&
    (m.isValid paramTypes (fun _ _ => true) true).isNone
  hashOf := hashOf

end NeoModel.Ledger.Mgmt
