/-
C01 — NEO's reward-per-vote records (storage prefix 23, NeoCache.gasPerVoteCache), derived from the natives model:
which GpvOps (Model/Ledger/Components.lean) a block performs.

  drop   dropCandidateIfZero (native_neo.go:782-793), reached from unregisterCandidate and from ModifyAccountVotes when a
         candidate record is deleted: the prefix-23 record and the cache entry of that key go too
  add    PostPersist of the first block of an epoch (native_neo.go:513-552): for every member of the committee in
         office with votes > 0:  record += (2 if among the validators else 1) · voterReward / votes,  read cache-first
         (getLatestGASPerVote). With Gorgon, if votes changed in this very block (cache.votesChanged after the block's
         transactions) the votes are re-read from the candidate records, else the cached committee's votes are used.

A faulted transaction drops nothing (its layer is discarded). Core Lean only.
-/
import NeoModel.Model.Ledger.Natives
import NeoModel.Model.Ledger.Components
namespace NeoModel.Ledger.Reward
open NeoModel.Ledger.Natives NeoModel.Ledger.Components

/-- candidate records present before a transaction and gone after it -/
def droppedKeys (before after : List (Key × Cand)) : List Key :=
  (before.map (·.1)).filter fun k => (alGet after k).isNone

/-- the drops of the block's transactions, in order, and the world after them -/
def txsDrops (w : World) : List Tx → World × List GpvOp
  | [] => (w, [])
  | tx :: rest =>
    let w1 := (execTx w tx).1
    let r := txsDrops w1 rest
    (r.1, (droppedKeys w.st.cands w1.st.cands).map GpvOp.drop ++ r.2)

/-- voterReward of PostPersist: 80% of the block's GAS, scaled by voterRewardFactor·committeeSize, shared between
    committeeSize + validatorsCount seats (native_neo.go:514-519; big.Int arithmetic, every step a floor division) -/
def voterReward (cfg : Cfg) (gas : Int) : Int :=
  80 * gas * (100000000 * (cfg.committeeSize : Int)) / ((cfg.committeeSize : Int) + (cfg.validators : Int)) / 100

def rewardAux (cfg : Cfg) (w : World) (reward : Int) : Nat → List (Key × Int) → List GpvOp
  | _, [] => []
  | i, (k, cachedVotes) :: rest =>
    -- getCandidateVoteFromStorage (native_neo.go:1270-1280): -1 for a missing or unregistered candidate
    let votes := if w.c.neo.votesChanged then ((alGet w.st.cands k).map fun c => if c.registered then c.votes else -1).getD (-1) else cachedVotes
    let tail := rewardAux cfg w reward (i + 1) rest
    if votes > 0 then GpvOp.add k ((if i < cfg.validators then 2 else 1) * reward / votes) :: tail else tail

/-- everything block `h` does to the reward-per-vote records; `gas` = GetGASPerBlock(ic.BlockHeight()+1) as PostPersist
    reads it: index h+1 (interop/context.go:594-599, the block is already processed by Ledger), on the block-level cache,
    so a setGasPerBlock of this very block already counts -/
def gpvOpsOfBlock (cfg : Cfg) (st : Storage) (c : Caches) (h : Nat) (txs : List Tx) (gas : Int) : List GpvOp :=
  let r := txsDrops (onPersist cfg { st := st, c := c } h) txs
  r.2 ++ (if isEpochStart cfg h then rewardAux cfg r.1 (voterReward cfg gas) 0 r.1.c.neo.committee else [])

end NeoModel.Ledger.Reward
