/-
C01 — NEO's reward-per-vote records (storage prefix 23, NeoCache.gasPerVoteCache), derived from the natives model:
which GpvOps (Model/Ledger/Components.lean) a block performs.

  drop   dropCandidateIfZero (native_neo.go:782-793), reached from unregisterCandidate and from ModifyAccountVotes when a
         candidate record is deleted: the prefix-23 record and the cache entry of that key go too
  add    PostPersist of the first block of an epoch (native_neo.go:513-552): for every member of the committee in
         office with votes > 0:  record += (2 if among the validators else 1) · voterReward / votes,  read cache-first
         (getLatestGASPerVote). With Gorgon, if votes changed in this very block (cache.votesChanged after the block's
         transactions) the votes are re-read from the candidate records, else the cached committee's votes are used.

A faulted transaction drops nothing (its layer is discarded). Core Lean only.
-/
import NeoModel.Model.Ledger.Natives
import NeoModel.Model.Ledger.Components
namespace NeoModel.Ledger.Reward
open NeoModel.Ledger.Natives NeoModel.Ledger.Components

/-- candidate records present before a transaction and gone after it -/
def droppedKeys (before after : List (Key × Cand)) : List Key :=
  (before.map (·.1)).filter fun k => (alGet after k).isNone

/-- the drops of the block's transactions, in order, and the world after them -/
def txsDrops (w : World) : List Tx → World × List GpvOp
  | [] => (w, [])
  | tx :: rest =>
    let w1 := (execTx w tx).1
    let r := txsDrops w1 rest
    (r.1, (droppedKeys w.st.cands w1.st.cands).map GpvOp.drop ++ r.2)

/-- voterReward of PostPersist: 80% of the block's GAS, scaled by voterRewardFactor·committeeSize, shared between
    committeeSize + validatorsCount seats (native_neo.go:514-519; big.Int arithmetic, every step a floor division) -/
def voterReward (cfg : Cfg) (gas : Int) : Int :=
  80 * gas * (100000000 * (cfg.committeeSize : Int)) / ((cfg.committeeSize : Int) + (cfg.validators : Int)) / 100

def rewardAux (cfg : Cfg) (w : World) (reward : Int) : Nat → List (Key × Int) → List GpvOp
  | _, [] => []
  | i, (k, cachedVotes) :: rest =>
    -- getCandidateVoteFromStorage (native_neo.go:1270-1280): -1 for a missing or unregistered candidate
    let votes := if w.c.neo.votesChanged then ((alGet w.st.cands k).map fun c => if c.registered then c.votes else -1).getD (-1) else cachedVotes
    let tail := rewardAux cfg w reward (i + 1) rest
    if votes > 0 then GpvOp.add k ((if i < cfg.validators then 2 else 1) * reward / votes) :: tail else tail

/-- everything block `h` does to the reward-per-vote records; `gas` = GetGASPerBlock(ic.BlockHeight()+1) as PostPersist
    reads it: index h+1 (interop/context.go:594-599, the block is already processed by Ledger), on the block-level cache,
    so a setGasPerBlock of this very block already counts -/
def gpvOpsOfBlock (cfg : Cfg) (st : Storage) (c : Caches) (h : Nat) (txs : List Tx) (gas : Int) : List GpvOp :=
  let r := txsDrops (onPersist cfg { st := st, c := c } h) txs
  r.2 ++ (if isEpochStart cfg h then rewardAux cfg r.1 (voterReward cfg gas) 0 r.1.c.neo.committee else [])

-- the consumers of the records: BalanceHeight and LastGasPerVote of the NEO account states ---------------------------

/-- reward-per-vote records together with the reward fields (BalanceHeight, LastGasPerVote) of every NEO account record -/
structure RState where
  gpv : GpvState
  acc : List (Acct × (Nat × Int))
deriving DecidableEq, Repr

/-- distributeGas (native_neo.go:642-657) in a block of index `h` for an existing account voting for `voteTo`: nothing if
    already distributed in this block, else BalanceHeight := h and, for a voter, LastGasPerVote := getLatestGASPerVote
    (cache first) -/
def dist (h : Nat) (voteTo : Option Key) (s : RState) (a : Acct) : RState :=
  match alGet s.acc a with
  | none => s
  | some (bh, last) =>
    if bh == h then s
    else { s with acc := alPut s.acc a (h, match voteTo with | some k => gpvLookup s.gpv k | none => last) }

def applyDrops (ops : List GpvOp) (s : RState) : RState := { s with gpv := gpvRun s.gpv ops }

/-- LastGasPerVote := the record of the new vote target (cache first), or 0 when the vote is withdrawn -/
def setLast (a : Acct) (to : Option Key) (s : RState) : RState :=
  match alGet s.acc a with
  | none => s
  | some (bh, _) => { s with acc := alPut s.acc a (bh, match to with | some k => gpvLookup s.gpv k | none => 0) }

/-- voteInternalUnchecked (native_neo.go:1044-1115) on an existing account voting for `vt` so far: distribute (reads the
    OLD target's record), ModifyAccountVotes may drop the old target's records (`ops`), then the new target is read;
    `pub != acc.VoteTo` compares pointers of two freshly decoded keys, so a vote for a candidate ALWAYS re-reads -/
def voteEv (h : Nat) (vt : Option Key) (ops : List GpvOp) (a : Acct) (to : Option Key) (s : RState) : RState :=
  setLast a to (applyDrops ops (dist h vt s a))

/-- nep17 transfer → NEO.increaseBalance (native_neo.go:593-632) for the sender (voting for `vs`, record exists iff
    `hs`), then the receiver (`vd`, `hd`); a zero / self transfer only touches the sender -/
def transferEv (h : Nat) (vs vd : Option Key) (hs hd : Bool) (ops : List GpvOp) (src dst : Acct) (amt : Int) (s : RState) : RState :=
  if src == dst || amt == 0 then (if hs then dist h vs s src else s)
  else
    let s := applyDrops ops (dist h vs s src)
    if hd then dist h vd s dst else { s with acc := alPut s.acc dst (h, 0) }

/-- what one transaction of block `h` does to the records and the reward fields; `w` / `w1` = the natives world before /
    after it, `r` its result -/
def txRewards (h : Nat) (w w1 : World) (tx : Tx) (r : Res) (s : RState) : RState :=
  let drops := (droppedKeys w.st.cands w1.st.cands).map GpvOp.drop
  let vt := fun (a : Acct) => (alGet w.st.accounts a).bind Bal.voteTo
  let has := fun (a : Acct) => (alGet w.st.accounts a).isSome
  let s' :=
    match tx.op, r with
    | _, .fault => s
    | _, .skip => s
    | .neoTransfer src dst amt, .haltTrue => transferEv h (vt src) (vt dst) (has src) (has dst) drops src dst amt s
    | .vote a to, .haltTrue => voteEv h (vt a) drops a to s
    | .block a, .haltTrue => if has a then voteEv h (vt a) drops a none s else applyDrops drops s      -- RevokeVotes
    | .destroy c, .halt => if !w.st.blocked.contains c && has c then voteEv h (vt c) drops c none s else applyDrops drops s
    | .recoverNeo a tr _, .haltTrue =>
      transferEv h (vt a) (vt tr) (has a) (has tr) drops a tr (((alGet w.st.accounts a).map Bal.balance).getD 0) s
    | _, _ => applyDrops drops s
  -- a record whose balance reached zero is deleted with its reward fields
  { s' with acc := s'.acc.filter fun e => (alGet w1.st.accounts e.1).isSome }

def txsRewards (h : Nat) (w : World) (s : RState) : List Tx → World × RState
  | [] => (w, s)
  | tx :: rest =>
    let p := execTx w tx
    txsRewards h p.1 (txRewards h w p.1 tx p.2 s) rest

/-- block `h`: the transactions' effects, then the accumulation of PostPersist (as `gpvOpsOfBlock`) -/
def rewardsOfBlock (cfg : Cfg) (st : Storage) (c : Caches) (h : Nat) (txs : List Tx) (gas : Int) (s : RState) : RState :=
  let r := txsRewards h (onPersist cfg { st := st, c := c } h) s txs
  applyDrops (if isEpochStart cfg h then rewardAux cfg r.1 (voterReward cfg gas) 0 r.1.c.neo.committee else []) r.2

end NeoModel.Ledger.Reward
