/-
C01 — the modelled natives as an instance of the abstract node (`Ledger.Sys`): the whole modelled
contract storage is the value of one key, so the node keeps it in its layered store (backend + write cache)
exactly like the real DAO keeps contract storage, and the caches live next to it.
-/
import NeoModel.Model.Ledger
import NeoModel.Model.Ledger.Natives
namespace NeoModel.Ledger.Natives
open NeoModel.Ledger

def emptyCaches : Caches :=
  { policy := { feePerByte := 0, execFeeFactor := 0, storagePrice := 0, blocked := [] },
    neo := { votesChanged := true, nextValidators := [], newEpochNextValidators := [], committee := [], newEpochCommittee := [] } }

def nativeSys (cfg : Cfg) : Sys Unit Storage Caches (List Tx) (List Res) Getters where
  apply := fun rd c h txs =>
    match rd () with
    | none => ([], c, [])
    | some st =>
      let (st', c', rs) := applyBlock cfg st c h txs
      ([((), some st')], c', rs)
  initCache := fun rd h =>
    match rd () with
    | none => emptyCaches
    | some st => initCaches cfg st h
  stateKey := fun _ => true
  getters := fun c _ => getters c
  noResult := []

abbrev NNode := Node Unit Storage Caches (List Res) Unit

/-- the node right after the genesis block. -/
def genesisNode (cfg : Cfg) (holder : Acct) : NNode :=
  { db := fun _ => some (genesisStorage cfg holder), mem := [], cache := genesisCaches cfg holder,
    height := 0, pool := [], last := [] }

end NeoModel.Ledger.Natives
