/-
C01 — small cached components of the natives: contract storage `S`, cache `C`, native calls `O`.

  exec s c h o   one native method call at block height h on the transaction's private layer
                 (storage layer + copy-on-write cache obtained with GetRWCache); `none` = the call panics
  init s         InitializeCache: the cache a restarted node builds from storage
  leak c o       what the call writes into the cache of the LOWER layer, i.e. what survives a rollback of the
                 transaction: the identity for a method that writes through GetRWCache only; a method writing
                 through GetROCache mutates the shared lower cache (dao.go:1065-1137)

A transaction is a list of calls plus the flag "the whole script HALTed"; a FAULTed transaction's layer is
dropped (blockchain.go:2060-2090). Core Lean only.
-/
namespace NeoModel.Ledger

structure Comp (S C O : Type) where
  exec : S → C → Nat → O → Option (S × C)
  init : S → C
  leak : C → O → C

structure CTx (O : Type) where
  ops : List O
  halts : Bool

namespace Comp
variable {S C O : Type}

/-- run the calls of one transaction on its private layer -/
def runOps (K : Comp S C O) (s : S) (c : C) (h : Nat) : List O → Option (S × C)
  | [] => some (s, c)
  | o :: os => match K.exec s c h o with
    | none => none
    | some (s', c') => runOps K s' c' h os

/-- what the calls leave in the lower layer's cache whatever happens to the transaction -/
def leaks (K : Comp S C O) (c : C) : List O → C
  | [] => c
  | o :: os => leaks K (K.leak c o) os

/-- one transaction: merged on HALT, dropped otherwise (except for what leaked) -/
def runTx (K : Comp S C O) (s : S) (c : C) (h : Nat) (tx : CTx O) : S × C :=
  match K.runOps s c h tx.ops with
  | some (s', c') => if tx.halts then (s', c') else (s, K.leaks c tx.ops)
  | none => (s, K.leaks c tx.ops)

def runBlock (K : Comp S C O) (s : S) (c : C) (h : Nat) : List (CTx O) → S × C
  | [] => (s, c)
  | tx :: txs => let r := K.runTx s c h tx; runBlock K r.1 r.2 h txs

inductive CStep (O : Type) where
  | block (txs : List (CTx O))
  | restart

structure CNode (S C : Type) where
  store : S
  cache : C
  height : Nat

def cstep (K : Comp S C O) (n : CNode S C) : CStep O → CNode S C
  | .block txs => let r := K.runBlock n.store n.cache (n.height + 1) txs
                  { store := r.1, cache := r.2, height := n.height + 1 }
  | .restart => { n with cache := K.init n.store }

def crun (K : Comp S C O) (n : CNode S C) : List (CStep O) → CNode S C
  | [] => n
  | s :: ss => crun K (cstep K n s) ss

/-- did the transaction HALT with its effects merged: all calls succeeded and the script did not abort afterwards
    (`halts`; with the guards modelled — Model/Ledger/Guarded.lean — this is the model's PREDICTION of the VM state) -/
def txOk (K : Comp S C O) (s : S) (c : C) (h : Nat) (tx : CTx O) : Bool :=
  (K.runOps s c h tx.ops).isSome && tx.halts

/-- the outcomes of the transactions of a block, in order -/
def runBlockR (K : Comp S C O) (s : S) (c : C) (h : Nat) : List (CTx O) → List Bool
  | [] => []
  | tx :: txs => K.txOk s c h tx :: (let r := K.runTx s c h tx; runBlockR K r.1 r.2 h txs)

/-- cache coherence of a component: after every call on a coherent state the cache is exactly what
    InitializeCache would build, and no call writes into the lower layer. -/
structure Exact (K : Comp S C O) : Prop where
  step : ∀ s h o s' c', K.exec s (K.init s) h o = some (s', c') → c' = K.init s'
  noLeak : ∀ c o, K.leak c o = c

end Comp
end NeoModel.Ledger
