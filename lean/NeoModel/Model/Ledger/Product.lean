/-
C01 — single-state systems (`USys`: the whole modelled contract storage of a native is one value) and their
product, so that the abstract node of Model/Ledger.lean can carry all modelled natives side by side.
-/
import NeoModel.Model.Ledger
import NeoModel.Model.Ledger.Comp
namespace NeoModel.Ledger

structure USys (V C B R T : Type) where
  apply : V → C → Nat → B → V × C × R
  initCache : V → Nat → C
  getters : C → Nat → T
  noResult : R

namespace USys
variable {V C B R T V₂ C₂ B₂ R₂ T₂ : Type}

/-- as a system of the abstract node: the value lives under the single key `()`. -/
def toSys (U : USys V C B R T) (dflt : C) : Sys Unit V C B R T where
  apply := fun rd c h b => match rd () with
    | none => ([], c, U.noResult)
    | some v => ([((), some (U.apply v c h b).1)], (U.apply v c h b).2.1, (U.apply v c h b).2.2)
  initCache := fun rd h => match rd () with
    | none => dflt
    | some v => U.initCache v h
  stateKey := fun _ => true
  getters := U.getters
  noResult := U.noResult

/-- two natives side by side: storage, caches, blocks (each native sees its own calls), results, getters in pairs. -/
def prod (U₁ : USys V C B R T) (U₂ : USys V₂ C₂ B₂ R₂ T₂) : USys (V × V₂) (C × C₂) (B × B₂) (R × R₂) (T × T₂) where
  apply := fun v c h b =>
    (((U₁.apply v.1 c.1 h b.1).1, (U₂.apply v.2 c.2 h b.2).1),
     ((U₁.apply v.1 c.1 h b.1).2.1, (U₂.apply v.2 c.2 h b.2).2.1),
     ((U₁.apply v.1 c.1 h b.1).2.2, (U₂.apply v.2 c.2 h b.2).2.2))
  initCache := fun v h => (U₁.initCache v.1 h, U₂.initCache v.2 h)
  getters := fun c h => (U₁.getters c.1 h, U₂.getters c.2 h)
  noResult := (U₁.noResult, U₂.noResult)

end USys

/-- a cached component as a single-state system: a block is the list of its transactions -/
def Comp.toUSys {S C O : Type} (K : Comp S C O) : USys S C (List (CTx O)) Unit C where
  apply := fun s c h b => ((K.runBlock s c h b).1, (K.runBlock s c h b).2, ())
  initCache := fun s _ => K.init s
  getters := fun c _ => c
  noResult := ()

-- systems whose block execution reads an environment supplied by another native (Model/Ledger/Guarded.lean) ----------
structure EUSys (E V C B R T : Type) where
  apply : E → V → C → Nat → B → V × C × R
  initCache : V → Nat → C
  getters : C → Nat → T
  noResult : R

namespace EUSys
variable {E V C B R T V₂ C₂ B₂ R₂ T₂ : Type}

def fix (U : EUSys E V C B R T) (e : E) : USys V C B R T :=
  { apply := U.apply e, initCache := U.initCache, getters := U.getters, noResult := U.noResult }

def prod (U₁ : EUSys E V C B R T) (U₂ : EUSys E V₂ C₂ B₂ R₂ T₂) : EUSys E (V × V₂) (C × C₂) (B × B₂) (R × R₂) (T × T₂) where
  apply := fun e v c h b =>
    (((U₁.apply e v.1 c.1 h b.1).1, (U₂.apply e v.2 c.2 h b.2).1),
     ((U₁.apply e v.1 c.1 h b.1).2.1, (U₂.apply e v.2 c.2 h b.2).2.1),
     ((U₁.apply e v.1 c.1 h b.1).2.2, (U₂.apply e v.2 c.2 h b.2).2.2))
  initCache := fun v h => (U₁.initCache v.1 h, U₂.initCache v.2 h)
  getters := fun c h => (U₁.getters c.1 h, U₂.getters c.2 h)
  noResult := (U₁.noResult, U₂.noResult)

end EUSys

/-- a system that ignores the environment -/
def USys.toE {V C B R T : Type} (E : Type) (U : USys V C B R T) : EUSys E V C B R T :=
  { apply := fun _ => U.apply, initCache := U.initCache, getters := U.getters, noResult := U.noResult }

/-- dependent product: the second system's blocks run in the environment `env` computed from the first system's
    storage and caches at that block (e.g. the cached committee after NEO.OnPersist) -/
def USys.dprod {E V C B R T V₂ C₂ B₂ R₂ T₂ : Type} (U₁ : USys V C B R T) (env : V → C → Nat → E)
    (U₂ : EUSys E V₂ C₂ B₂ R₂ T₂) : USys (V × V₂) (C × C₂) (B × B₂) (R × R₂) (T × T₂) where
  apply := fun v c h b =>
    (((U₁.apply v.1 c.1 h b.1).1, (U₂.apply (env v.1 c.1 h) v.2 c.2 h b.2).1),
     ((U₁.apply v.1 c.1 h b.1).2.1, (U₂.apply (env v.1 c.1 h) v.2 c.2 h b.2).2.1),
     ((U₁.apply v.1 c.1 h b.1).2.2, (U₂.apply (env v.1 c.1 h) v.2 c.2 h b.2).2.2))
  initCache := fun v h => (U₁.initCache v.1 h, U₂.initCache v.2 h)
  getters := fun c h => (U₁.getters c.1 h, U₂.getters c.2 h)
  noResult := (U₁.noResult, U₂.noResult)

end NeoModel.Ledger
