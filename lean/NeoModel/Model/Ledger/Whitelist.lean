/-
C01 — the whitelisted-fee list of PolicyContract (policy.go: setWhitelistFeeContract 928-980,
removeWhitelistFeeContract 886-926, CleanWhitelist 859-884, fillCacheFromDAO 421-446, WhitelistedFee 845-857),
as written: a small component of its own next to Model/Ledger/Natives.lean. Keys are (contract, method offset),
here (contract id, method id); values are fees. (Since fix cb24446 `set` overwrites an existing cache entry.)
-/
namespace NeoModel.Ledger.Whitelist

abbrev WKey := Nat × Nat

structure State where
  store : List (WKey × Int)   -- Policy storage, prefix 16
  cache : List (WKey × Int)   -- PolicyCache.whitelistedContracts
deriving DecidableEq, Repr

def get (l : List (WKey × Int)) (k : WKey) : Option Int :=
  (l.find? (·.1 == k)).map (·.2)

def put (l : List (WKey × Int)) (k : WKey) (v : Int) : List (WKey × Int) :=
  (k, v) :: l.filter (·.1 != k)

def erase (l : List (WKey × Int)) (k : WKey) : List (WKey × Int) := l.filter (·.1 != k)

inductive Op where
  | set (k : WKey) (fee : Int)
  | remove (k : WKey)
  | clean (contract : Nat)      -- contract destroyed
  | restart                     -- InitializeCache
deriving DecidableEq, Repr

/-- `none` = the call panics (transaction FAULTs, nothing changes). -/
def step (s : State) : Op → Option State
  | .set k fee =>
    if fee < 0 then none else
    -- storage and cache are both written: a new entry is inserted, an existing one overwritten
    -- (`if !ok { Insert } else { cache.whitelistedContracts[i] = c }`, fix cb24446)
    some { store := put s.store k fee, cache := put s.cache k fee }
  | .remove k =>
    match get s.cache k with
    | none => none
    | some _ => some { store := erase s.store k, cache := erase s.cache k }
  | .clean c => some { store := s.store.filter (·.1.1 != c), cache := s.cache.filter (·.1.1 != c) }
  | .restart => some { s with cache := s.store }

def run (s : State) : List Op → State
  | [] => s
  | o :: os => run ((step s o).getD s) os

/-- WhitelistedFee: what a call of the method is charged (cache), vs what a restarted node would charge. -/
def chargedFee (s : State) (k : WKey) : Option Int := get s.cache k
def storedFee (s : State) (k : WKey) : Option Int := get s.store k

def empty : State := { store := [], cache := [] }

/-- lookups agree (the lists may be ordered differently) -/
def Coherent (s : State) : Prop := ∀ k, get s.cache k = get s.store k

end NeoModel.Ledger.Whitelist
