/-
C01 — concrete model of the two natives whose caches decide consensus-visible answers:
PolicyContract (pkg/core/native/policy.go) and the governance part of NeoToken
(pkg/core/native/native_neo.go), as written (all stable hardforks active from genesis, incl. Faun/Gorgon).

Identifiers: a public key is its rank in (X,Y) order (`keys.PublicKey.Cmp`, used for sorting validators
and for breaking vote ties, native_neo.go:1162-1182); accounts are `Acct.key k` (the single-signature
account of key k: the account `getCandidates` checks against the blocked list, native_neo.go:1153) or
`Acct.other n` (multisig accounts, contracts).

Not modelled (listed in props/C01.json): GAS, reward bookkeeping (gasPerVoteCache, BalanceHeight), prices,
notifications, every other native.
-/
namespace NeoModel.Ledger.Natives

abbrev Key := Nat

inductive Acct where
  | key (k : Key)
  | other (n : Nat)
deriving DecidableEq, Repr

structure Cand where
  registered : Bool
  votes : Int
deriving DecidableEq, Repr

structure Bal where
  balance : Int
  voteTo : Option Key
deriving DecidableEq, Repr

/-- protocol configuration (config.ProtocolConfiguration): same on every replica. -/
structure Cfg where
  committeeSize : Nat
  validators : Nat
  standby : List Key          -- StandbyCommittee in config order
deriving DecidableEq, Repr

/-- contract storage of the modelled natives. -/
structure Storage where
  feePerByte : Int            -- Policy key 10
  execFeeFactor : Int         -- Policy key 18 (picoGAS factor after Faun)
  storagePrice : Int          -- Policy key 19
  blocked : List Acct         -- Policy prefix 15 (a set)
  cands : List (Key × Cand)   -- NEO prefix 33
  accounts : List (Acct × Bal) -- NEO prefix 20
  votersCount : Int           -- NEO prefix 1
  committee : List (Key × Int) -- NEO prefix 14 (keysWithVotes, in committee order)
  deployed : List Acct        -- Management: hashes of deployed (generated) contracts
deriving DecidableEq, Repr

/-- PolicyCache (policy.go:97-109), modelled fields. -/
structure PolicyCache where
  feePerByte : Int
  execFeeFactor : Int
  storagePrice : Int
  blocked : List Acct
deriving DecidableEq, Repr

/-- NeoCache (native_neo.go:46-79), modelled fields (the committee hashes are functions of the lists). -/
structure NeoCache where
  votesChanged : Bool
  nextValidators : List Key
  newEpochNextValidators : List Key
  committee : List (Key × Int)
  newEpochCommittee : List (Key × Int)
deriving DecidableEq, Repr

structure Caches where
  policy : PolicyCache
  neo : NeoCache
deriving DecidableEq, Repr

-- ---------------------------------------------------------------------------------------------
-- association lists

def alGet {α β : Type} [DecidableEq α] : List (α × β) → α → Option β
  | [], _ => none
  | (a, b) :: r, x => if a = x then some b else alGet r x

def alErase {α β : Type} [DecidableEq α] : List (α × β) → α → List (α × β)
  | [], _ => []
  | (a, b) :: r, x => if a = x then r else (a, b) :: alErase r x

/-- put keeping the position of an existing entry, append otherwise. -/
def alPut {α β : Type} [DecidableEq α] : List (α × β) → α → β → List (α × β)
  | [], x, y => [(x, y)]
  | (a, b) :: r, x, y => if a = x then (a, y) :: r else (a, b) :: alPut r x y

def insertSorted (x : Nat) : List Nat → List Nat
  | [] => [x]
  | y :: r => if x ≤ y then x :: y :: r else y :: insertSorted x r

def sortNat (l : List Nat) : List Nat := l.foldr insertSorted []

-- ---------------------------------------------------------------------------------------------
-- committee computation (native_neo.go:1148-1187 getCandidates, 1363-1406 computeCommitteeMembers)

/-- `a` goes before `b`: more votes first, ties by key order. -/
def candBefore (a b : Key × Int) : Bool :=
  a.2 > b.2 || (a.2 == b.2 && a.1 ≤ b.1)

def insertCand (x : Key × Int) : List (Key × Int) → List (Key × Int)
  | [] => [x]
  | y :: r => if candBefore x y then x :: y :: r else y :: insertCand x r

def sortCands (l : List (Key × Int)) : List (Key × Int) := l.foldr insertCand []

/-- getCandidates(sortByKey=false): registered candidates whose own account is not blocked. -/
def eligible (cands : List (Key × Cand)) (blocked : List Acct) : List (Key × Int) :=
  sortCands ((cands.filter fun (k, c) => c.registered && !blocked.contains (Acct.key k)).map fun (k, c) => (k, c.votes))

def totalSupply : Int := 100000000

/-- computeCommitteeMembers: elected committee if turnout ≥ 20% and enough candidates, else standby. -/
def computeCommittee (cfg : Cfg) (st : Storage) (blocked : List Acct) : List (Key × Int) :=
  let cs := eligible st.cands blocked
  let turnout := st.votersCount * 5 / totalSupply
  if turnout ≤ 0 || cs.length < cfg.committeeSize then
    (cfg.standby.take cfg.committeeSize).map fun k => (k, (alGet cs k).getD 0)
  else cs.take cfg.committeeSize

/-- validators = the first `n` committee members, sorted by key (updateCache / updateCachedNewEpochValues). -/
def validatorsOf (cfg : Cfg) (cmt : List (Key × Int)) : List Key :=
  sortNat ((cmt.map (·.1)).take cfg.validators)

def isEpochStart (cfg : Cfg) (h : Nat) : Bool := h % cfg.committeeSize == 0

-- ---------------------------------------------------------------------------------------------
-- InitializeCache (policy.go:361-449, native_neo.go:372-409)

def initPolicy (st : Storage) : PolicyCache :=
  { feePerByte := st.feePerByte, execFeeFactor := st.execFeeFactor, storagePrice := st.storagePrice, blocked := st.blocked }

/-- NEO.InitializeCache at block height `h`. NEO is initialised before Policy, `Policy.IsBlocked` then reads
    storage (policy.go:534-539). -/
def initNeo (cfg : Cfg) (st : Storage) (h : Nat) : NeoCache :=
  let vals := validatorsOf cfg st.committee
  if isEpochStart cfg (h + 1) then
    let ne := computeCommittee cfg st st.blocked
    { votesChanged := true, nextValidators := vals, committee := st.committee,
      newEpochCommittee := ne, newEpochNextValidators := validatorsOf cfg ne }
  else
    { votesChanged := true, nextValidators := vals, committee := st.committee,
      newEpochCommittee := st.committee, newEpochNextValidators := vals }

def initCaches (cfg : Cfg) (st : Storage) (h : Nat) : Caches :=
  { policy := initPolicy st, neo := initNeo cfg st h }

-- ---------------------------------------------------------------------------------------------
-- transactions

inductive Op where
  | neoTransfer (src dst : Acct) (amount : Int)
  | vote (acc : Acct) (to : Option Key)
  | register (k : Key)
  | unregister (k : Key)
  | setFeePerByte (v : Int)
  | setExecFeeFactor (v : Int)
  | setStoragePrice (v : Int)
  | block (a : Acct)
  | unblock (a : Acct)
  | deploy (c : Acct)
  | destroy (c : Acct)
  /-- Policy.recoverFund of the NEO of a blocked account to the Treasury; `pre` = the preconditions outside the
      model (one year of block time since the blocking, "almost full" committee witness) hold -/
  | recoverNeo (acc treasury : Acct) (pre : Bool)
  /-- a call about a deployed contract without effect on the state modelled here: committee-gated
      setWhitelistFeeContract / removeWhitelistFeeContract, or the contract's own `update` (their effect on the
      whitelisted fees is Model/Ledger/Whitelist.lean) -/
  | about (c : Acct) (needCommittee : Bool)
  | fault            -- a script that calls natives and then aborts
  | other            -- anything that does not touch the modelled state
deriving DecidableEq, Repr

structure Tx where
  signers : List Acct
  /-- the committee multisignature witness, if any: (m, keys) -/
  committee : Option (Nat × List Key)
  op : Op
  /-- the real execution ran out of GAS (outside the model: treated as a fault) -/
  oog : Bool
deriving DecidableEq, Repr

inductive Res where
  | haltTrue | haltFalse | halt | fault | skip
deriving DecidableEq, Repr

/-- node state between transactions: contract storage + the caches of the block's DAO layer. -/
structure World where
  st : Storage
  c : Caches
deriving DecidableEq, Repr

/-- What one transaction works on: its private DAO layer. A transaction can read and write contract
    storage and the Policy cache, can read the cached committee (CheckCommittee), and can only *set* the
    NEO cache's votesChanged flag (`touched`; no native method reads the flag, native_neo.go:944,983,1128,
    policy.go:723-731). -/
structure TxView where
  st : Storage
  pol : PolicyCache
  committee : List (Key × Int)
  touched : Bool
deriving DecidableEq, Repr

def majority (n : Nat) : Nat := n - (n - 1) / 2

/-- NEO.CheckCommittee: witness of the majority multisig of the *cached* committee. -/
def checkCommittee (w : TxView) (tx : Tx) : Bool :=
  match tx.committee with
  | none => false
  | some (m, ks) =>
    let cm := sortNat (w.committee.map (·.1))
    m == majority cm.length && sortNat ks == cm

def setVotesChanged (w : TxView) : TxView := { w with touched := true }

/-- dropCandidateIfZero (native_neo.go:782-793) folded into the candidate update of ModifyAccountVotes. -/
def addVotes (cands : List (Key × Cand)) (k : Key) (d : Int) (isNewVote : Bool) : Option (List (Key × Cand)) :=
  match alGet cands k with
  | none => none   -- "invalid validator"
  | some c =>
    let c' : Cand := { c with votes := c.votes + d }
    if !isNewVote && !c'.registered && c'.votes == 0 then some (alErase cands k)
    else some (alPut cands k c')

/-- ModifyAccountVotes (native_neo.go:1126-1146): always marks votesChanged. -/
def modifyAccountVotes (w : TxView) (voteTo : Option Key) (d : Int) (isNewVote : Bool) : Option TxView :=
  let w := setVotesChanged w
  match voteTo with
  | none => some w
  | some k => (addVotes w.st.cands k d isNewVote).map fun cs => { w with st := { w.st with cands := cs } }

/-- big.Int.Int64 (math/big): the low 64 bits of |x| as a two's-complement int64, negated if x < 0 -/
def int64Wrap (x : Int) : Int :=
  let m : Int := (x.natAbs % 18446744073709551616 : Nat)
  let v := if m ≥ 9223372036854775808 then m - 18446744073709551616 else m
  if x < 0 then (if v == -9223372036854775808 then v else -v) else v

def belowRequired (bal : Int) : Option Int → Bool
  | some r => decide (bal < r)
  | none => false

/-- NEO.increaseBalance on an existing (or fresh, `b.balance = 0`) record, amount `d ≠ 0`
    (native_neo.go:593-632): votes of the voted candidate, voters count, balance; a zero balance deletes
    the record. -/
def applyDelta (w : TxView) (acc : Acct) (b : Bal) (d : Int) : Option TxView :=
  (modifyAccountVotes w b.voteTo d false).map fun w =>
    let vc := if b.voteTo.isSome then w.st.votersCount + d else w.st.votersCount
    let nb := b.balance + d
    let accs := if nb == 0 then alErase w.st.accounts acc else alPut w.st.accounts acc { b with balance := nb }
    { w with st := { w.st with accounts := accs, votersCount := vc } }

/-- nep17 updateAccBalance + NEO.increaseBalance for `acc` by `d`; `required` = balance check of a
    zero-amount debit. `none` = error ("insufficient funds" / "invalid validator"). -/
def incBalance (w : TxView) (acc : Acct) (d : Int) (required : Option Int) : Option TxView :=
  match alGet w.st.accounts acc with
  | none =>
    if d < 0 then none
    else if (required.getD 0) > 0 then none
    else if d == 0 then some w
    else applyDelta w acc { balance := 0, voteTo := none } d
  | some b =>
    if (d < 0 && b.balance < -d) || (d == 0 && belowRequired b.balance required) then none
    else if d == 0 then some w
    else applyDelta w acc b d

/-- the vote target must be a registered candidate (native_neo.go:1056-1068). -/
def candOk (cands : List (Key × Cand)) : Option Key → Bool
  | none => true
  | some k => match alGet cands k with
    | none => false
    | some c => c.registered

/-- modifyVoterTurnout when the account starts / stops voting (native_neo.go:1070-1078). -/
def turnoutAfterVote (vc : Int) (b : Bal) (to : Option Key) : Int :=
  if b.voteTo.isNone != to.isNone then (if to.isNone then vc - b.balance else vc + b.balance) else vc

/-- voteInternalUnchecked (native_neo.go:1044-1115). `none` = error before/without completing. -/
def voteInternal (w : TxView) (acc : Acct) (to : Option Key) : Option TxView :=
  (alGet w.st.accounts acc).bind fun b =>
    if !candOk w.st.cands to then none else
    (modifyAccountVotes { w with st := { w.st with votersCount := turnoutAfterVote w.st.votersCount b to } } b.voteTo (-b.balance) false).bind fun w1 =>
    (modifyAccountVotes w1 to b.balance true).map fun w2 =>
      { w2 with st := { w2.st with accounts := alPut w2.st.accounts acc { b with voteTo := to } } }

/-- NEO.RevokeVotes (native_neo.go:1036-1041); an error is ignored by the caller (policy.go:694-698). -/
def revokeVotes (w : TxView) (a : Acct) : TxView := (voteInternal w a none).getD w

/-- Policy.BlockAccountInternal (policy.go:668-704) with the Faun vote revocation; a new entry of the blocked
    list marks the committee outdated (markCommitteeOutdated, policy.go:723-731: sets NeoCache.votesChanged). -/
def blockInternal (w : TxView) (a : Acct) : TxView × Bool :=
  if w.pol.blocked.contains a then (w, false) else
  let w := revokeVotes w a
  ({ w with st := { w.st with blocked := a :: w.st.blocked },
            pol := { w.pol with blocked := a :: w.pol.blocked }, touched := true }, true)

def execOp (w : TxView) (tx : Tx) : TxView × Res :=
  match tx.op with
  | .neoTransfer src dst amount =>
    if amount < 0 then (w, .fault)
    else if !tx.signers.contains src then (w, .haltFalse)
    else
      let isEmpty := src == dst || amount == 0
      match incBalance w src (if isEmpty then 0 else -amount) (some amount) with
      | none => (w, .haltFalse)
      | some w1 =>
        if isEmpty then (w1, .haltTrue)
        else match incBalance w1 dst amount none with
          | none => (w1, .haltFalse)
          | some w2 => (w2, .haltTrue)
  | .vote acc to =>
    if !tx.signers.contains acc then (w, .haltFalse)
    else match voteInternal w acc to with
      | none => (w, .haltFalse)
      | some w' => (w', .haltTrue)
  | .register k =>
    -- post-Echidna registerCandidate has no witness check (native_neo.go:873-888)
    match alGet w.st.cands k with
    | none => (setVotesChanged { w with st := { w.st with cands := alPut w.st.cands k { registered := true, votes := 0 } } }, .haltTrue)
    | some c =>
      if c.registered then (w, .haltTrue)
      else (setVotesChanged { w with st := { w.st with cands := alPut w.st.cands k { c with registered := true } } }, .haltTrue)
  | .unregister k =>
    if !tx.signers.contains (Acct.key k) then (w, .haltFalse)
    else match alGet w.st.cands k with
      | none => (w, .haltTrue)
      | some c =>
        let w := setVotesChanged w
        let cs := if c.votes == 0 then alErase w.st.cands k else alPut w.st.cands k { c with registered := false }
        ({ w with st := { w.st with cands := cs } }, .haltTrue)
  | .setFeePerByte v =>
    -- `toBigInt(args[0]).Int64()` (policy.go:638): no range check before the conversion, the low 64 bits are taken
    if int64Wrap v < 0 || int64Wrap v > 100000000 then (w, .fault)
    else if !checkCommittee w tx then (w, .fault)
    else ({ w with st := { w.st with feePerByte := int64Wrap v }, pol := { w.pol with feePerByte := int64Wrap v } }, .halt)
  | .setExecFeeFactor v =>
    if v ≤ 0 || v > 1000000 then (w, .fault)
    else if !checkCommittee w tx then (w, .fault)
    else ({ w with st := { w.st with execFeeFactor := v }, pol := { w.pol with execFeeFactor := v } }, .halt)
  | .setStoragePrice v =>
    if v ≤ 0 || v > 10000000 then (w, .fault)
    else if !checkCommittee w tx then (w, .fault)
    else ({ w with st := { w.st with storagePrice := v }, pol := { w.pol with storagePrice := v } }, .halt)
  | .block a =>
    if !checkCommittee w tx then (w, .fault)
    else
      let (w', r) := blockInternal w a
      (w', if r then .haltTrue else .haltFalse)
  | .unblock a =>
    if !checkCommittee w tx then (w, .fault)
    else if !w.pol.blocked.contains a then (w, .haltFalse)
    else ({ w with st := { w.st with blocked := w.st.blocked.filter (· != a) },
                   pol := { w.pol with blocked := w.pol.blocked.filter (· != a) },
                   touched := true }, .haltTrue)  -- markCommitteeOutdated
  | .deploy c =>
    if w.st.deployed.contains c then (w, .fault)
    else ({ w with st := { w.st with deployed := c :: w.st.deployed } }, .halt)
  | .destroy c =>
    if !w.st.deployed.contains c then (w, .fault)
    else
      let (w', _) := blockInternal w c
      ({ w' with st := { w'.st with deployed := w'.st.deployed.filter (· != c) } }, .halt)
  | .recoverNeo acc tr pre =>
    -- policy.go:991-1044: balanceOf, then NEO.transfer(acc, Treasury, balance) called on behalf of `acc`
    if !pre then (w, .fault)
    else match alGet w.st.accounts acc with
      | none => (w, .haltFalse)
      | some b =>
        if b.balance ≤ 0 then (w, .haltFalse)
        else match incBalance w acc (-b.balance) (some b.balance) with
          | none => (w, .fault)
          | some w1 => match incBalance w1 tr b.balance none with
            | none => (w, .fault)
            | some w2 => (w2, .haltTrue)
  | .about c needCommittee =>
    if needCommittee && !checkCommittee w tx then (w, .fault)
    else if !w.st.deployed.contains c then (w, .fault)
    else (w, .halt)
  | .fault => (w, .fault)
  | .other => (w, .skip)

def viewOf (w : World) : TxView :=
  { st := w.st, pol := w.c.policy, committee := w.c.neo.committee, touched := false }

/-- one transaction in its own private layer: storage and caches are merged only on HALT
    (blockchain.go:2060-2090, dao.go cache copy-on-write). -/
def execTx (w : World) (tx : Tx) : World × Res :=
  if tx.oog then (w, .fault) else
  let (v, r) := execOp (viewOf w) tx
  match r with
  | .fault => (w, .fault)
  | _ => ({ st := v.st, c := { policy := v.pol, neo := { w.c.neo with votesChanged := w.c.neo.votesChanged || v.touched } } }, r)

def execTxs (w : World) : List Tx → World × List Res
  | [] => (w, [])
  | tx :: rest =>
    let (w1, r) := execTx w tx
    let (w2, rs) := execTxs w1 rest
    (w2, r :: rs)

/-- NEO.OnPersist (native_neo.go:465-500). -/
def onPersist (cfg : Cfg) (w : World) (h : Nat) : World :=
  if isEpochStart cfg h then
    let n := w.c.neo
    let n' : NeoCache := { n with nextValidators := n.newEpochNextValidators, committee := n.newEpochCommittee, votesChanged := false }
    { st := { w.st with committee := n'.committee }, c := { w.c with neo := n' } }
  else w

/-- NEO.PostPersist, committee part (native_neo.go:553-575). -/
def postPersist (cfg : Cfg) (w : World) (h : Nat) : World :=
  if isEpochStart cfg (h + 1) then
    let n := w.c.neo
    if n.votesChanged || cfg.validators != n.newEpochNextValidators.length || cfg.committeeSize != n.newEpochCommittee.length then
      let ne := computeCommittee cfg w.st w.c.policy.blocked
      { w with c := { w.c with neo := { n with newEpochCommittee := ne, newEpochNextValidators := validatorsOf cfg ne } } }
    else w
  else w

/-- storeBlock for the modelled natives: OnPersist, transactions, PostPersist. -/
def applyBlock (cfg : Cfg) (st : Storage) (c : Caches) (h : Nat) (txs : List Tx) : Storage × Caches × List Res :=
  let w0 := onPersist cfg { st := st, c := c } h
  let (w1, rs) := execTxs w0 txs
  let w2 := postPersist cfg w1 h
  (w2.st, w2.c, rs)

/-- state after the genesis block: 100M NEO on the standby validators' multisig account (`holder`). -/
def genesisStorage (cfg : Cfg) (holder : Acct) : Storage :=
  { feePerByte := 1000, execFeeFactor := 300000, storagePrice := 100000, blocked := [],
    cands := [], accounts := [(holder, { balance := totalSupply, voteTo := none })], votersCount := 0,
    committee := (cfg.standby.take cfg.committeeSize).map fun k => (k, 0), deployed := [] }

/-- caches after the genesis block (Initialize + OnPersist(0) of the genesis block: votesChanged = false). -/
def genesisCaches (cfg : Cfg) (holder : Acct) : Caches :=
  let st := genesisStorage cfg holder
  let c := initCaches cfg st 0
  let ne := computeCommittee cfg st st.blocked
  { c with neo := { c.neo with votesChanged := false, newEpochCommittee := ne, newEpochNextValidators := validatorsOf cfg ne } }

/-- the getters' answers (GetCommittee is sorted, blockchain.go; ComputeNextBlockValidators = newEpoch cache). -/
structure Getters where
  feePerByte : Int
  execFeeFactor : Int
  storagePrice : Int
  committee : List Key
  nextValidators : List Key
  newEpochValidators : List Key
deriving DecidableEq, Repr

def getters (c : Caches) : Getters :=
  { feePerByte := c.policy.feePerByte, execFeeFactor := c.policy.execFeeFactor, storagePrice := c.policy.storagePrice,
    committee := sortNat (c.neo.committee.map (·.1)), nextValidators := c.neo.nextValidators,
    newEpochValidators := c.neo.newEpochNextValidators }

end NeoModel.Ledger.Natives
