/-
C01 — the cached components of the natives that are not part of Model/Ledger/Natives.lean, each as a `Comp`
(Model/Ledger/Comp.lean), as written in pkg/core/native:

  settings     an UNGUARDED scalar setter and its variant writing through GetROCache: kept only to state what the layer
               discipline protects against (`settings_ro_write_breaks_coherence`); the setters as written, with their
               guards, are Model/Ledger/Guarded.lean (gsettings)
  whitelist    Policy whitelisted fees (policy.go:845-990)
  (ContractManagement with manifests: Model/Ledger/Mgmt.lean)
  (RoleManagement storage/cache types and `maxEntry` live here; the guarded component is Guarded.gdesignate)

and two NEO caches whose coherence is a lookup property, not an equality:
  gasPerBlock  NeoCache.gasPerBlock is append-only, storage overwrites: `insertRec`, `gpbLookup` here, the guarded
               component is Guarded.gpb
  gasPerVote   NeoCache.gasPerVoteCache is a partial cache filled on write, empty after a restart
-/
import NeoModel.Model.Ledger.Comp
namespace NeoModel.Ledger.Components
open NeoModel.Ledger

-- association lists over Nat keys -------------------------------------------------------------------
def aget {β : Type} (l : List (Nat × β)) (k : Nat) : Option β := (l.find? (·.1 == k)).map (·.2)
def aput {β : Type} (l : List (Nat × β)) (k : Nat) (v : β) : List (Nat × β) := (k, v) :: l.filter (·.1 != k)
def adel {β : Type} (l : List (Nat × β)) (k : Nat) : List (Nat × β) := l.filter (·.1 != k)

-- settings ----------------------------------------------------------------------------------------------
inductive SetOp where
  /-- a committee setter that passed its checks: setIntWithKey + cache field assignment -/
  | set (key : Nat) (value : Int)
  /-- the same, but writing the cache obtained with GetROCache (NOT in the code: kept to state what the
      layer discipline protects against, see `settings_ro_write_breaks_coherence`) -/
  | setViaRO (key : Nat) (value : Int)
deriving DecidableEq, Repr

def settings : Comp (List (Nat × Int)) (List (Nat × Int)) SetOp where
  exec := fun s c _ o => match o with
    | .set k v => some (aput s k v, aput c k v)
    | .setViaRO k v => some (aput s k v, aput c k v)
  init := fun s => s
  leak := fun c o => match o with
    | .set _ _ => c
    | .setViaRO k v => aput c k v

-- whitelisted fees ------------------------------------------------------------------------------------
abbrev WKey := Nat × Nat
def wget (l : List (WKey × Int)) (k : WKey) : Option Int := (l.find? (·.1 == k)).map (·.2)
def wput (l : List (WKey × Int)) (k : WKey) (v : Int) : List (WKey × Int) := (k, v) :: l.filter (·.1 != k)

inductive WlOp where
  | set (k : WKey) (fee : Int)
  | remove (k : WKey)
  | clean (contract : Nat)
deriving DecidableEq, Repr

def whitelist : Comp (List (WKey × Int)) (List (WKey × Int)) WlOp where
  exec := fun s c _ o => match o with
    | .set k fee => if fee < 0 then none else some (wput s k fee, wput c k fee)
    | .remove k => match wget c k with
      | none => none
      | some _ => some (s.filter (·.1 != k), c.filter (·.1 != k))
    | .clean ct => some (s.filter (·.1.1 != ct), c.filter (·.1.1 != ct))
  init := fun s => s
  leak := fun c _ => c

-- RoleManagement ------------------------------------------------------------------------------------------
/-- storage: ((role, activation height), node list) -/
abbrev RoleStore := List ((Nat × Nat) × List Nat)
/-- cache: per role the latest record (height, nodes) -/
abbrev RoleCache := List (Nat × Option (Nat × List Nat))

def roleList : List Nat := [4, 8, 16, 32]   -- StateValidator, Oracle, NeoFSAlphabet, P2PNotary

/-- getDesignatedByRoleFromStorage(r, MaxUint32): the record with the greatest activation height -/
def maxEntry (s : RoleStore) (r : Nat) : Option (Nat × List Nat) :=
  s.foldr (fun e acc => if e.1.1 = r then
      (match acc with
        | some (h, n) => if e.1.2 > h then some (e.1.2, e.2) else some (h, n)
        | none => some (e.1.2, e.2))
    else acc) none

-- NEO gasPerBlock ---------------------------------------------------------------------------------------------
/-- getSortedGASRecordFromDAO: records ordered by index (insertion into an ordered list) -/
def insertRec (x : Nat × Int) : List (Nat × Int) → List (Nat × Int)
  | [] => [x]
  | y :: r => if x.1 ≤ y.1 then x :: y :: r else y :: insertRec x r

/-- GetGASPerBlock(index): the last cached record with Index ≤ index (native_neo.go:687-697) -/
def gpbLookup (l : List (Nat × Int)) (index : Nat) : Option Int :=
  ((l.reverse.find? fun e => e.1 ≤ index)).map (·.2)

-- NEO gasPerVote -------------------------------------------------------------------------------------------------
structure GpvState where
  store : List (Nat × Int)   -- prefix 23: candidate ↦ accumulated reward per vote
  cache : List (Nat × Int)   -- NeoCache.gasPerVoteCache
deriving DecidableEq, Repr

inductive GpvOp where
  | write (k : Nat) (v : Int)    -- storage and cache
  | add (k : Nat) (d : Int)      -- PostPersist (native_neo.go:537-550): tmp = d + getLatestGASPerVote(k) to storage and cache
  | drop (k : Nat)               -- dropCandidateIfZero: both deleted (fix 350d30d)
  | restart                      -- InitializeCache: empty cache
deriving DecidableEq, Repr

/-- getLatestGASPerVote: cache first, then storage (0 if absent) -/
def gpvLookup (g : GpvState) (k : Nat) : Int :=
  match aget g.cache k with
  | some v => v
  | none => (aget g.store k).getD 0

def gpvStep (g : GpvState) : GpvOp → GpvState
  | .write k v => { store := aput g.store k v, cache := aput g.cache k v }
  | .add k d => { store := aput g.store k (d + gpvLookup g k), cache := aput g.cache k (d + gpvLookup g k) }
  | .drop k => { store := adel g.store k, cache := adel g.cache k }
  | .restart => { g with cache := [] }

def gpvRun (g : GpvState) : List GpvOp → GpvState
  | [] => g
  | o :: os => gpvRun (gpvStep g o) os

end NeoModel.Ledger.Components
