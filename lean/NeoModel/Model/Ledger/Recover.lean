/-
C01 — the preconditions of Policy.recoverFund (policy.go recoverFundDeferrable), computed by the model instead of being
taken from the real node's result:

  1. NEO.CheckAlmostFullCommittee (native_neo.go:716-730): witness of the m-of-n multisignature of the CACHED committee
     with m = max(max(1, n-(n-1)/2), n-2)
  2. the account is blocked (Faun: the blocked-account record holds the block time of the blocking) and at least
     recoverFundsLockPeriod = 365 days of BLOCK time (ic.GetTime(), milliseconds) have passed since

The blocking times are derived from the natives model per transaction (an account newly in the blocked list gets the
time of the block, an unblocked one loses its record). Core Lean only.
-/
import NeoModel.Model.Ledger.Natives
namespace NeoModel.Ledger.Recover
open NeoModel.Ledger.Natives

def almostFullM (n : Nat) : Nat := max (max 1 (n - (n - 1) / 2)) (n - 2)

def almostFullOk (cm : List (Key × Int)) (wit : Option (Nat × List Key)) : Bool :=
  match wit with
  | none => false
  | some (m, ks) =>
    let c := sortNat (cm.map (·.1))
    m == almostFullM c.length && sortNat ks == c

/-- recoverFundsLockPeriod (policy.go:66-69), milliseconds -/
def lockPeriod : Nat := 365 * 24 * 60 * 60 * 1000

/-- blocked account ↦ block time of its blocking (the value of the Policy record, prefix 15) -/
abbrev BlockTimes := List (Acct × Nat)

/-- one transaction of a block with timestamp `now`: `w` / `w1` = the natives world before / after it -/
def txTimes (now : Nat) (w w1 : World) (bt : BlockTimes) : BlockTimes :=
  (bt.filter fun e => w1.st.blocked.contains e.1) ++
    ((w1.st.blocked.filter fun a => !w.st.blocked.contains a).map fun a => (a, now))

def txsTimes (now : Nat) (w : World) (bt : BlockTimes) : List Tx → World × BlockTimes
  | [] => (w, bt)
  | tx :: rest =>
    let w1 := (execTx w tx).1
    txsTimes now w1 (txTimes now w w1 bt) rest

/-- the two checks recoverFund makes before it looks at the token -/
def recoverPre (cm : List (Key × Int)) (wit : Option (Nat × List Key)) (bt : BlockTimes) (acc : Acct) (now : Nat) : Bool :=
  almostFullOk cm wit &&
  match alGet bt acc with
  | some t => decide (now - t ≥ lockPeriod)
  | none => false

end NeoModel.Ledger.Recover
