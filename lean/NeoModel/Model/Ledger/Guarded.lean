/-
C01 — the committee setters of the natives WITH their guards, as written in pkg/core/native: argument conversion
(toUint8 / toUint32 / toBigInt, util.go:42-72), range checks, cross-setting checks that read the CACHE, the committee
witness check (NEO.CheckCommittee, native_neo.go:705-711: witness of the majority multisig of the CACHED committee),
then the write to storage and to the copy-on-write cache.

A guarded component is a `Comp` with a read-only environment `Env`: what a native call sees of the rest of the node
— the NEO cache's committee as the transactions of the block see it (after NEO.OnPersist; no transaction changes
NeoCache.committee, `Natives.execTx` touches votesChanged only) and the configured number of validators. The model
PREDICTS halt / fault of every call; nothing is taken from the real node's result.

  gsettings    Policy.setAttributeFee / setMaxValidUntilBlockIncrement / setMaxTraceableBlocks /
               setMillisecondsPerBlock (policy.go:617-838), Notary.setMaxNotValidBeforeDelta (notary.go:442-456),
               Oracle.setPrice (oracle.go:518-530), NEO.setRegisterPrice (native_neo.go:767-780)
  gdesignate   RoleManagement.designateAsRole (designate.go:391-470)
  gpb          NEO.setGasPerBlock (native_neo.go:732-756): append-only cache, overwriting storage
  gmindeploy   ContractManagement.setMinimumDeploymentFee (management.go:584-594): storage only, no cache

Hardforks: Echidna and Faun are active from genesis in every configuration the harness uses (setAttributeFeeV1,
Policy-held MaxValidUntilBlockIncrement); ReservedAttributes is off.
-/
import NeoModel.Model.Ledger.Natives
import NeoModel.Model.Ledger.Components
import NeoModel.Model.Ledger.Product
namespace NeoModel.Ledger

/-- a component whose calls read an environment `E` supplied by the rest of the node -/
structure EComp (E S C O : Type) where
  exec : E → S → C → Nat → O → Option (S × C)
  init : S → C
  leak : C → O → C

namespace EComp
variable {E S C O : Type}

/-- the component for a fixed environment -/
def fix (K : EComp E S C O) (e : E) : Comp S C O :=
  { exec := K.exec e, init := K.init, leak := K.leak }

inductive EStep (E O : Type) where
  /-- a block; `e` = the environment its transactions run in -/
  | block (e : E) (txs : List (CTx O))
  | restart

def estep (K : EComp E S C O) (n : Comp.CNode S C) : EStep E O → Comp.CNode S C
  | .block e txs => (K.fix e).cstep n (.block txs)
  | .restart => { n with cache := K.init n.store }

def erun (K : EComp E S C O) (n : Comp.CNode S C) : List (EStep E O) → Comp.CNode S C
  | [] => n
  | s :: ss => erun K (estep K n s) ss

/-- as an environment-reading single-state system: a block is the list of its transactions, the results are the
    predicted outcomes (HALT with effects merged or not), the getters' answers are the cache itself -/
def toEUSys (K : EComp E S C O) : EUSys E S C (List (CTx O)) (List Bool) C where
  apply := fun e s c h b => (((K.fix e).runBlock s c h b).1, ((K.fix e).runBlock s c h b).2, (K.fix e).runBlockR s c h b)
  initCache := fun s _ => K.init s
  getters := fun c _ => c
  noResult := []

end EComp

namespace Guarded
open Natives Components

/-- the committee multisignature among the transaction's witnesses, if any: (m, keys) -/
abbrev Witness := Option (Nat × List Key)

structure Env where
  /-- NeoCache.committee during the block's transactions -/
  committee : List (Key × Int)
  /-- cfg.GetNumOfCNs -/
  validators : Nat
deriving DecidableEq, Repr

/-- the environment the natives part of the node gives to the transactions of block `h`: the cached committee after
    NEO.OnPersist (native_neo.go:465-500) -/
def envOf (cfg : Cfg) (st : Storage) (c : Caches) (h : Nat) : Env :=
  { committee := (onPersist cfg { st := st, c := c } h).c.neo.committee, validators := cfg.validators }

/-- NEO.CheckCommittee (native_neo.go:705-711) on the cached committee `cm` -/
def committeeOk (cm : List (Key × Int)) (wit : Witness) : Bool :=
  match wit with
  | none => false
  | some (m, ks) =>
    let c := sortNat (cm.map (·.1))
    m == majority c.length && sortNat ks == c

def isUint8 (v : Int) : Bool := decide (0 ≤ v) && decide (v ≤ 255)                        -- stackitem.ToUint8
def isUint32 (v : Int) : Bool := decide (0 ≤ v) && decide (v ≤ 4294967295)                -- stackitem.ToUint32
def isInt64 (v : Int) : Bool := decide (-9223372036854775808 ≤ v) && decide (v ≤ 9223372036854775807)

/-- a native call together with the witness its transaction carries -/
structure GCall (α : Type) where
  op : α
  wit : Witness
deriving DecidableEq, Repr

-- settings ------------------------------------------------------------------------------------------------------------
def kVUB : Nat := 100        -- Policy key 22, PolicyCache.maxVUBIncrement
def kMTB : Nat := 101        -- Policy key 23, PolicyCache.maxTraceableBlocks
def kMSPB : Nat := 102       -- Policy key 21, PolicyCache.msPerBlock
def kNVBD : Nat := 103       -- Notary key 10, NotaryCache.maxNotValidBeforeDelta
def kOracle : Nat := 104     -- Oracle key 5, OracleCache.requestPrice
def kRegister : Nat := 105   -- NEO key 13, NeoCache.registerPrice
-- keys 0..255: Policy prefix 20 ++ [attribute type], PolicyCache.attributeFee

/-- transaction.IsValidAttrType without reserved attributes (attrtype.go:16-48) -/
def validAttr (t : Int) : Bool := t == 1 || t == 17 || t == 32 || t == 33 || t == 34

/-- a cached value (the Go zero value when the field was never set) -/
def cval (c : List (Nat × Int)) (k : Nat) : Int := (aget c k).getD 0

inductive GSetOp where
  | attrFee (t v : Int)      -- Policy.setAttributeFee(t, v)
  | maxVUB (v : Int)         -- Policy.setMaxValidUntilBlockIncrement
  | maxTraceable (v : Int)   -- Policy.setMaxTraceableBlocks
  | msPerBlock (v : Int)     -- Policy.setMillisecondsPerBlock
  | nvbDelta (v : Int)       -- Notary.setMaxNotValidBeforeDelta
  | oraclePrice (v : Int)    -- Oracle.setPrice
  | registerPrice (v : Int)  -- NEO.setRegisterPrice
deriving DecidableEq, Repr

/-- everything a setter checks BEFORE the committee witness; `some (key, value)` = what it is about to write.
    The cross checks read the cache (GetMaxTraceableBlocksInternal / GetMaxValidUntilBlockIncrementFromCache). -/
def gsetCheck (e : Env) (c : List (Nat × Int)) : GSetOp → Option (Nat × Int)
  | .attrFee t v =>                                                   -- policy.go:617-629
    if !isUint8 t || !isUint32 v then none
    else if !validAttr t then none
    else if v > 1000000000 then none                                  -- maxAttributeFee
    else some (t.toNat, v)
  | .maxVUB v =>                                                      -- policy.go:753-764
    if !isUint32 v then none
    else if v ≤ 0 || 86400 < v then none                              -- maxMaxVUBIncrement
    else if v ≥ cval c kMTB then none
    else some (kVUB, v)
  | .maxTraceable v =>                                                -- policy.go:816-831
    if !isUint32 v then none
    else if v ≤ 0 || 2102400 < v then none                            -- maxMaxTraceableBlocks
    else if v > cval c kMTB then none
    else if v ≤ cval c kVUB then none
    else some (kMTB, v)
  | .msPerBlock v =>                                                  -- policy.go:782-789
    if !isUint32 v then none
    else if v ≤ 0 || 30000 < v then none                              -- maxMillisecondsPerBlock
    else some (kMSPB, v)
  | .nvbDelta v =>                                                    -- notary.go:442-451
    if !isUint32 v then none
    else if v > cval c kVUB / 2 || v < (e.validators : Int) then none
    else some (kNVBD, v)
  | .oraclePrice v =>                                                 -- oracle.go:518-525
    if v ≤ 0 || !isInt64 v then none else some (kOracle, v)
  | .registerPrice v =>                                               -- native_neo.go:767-774
    if v ≤ 0 || !isInt64 v then none else some (kRegister, v)

def gsettings : EComp Env (List (Nat × Int)) (List (Nat × Int)) (GCall GSetOp) where
  exec := fun e s c _ o => match gsetCheck e c o.op with
    | none => none
    | some (k, v) =>
      if !committeeOk e.committee o.wit then none                     -- "invalid committee signature"
      else some (aput s k v, aput c k v)                              -- setIntWithKey + GetRWCache field write
  init := fun s => s
  leak := fun c _ => c

/-- what Initialize of Policy (Echidna part, policy.go:326-343), Notary (notary.go:145), Oracle (oracle.go:258) and NEO
    (native_neo.go:357) leave in storage at genesis, from the protocol configuration -/
def genesisSettings (mtb vubi mspb : Int) : List (Nat × Int) :=
  [(kVUB, vubi), (kMSPB, mspb), (kMTB, mtb), (34, 10000000), (kNVBD, 140), (kOracle, 50000000), (kRegister, 100000000000)]

-- RoleManagement --------------------------------------------------------------------------------------------------
structure DesOp where
  role : Int
  nodes : List Nat
deriving DecidableEq, Repr

def hasDup : List Nat → Bool
  | [] => false
  | x :: r => r.contains x || hasDup r

/-- designateAsRole in a block of index `h` (designate.go:391-470), check order as written -/
def gdesignate : EComp Env RoleStore RoleCache (GCall DesOp) where
  exec := fun e s c h o =>
    let r := o.op.role
    let nodes := o.op.nodes
    if r < 0 || r > 255 || !roleList.contains r.toNat then none      -- getRole: ErrInvalidRole
    else if nodes.isEmpty then none                                   -- ErrEmptyNodeList
    else if nodes.length > 32 then none                               -- ErrLargeNodeList
    else if !committeeOk e.committee o.wit then none                  -- ErrInvalidWitness
    else if (s.find? (·.1 == (r.toNat, h + 1))).isSome then none      -- ErrAlreadyDesignated
    else if hasDup nodes then none                                    -- "node list contains duplicate entries"
    else
      let s' := ((r.toNat, h + 1), sortNat nodes) :: s
      -- updateCachedRoleData: re-read the latest record of this role from storage
      some (s', c.map fun (r', v) => if r' = r.toNat then (r', maxEntry s' r.toNat) else (r', v))
  init := fun s => roleList.map fun r => (r, maxEntry s r)
  leak := fun c _ => c

-- NEO gasPerBlock ---------------------------------------------------------------------------------------------------
/-- setGasPerBlock(v) in a block of index `h` (native_neo.go:732-756): the record for index h+1 overwrites in storage
    and is APPENDED to the cache; InitializeCache reads the records back in key order -/
def gpb : EComp Env (List (Nat × Int)) (List (Nat × Int)) (GCall Int) where
  exec := fun e s c h o =>
    if o.op < 0 || o.op > 1000000000 then none                        -- 10 * GASFactor
    else if !committeeOk e.committee o.wit then none
    else some (aput s (h + 1) o.op, c ++ [(h + 1, o.op)])
  init := fun s => s.foldr insertRec []
  leak := fun c _ => c

-- ContractManagement minimum deployment fee ---------------------------------------------------------------------------
/-- ContractManagement.setMinimumDeploymentFee (management.go:584-594): NO cache — the value lives in storage only
    (key 20) and `minimumDeploymentFee` re-reads it on every use through dao.GetInt = big.Int.Int64 (low 64 bits):
    the component's cache is `Unit`. -/
def gmindeploy : EComp Env Int Unit (GCall Int) where
  exec := fun e _ _ _ o =>
    if o.op < 0 then none                                             -- "MinimumDeploymentFee cannot be negative"
    else if !committeeOk e.committee o.wit then none
    else some (o.op, ())
  init := fun _ => ()
  leak := fun c _ => c

/-- getMinimumDeploymentFee (management.go:575-582): what a deployment is charged at least -/
def minDeployFee (stored : Int) : Int := int64Wrap stored

end Guarded
end NeoModel.Ledger
