/-
Model of pkg/core/storage (C09): MemoryStore, MemCachedStore over a backend, the LevelDB / BoltDB
range translation, as the code is written now (commits af64e2b: `performSeek` guards the
equality test with `haveMem`; 5043d25: in-memory backward seeks include keys extending the start).

  memory_store.go     MemoryStore.{Get,PutChangeSet,seek,SeekGC}, chooseMap, getCmpFunc
  memcached_store.go  Get/Put/Delete/PutChangeSet, prepareSeekMemSnapshot, performSeek,
                      persist (its three atomic steps), PersistPrivate
  store.go            seekRangeToPrefixes (+ goleveldb util.BytesPrefix)
  leveldb_store.go    Seek = iterator over [Start, Limit)
  boltdb_store.go     boltSeek (cursor Seek/Prev/Next/Last with its loop guard)

Core Lean only. A Go `map[string][]byte` is an association list with distinct keys (`GoMap`),
`none` = the nil value (tombstone). Go's randomised map iteration order is irrelevant: every list
taken from a map is sorted before use (slices.SortFunc, modelled by `List.mergeSort`; the keys of
one map are distinct, so every correct sort gives the same result).
-/
import NeoModel.Base.Hex
namespace NeoModel.Store

abbrev Key := Bytes
abbrev Val := Bytes
abbrev KV := Key × Val
/-- `KeyValueExists`: `Exists = val.isSome` (memcached_store.go:212-218: `Exists: v != nil`). -/
abbrev KVE := Key × Option Val

/-! ### byte-string order (bytes.Compare / cmp.Compare on strings) -/

/-- `bytes.Compare a b < 0`. -/
def lexLt : Bytes → Bytes → Bool
  | [], [] => false
  | [], _ :: _ => true
  | _ :: _, [] => false
  | a :: as, b :: bs => if a < b then true else if b < a then false else lexLt as bs

/-- `bytes.Compare a b ≤ 0`. -/
def lexLe (a b : Bytes) : Bool := !lexLt b a

/-- `getCmpFunc(backwards)(a, b) < 0` (memory_store.go:139-144). -/
def ltDir (bw : Bool) (a b : Bytes) : Bool := if bw then lexLt b a else lexLt a b

/-- the `le` handed to the sort: `cmpFunc(a.Key, b.Key) ≤ 0`. -/
def leDir {β : Type} (bw : Bool) (a b : Key × β) : Bool := !ltDir bw b.1 a.1

/-! ### Go maps -/

abbrev GoMap := List (Key × Option Val)

def mapGet (m : GoMap) (k : Key) : Option (Option Val) := List.lookup k m
/-- `m[k] = v`. -/
def mapSet (m : GoMap) (k : Key) (v : Option Val) : GoMap := (k, v) :: m.filter (fun e => e.1 != k)
/-- `delete(m, k)`. -/
def mapDel (m : GoMap) (k : Key) : GoMap := m.filter (fun e => e.1 != k)
/-- `maps.Copy(dst, src)`. -/
def mapCopy (dst src : GoMap) : GoMap := src.foldl (fun d e => mapSet d e.1 e.2) dst

/-- the loop of the error branch of persist (memcached_store.go:431-440):
`for k, v := range src { if _, ok := dst[k]; !ok { dst[k] = v } }` — `dst` keeps its (newer) values. -/
def mapFill (dst src : GoMap) : GoMap :=
  src.foldl (fun d e => match mapGet d e.1 with | none => mapSet d e.1 e.2 | some _ => d) dst

/-- `chooseMap` (memory_store.go:39-46): STStorage 0x70 / STTempStorage 0x71 go to `stor`.
The Go code panics on an empty key (`key[0]`); the model sends it to `mem` (callers never do it). -/
def isStor : Key → Bool
  | b :: _ => b == 0x70 || b == 0x71
  | [] => false

/-! ### seek ranges -/

structure SeekRange where
  pfx : Bytes
  start : Bytes
  bw : Bool
  depth : Nat
  deriving Repr

/-- `isKeyOK` of memory_store.go:108-117 and memcached_store.go:200-209 (after commit 5043d25:
backwards, keys extending the start point are included, as the disk backends do). -/
def isKeyOK (rng : SeekRange) (k : Key) : Bool :=
  rng.pfx.isPrefixOf k &&
    (rng.start.isEmpty ||
      (if rng.bw then
        lexLe (k.drop rng.pfx.length) rng.start || rng.start.isPrefixOf (k.drop rng.pfx.length)
      else lexLe rng.start (k.drop rng.pfx.length)))

/-- goleveldb `util.BytesPrefix(p).Limit`: `p` with its last non-0xff byte incremented and the rest
cut; `none` (nil) if there is no such byte. (The Go loop scans from the end for the last byte
`< 0xff`; this recursion finds the same position.) -/
def succBytes : Bytes → Option Bytes
  | [] => none
  | c :: cs =>
    match succBytes cs with
    | some l => some (c :: l)
    | none => if c < 0xff then some [c + 1] else none

/-- `seekRangeToPrefixes` (store.go:110-124): `(Start, Limit)`. -/
def seekRangeToPrefixes (rng : SeekRange) : Bytes × Option Bytes :=
  if !rng.bw then (rng.pfx ++ rng.start, succBytes rng.pfx)
  else (rng.pfx, succBytes (rng.pfx ++ rng.start))

/-! ### stores -/

/-- one MemCachedStore's own state (the embedded MemoryStore's two maps).
`nilMaps`: `mem`/`stor` were set to nil by a private persist (memcached_store.go:370-371, 391-392);
reads of a nil map work, a write panics. -/
structure Layer where
  priv : Bool
  mem : GoMap
  stor : GoMap
  nilMaps : Bool := false
  deriving Repr

def Layer.fresh (priv : Bool) : Layer := { priv := priv, mem := [], stor := [] }

def Layer.choose (L : Layer) (k : Key) : GoMap := if isStor k then L.stor else L.mem

/-- `put(s.chooseMap(key), key, v)`. -/
def Layer.set (L : Layer) (k : Key) (v : Option Val) : Layer :=
  if isStor k then { L with stor := mapSet L.stor k v } else { L with mem := mapSet L.mem k v }

/-- `putChangeSet` (memory_store.go:62-65). -/
def Layer.putCS (L : Layer) (puts stores : GoMap) : Layer :=
  { L with mem := mapCopy L.mem puts, stor := mapCopy L.stor stores }

/-- `len(s.mem) + len(s.stor)`. -/
def Layer.count (L : Layer) : Nat := L.mem.length + L.stor.length

/-- disk backends: one key space, no tombstones. -/
def dbPut (db : List KV) (k : Key) (v : Val) : List KV := (k, v) :: db.filter (fun e => e.1 != k)
def dbDel (db : List KV) (k : Key) : List KV := db.filter (fun e => e.1 != k)
/-- the body of Bolt/LevelDB `PutChangeSet`: `v != nil → Put, else Delete`, one transaction. -/
def dbApply (db : List KV) (m : GoMap) : List KV :=
  m.foldl (fun d e => match e.2 with | some v => dbPut d e.1 v | none => dbDel d e.1) db

inductive Store where
  /-- MemoryStore as the bottom store (keeps nil values it was handed by PutChangeSet). -/
  | memB (mem stor : GoMap)
  | level (db : List KV)
  | bolt (db : List KV)
  /-- MemCachedStore: own maps + `ps`. -/
  | cached (L : Layer) (ps : Store)
  deriving Repr

/-- `Get`: memory_store.go:29-37, leveldb_store.go:42-48, boltdb_store.go:94-105, memcached_store.go:95-106. -/
def Store.get : Store → Key → Option Val
  | .memB m s, k =>
    match mapGet (if isStor k then s else m) k with
    | some (some v) => some v
    | _ => none
  | .level db, k => List.lookup k db
  | .bolt db, k => List.lookup k db
  | .cached L ps, k =>
    match mapGet (L.choose k) k with
    | some (some v) => some v
    | some none => none
    | none => ps.get k

/-- `PutChangeSet(puts, stores)` on any store; one atomic step (lock / DB transaction). -/
def Store.putChangeSet : Store → GoMap → GoMap → Store
  | .memB m s, puts, stores => .memB (mapCopy m puts) (mapCopy s stores)
  | .level db, puts, stores => .level (dbApply (dbApply db puts) stores)
  | .bolt db, puts, stores => .bolt (dbApply (dbApply db puts) stores)
  | .cached L ps, puts, stores => .cached (L.putCS puts stores) ps

/-! ### seek on the backends -/

def sortKV (bw : Bool) (l : List KV) : List KV := l.mergeSort (leDir bw)
def sortKVE (bw : Bool) (l : List KVE) : List KVE := l.mergeSort (leDir bw)

/-- `MemoryStore.seek` (memory_store.go:101-137) with a callback that never stops. -/
def memorySeek (m s : GoMap) (rng : SeekRange) : List KV :=
  let mp := if isStor rng.pfx then s else m
  sortKV rng.bw (mp.filterMap fun e =>
    match e.2 with
    | some v => if isKeyOK rng e.1 then some (e.1, v) else none
    | none => none)

/-- LevelDB: iterator over `[Start, Limit)` of seekRangeToPrefixes, `Next` from the first or `Prev`
from the last (leveldb_store.go:73-120). The library contract: ordered iteration of the key set. -/
def levelSeek (db : List KV) (rng : SeekRange) : List KV :=
  let r := seekRangeToPrefixes rng
  let inR := fun (e : KV) => lexLe r.1 e.1 && (match r.2 with | none => true | some l => lexLt e.1 l)
  sortKV rng.bw (db.filter inR)

/-- the loop guard of `boltSeek` (boltdb_store.go:176):
`bytes.HasPrefix(k, rng.Prefix) && (len(rang.Limit) == 0 || bytes.Compare(k, rang.Limit) <= 0)`. -/
def boltGuard (rng : SeekRange) (k : Key) : Bool :=
  rng.pfx.isPrefixOf k && (match (seekRangeToPrefixes rng).2 with | none => true | some l => lexLe k l)

/-- the keys before the backward start position (boltdb_store.go:166-172):
`len(Limit)==0`: `c.Last()`; else `c.Seek(Limit); c.Prev()`. -/
def boltBelow (rng : SeekRange) (sorted : List KV) : List KV :=
  match (seekRangeToPrefixes rng).2 with
  | none => sorted
  | some l => sorted.takeWhile (fun e => lexLt e.1 l)

/-- `boltSeek` (boltdb_store.go:152-187). Cursor contract: `Seek x` = first key ≥ x, `Next`/`Prev`
move in key order, `Prev` after a `Seek` past the end gives the last key. -/
def boltSeek (db : List KV) (rng : SeekRange) : List KV :=
  let sorted := sortKV false db
  if !rng.bw then
    -- k, v = c.Seek(rang.Start); next = c.Next
    (sorted.dropWhile (fun e => lexLt e.1 (seekRangeToPrefixes rng).1)).takeWhile (fun e => boltGuard rng e.1)
  else
    (boltBelow rng sorted).reverse.takeWhile (fun e => boltGuard rng e.1)

/-! ### MemCachedStore seek -/

/-- `prepareSeekMemSnapshot` (memcached_store.go:194-224): the entries of the chosen map that pass
`isKeyOK`, tombstones included (in map order, i.e. unordered). -/
def snapshot (L : Layer) (rng : SeekRange) : List KVE :=
  (L.choose rng.pfx).filter (fun e => isKeyOK rng e.1)

/-- state of one `performSeek` run.
`out`: the items handed to `cont` so far; `done`; `pend` = `kvMem :: memRes[iMem:]` while `haveMem`,
`[]` once `haveMem = false` (then `iMem = len(memRes)`). -/
structure MState where
  out : List KV
  done : Bool
  pend : List KVE
  deriving Repr

/-- the caller's `cont`: collects, and returns false on its `lim`-th call (`lim = 0`: never). -/
def contOK (lim : Nat) (out : List KV) : Bool := lim == 0 || out.length < lim

/-- call `cont(k, v)`; `done = true` iff it returned false. -/
def emit (lim : Nat) (st : MState) (kv : KV) : MState :=
  let out := st.out ++ [kv]
  { st with out := out, done := !contOK lim out }

def cutKey (cut : Bool) (lP : Nat) (k : Key) : Key := if cut then k.drop lP else k

/-- the `for` loop inside `mergeFunc` (memcached_store.go:264-301) for one lower-store item. -/
def mergeLoop (bw cut : Bool) (lP lim : Nat) (k : Key) (v : Val) : List KVE → MState → MState
  | [], st =>
    -- !haveMem: isMem = false, the lower item is emitted (l.289-298)
    emit lim { st with pend := [] } (cutKey cut lP k, v)
  | m :: rest, st =>
    if ltDir bw m.1 k then
      -- isMem (l.270-287)
      match m.2 with
      | some mv =>
        let st1 := emit lim { st with pend := m :: rest } (cutKey cut lP m.1, mv)
        if st1.done then st1 else mergeLoop bw cut lP lim k v rest { st1 with pend := rest }
      | none => mergeLoop bw cut lP lim k v rest { st with pend := rest }
    else if m.1 != k then
      emit lim { st with pend := m :: rest } (cutKey cut lP k, v)
    else
      -- same key: the cached item wins, the lower item is skipped (l.289)
      { st with pend := m :: rest }

/-- `mergeFunc` (memcached_store.go:256-302). -/
def mergeFunc (bw cut : Bool) (lP lim : Nat) (st : MState) (kv : KV) : MState :=
  if st.done then st else mergeLoop bw cut lP lim kv.1 kv.2 st.pend st

/-- the trailing loop over the remaining cached items (memcached_store.go:310-328). -/
def flushLoop (cut : Bool) (lP lim : Nat) : List KVE → MState → MState
  | [], st => st
  | m :: rest, st =>
    match m.2 with
    | some mv =>
      let st1 := emit lim st (cutKey cut lP m.1, mv)
      if st1.done then st1 else flushLoop cut lP lim rest st1
    | none => flushLoop cut lP lim rest st

/-- `performSeek` (memcached_store.go:234-329). `psRes` = what `ps.Seek(rng', ·)` would enumerate
if never stopped (a stopped lower seek only enumerates less; lower seeks have no effects). -/
def performSeek (psRes : List KV) (memRes : List KVE) (rng : SeekRange) (cut : Bool) (lim : Nat) : List KV :=
  let lP := rng.pfx.length
  let st0 : MState := { out := [], done := false, pend := sortKVE rng.bw memRes }
  let st1 := if rng.depth == 0 || rng.depth > 1 then psRes.foldl (mergeFunc rng.bw cut lP lim) st0 else st0
  let st2 := if !st1.done && !st1.pend.isEmpty then flushLoop cut lP lim st1.pend st1 else st1
  st2.out

/-- the range handed to `ps.Seek` (l.303-307). -/
def lowerRange (rng : SeekRange) : SeekRange :=
  if rng.depth > 1 then { rng with depth := rng.depth - 1 } else rng

/-- `Seek(rng, f)` with `f` never stopping: the full enumeration. -/
def Store.seek : Store → SeekRange → List KV
  | .memB m s, rng => memorySeek m s rng
  | .level db, rng => levelSeek db rng
  | .bolt db, rng => boltSeek db rng
  | .cached L ps, rng => performSeek (ps.seek (lowerRange rng)) (snapshot L rng) rng false 0

/-- what a caller of `Seek` / `SeekAsync(cutPrefix)` observes when its callback stops at the
`lim`-th item (`lim = 0`: never). A backend just stops its loop. -/
def Store.seekObs (s : Store) (rng : SeekRange) (cut : Bool) (lim : Nat) : List KV :=
  match s with
  | .cached L ps => performSeek (ps.seek (lowerRange rng)) (snapshot L rng) rng cut lim
  | b => if lim == 0 then b.seek rng else (b.seek rng).take lim

/-! ### writes and flushes -/

def Store.put : Store → Key → Option Val → Store
  | .cached L ps, k, v => .cached (L.set k v) ps
  | b, _, _ => b

/-- step 1 of `persist` (l.398-416): swap in fresh maps, interpose `tempstore`. -/
def Store.persist1 : Store → Store
  | .cached L ps => .cached { L with mem := [], stor := [] } (.cached { L with priv := false } ps)
  | b => b

/-- step 2 (l.417): `tempstore.ps.PutChangeSet(tempstore.mem, tempstore.stor)`. -/
def Store.persist2 : Store → Store
  | .cached L (.cached T ps) => .cached L (.cached T (ps.putChangeSet T.mem T.stor))
  | s => s

/-- step 3, success (l.422-426): `s.ps = tempstore.ps`. -/
def Store.persist3 : Store → Store
  | .cached L (.cached _ ps) => .cached L ps
  | s => s

/-- the store's NEW maps after the error branch (memcached_store.go:427-441, since 3a75687): the entries of
the tempstore `T` are moved into the new maps `F` unless those have newer values; `T`'s maps are not touched. -/
def fillLayer (F T : Layer) : Layer := { F with mem := mapFill F.mem T.mem, stor := mapFill F.stor T.stor }

/-- step 3, failure (l.427-442): what the tempstore holds is moved into the new maps, newer values
win; `s.ps = tempstore.ps`. -/
def Store.persist3Fail : Store → Store
  | .cached L (.cached T ps) => .cached (fillLayer L T) ps
  | s => s

/-- `persist` of a private store (l.382-394) and the whole of a shared `persist` when nothing
interleaves; returns the key count. -/
def Store.persist : Store → Store × Nat
  | .cached L ps =>
    if L.count == 0 then (.cached L ps, 0)
    else if L.priv then
      (.cached { L with mem := [], stor := [], nilMaps := true } (ps.putChangeSet L.mem L.stor), L.count)
    else ((Store.cached L ps).persist1.persist2.persist3, L.count)
  | b => (b, 0)

/-- `PersistPrivate` (l.352-376) seen from `s`: the privates' maps are copied in, in order. -/
def Layer.persistPrivate (L : Layer) (privs : List Layer) : Layer × Nat :=
  let keys := (privs.map Layer.count).foldl (· + ·) 0
  if keys == 0 then (L, 0)
  else (privs.foldl (fun acc p => acc.putCS p.mem p.stor) L, keys)

/-! ### SeekGC (MemoryStore.SeekGC, inherited by MemCachedStore; Bolt / LevelDB) -/

/-- the visited items and the store after deleting the visited ones with `keep k = false`;
the callback stops at its `lim`-th call. Only the store's own level is touched. -/
def Store.seekGC (s : Store) (rng : SeekRange) (keep : Key → Bool) (lim : Nat) : List KV × Store :=
  let tk := fun (l : List KV) => if lim == 0 then l else l.take lim
  match s with
  | .memB m st =>
    let vis := tk (memorySeek m st rng)
    let dead := (vis.filter (fun e => !keep e.1)).map Prod.fst
    (vis, .memB (dead.foldl (fun a k => if isStor k then a else mapDel a k) m)
                (dead.foldl (fun a k => if isStor k then mapDel a k else a) st))
  | .level db =>
    let vis := tk (levelSeek db rng)
    (vis, .level ((vis.filter (fun e => !keep e.1)).foldl (fun d e => dbDel d e.1) db))
  | .bolt db =>
    let vis := tk (boltSeek db rng)
    (vis, .bolt ((vis.filter (fun e => !keep e.1)).foldl (fun d e => dbDel d e.1) db))
  | .cached L ps =>
    let vis := tk (memorySeek L.mem L.stor rng)
    let dead := (vis.filter (fun e => !keep e.1)).map Prod.fst
    (vis, .cached { L with mem := dead.foldl (fun a k => if isStor k then a else mapDel a k) L.mem,
                           stor := dead.foldl (fun a k => if isStor k then mapDel a k else a) L.stor } ps)

end NeoModel.Store
