/-
Model for C16 — call flags and manifest permissions (core Lean only). The whole-manifest part (validity, stack-item
form) is Model/Flags/Manifest.lean.

Mirrors, as written:
  pkg/smartcontract/callflag/call_flags.go      CallFlag bits, Has
  pkg/core/interop/context.go:520-535           SyscallHandler flag check (table = Generated.Interops)
  pkg/core/native/interop.go:58-66              native method flag check (table = Generated.NativeMethods)
  pkg/core/interop/contract/call.go:22-51       LoadToken (CALLT)
  pkg/core/interop/contract/call.go:54-112      Call / callInternal (safe ⇒ drop Write|Notify; permission check on the
                                                context's manifest from Domovoi on, on the stored one before)
  pkg/core/interop/contract/call.go:158         child flags = caller's flags & requested
  pkg/core/interop/contract/call.go:205-207     CallFromNative (flags All, not through callInternal)
  pkg/core/interop/runtime/engine.go:121-139    LoadScript (child = caller & ReadOnly & requested, not deployed)
  pkg/smartcontract/manifest/permission.go:149-171, container.go:24-45, manifest.go:97-101
What a primitive MAY do (write / notify / start a context) is NOT hand-written: it is the regenerated call-graph
table Generated.Effects (harness/cmd/extract/effects.go), per hardfork index.
-/
import NeoModel.Generated.Interops
import NeoModel.Generated.NativeMethods
import NeoModel.Generated.Effects

namespace NeoModel.Flags

/-! ## Call flags -/

/-- `callflag.CallFlag`, its four defined bits. -/
structure CallFlags where
  read : Bool
  write : Bool
  call : Bool
  notify : Bool
deriving DecidableEq, Repr

namespace CallFlags

/-- bit 0 ReadStates, bit 1 WriteStates, bit 2 AllowCall, bit 3 AllowNotify. -/
def ofNat (n : Nat) : CallFlags := ⟨n.testBit 0, n.testBit 1, n.testBit 2, n.testBit 3⟩

def toNat (f : CallFlags) : Nat :=
  (if f.read then 1 else 0) + (if f.write then 2 else 0) + (if f.call then 4 else 0) + (if f.notify then 8 else 0)

def empty : CallFlags := ⟨false, false, false, false⟩
def all : CallFlags := ⟨true, true, true, true⟩

/-- `a & b` -/
def inter (a b : CallFlags) : CallFlags := ⟨a.read && b.read, a.write && b.write, a.call && b.call, a.notify && b.notify⟩
/-- `a &^ b` -/
def minus (a b : CallFlags) : CallFlags := ⟨a.read && !b.read, a.write && !b.write, a.call && !b.call, a.notify && !b.notify⟩

/-- `f.Has(req)`: `f&req == req` (call_flags.go:79). -/
def has (f req : CallFlags) : Bool :=
  (!req.read || f.read) && (!req.write || f.write) && (!req.call || f.call) && (!req.notify || f.notify)

/-- `a ⊆ b` as sets of bits. -/
def le (a b : CallFlags) : Prop := b.has a = true

instance : LE CallFlags := ⟨le⟩
instance (a b : CallFlags) : Decidable (a ≤ b) := inferInstanceAs (Decidable (b.has a = true))

end CallFlags

/-! ## Effects of primitives and the regenerated guard tables -/

/-- what a primitive (system call or native method) can do, besides reading. -/
structure Effects where
  write : Bool
  notify : Bool
  call : Bool
deriving DecidableEq, Repr

def ro : Effects := ⟨false, false, false⟩
def w : Effects := ⟨true, false, false⟩
def n : Effects := ⟨false, true, false⟩
def c : Effects := ⟨false, false, true⟩
def wn : Effects := ⟨true, true, false⟩
def wnc : Effects := ⟨true, true, true⟩

/-- every effect is covered by a required flag. -/
def guarded (req : CallFlags) (e : Effects) : Bool :=
  (!e.write || req.write) && (!e.notify || req.notify) && (!e.call || req.call)

/-- the write / notify / call bits of a regenerated may-effect set (`Generated.Effects`: bit 1 write storage,
bit 3 notify, bit 2 start an execution context — the bit positions of the call flags that guard them). -/
def effOfBits (n : Nat) : Effects := ⟨n.testBit 1, n.testBit 3, n.testBit 2⟩

/-- REGENERATED may-effect row of a system call (call-graph walk of its handler, `harness/cmd/extract/effects.go`):
(may-effect bits at hardfork index `hf`, usable by the system triggers only). Bits of an index outside the
table default to "everything". `System.Contract.CallNative` itself only dispatches (bit 32): the native method it
runs is checked against the native table (native/interop.go:63). The two persist calls start with
`if ic.Trigger != trigger.OnPersist/PostPersist { return error }` (native/interop.go:99,117), triggers that only
block processing sets. -/
def syscallBits (hf : Nat) (name : String) : Option (Nat × Bool) :=
  (Generated.Effects.syscalls.find? (fun r => r.1 == name)).map fun r =>
    (r.2.2.2.getD hf 255, r.2.2.1 == "OnPersist" || r.2.2.1 == "PostPersist")

def classifySyscall (hf : Nat) (name : String) : Option (Effects × Bool) :=
  (syscallBits hf name).map fun r => (effOfBits r.1, r.2)

/-- REGENERATED may-effect bits of the handler that serves native method descriptor `m` at hardfork index `hf`. -/
def nativeBits (hf : Nat) (m : Generated.NativeMethods.Entry) : Option Nat :=
  (Generated.Effects.natives.find? (fun r => r.1 == m.contract && r.2.1 == m.name && r.2.2.1 == m.nparams && r.2.2.2.1.contains hf)).map
    (fun r => r.2.2.2.2.2.getD hf 255)

def classifyNative (hf : Nat) (m : Generated.NativeMethods.Entry) : Option Effects :=
  (nativeBits hf m).map effOfBits


/-- required flags of a native method at hardfork index `hf` (native/interop.go:57-66):
before Aspidochelone (index 1) ContractManagement deploy/update only need `flags & legacyDeployMask`. -/
def nativeReq (hf : Nat) (m : Generated.NativeMethods.Entry) : CallFlags :=
  if hf < 1 && m.contract == "ContractManagement" && Generated.NativeMethods.legacyDeployMethods.contains m.name then
    (CallFlags.ofNat m.flags).inter (CallFlags.ofNat Generated.NativeMethods.legacyDeployMask)
  else CallFlags.ofNat m.flags

/-- is the descriptor part of the contract at hardfork index `hf`? -/
def activeAt (hf : Nat) (m : Generated.NativeMethods.Entry) : Bool :=
  decide (m.activeFrom ≤ hf) && (m.activeTill == 0 || decide (hf < m.activeTill))

/-- the unguarded (descriptor, hardfork, effect) triples of the native table: a may-effect of the handler (regenerated
table) that the flags required at that hardfork do not cover. -/
def nativeViolationsAt (hf : Nat) : List (String × String × Nat × String) :=
  (Generated.NativeMethods.table.filter (activeAt hf)).flatMap fun m =>
    match classifyNative hf m with
    | none => [(m.contract, m.name, m.nparams, "unclassified")]
    | some e =>
      let r := nativeReq hf m
      (if e.write && !r.write then [(m.contract, m.name, m.nparams, "write")] else []) ++
      (if e.notify && !r.notify then [(m.contract, m.name, m.nparams, "notify")] else []) ++
      (if e.call && !r.call then [(m.contract, m.name, m.nparams, "call")] else [])

/-! ## Manifest permissions -/

/-- `manifest.PermissionDesc`: hashes and group keys are compared for equality only (`Uint160.Equals`,
`PublicKey.Equal`), so they are abstract identifiers here. -/
inductive PermDesc where
  | wildcard
  | hash (h : Nat)
  | group (g : Nat)
deriving DecidableEq, Repr

/-- `manifest.Permission`; `methods = none` is the wildcard (`WildStrings.Value == nil`). -/
structure Permission where
  contract : PermDesc
  methods : Option (List String)
deriving DecidableEq, Repr

/-- the part of `manifest.Manifest` the permission check reads. -/
structure Manifest where
  groups : List Nat
  permissions : List Permission
deriving DecidableEq, Repr

/-- `WildStrings.Contains` (container.go:24-29). -/
def wildContains (ms : Option (List String)) (v : String) : Bool :=
  match ms with
  | none => true
  | some l => l.contains v

/-- `Permission.IsAllowed` (permission.go:150-171). -/
def Permission.isAllowed (p : Permission) (hash : Nat) (callee : Manifest) (method : String) : Bool :=
  let descOk :=
    match p.contract with
    | .wildcard => true
    | .hash h => h == hash
    | .group g => callee.groups.any (fun mg => g == mg)
  if !descOk then false
  else if p.methods.isNone then true
  else wildContains p.methods method

/-- `Manifest.CanCall` (manifest.go:97-101). -/
def Manifest.canCall (m : Manifest) (hash : Nat) (callee : Manifest) (method : String) : Bool :=
  m.permissions.any (fun p => p.isAllowed hash callee method)

/-! ## The invocation-stack machine -/

/-- a primitive as the machine sees it: required flags (regenerated table) and effects (expectation table). -/
structure Prim where
  req : CallFlags
  eff : Effects
deriving DecidableEq, Repr

/-- a callee method: contract hash, the contract's manifest, method name, `Safe` bit of the ABI entry. -/
structure Target where
  hash : Nat
  manifest : Manifest
  method : String
  safe : Bool
deriving DecidableEq, Repr

/-- how an execution context was created. -/
inductive Via where
  /-- the entry script of the execution -/
  | entry
  /-- System.Contract.Call → callInternal (call.go:54-112) -/
  | call
  /-- CALLT → LoadToken → callInternal (call.go:22-51) -/
  | token
  /-- System.Runtime.LoadScript (engine.go:121-139) -/
  | script
  /-- contract.CallFromNative → callExFromNative, NOT through callInternal (call.go:205-207) -/
  | native
deriving DecidableEq, Repr

/-- an execution context: its call flags, the manifest when the context runs a deployed contract
(`ctx.IsDeployed()`, i.e. NEF ≠ nil), whether it was entered through a call to a safe method that went through
callInternal; and, for the characterisation of the paths: how it was created, whether the method it runs is
marked safe in the callee's manifest, which flags its creator requested. -/
structure Frame where
  flags : CallFlags
  manifest : Option Manifest
  viaSafe : Bool
  via : Via := .entry
  safeTarget : Bool := false
  requested : CallFlags := CallFlags.all
  /-- the hash of the contract the context runs (none: entry script / dynamic script) -/
  hash : Option Nat := none
deriving DecidableEq, Repr

/-- constants of the call path, regenerated from the source (see `Params.real`). -/
structure Params where
  /-- flags dropped for safe methods on the System.Contract.Call path (callInternal, call.go:93-95, plus anything local to Call) -/
  safeDrop : CallFlags
  /-- flags dropped for safe methods on the CALLT path (LoadToken → callInternal, plus anything local to LoadToken) -/
  safeDropToken : CallFlags
  /-- constant factor of LoadScript's child flags (engine.go:132) -/
  loadScriptMask : CallFlags
  /-- flags requested by CallFromNative (call.go:210) -/
  fromNative : CallFlags
  /-- callInternal takes the caller's manifest from the executing context (`ctx.GetManifest()`, from Domovoi on,
  call.go:99-100) rather than from ContractManagement's storage (`ic.GetContract(current hash)`, call.go:102-105) -/
  callerFromContext : Bool := true
deriving Repr

inductive Instr where
  /-- a system call or a native method body that does not start a call -/
  | prim (p : Prim)
  /-- System.Contract.Call (`viaToken = false`, `p` = its table entry, requested flags from the stack) or CALLT
  (`viaToken = true`, `p` = LoadToken's literal check, requested flags from the NEF method token); callee. What `ic.GetContract(<executing script hash>)` answers at that moment — consulted only
  before Domovoi — is looked up in the state's `storage`, which `update` / `destroy` change -/
  | call (p : Prim) (viaToken : Bool) (requested : CallFlags) (t : Target)
  /-- System.Runtime.LoadScript (`p` = its table entry) -/
  | loadScript (p : Prim) (requested : CallFlags)
  /-- a native method `p` calling a contract through contract.CallFromNative -/
  | nativeCall (p : Prim) (t : Target)
  /-- ContractManagement.update executed in the current (native) context for its CALLER: the caller's stored manifest
  becomes `m` (management.go updateWithData: `ic.VM.GetCallingScriptHash()`); the executing contexts keep theirs -/
  | update (m : Manifest)
  /-- ContractManagement.destroy for the caller of the current context: nothing is stored for it any more -/
  | destroy
  /-- the current context returns -/
  | ret
deriving Repr

/-- the primitive whose flag check guards the instruction. -/
def Instr.prim? : Instr → Option Prim
  | .prim p => some p
  | .call p _ _ _ => some p
  | .loadScript p _ => some p
  | .nativeCall p _ => some p
  | .update _ => Option.none
  | .destroy => Option.none
  | .ret => Option.none

inductive EffKind where
  | write | notify | call
deriving DecidableEq, Repr

/-- what happened, with the invocation stack (current context first) at that moment. -/
structure Event where
  kind : EffKind
  stack : List Frame
  /-- for calls made by `Instr.call`: the callee -/
  target : Option Target
  /-- for calls made by `Instr.call`: the manifest `CanCall` was evaluated on (`none`: no permission check ran) -/
  checked : Option Manifest := none
deriving Repr

structure State where
  /-- invocation stack, current context first -/
  stack : List Frame
  /-- events, latest first -/
  events : List Event
  /-- FAULT or finished: nothing executes any more -/
  halted : Bool
  /-- ContractManagement's storage: contract hash ↦ manifest (first entry wins) -/
  storage : List (Nat × Manifest) := []
deriving Repr

/-- the entry context of an execution (or any context the statements start from). -/
def Frame.entry (flags : CallFlags) (manifest : Option Manifest) : Frame := { flags := flags, manifest := manifest, viaSafe := false }

def State.init (f : Frame) (storage : List (Nat × Manifest) := []) : State := ⟨[f], [], false, storage⟩

/-- `ic.GetContract(h)` on the state's storage. -/
def lookupStored (storage : List (Nat × Manifest)) (h : Option Nat) : Option Manifest :=
  h.bind fun h => (storage.find? (fun e => e.1 == h)).map (·.2)

def halt (s : State) : State := { s with halted := true }

/-- events of the non-calling effects of `p` performed on stack `st`. -/
def primEvents (p : Prim) (st : List Frame) : List Event :=
  (if p.eff.notify then [⟨.notify, st, none, none⟩] else []) ++ (if p.eff.write then [⟨.write, st, none, none⟩] else [])

/-- child flags of a contract call: the safe-method drop of the path taken (Call / LoadToken → callInternal, call.go:93-95) then callExFromNative (call.go:157). -/
def childFlags (P : Params) (viaToken : Bool) (cur : CallFlags) (requested : CallFlags) (safe : Bool) : CallFlags :=
  cur.inter (if safe then requested.minus (if viaToken then P.safeDropToken else P.safeDrop) else requested)

/-- the manifest callInternal consults for the permission check (call.go:97-106): none for a safe callee or a caller
that is not a deployed contract; from Domovoi on the executing context's manifest; before, the caller's manifest
as ContractManagement's storage has it now (none if the contract is not found any more). -/
def consulted (P : Params) (cur : Frame) (t : Target) (stored : Option Manifest) : Option Manifest :=
  if t.safe then none
  else match cur.manifest with
    | none => none
    | some m => if P.callerFromContext then some m else stored

/-- the permission check of callInternal (call.go:107-109): `mfst != nil && !mfst.CanCall(…)` refuses. -/
def permitted (P : Params) (cur : Frame) (t : Target) (stored : Option Manifest) : Bool :=
  match consulted P cur t stored with
  | none => true
  | some m => m.canCall t.hash t.manifest t.method

/-- one instruction. A failed check is a FAULT (`halt`): nothing else happens. (An exception caught by an
enclosing TRY continues in an ancestor context; for the safety statements below that run is the run of
the program that returns instead of executing the failing instruction, so quantifying over all
programs covers it.) -/
def step (P : Params) (s : State) (i : Instr) : State :=
  if s.halted then s else
  match s.stack with
  | [] => halt s
  | cur :: rest =>
    match i with
    | .prim p =>
      if cur.flags.has p.req then { s with events := primEvents p s.stack ++ s.events } else halt s
    | .call p viaToken requested t =>
      let stored := lookupStored s.storage cur.hash
      if cur.flags.has p.req && p.eff.call && permitted P cur t stored then
        let child : Frame := ⟨childFlags P viaToken cur.flags requested t.safe, some t.manifest, t.safe, if viaToken then .token else .call, t.safe, requested, some t.hash⟩
        { s with stack := child :: s.stack, events := ⟨.call, s.stack, some t, consulted P cur t stored⟩ :: s.events }
      else halt s
    | .loadScript p requested =>
      if cur.flags.has p.req && p.eff.call then
        let child : Frame := ⟨(cur.flags.inter P.loadScriptMask).inter requested, none, false, .script, false, requested, none⟩
        { s with stack := child :: s.stack, events := ⟨.call, s.stack, none, none⟩ :: s.events }
      else halt s
    | .nativeCall p t =>
      if cur.flags.has p.req && p.eff.call then
        let child : Frame := ⟨cur.flags.inter P.fromNative, some t.manifest, false, .native, t.safe, P.fromNative, some t.hash⟩
        { s with stack := child :: s.stack, events := primEvents p s.stack ++ (⟨.call, s.stack, none, none⟩ :: s.events) }
      else halt s
    | .update m =>
      match rest with
      | caller :: _ =>
        match caller.hash with
        | some h => { s with storage := (h, m) :: s.storage.filter (fun e => e.1 != h) }
        | none => s
      | [] => s
    | .destroy =>
      match rest with
      | caller :: _ =>
        match caller.hash with
        | some h => { s with storage := s.storage.filter (fun e => e.1 != h) }
        | none => s
      | [] => s
    | .ret =>
      match rest with
      | [] => { s with stack := [], halted := true }
      | _ => { s with stack := rest }

def run (P : Params) (s : State) (prog : List Instr) : State := prog.foldl (step P) s

/-- the constants as the current source has them. -/
def Params.real : Params :=
  { safeDrop := CallFlags.ofNat ((if Generated.Interops.callViaInternal then Generated.Interops.safeDropMask else 0) ||| Generated.Interops.safeDropCallOnly)
    safeDropToken := CallFlags.ofNat ((if Generated.Interops.tokenViaInternal then Generated.Interops.safeDropMask else 0) ||| Generated.Interops.safeDropTokenOnly)
    loadScriptMask := CallFlags.ofNat Generated.Interops.loadScriptMask
    fromNative := CallFlags.ofNat Generated.Interops.callFromNativeFlags
    callerFromContext := true }

/-- the constants at hardfork index `hf`: the caller's manifest comes from the executing context from the hardfork
named in call.go:99 on (`Generated.Interops.callerManifestFromContextSince`, Domovoi). -/
def Params.realAt (hf : Nat) : Params :=
  { Params.real with callerFromContext := decide (Generated.Interops.callerManifestFromContextSince ≤ hf) }

/-- table entry of a system call as a primitive at hardfork index `hf` (none: unknown or without a may-effect row). -/
def syscallPrim (hf : Nat) (name : String) : Option Prim :=
  match Generated.Interops.table.find? (fun e => e.name == name), classifySyscall hf name with
  | some e, some (eff, _) => some ⟨CallFlags.ofNat e.flags, eff⟩
  | _, _ => none

/-- CALLT: the literal check of LoadToken (call.go:24) and the regenerated may-effects of contract.LoadToken. -/
def callTPrim (hf : Nat) : Prim := ⟨CallFlags.ofNat Generated.Interops.loadTokenReq, effOfBits (Generated.Effects.callt.2.getD hf 255)⟩

/-- native method descriptor as a primitive at hardfork `hf`. -/
def nativePrim (hf : Nat) (m : Generated.NativeMethods.Entry) : Option Prim :=
  (classifyNative hf m).map fun e => ⟨nativeReq hf m, e⟩

end NeoModel.Flags
