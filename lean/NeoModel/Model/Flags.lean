/-
Model for C16 — call flags and manifest permissions (core Lean only).

Mirrors, as written:
  pkg/smartcontract/callflag/call_flags.go      CallFlag bits, Has
  pkg/core/interop/context.go:520-535           SyscallHandler flag check (table = Generated.Interops)
  pkg/core/native/interop.go:62-71              native method flag check (table = Generated.NativeMethods)
  pkg/core/interop/contract/call.go:21-52       LoadToken (CALLT)
  pkg/core/interop/contract/call.go:55-116      Call / callInternal (safe ⇒ drop Write|Notify, permission check)
  pkg/core/interop/contract/call.go:157         child flags = caller's flags & requested
  pkg/core/interop/contract/call.go:209-211     CallFromNative (flags All, no permission check)
  pkg/core/interop/runtime/engine.go:121-139    LoadScript (child = caller & ReadOnly & requested, not deployed)
  pkg/smartcontract/manifest/permission.go:150-170, container.go:24-45, manifest.go:97-101
-/
import NeoModel.Generated.Interops
import NeoModel.Generated.NativeMethods

namespace NeoModel.Flags

/-! ## Call flags -/

/-- `callflag.CallFlag`, its four defined bits. -/
structure CallFlags where
  read : Bool
  write : Bool
  call : Bool
  notify : Bool
deriving DecidableEq, Repr

namespace CallFlags

/-- bit 0 ReadStates, bit 1 WriteStates, bit 2 AllowCall, bit 3 AllowNotify. -/
def ofNat (n : Nat) : CallFlags := ⟨n.testBit 0, n.testBit 1, n.testBit 2, n.testBit 3⟩

def toNat (f : CallFlags) : Nat :=
  (if f.read then 1 else 0) + (if f.write then 2 else 0) + (if f.call then 4 else 0) + (if f.notify then 8 else 0)

def empty : CallFlags := ⟨false, false, false, false⟩
def all : CallFlags := ⟨true, true, true, true⟩

/-- `a & b` -/
def inter (a b : CallFlags) : CallFlags := ⟨a.read && b.read, a.write && b.write, a.call && b.call, a.notify && b.notify⟩
/-- `a &^ b` -/
def minus (a b : CallFlags) : CallFlags := ⟨a.read && !b.read, a.write && !b.write, a.call && !b.call, a.notify && !b.notify⟩

/-- `f.Has(req)`: `f&req == req` (call_flags.go:79). -/
def has (f req : CallFlags) : Bool :=
  (!req.read || f.read) && (!req.write || f.write) && (!req.call || f.call) && (!req.notify || f.notify)

/-- `a ⊆ b` as sets of bits. -/
def le (a b : CallFlags) : Prop := b.has a = true

instance : LE CallFlags := ⟨le⟩
instance (a b : CallFlags) : Decidable (a ≤ b) := inferInstanceAs (Decidable (b.has a = true))

end CallFlags

/-! ## Effects of primitives and the regenerated guard tables -/

/-- what a primitive (system call or native method) can do, besides reading. -/
structure Effects where
  write : Bool
  notify : Bool
  call : Bool
deriving DecidableEq, Repr

def ro : Effects := ⟨false, false, false⟩
def w : Effects := ⟨true, false, false⟩
def n : Effects := ⟨false, true, false⟩
def c : Effects := ⟨false, false, true⟩
def wn : Effects := ⟨true, true, false⟩
def wnc : Effects := ⟨true, true, true⟩

/-- every effect is covered by a required flag. -/
def guarded (req : CallFlags) (e : Effects) : Bool :=
  (!e.write || req.write) && (!e.notify || req.notify) && (!e.call || req.call)

/-- HAND-WRITTEN expectation table for system calls: name ↦ (effects, system-trigger-only).
`System.Contract.CallNative` itself has no effect of its own: the native method it dispatches to is
checked against the native table (native/interop.go:62). The two persist calls fail unless the
trigger is OnPersist/PostPersist (native/interop.go:106,123), which only block processing sets. -/
def syscallClass : List (String × Effects × Bool) := [
  ("System.Contract.Call", c, false),
  ("System.Contract.CallNative", ro, false),
  ("System.Contract.CreateMultisigAccount", ro, false),
  ("System.Contract.CreateStandardAccount", ro, false),
  ("System.Contract.GetCallFlags", ro, false),
  ("System.Contract.NativeOnPersist", wn, true),
  ("System.Contract.NativePostPersist", wn, true),
  ("System.Crypto.CheckMultisig", ro, false),
  ("System.Crypto.CheckSig", ro, false),
  ("System.Iterator.Next", ro, false),
  ("System.Iterator.Value", ro, false),
  ("System.Runtime.BurnGas", ro, false),
  ("System.Runtime.CheckWitness", ro, false),
  ("System.Runtime.CurrentSigners", ro, false),
  ("System.Runtime.GasLeft", ro, false),
  ("System.Runtime.GetAddressVersion", ro, false),
  ("System.Runtime.GetCallingScriptHash", ro, false),
  ("System.Runtime.GetEntryScriptHash", ro, false),
  ("System.Runtime.GetExecutingScriptHash", ro, false),
  ("System.Runtime.GetInvocationCounter", ro, false),
  ("System.Runtime.GetNetwork", ro, false),
  ("System.Runtime.GetNotifications", ro, false),
  ("System.Runtime.GetRandom", ro, false),
  ("System.Runtime.GetScriptContainer", ro, false),
  ("System.Runtime.GetTime", ro, false),
  ("System.Runtime.GetTrigger", ro, false),
  ("System.Runtime.LoadScript", c, false),
  ("System.Runtime.Log", n, false),
  ("System.Runtime.Notify", n, false),
  ("System.Runtime.Platform", ro, false),
  ("System.Storage.AsReadOnly", ro, false),
  ("System.Storage.Delete", w, false),
  ("System.Storage.Find", ro, false),
  ("System.Storage.Get", ro, false),
  ("System.Storage.GetContext", ro, false),
  ("System.Storage.GetReadOnlyContext", ro, false),
  ("System.Storage.Local.Delete", w, false),
  ("System.Storage.Local.Find", ro, false),
  ("System.Storage.Local.Get", ro, false),
  ("System.Storage.Local.Put", w, false),
  ("System.Storage.Put", w, false)
]

def classifySyscall (name : String) : Option (Effects × Bool) :=
  (syscallClass.find? (fun r => r.1 == name)).map (·.2)

/-- HAND-WRITTEN expectation table for native methods, keyed by
(contract, method, parameter count, index of the activation hardfork). -/
def nativeClass : List (String × String × Nat × Nat × Effects) := [
  -- ContractManagement
  ("ContractManagement", "deploy", 2, 0, wnc),
  ("ContractManagement", "deploy", 3, 0, wnc),
  ("ContractManagement", "destroy", 0, 0, wnc),
  ("ContractManagement", "getContract", 1, 0, ro),
  ("ContractManagement", "getContractById", 1, 0, ro),
  ("ContractManagement", "getContractHashes", 0, 0, ro),
  ("ContractManagement", "getMinimumDeploymentFee", 0, 0, ro),
  ("ContractManagement", "hasMethod", 3, 0, ro),
  ("ContractManagement", "isContract", 1, 5, ro),
  ("ContractManagement", "setMinimumDeploymentFee", 1, 0, w),
  ("ContractManagement", "update", 2, 0, wnc),
  ("ContractManagement", "update", 3, 0, wnc),
  -- StdLib
  ("StdLib", "atoi", 1, 0, ro),
  ("StdLib", "atoi", 2, 0, ro),
  ("StdLib", "base58CheckDecode", 1, 0, ro),
  ("StdLib", "base58CheckEncode", 1, 0, ro),
  ("StdLib", "base58Decode", 1, 0, ro),
  ("StdLib", "base58Encode", 1, 0, ro),
  ("StdLib", "base64Decode", 1, 0, ro),
  ("StdLib", "base64Encode", 1, 0, ro),
  ("StdLib", "base64UrlDecode", 1, 5, ro),
  ("StdLib", "base64UrlEncode", 1, 5, ro),
  ("StdLib", "deserialize", 1, 0, ro),
  ("StdLib", "hexDecode", 1, 6, ro),
  ("StdLib", "hexEncode", 1, 6, ro),
  ("StdLib", "itoa", 1, 0, ro),
  ("StdLib", "itoa", 2, 0, ro),
  ("StdLib", "jsonDeserialize", 1, 0, ro),
  ("StdLib", "jsonSerialize", 1, 0, ro),
  ("StdLib", "memoryCompare", 2, 0, ro),
  ("StdLib", "memorySearch", 2, 0, ro),
  ("StdLib", "memorySearch", 3, 0, ro),
  ("StdLib", "memorySearch", 4, 0, ro),
  ("StdLib", "serialize", 1, 0, ro),
  ("StdLib", "strLen", 1, 0, ro),
  ("StdLib", "stringSplit", 2, 0, ro),
  ("StdLib", "stringSplit", 3, 0, ro),
  -- CryptoLib
  ("CryptoLib", "bls12381Add", 2, 0, ro),
  ("CryptoLib", "bls12381Deserialize", 1, 0, ro),
  ("CryptoLib", "bls12381Equal", 2, 0, ro),
  ("CryptoLib", "bls12381Mul", 3, 0, ro),
  ("CryptoLib", "bls12381Pairing", 2, 0, ro),
  ("CryptoLib", "bls12381Serialize", 1, 0, ro),
  ("CryptoLib", "keccak256", 1, 3, ro),
  ("CryptoLib", "murmur32", 2, 0, ro),
  ("CryptoLib", "recoverSecp256K1", 2, 5, ro),
  ("CryptoLib", "ripemd160", 1, 0, ro),
  ("CryptoLib", "sha256", 1, 0, ro),
  ("CryptoLib", "verifyWithECDsa", 4, 0, ro),
  ("CryptoLib", "verifyWithEd25519", 3, 5, ro),
  -- LedgerContract
  ("LedgerContract", "currentHash", 0, 0, ro),
  ("LedgerContract", "currentIndex", 0, 0, ro),
  ("LedgerContract", "getBlock", 1, 0, ro),
  ("LedgerContract", "getTransaction", 1, 0, ro),
  ("LedgerContract", "getTransactionFromBlock", 2, 0, ro),
  ("LedgerContract", "getTransactionHeight", 1, 0, ro),
  ("LedgerContract", "getTransactionSigners", 1, 0, ro),
  ("LedgerContract", "getTransactionVMState", 1, 0, ro),
  -- NeoToken
  ("NeoToken", "balanceOf", 1, 0, ro),
  ("NeoToken", "decimals", 0, 0, ro),
  ("NeoToken", "getAccountState", 1, 0, ro),
  ("NeoToken", "getAllCandidates", 0, 0, ro),
  ("NeoToken", "getCandidateVote", 1, 0, ro),
  ("NeoToken", "getCandidates", 0, 0, ro),
  ("NeoToken", "getCommittee", 0, 0, ro),
  ("NeoToken", "getCommitteeAddress", 0, 3, ro),
  ("NeoToken", "getGasPerBlock", 0, 0, ro),
  ("NeoToken", "getNextBlockValidators", 0, 0, ro),
  ("NeoToken", "getRegisterPrice", 0, 0, ro),
  ("NeoToken", "onNEP17Payment", 3, 5, wn),
  ("NeoToken", "registerCandidate", 1, 0, wn),
  ("NeoToken", "registerCandidate", 1, 5, wn),
  ("NeoToken", "setGasPerBlock", 1, 0, w),
  ("NeoToken", "setRegisterPrice", 1, 0, w),
  ("NeoToken", "symbol", 0, 0, ro),
  ("NeoToken", "totalSupply", 0, 0, ro),
  ("NeoToken", "transfer", 4, 0, wnc),
  ("NeoToken", "unclaimedGas", 2, 0, ro),
  ("NeoToken", "unregisterCandidate", 1, 0, wn),
  ("NeoToken", "unregisterCandidate", 1, 5, wn),
  ("NeoToken", "vote", 2, 0, wnc),
  ("NeoToken", "vote", 2, 5, wnc),
  -- GasToken
  ("GasToken", "balanceOf", 1, 0, ro),
  ("GasToken", "decimals", 0, 0, ro),
  ("GasToken", "symbol", 0, 0, ro),
  ("GasToken", "totalSupply", 0, 0, ro),
  ("GasToken", "transfer", 4, 0, wnc),
  -- PolicyContract
  ("PolicyContract", "blockAccount", 1, 0, w),
  ("PolicyContract", "blockAccount", 1, 6, wnc),
  ("PolicyContract", "getAttributeFee", 1, 0, ro),
  ("PolicyContract", "getBlockedAccounts", 0, 6, ro),
  ("PolicyContract", "getExecFeeFactor", 0, 0, ro),
  ("PolicyContract", "getExecPicoFeeFactor", 0, 6, ro),
  ("PolicyContract", "getFeePerByte", 0, 0, ro),
  ("PolicyContract", "getMaxTraceableBlocks", 0, 5, ro),
  ("PolicyContract", "getMaxValidUntilBlockIncrement", 0, 5, ro),
  ("PolicyContract", "getMillisecondsPerBlock", 0, 5, ro),
  ("PolicyContract", "getStoragePrice", 0, 0, ro),
  ("PolicyContract", "getWhitelistFeeContracts", 0, 6, ro),
  ("PolicyContract", "isBlocked", 1, 0, ro),
  ("PolicyContract", "recoverFund", 2, 6, wnc),
  ("PolicyContract", "removeWhitelistFeeContract", 3, 6, wn),
  ("PolicyContract", "setAttributeFee", 2, 0, w),
  ("PolicyContract", "setExecFeeFactor", 1, 0, w),
  ("PolicyContract", "setFeePerByte", 1, 0, w),
  ("PolicyContract", "setMaxTraceableBlocks", 1, 5, w),
  ("PolicyContract", "setMaxValidUntilBlockIncrement", 1, 5, w),
  ("PolicyContract", "setMillisecondsPerBlock", 1, 5, wn),
  ("PolicyContract", "setStoragePrice", 1, 0, w),
  ("PolicyContract", "setWhitelistFeeContract", 4, 6, wn),
  ("PolicyContract", "unblockAccount", 1, 0, w),
  -- RoleManagement
  ("RoleManagement", "designateAsRole", 2, 0, wn),
  ("RoleManagement", "getDesignatedByRole", 2, 0, ro),
  -- OracleContract
  ("OracleContract", "finish", 0, 0, wnc),
  ("OracleContract", "getPrice", 0, 0, ro),
  ("OracleContract", "request", 5, 0, wn),
  ("OracleContract", "setPrice", 1, 0, w),
  ("OracleContract", "verify", 0, 0, ro),
  -- Notary
  ("Notary", "balanceOf", 1, 5, ro),
  ("Notary", "expirationOf", 1, 5, ro),
  ("Notary", "getMaxNotValidBeforeDelta", 0, 5, ro),
  ("Notary", "lockDepositUntil", 2, 5, w),
  ("Notary", "onNEP17Payment", 3, 5, w),
  ("Notary", "setMaxNotValidBeforeDelta", 1, 5, w),
  ("Notary", "verify", 1, 5, ro),
  ("Notary", "withdraw", 2, 5, wnc),
  -- Treasury
  ("Treasury", "onNEP11Payment", 4, 6, ro),
  ("Treasury", "onNEP17Payment", 3, 6, ro),
  ("Treasury", "verify", 0, 6, ro)
]

def classifyNative (m : Generated.NativeMethods.Entry) : Option Effects :=
  (nativeClass.find? (fun r => r.1 == m.contract && r.2.1 == m.name && r.2.2.1 == m.nparams && r.2.2.2.1 == m.activeFrom)).map (·.2.2.2.2)


/-- required flags of a native method at hardfork index `hf` (native/interop.go:57-66):
before Aspidochelone (index 1) ContractManagement deploy/update only need `flags & legacyDeployMask`. -/
def nativeReq (hf : Nat) (m : Generated.NativeMethods.Entry) : CallFlags :=
  if hf < 1 && m.contract == "ContractManagement" && Generated.NativeMethods.legacyDeployMethods.contains m.name then
    (CallFlags.ofNat m.flags).inter (CallFlags.ofNat Generated.NativeMethods.legacyDeployMask)
  else CallFlags.ofNat m.flags

/-- is the descriptor part of the contract at hardfork index `hf`? -/
def activeAt (hf : Nat) (m : Generated.NativeMethods.Entry) : Bool :=
  decide (m.activeFrom ≤ hf) && (m.activeTill == 0 || decide (hf < m.activeTill))

/-- the unguarded (descriptor, hardfork, effect) triples of the native table: an effect the hand-written
table expects and the flags required at that hardfork do not cover. -/
def nativeViolationsAt (hf : Nat) : List (String × String × Nat × String) :=
  (Generated.NativeMethods.table.filter (activeAt hf)).flatMap fun m =>
    match classifyNative m with
    | none => [(m.contract, m.name, m.nparams, "unclassified")]
    | some e =>
      let r := nativeReq hf m
      (if e.write && !r.write then [(m.contract, m.name, m.nparams, "write")] else []) ++
      (if e.notify && !r.notify then [(m.contract, m.name, m.nparams, "notify")] else []) ++
      (if e.call && !r.call then [(m.contract, m.name, m.nparams, "call")] else [])

/-! ## Manifest permissions -/

/-- `manifest.PermissionDesc`: hashes and group keys are compared for equality only (`Uint160.Equals`,
`PublicKey.Equal`), so they are abstract identifiers here. -/
inductive PermDesc where
  | wildcard
  | hash (h : Nat)
  | group (g : Nat)
deriving DecidableEq, Repr

/-- `manifest.Permission`; `methods = none` is the wildcard (`WildStrings.Value == nil`). -/
structure Permission where
  contract : PermDesc
  methods : Option (List String)
deriving DecidableEq, Repr

/-- the part of `manifest.Manifest` the permission check reads. -/
structure Manifest where
  groups : List Nat
  permissions : List Permission
deriving DecidableEq, Repr

/-- `WildStrings.Contains` (container.go:24-29). -/
def wildContains (ms : Option (List String)) (v : String) : Bool :=
  match ms with
  | none => true
  | some l => l.contains v

/-- `Permission.IsAllowed` (permission.go:150-171). -/
def Permission.isAllowed (p : Permission) (hash : Nat) (callee : Manifest) (method : String) : Bool :=
  let descOk :=
    match p.contract with
    | .wildcard => true
    | .hash h => h == hash
    | .group g => callee.groups.any (fun mg => g == mg)
  if !descOk then false
  else if p.methods.isNone then true
  else wildContains p.methods method

/-- `Manifest.CanCall` (manifest.go:97-101). -/
def Manifest.canCall (m : Manifest) (hash : Nat) (callee : Manifest) (method : String) : Bool :=
  m.permissions.any (fun p => p.isAllowed hash callee method)

/-! ## The invocation-stack machine -/

/-- a primitive as the machine sees it: required flags (regenerated table) and effects (expectation table). -/
structure Prim where
  req : CallFlags
  eff : Effects
deriving DecidableEq, Repr

/-- a callee method: contract hash, the contract's manifest, method name, `Safe` bit of the ABI entry. -/
structure Target where
  hash : Nat
  manifest : Manifest
  method : String
  safe : Bool
deriving DecidableEq, Repr

/-- an execution context: its call flags, the manifest when the context runs a deployed contract
(`ctx.IsDeployed()`, i.e. NEF ≠ nil), and whether it was entered through a call to a safe method. -/
structure Frame where
  flags : CallFlags
  manifest : Option Manifest
  viaSafe : Bool
deriving DecidableEq, Repr

/-- constants of the call path, regenerated from the source (see `Params.real`). -/
structure Params where
  /-- flags dropped for safe methods on the System.Contract.Call path (callInternal, call.go:93-95, plus anything local to Call) -/
  safeDrop : CallFlags
  /-- flags dropped for safe methods on the CALLT path (LoadToken → callInternal, plus anything local to LoadToken) -/
  safeDropToken : CallFlags
  /-- constant factor of LoadScript's child flags (engine.go:132) -/
  loadScriptMask : CallFlags
  /-- flags requested by CallFromNative (call.go:210) -/
  fromNative : CallFlags
deriving Repr

inductive Instr where
  /-- a system call or a native method body that does not start a call -/
  | prim (p : Prim)
  /-- System.Contract.Call (`viaToken = false`, `p` = its table entry, requested flags from the stack) or CALLT
  (`viaToken = true`, `p` = LoadToken's literal check, requested flags from the NEF method token); callee -/
  | call (p : Prim) (viaToken : Bool) (requested : CallFlags) (t : Target)
  /-- System.Runtime.LoadScript (`p` = its table entry) -/
  | loadScript (p : Prim) (requested : CallFlags)
  /-- a native method `p` calling a contract through contract.CallFromNative -/
  | nativeCall (p : Prim) (t : Target)
  /-- the current context returns -/
  | ret
deriving Repr

/-- the primitive whose flag check guards the instruction. -/
def Instr.prim? : Instr → Option Prim
  | .prim p => some p
  | .call p _ _ _ => some p
  | .loadScript p _ => some p
  | .nativeCall p _ => some p
  | .ret => Option.none

inductive EffKind where
  | write | notify | call
deriving DecidableEq, Repr

/-- what happened, with the invocation stack (current context first) at that moment. -/
structure Event where
  kind : EffKind
  stack : List Frame
  /-- for calls made by `Instr.call`: the callee -/
  target : Option Target
deriving Repr

structure State where
  /-- invocation stack, current context first -/
  stack : List Frame
  /-- events, latest first -/
  events : List Event
  /-- FAULT or finished: nothing executes any more -/
  halted : Bool
deriving Repr

def State.init (f : Frame) : State := ⟨[f], [], false⟩

def halt (s : State) : State := { s with halted := true }

/-- events of the non-calling effects of `p` performed on stack `st`. -/
def primEvents (p : Prim) (st : List Frame) : List Event :=
  (if p.eff.notify then [⟨.notify, st, none⟩] else []) ++ (if p.eff.write then [⟨.write, st, none⟩] else [])

/-- child flags of a contract call: the safe-method drop of the path taken (Call / LoadToken → callInternal, call.go:93-95) then callExFromNative (call.go:157). -/
def childFlags (P : Params) (viaToken : Bool) (cur : CallFlags) (requested : CallFlags) (safe : Bool) : CallFlags :=
  cur.inter (if safe then requested.minus (if viaToken then P.safeDropToken else P.safeDrop) else requested)

/-- the permission check of callInternal (call.go:96-110): only for non-safe methods called from a deployed context. -/
def permitted (cur : Frame) (t : Target) : Bool :=
  if t.safe then true
  else match cur.manifest with
    | none => true
    | some m => m.canCall t.hash t.manifest t.method

/-- one instruction. A failed check is a FAULT (`halt`): nothing else happens. (An exception caught by an
enclosing TRY continues in an ancestor context; for the safety statements below that run is the run of
the program that returns instead of executing the failing instruction, so quantifying over all
programs covers it.) -/
def step (P : Params) (s : State) (i : Instr) : State :=
  if s.halted then s else
  match s.stack with
  | [] => halt s
  | cur :: rest =>
    match i with
    | .prim p =>
      if cur.flags.has p.req then { s with events := primEvents p s.stack ++ s.events } else halt s
    | .call p viaToken requested t =>
      if cur.flags.has p.req && p.eff.call && permitted cur t then
        let child : Frame := ⟨childFlags P viaToken cur.flags requested t.safe, some t.manifest, t.safe⟩
        { s with stack := child :: s.stack, events := ⟨.call, s.stack, some t⟩ :: s.events }
      else halt s
    | .loadScript p requested =>
      if cur.flags.has p.req && p.eff.call then
        let child : Frame := ⟨(cur.flags.inter P.loadScriptMask).inter requested, none, false⟩
        { s with stack := child :: s.stack, events := ⟨.call, s.stack, none⟩ :: s.events }
      else halt s
    | .nativeCall p t =>
      if cur.flags.has p.req && p.eff.call then
        let child : Frame := ⟨cur.flags.inter P.fromNative, some t.manifest, false⟩
        { s with stack := child :: s.stack, events := primEvents p s.stack ++ (⟨.call, s.stack, none⟩ :: s.events) }
      else halt s
    | .ret =>
      match rest with
      | [] => { s with stack := [], halted := true }
      | _ => { s with stack := rest }

def run (P : Params) (s : State) (prog : List Instr) : State := prog.foldl (step P) s

/-- the constants as the current source has them. -/
def Params.real : Params :=
  { safeDrop := CallFlags.ofNat ((if Generated.Interops.callViaInternal then Generated.Interops.safeDropMask else 0) ||| Generated.Interops.safeDropCallOnly)
    safeDropToken := CallFlags.ofNat ((if Generated.Interops.tokenViaInternal then Generated.Interops.safeDropMask else 0) ||| Generated.Interops.safeDropTokenOnly)
    loadScriptMask := CallFlags.ofNat Generated.Interops.loadScriptMask
    fromNative := CallFlags.ofNat Generated.Interops.callFromNativeFlags }

/-- table entry of a system call as a primitive (none: unknown or unclassified). -/
def syscallPrim (name : String) : Option Prim :=
  match Generated.Interops.table.find? (fun e => e.name == name), classifySyscall name with
  | some e, some (eff, _) => some ⟨CallFlags.ofNat e.flags, eff⟩
  | _, _ => none

/-- CALLT: the literal check of LoadToken (call.go:24); it starts a call. -/
def callTPrim : Prim := ⟨CallFlags.ofNat Generated.Interops.loadTokenReq, c⟩

/-- native method descriptor as a primitive at hardfork `hf`. -/
def nativePrim (hf : Nat) (m : Generated.NativeMethods.Entry) : Option Prim :=
  (classifyNative m).map fun e => ⟨nativeReq hf m, e⟩

end NeoModel.Flags
