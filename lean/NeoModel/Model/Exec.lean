/-
Exec — call trees with layered state (property C04).

A call-tree language and TWO semantics over it.

* `sp`  — the specification: transactional big-step. A contract call works on the
  caller's state; if the callee ends with an exception the caller continues from the
  state (storage, natives, notifications) it had before the call. NeoVM's exception
  control flow (TRY/ENDTRY/ENDFINALLY and the VM-global "uncaught exception" register)
  is part of the language, not of the property, and is shared by both semantics.
* `im`  — the implementation model, the code as written:
    - `ic.DAO` is a stack of private MemCachedStore layers (dao.GetPrivate / Persist / drop),
      modelled as write logs, newest write first;
    - contract/call.go:157-190 `callExFromNative`: a layer is pushed only if
      `ic.VM.ContractHasTryBlock()` (vm.go:2026-2050: some context of the *currently executing
      contract instance* has an exception-handling frame in state `eTry`, or in state `eCatch`
      with a finally block — the latter since fix db399c7) and the callee's
      effective flags contain WriteStates or AllowNotify; the unload callback persists the
      layer when `commit` and otherwise drops it and truncates `ic.Notifications` to the
      length recorded at call time; `callFromNative && !commit` is an error (FAULT);
    - vm.go:1883-1912 `unloadContext`: `commit = (v.uncaughtException == nil)`, also on RET;
    - vm.go:1974-2004 `handleException`: frames in state eFinally or (eCatch without finally)
      are skipped, the contexts above the handler are unloaded top-down, no handler at all =>
      FAULT without unloading anything;
    - vm.go:1854-1875 ENDTRY / ENDFINALLY (rethrow iff the register is non-nil, otherwise jump
      to EndOffset, which is -1 when the finally block was entered by an exception => FAULT);
    - blockchain.go:2044-2075: the transaction runs on a private layer over the block cache
      which is persisted iff the VM did not fault; the notification list is stored in the
      execution result as it is at the end (also for FAULT; consumers use it only for HALT).

Core Lean only.
-/
namespace NeoModel.Exec

/-! ## State: write logs -/

/-- storage key: (owner, key). Owners 0..3 are deployed contracts, 6..8 plain accounts, 9 is the entry script,
    100/101 the GAS/NEO balance tables (key = account), 102 Policy settings. -/
abbrev Key := Nat × Nat

inductive Write where
  | set (k : Key) (v : Nat)
  | del (k : Key)
  deriving Repr, DecidableEq

/-- a store (or a layer of changes over a store): writes, newest first. -/
abbrev Log := List Write

def Log.get : Log → Key → Option Nat
  | [], _ => none
  | .set k v :: r, q => if k = q then some v else Log.get r q
  | .del k :: r, q => if k = q then none else Log.get r q

/-- notification: (emitting contract, number). -/
abbrev Event := Nat × Nat

/-! ## Call flags (callflag.CallFlag as four bits) -/

structure Flags where
  r : Bool  -- ReadStates  0x01
  w : Bool  -- WriteStates 0x02
  c : Bool  -- AllowCall   0x04
  n : Bool  -- AllowNotify 0x08
  deriving Repr, DecidableEq

def Flags.all : Flags := ⟨true, true, true, true⟩
def Flags.and (a b : Flags) : Flags := ⟨a.r && b.r, a.w && b.w, a.c && b.c, a.n && b.n⟩
def Flags.ofNat (x : Nat) : Flags := ⟨x % 2 == 1, x / 2 % 2 == 1, x / 4 % 2 == 1, x / 8 % 2 == 1⟩
/-- `f&(callflag.All^callflag.ReadOnly) != 0` (call.go:161). -/
def Flags.mut (f : Flags) : Bool := f.w || f.n

/-! ## Trees -/

def entryId : Nat := 9
def gasTab : Nat := 100
def policyTab : Nat := 102
/-- ContractManagement: key d < 90 = ID of the deployed auxiliary contract d; key 99 = next available ID. -/
def mgmtTab : Nat := 103
/-- Policy's blocked-account list: key = account, present = blocked. -/
def blockTab : Nat := 104
/-- Policy.setFeePerByte upper bound (native_policy.go maxFeePerByte). -/
def maxFeePerByte : Nat := 100000000

inductive NOp where
  /-- `token.transfer(self, to, amt, data)`; `isC`: `to` is a deployed contract (payment callback). -/
  | transfer (tok to amt : Nat) (isC : Bool)
  /-- `Policy.setFeePerByte(v)` (the committee witness is supplied by the transaction). -/
  | setFee (v : Nat)
  /-- `Policy.blockAccount(a)` / `unblockAccount(a)` for a plain account `a` (committee witness supplied). -/
  | block (a : Nat)
  | unblock (a : Nat)
  /-- `ContractManagement.deploy(nef_d, manifest_d)` of the auxiliary contract `d`. -/
  | deploy (d : Nat)
  deriving Repr, DecidableEq

inductive Tree where
  | skip
  | seq (a b : Tree)
  | put (k v : Nat)
  | del (k : Nat)
  | notify (e : Nat)
  /-- run `body` iff the key is present in the executing contract's storage. -/
  | ifp (k : Nat) (body : Tree)
  /-- `System.Contract.Call(c, "run", fl, [body])`. -/
  | call (c : Nat) (fl : Flags) (body : Tree)
  /-- internal `CALL`: same contract instance, new VM context. -/
  | loc (body : Tree)
  | try_ (body : Tree) (hasC : Bool) (cat : Tree) (hasF : Bool) (fin : Tree)
  | throw
  | abort
  /-- native call; `cb` is what the receiver's `onNEP17Payment` runs. -/
  | native (o : NOp) (fl : Flags) (cb : Tree)
  deriving Repr

inductive Res (α : Type) where
  | norm (s : α)
  | thrown (s : α)
  | fault (s : α)
  deriving Repr

/-! ## Native methods (shared by both semantics: a native method is a function of the visible
store; what differs between the semantics is only where its writes go) -/

structure NatOut where
  ws : List Write       -- newest first
  evs : List Event
  cb : Option Nat       -- contract whose onNEP17Payment is invoked
  deriving Repr

/-- `none` = the native method panics (FAULT). -/
def natStep (o : NOp) (self : Nat) (f : Flags) (view : Key → Option Nat) : Option NatOut :=
  match o with
  | .transfer tok to amt isC =>
    -- native_nep17.go: RequiredFlags States|AllowCall|AllowNotify
    if !(f.r && f.w && f.c && f.n) then none else
    -- the entry script cannot witness the `from` account the harness passes (zero hash): `false`
    if self = entryId then some ⟨[], [], none⟩ else
    let tab := gasTab + tok
    let bal := (view (tab, self)).getD 0
    -- transferDeferrable: insufficient funds => `false`, nothing happens
    if bal < amt then some ⟨[], [], none⟩ else
    let ws : List Write :=
      if self = to ∨ amt = 0 then [] else
        [.set (tab, to) ((view (tab, to)).getD 0 + amt), .set (tab, self) (bal - amt)]
    some ⟨ws, [(tab, amt)], if isC then some to else none⟩
  | .setFee v =>
    -- native_policy.go: RequiredFlags States; value range check panics
    if !(f.r && f.w) then none else
    if v > maxFeePerByte then none else
    some ⟨[.set (policyTab, 0) v], [], none⟩
  | .block a =>
    -- policy.go blockAccountDeferrable: RequiredFlags States|AllowNotify (HFFaun); already blocked => `false`
    if !(f.r && f.w && f.n) then none else
    match view (blockTab, a) with
    | some _ => some ⟨[], [], none⟩
    | none => some ⟨[.set (blockTab, a) 1], [], none⟩
  | .unblock a =>
    if !(f.r && f.w) then none else
    match view (blockTab, a) with
    | some _ => some ⟨[.del (blockTab, a)], [], none⟩
    | none => some ⟨[], [], none⟩
  | .deploy d =>
    -- management.go: RequiredFlags All; "contract already exists" panics; the ID comes from the
    -- nextAvailableID storage item, which is incremented
    if !(f.r && f.w && f.c && f.n) then none else
    match view (mgmtTab, d) with
    | some _ => none
    | none =>
      let id := (view (mgmtTab, 99)).getD 0
      some ⟨[.set (mgmtTab, 99) (id + 1), .set (mgmtTab, d) id], [(mgmtTab, d)], none⟩

/-! ## Specification semantics -/

structure St where
  σ : Log
  ev : List Event
  exc : Bool            -- v.uncaughtException != nil
  deriving Repr

/-- ENDTRY/ENDFINALLY after a body or catch block that ended normally (vm.go:1854-1875). -/
def spEnd (hasF : Bool) (rf : St → Res St) (s : St) : Res St :=
  if hasF then
    match rf s with
    | .norm s3 => if s3.exc then .thrown s3 else .norm s3
    | r => r
  else .norm s

/-- the finally block entered by an exception (`EndOffset = -1`). -/
def spFinExc (rf : St → Res St) (s : St) : Res St :=
  match rf s with
  | .norm s3 => if s3.exc then .thrown s3 else .fault s3
  | r => r

def sp : Tree → (c : Nat) → (f : Flags) → St → Res St
  | .skip, _, _, s => .norm s
  | .seq a b, c, f, s =>
    match sp a c f s with
    | .norm s1 => sp b c f s1
    | r => r
  | .put k v, c, f, s =>
    if f.r && f.w && c != entryId then .norm { s with σ := .set (c, k) v :: s.σ } else .fault s
  | .del k, c, f, s =>
    if f.r && f.w && c != entryId then .norm { s with σ := .del (c, k) :: s.σ } else .fault s
  | .notify e, c, f, s =>
    if f.n && c != entryId then .norm { s with ev := s.ev ++ [(c, e)] } else .fault s
  | .ifp k body, c, f, s =>
    if f.r && c != entryId then
      match s.σ.get (c, k) with
      | some _ => sp body c f s
      | none => .norm s
    else .fault s
  | .call c' fl body, _, f, s =>
    if f.r && f.c then
      match sp body c' (f.and fl) s with
      | .norm s1 => .norm s1
      | .thrown _ => .thrown { s with exc := true }   -- the callee's effects are gone
      | .fault s1 => .fault s1
    else .fault s
  | .loc body, c, f, s => sp body c f s
  | .try_ body hasC cat hasF fin, c, f, s =>
    if !hasC && !hasF then .fault s else   -- "invalid offset for TRY*"
    match sp body c f s with
    | .norm s1 => spEnd hasF (sp fin c f) s1
    | .thrown s1 =>
      if hasC then
        match sp cat c f { s1 with exc := false } with
        | .norm s2 => spEnd hasF (sp fin c f) s2
        | .thrown s2 => if hasF then spFinExc (sp fin c f) s2 else .thrown s2
        | .fault s2 => .fault s2
      else spFinExc (sp fin c f) s1
    | .fault s1 => .fault s1
  | .throw, _, _, s => .thrown { s with exc := true }
  | .abort, _, _, s => .fault s
  | .native o fl cb, c, f, s =>
    if f.r && f.c then
      let f' := f.and fl
      match natStep o c f' s.σ.get with
      | none => .fault s
      | some out =>
        let s1 : St := { s with σ := out.ws ++ s.σ, ev := s.ev ++ out.evs }
        match out.cb with
        | none => .norm s1
        | some to =>
          match sp cb to f' s1 with
          | .norm s2 => .norm s2
          | .thrown s2 => .fault s2     -- an exception may not cross a native frame
          | .fault s2 => .fault s2
    else .fault s

/-! ## Implementation model -/

structure ISt where
  top : Log             -- ic.DAO's own (private) layer
  below : List Log      -- the layers under it, nearest first; the last one is the block cache
  ev : List Event       -- ic.Notifications
  exc : Bool
  deriving Repr

def flatten : List Log → Log
  | [] => []
  | l :: r => l ++ flatten r

/-- what `ic.DAO.GetStorageItem` sees: the first layer that knows the key. -/
def ISt.view (s : ISt) : Log := s.top ++ flatten s.below

/-- `ic.DAO = ic.DAO.GetPrivate()`. -/
def ISt.push (s : ISt) : ISt := { s with top := [], below := s.top :: s.below }

/-- `ic.DAO.Persist(); ic.DAO = baseDAO`. -/
def ISt.merge (s : ISt) : ISt :=
  match s.below with
  | [] => s
  | b :: r => { s with top := s.top ++ b, below := r }

/-- `ic.Notifications = ic.Notifications[:base]; ic.DAO = baseDAO`. -/
def ISt.drop (s : ISt) (base : Nat) : ISt :=
  match s.below with
  | [] => { s with ev := s.ev.take base }
  | b :: r => { s with top := b, below := r, ev := s.ev.take base }

/-- the context-unload callback of callExFromNative (call.go:166-188), `commit = !exc`. -/
def ISt.unload (s : ISt) (wrapped : Bool) (base : Nat) : ISt :=
  if wrapped then (if s.exc then s.drop base else s.merge) else s

structure Ctx where
  c : Nat               -- executing contract
  f : Flags             -- its call flags
  inTry : Bool          -- ContractHasTryBlock()
  h : Bool              -- some frame below would handle an exception (handleException finds one)
  deriving Repr

/-- an exception is raised: unwinding starts only if a handler exists (vm.go:2003). -/
def raise (h : Bool) (s : ISt) : Res ISt :=
  if h then .thrown { s with exc := true } else .fault { s with exc := true }

def imEnd (h : Bool) (hasF : Bool) (rf : ISt → Res ISt) (s : ISt) : Res ISt :=
  if hasF then
    match rf s with
    | .norm s3 => if s3.exc then raise h s3 else .norm s3
    | r => r
  else .norm s

def imFinExc (h : Bool) (rf : ISt → Res ISt) (s : ISt) : Res ISt :=
  match rf s with
  | .norm s3 => if s3.exc then raise h s3 else .fault s3
  | r => r

def im : Tree → Ctx → ISt → Res ISt
  | .skip, _, s => .norm s
  | .seq a b, x, s =>
    match im a x s with
    | .norm s1 => im b x s1
    | r => r
  | .put k v, x, s =>
    if x.f.r && x.f.w && x.c != entryId then .norm { s with top := .set (x.c, k) v :: s.top } else .fault s
  | .del k, x, s =>
    if x.f.r && x.f.w && x.c != entryId then .norm { s with top := .del (x.c, k) :: s.top } else .fault s
  | .notify e, x, s =>
    if x.f.n && x.c != entryId then .norm { s with ev := s.ev ++ [(x.c, e)] } else .fault s
  | .ifp k body, x, s =>
    if x.f.r && x.c != entryId then
      match s.view.get (x.c, k) with
      | some _ => im body x s
      | none => .norm s
    else .fault s
  | .call c' fl body, x, s =>
    if x.f.r && x.f.c then
      let f' := x.f.and fl
      let wrapped := x.inTry && f'.mut
      let base := s.ev.length
      let s0 := if wrapped then s.push else s
      match im body ⟨c', f', false, x.h⟩ s0 with
      | .norm s1 => .norm (s1.unload wrapped base)
      | .thrown s1 => .thrown (s1.unload wrapped base)
      | .fault s1 => .fault s1
    else .fault s
  | .loc body, x, s => im body x s
  | .try_ body hasC cat hasF fin, x, s =>
    if !hasC && !hasF then .fault s else
    match im body { x with inTry := true, h := true } s with
    | .norm s1 => imEnd x.h hasF (im fin x) s1
    | .thrown s1 =>
      if hasC then
        match im cat { x with inTry := x.inTry || hasF, h := x.h || hasF } { s1 with exc := false } with
        | .norm s2 => imEnd x.h hasF (im fin x) s2
        | .thrown s2 => if hasF then imFinExc x.h (im fin x) s2 else .thrown s2
        | .fault s2 => .fault s2
      else imFinExc x.h (im fin x) s1
    | .fault s1 => .fault s1
  | .throw, x, s => raise x.h s
  | .abort, _, s => .fault s
  | .native o fl cb, x, s =>
    if x.f.r && x.f.c then
      let f' := x.f.and fl
      let wrapped := x.inTry && f'.mut
      let base := s.ev.length
      let s0 := if wrapped then s.push else s
      match natStep o x.c f' s0.view.get with
      | none => .fault s0
      | some out =>
        let s1 : ISt := { s0 with top := out.ws ++ s0.top, ev := s0.ev ++ out.evs }
        match out.cb with
        | none => .norm (s1.unload wrapped base)
        | some to =>
          match im cb ⟨to, f', false, x.h⟩ s1 with
          | .norm s2 => if s2.exc then .fault s2 else .norm (s2.unload wrapped base)
          | .thrown s2 => .fault s2
          | .fault s2 => .fault s2
    else .fault s

/-! ## Transactions -/

structure Outcome where
  halt : Bool
  store : Log           -- the block cache after the transaction
  events : List Event   -- what consumers of the execution result use (empty unless HALT)
  raw : List Event      -- AppExecResult.Events as stored
  deriving Repr

def rootCtx : Ctx := ⟨entryId, Flags.all, false, false⟩

/-- blockchain.go:2044-2075 over the implementation model. -/
def implRun (pre : Log) (t : Tree) : Outcome :=
  match im t rootCtx ⟨[], [pre], [], false⟩ with
  | .norm s => ⟨true, s.view, s.ev, s.ev⟩
  | .thrown s => ⟨false, pre, [], s.ev⟩     -- unreachable: `h = false` at the root
  | .fault s => ⟨false, pre, [], s.ev⟩

/-- the specification of a transaction: all or nothing. -/
def specRun (pre : Log) (t : Tree) : Outcome :=
  match sp t entryId Flags.all ⟨pre, [], false⟩ with
  | .norm s => ⟨true, s.σ, s.ev, s.ev⟩
  | .thrown _ => ⟨false, pre, [], []⟩
  | .fault _ => ⟨false, pre, [], []⟩

/-- the part of an outcome the property talks about. -/
def Outcome.eff (o : Outcome) : Bool × Log × List Event := (o.halt, o.store, o.events)

/-! ## Blocks (blockchain.go:2031-2075): OnPersist burns every transaction's fees from its
sender first, then the transactions run in order, each on a private layer over the block
cache that is persisted iff the VM did not fault. -/

def senderAcc : Nat := 50

structure Tx where
  fee : Nat             -- system fee + network fee
  tree : Tree
  deriving Repr

def burn (σ : Log) (fee : Nat) : Log :=
  .set (gasTab, senderAcc) (((σ.get (gasTab, senderAcc)).getD 0) - fee) :: σ

def burnAll (σ : Log) (txs : List Tx) : Log := txs.foldl (fun σ tx => burn σ tx.fee) σ

def stepTx (σ : Log) (tx : Tx) : Log := (implRun σ tx.tree).store

def execAll (σ : Log) (txs : List Tx) : Log := txs.foldl stepTx σ

def blockRun (σ : Log) (txs : List Tx) : Log := execAll (burnAll σ txs) txs

/-! ## Syntactic classes used by the theorems -/

/-- no contract call and no native call anywhere in the tree. -/
def callFree : Tree → Bool
  | .skip | .put .. | .del .. | .notify .. | .throw | .abort => true
  | .seq a b => callFree a && callFree b
  | .ifp _ b => callFree b
  | .loc b => callFree b
  | .call .. => false
  | .native .. => false
  | .try_ b _ c _ f => callFree b && callFree c && callFree f

/-- trees on which the lazy layering is proved sound: no finally block makes a call. -/
def safe : Tree → Bool
  | .skip | .put .. | .del .. | .notify .. | .throw | .abort => true
  | .seq a b => safe a && safe b
  | .ifp _ b => safe b
  | .loc b => safe b
  | .call _ _ b => safe b
  | .native _ _ cb => safe cb
  | .try_ b _ c hasF f =>
    safe b && safe c && safe f && (!hasF || callFree f)

end NeoModel.Exec
