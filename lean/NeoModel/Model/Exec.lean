/-
Exec — call trees with layered state (property C04).

A call-tree language and TWO semantics over it.

* `sp`  — the specification: transactional big-step. A contract call works on the
  caller's state; if the callee ends with an exception the caller continues from the
  state (storage, natives, notifications) it had before the call. NeoVM's exception
  control flow (TRY/ENDTRY/ENDFINALLY and the VM-global "uncaught exception" register)
  is part of the language, not of the property, and is shared by both semantics.
* `im`  — the implementation model, the code as written:
    - `ic.DAO` is a stack of private MemCachedStore layers (dao.GetPrivate / Persist / drop),
      modelled as write logs, newest write first;
    - contract/call.go:157-190 `callExFromNative`: a layer is pushed only if
      `ic.VM.ContractHasTryBlock()` (vm.go:2026-2050: some context of the *currently executing
      contract instance* has an exception-handling frame in state `eTry`, or in state `eCatch`
      with a finally block — the latter since fix db399c7) and the callee's
      effective flags contain WriteStates or AllowNotify; the unload callback persists the
      layer when `commit` and otherwise drops it and truncates `ic.Notifications` to the
      length recorded at call time; `callFromNative && !commit` is an error (FAULT);
    - vm.go:1883-1912 `unloadContext`: `commit = (v.uncaughtException == nil)`, also on RET;
    - vm.go:1974-2004 `handleException`: frames in state eFinally or (eCatch without finally)
      are skipped, the contexts above the handler are unloaded top-down, no handler at all =>
      FAULT without unloading anything;
    - vm.go:1854-1875 ENDTRY / ENDFINALLY (rethrow iff the register is non-nil, otherwise jump
      to EndOffset, which is -1 when the finally block was entered by an exception => FAULT);
    - blockchain.go:2044-2075: the transaction runs on a private layer over the block cache
      which is persisted iff the VM did not fault; the notification list is stored in the
      execution result as it is at the end (also for FAULT; consumers use it only for HALT).

Core Lean only.
-/
namespace NeoModel.Exec

/-! ## State: write logs -/

/-- storage key: (owner, key). Owners 0..3 are deployed contracts, 6..8 plain accounts, 9 is the entry script,
    100/101 the GAS/NEO balance tables (key = account), 102 Policy settings. -/
abbrev Key := Nat × Nat

inductive Write where
  | set (k : Key) (v : Nat)
  | del (k : Key)
  deriving Repr, DecidableEq

/-- a store (or a layer of changes over a store): writes, newest first. -/
abbrev Log := List Write

def Log.get : Log → Key → Option Nat
  | [], _ => none
  | .set k v :: r, q => if k = q then some v else Log.get r q
  | .del k :: r, q => if k = q then none else Log.get r q

/-- notification: (emitting contract, number). -/
abbrev Event := Nat × Nat

/-! ## Call flags (callflag.CallFlag as four bits) -/

structure Flags where
  r : Bool  -- ReadStates  0x01
  w : Bool  -- WriteStates 0x02
  c : Bool  -- AllowCall   0x04
  n : Bool  -- AllowNotify 0x08
  deriving Repr, DecidableEq

def Flags.all : Flags := ⟨true, true, true, true⟩
def Flags.and (a b : Flags) : Flags := ⟨a.r && b.r, a.w && b.w, a.c && b.c, a.n && b.n⟩
def Flags.ofNat (x : Nat) : Flags := ⟨x % 2 == 1, x / 2 % 2 == 1, x / 4 % 2 == 1, x / 8 % 2 == 1⟩
/-- `f&(callflag.All^callflag.ReadOnly) != 0` (call.go:161). -/
def Flags.mut (f : Flags) : Bool := f.w || f.n

/-! ## Trees -/

def entryId : Nat := 9
def gasTab : Nat := 100
def policyTab : Nat := 102
/-- ContractManagement: key d < 90 = ID of the deployed auxiliary contract d; key 99 = next available ID. -/
def mgmtTab : Nat := 103
/-- Policy's blocked-account list: key = account, present = blocked. -/
def blockTab : Nat := 104
/-- RoleManagement: key = role, value = the node list designated in the persisting block. -/
def roleTab : Nat := 105
/-- Policy whitelisted fee of `run` of contract key. -/
def wlTab : Nat := 106
/-- NEO: balances 101, 111 = "BalanceHeight is the persisting block", 112 = GAS reward the account gets
    when it is first touched in this block (computed by the node before the block), 113 = votes for
    the candidate, 114 = the candidate's votes, 115 = voters count, 116 = GAS reward computed by the
    running native call and not yet minted (key = 100 * tag of the call + account: the value lives
    in a Go closure of that call, other calls do not see it). -/
def neoTab : Nat := 101
def neoHTab : Nat := 111
def rewardTab : Nat := 112
def voteTab : Nat := 113
def candTab : Nat := 114
def votersTab : Nat := 115
def pendTab : Nat := 116
/-- Notary deposits: key = owner. -/
def notaryTab : Nat := 117
def notaryAcc : Nat := 12
/-- first Notary deposit must be at least 2 * NotaryAssisted attribute fee. -/
def minDeposit : Nat := 20000000
/-- NEO candidate: key 0 present = the (one) candidate key is registered. The candidate RECORD of the
    node exists iff it is registered or has votes (native_neo.go dropCandidateIfZero). -/
def regTab : Nat := 118
/-- Oracle: key 0 = next request id; key 100+id = 10*url + requesting contract of the pending request. -/
def oracleTab : Nat := 119
def oracleAcc : Nat := 13
/-- Oracle.request: the GAS attached for the response (oracle.go MinimumResponseGas). -/
def responseGas : Nat := 10000000
/-- Notary deposits: key = owner, value = `till` (block height until which the deposit is locked). -/
def tillTab : Nat := 120
/-- key 0 = index of the persisting block (an input of the block, like the GAS rewards). -/
def heightTab : Nat := 121
/-- NEO: key 0 = the GAS generated per block as of the latest record (`setGasPerBlock` in block H writes the
    record of index H+1, replacing an earlier one of the same block). -/
def gasPBTab : Nat := 122
/-- native_neo.go SetGASPerBlock: at most 10 GAS. -/
def maxGasPerBlock : Nat := 1000000000
/-- notary.go defaultDepositDeltaTill. -/
def depositDelta : Nat := 5760

/-- a deployed, not destroyed contract (ic.GetContract succeeds). -/
def alive (view : Key → Option Nat) (c : Nat) : Bool :=
  c < 4 && (view (mgmtTab, 100 + c)).isNone
/-- Policy.setFeePerByte upper bound (native_policy.go maxFeePerByte). -/
def maxFeePerByte : Nat := 100000000

/-- interop/context.go MaxNotificationCount (HFEchidna): AddNotification fails (and the caller panics) when
    the notification list of the execution already has this length. -/
def maxNotifications : Nat := 512

inductive NOp where
  /-- `token.transfer(self, to, amt, data)`; `isC`: `to` is a deployed contract (payment callback). -/
  | transfer (tok to amt : Nat) (isC : Bool)
  /-- `Policy.setFeePerByte(v)` (the committee witness is supplied by the transaction). -/
  | setFee (v : Nat)
  /-- `Policy.blockAccount(a)` / `unblockAccount(a)` for a plain account `a` (committee witness supplied). -/
  | block (a : Nat)
  | unblock (a : Nat)
  /-- `ContractManagement.deploy(nef_d, manifest_d)` of the auxiliary contract `d`. -/
  | deploy (d : Nat)
  /-- `ContractManagement.update(nef, manifest')` of the calling contract: `nefV = 0` no new NEF,
      otherwise the NEF variant `nefV`. -/
  | update (nefV : Nat)
  /-- the last phase of `ContractManagement.destroy()` of the calling contract (the first ones are
      `revoke 99` and `mint 99`: Policy.BlockAccountInternalDeferrable revokes the contract's votes). -/
  | destroy
  /-- `RoleManagement.designateAsRole(role, nodes_v)`. -/
  | designate (role v : Nat)
  /-- `Policy.setWhitelistFeeContract(c, "run", 1, fee)` / `removeWhitelistFeeContract`. -/
  | setWl (c fee : Nat)
  | delWl (c : Nat)
  /-- `NEO.transfer(self, to, amt, data)` without the deferred GAS minting (see `mint`). -/
  | neoXfer (to amt : Nat) (isC : Bool) (tag : Nat)
  /-- `NEO.vote(self, candidate | null)` without the deferred GAS minting. -/
  | vote (on : Bool) (tag : Nat)
  /-- the deferred part of a NEO method: mint the reward computed before (GAS.MintDeferrable with
      onNEP17Payment(null, amount, null)); `who = 99` is the calling contract. -/
  | mint (who tag : Nat)
  /-- the first part of `Policy.blockAccount(a)` (HFFaun): `NEO.RevokeVotes(a)` unless `a` is blocked
      already; its deferred GAS minting is `mint a`, the block itself is `block a`. -/
  | revoke (a tag : Nat)
  /-- `NEO.registerCandidate(key)` / `NEO.unregisterCandidate(key)` for the one candidate key; `w`: the
      transaction carries the key owner's witness. -/
  | regCand
  | unregCand (w : Bool)
  /-- `Oracle.request(url_u, null, "cb", null, responseGas)` / `Oracle.finish()`. -/
  | oracleReq (u : Nat)
  | oracleFinish
  /-- `Notary.lockDepositUntil(self, till)` / `Notary.withdraw(self, to)`. -/
  | lock (till : Nat)
  | withdraw (to : Nat)
  /-- `NEO.setGasPerBlock(v)` (committee witness supplied). -/
  | setGas (v : Nat)
  deriving Repr, DecidableEq

inductive Tree where
  | skip
  | seq (a b : Tree)
  | put (k v : Nat)
  | del (k : Nat)
  | notify (e : Nat)
  /-- run `body` iff the key is present in the executing contract's storage. -/
  | ifp (k : Nat) (body : Tree)
  /-- `System.Contract.Call(c, "run", fl, [body])`. -/
  | call (c : Nat) (fl : Flags) (body : Tree)
  /-- internal `CALL`: same contract instance, new VM context. -/
  | loc (body : Tree)
  | try_ (body : Tree) (hasC : Bool) (cat : Tree) (hasF : Bool) (fin : Tree)
  | throw
  | abort
  /-- native call; `cb` is what the receiver's `onNEP17Payment` runs; `k` is the rest of the native
      method, run inside the same frame after the callback returned (further phases, each an `inner`
      native node). `inner`: a further phase of the running native method — no System.Contract.Call,
      no flag intersection, no frame of its own. -/
  | native (inner : Bool) (o : NOp) (fl : Flags) (cb : Tree) (k : Tree)
  deriving Repr

inductive Res (α : Type) where
  | norm (s : α)
  | thrown (s : α)
  | fault (s : α)
  deriving Repr

/-! ## Native methods (shared by both semantics: a native method is a function of the visible
store; what differs between the semantics is only where its writes go) -/

structure NatOut where
  ws : List Write       -- newest first
  evs : List Event
  cb : Option Nat       -- contract whose onNEP17Payment is invoked
  cbAbort : Bool := false  -- the (native) payment callback panics
  deriving Repr

/-- first touch of a NEO account in the persisting block (native_neo.go distributeGas): the
    reward is computed and scheduled, BalanceHeight becomes the block index. -/
def neoTouch (view : Key → Option Nat) (a tag : Nat) : List Write :=
  match view (neoHTab, a) with
  | some _ => []
  | none =>
    let r := (view (rewardTab, a)).getD 0
    (if r = 0 then [] else [.set (pendTab, 100 * tag + a) r]) ++ [.set (neoHTab, a) 1]

/-- `none` = the native method panics (FAULT). -/
def natStep (o : NOp) (self : Nat) (f : Flags) (view : Key → Option Nat) : Option NatOut :=
  match o with
  | .transfer tok to amt isC =>
    -- native_nep17.go: RequiredFlags States|AllowCall|AllowNotify
    if !(f.r && f.w && f.c && f.n) then none else
    -- the entry script cannot witness the `from` account the harness passes (zero hash): `false`
    if self = entryId then some ⟨[], [], none, false⟩ else
    let tab := gasTab + tok
    let bal := (view (tab, self)).getD 0
    -- transferDeferrable: insufficient funds => `false`, nothing happens
    if bal < amt then some ⟨[], [], none, false⟩ else
    let ws : List Write :=
      if self = to ∨ amt = 0 then [] else
        [.set (tab, to) ((view (tab, to)).getD 0 + amt), .set (tab, self) (bal - amt)]
    if to = notaryAcc then
      -- notary.go onPayment (a native callback, data = [null, till]): first deposit >= 2*fee
      match view (notaryTab, self) with
      | none =>
        if amt < minDeposit then some ⟨ws, [(tab, amt)], some to, true⟩
        -- the depositor is not the transaction's sender: till = BlockHeight + defaultDepositDeltaTill
        else some ⟨.set (tillTab, self) ((view (heightTab, 0)).getD 0 - 1 + depositDelta) :: .set (notaryTab, self) amt :: ws,
          [(tab, amt)], some to, false⟩
      | some d => some ⟨.set (notaryTab, self) (d + amt) :: ws, [(tab, amt)], some to, false⟩
    else
    some ⟨ws, [(tab, amt)], if isC && alive view to then some to else none, false⟩
  | .setFee v =>
    -- native_policy.go: RequiredFlags States; value range check panics
    if !(f.r && f.w) then none else
    if v > maxFeePerByte then none else
    some ⟨[.set (policyTab, 0) v], [], none, false⟩
  | .block a =>
    -- policy.go blockAccountDeferrable: RequiredFlags States|AllowNotify (HFFaun); already blocked => `false`
    if !(f.r && f.w && f.n) then none else
    match view (blockTab, a) with
    | some _ => some ⟨[], [], none, false⟩
    | none => some ⟨[.set (blockTab, a) 1], [], none, false⟩
  | .unblock a =>
    if !(f.r && f.w) then none else
    match view (blockTab, a) with
    | some _ => some ⟨[.del (blockTab, a)], [], none, false⟩
    | none => some ⟨[], [], none, false⟩
  | .deploy d =>
    -- management.go: RequiredFlags All; "contract already exists" panics; the ID comes from the
    -- nextAvailableID storage item, which is incremented
    if !(f.r && f.w && f.c && f.n) then none else
    match view (mgmtTab, d) with
    | some _ => none
    | none =>
      let id := (view (mgmtTab, 99)).getD 0
      some ⟨[.set (mgmtTab, 99) (id + 1), .set (mgmtTab, d) id], [(mgmtTab, d)], none, false⟩
  | .update nefV =>
    -- management.go Update: RequiredFlags All; the whitelist entries of the contract are removed
    if !(f.r && f.w && f.c && f.n) then none else
    if !alive view self then none else
    let cnt := (view (mgmtTab, 200 + self)).getD 0
    let nefW : List Write := if nefV = 0 then [] else [.set (mgmtTab, 300 + self) nefV]
    match view (wlTab, self) with
    | some _ => some ⟨nefW ++ [.set (mgmtTab, 200 + self) (cnt + 1), .del (wlTab, self)], [(wlTab, self), (mgmtTab, 200 + self)], none, false⟩
    | none => some ⟨nefW ++ [.set (mgmtTab, 200 + self) (cnt + 1)], [(mgmtTab, 200 + self)], none, false⟩
  | .destroy =>
    -- management.go destroyDeferrableV1: block the hash, clean the whitelist, erase contract and storage
    if !(f.r && f.w && f.n) then none else
    if !alive view self then none else
    let erase : List Write := [.set (mgmtTab, 100 + self) 1, .del (self, 4), .del (self, 3), .del (self, 2), .del (self, 1), .del (self, 0)]
    match view (wlTab, self) with
    | some _ => some ⟨erase ++ [.del (wlTab, self), .set (blockTab, self) 1], [(wlTab, self), (mgmtTab, 100 + self)], none, false⟩
    | none => some ⟨erase ++ [.set (blockTab, self) 1], [(mgmtTab, 100 + self)], none, false⟩
  | .designate role v =>
    -- designate.go: RequiredFlags States|AllowNotify; a second designation in the same block panics
    if !(f.r && f.w && f.n) then none else
    match view (roleTab, role) with
    | some _ => none
    | none => some ⟨[.set (roleTab, role) v], [(roleTab, role)], none, false⟩
  | .setWl c fee =>
    if !(f.r && f.w && f.n) then none else
    if !alive view c then none else
    some ⟨[.set (wlTab, c) fee], [(wlTab, c)], none, false⟩
  | .delWl c =>
    if !(f.r && f.w && f.n) then none else
    if !alive view c then none else
    match view (wlTab, c) with
    | some _ => some ⟨[.del (wlTab, c)], [(wlTab, c)], none, false⟩
    | none => none
  | .neoXfer to amt isC tag =>
    if !(f.r && f.w && f.c && f.n) then none else
    if self = entryId then some ⟨[], [], none, false⟩ else
    let cb : Option Nat := if isC && alive view to then some to else none
    match view (neoTab, self) with
    | none => if amt = 0 then some ⟨[], [(neoTab, 0)], cb, false⟩ else some ⟨[], [], none, false⟩
    | some bal =>
      if bal < amt then some ⟨[], [], none, false⟩ else
      let touchF := neoTouch view self tag
      if self = to ∨ amt = 0 then some ⟨touchF, [(neoTab, amt)], cb, false⟩ else
      let voting := (view (voteTab, self)).isSome
      let votesF : List Write := if voting then
        [.set (votersTab, 0) ((view (votersTab, 0)).getD 0 - amt), .set (candTab, 0) ((view (candTab, 0)).getD 0 - amt)] else []
      let balF : List Write := if bal = amt then [.del (voteTab, self), .del (neoHTab, self), .del (neoTab, self)]
        else [.set (neoTab, self) (bal - amt)]
      -- the receiver (reads happen after the sender's writes; only the candidate/voters counters overlap)
      let cand1 := if voting then (view (candTab, 0)).getD 0 - amt else (view (candTab, 0)).getD 0
      let voters1 := if voting then (view (votersTab, 0)).getD 0 - amt else (view (votersTab, 0)).getD 0
      let toW : List Write :=
        match view (neoTab, to) with
        | none => [.set (neoTab, to) amt, .set (neoHTab, to) 1]
        | some tb =>
          (.set (neoTab, to) (tb + amt)) ::
          ((if (view (voteTab, to)).isSome then [.set (votersTab, 0) (voters1 + amt), .set (candTab, 0) (cand1 + amt)] else [])
            ++ neoTouch view to tag)
      some ⟨toW ++ balF ++ votesF ++ touchF, [(neoTab, amt)], cb, false⟩
  | .vote on tag =>
    if !(f.r && f.w && f.n) then none else
    if self = entryId then some ⟨[], [], none, false⟩ else
    match view (neoTab, self) with
    | none => some ⟨[], [], none, false⟩
    | some bal =>
      -- "validator must be registered" (checked before anything is touched): `false`
      if on && (view (regTab, 0)).isNone then some ⟨[], [], none, false⟩ else
      let old := (view (voteTab, self)).isSome
      let voters := (view (votersTab, 0)).getD 0
      let cand := (view (candTab, 0)).getD 0
      let wVoters : List Write := if old = on then [] else [.set (votersTab, 0) (if on then voters + bal else voters - bal)]
      let wCand : List Write := if old = on then [] else [.set (candTab, 0) (if on then cand + bal else cand - bal)]
      let wVote : List Write := if on then [.set (voteTab, self) 1] else [.del (voteTab, self)]
      some ⟨wVote ++ wCand ++ neoTouch view self tag ++ wVoters, [(voteTab, self)], none, false⟩
  | .revoke a0 tag =>
    if !(f.r && f.w && f.n) then none else
    -- `a0 = 99`: the calling contract (ContractManagement.destroy: GetContract(calling hash) panics otherwise)
    if a0 = 99 && !alive view self then none else
    let a := if a0 = 99 then self else a0
    match view (blockTab, a) with
    | some _ => some ⟨[], [], none, false⟩
    | none =>
      match view (neoTab, a) with
      | none => some ⟨[], [], none, false⟩
      | some bal =>
        let old := (view (voteTab, a)).isSome
        let wVoters : List Write := if old then [.set (votersTab, 0) ((view (votersTab, 0)).getD 0 - bal)] else []
        let wCand : List Write := if old then [.set (candTab, 0) ((view (candTab, 0)).getD 0 - bal)] else []
        some ⟨.del (voteTab, a) :: (wCand ++ neoTouch view a tag ++ wVoters), [(voteTab, a)], none, false⟩
  | .mint who tag =>
    -- runs inside a NEO method (at least States|AllowNotify)
    if !(f.r && f.w && f.n) then none else
    let a := if who = 99 then self else who
    match view (pendTab, 100 * tag + a) with
    | none => some ⟨[], [], none, false⟩
    | some r =>
      some ⟨[.set (gasTab, a) ((view (gasTab, a)).getD 0 + r), .del (pendTab, 100 * tag + a)], [(gasTab, r)],
        if alive view a then some a else none, false⟩
  | .regCand =>
    -- native_neo.go registerCandidate (HFEchidna: no witness check, RegisterCandidateInternal directly):
    -- RequiredFlags States|AllowNotify; the event only when the registration state changes
    if !(f.r && f.w && f.n) then none else
    match view (regTab, 0) with
    | some _ => some ⟨[], [], none, false⟩
    | none => some ⟨[.set (regTab, 0) 1], [(regTab, 1)], none, false⟩
  | .unregCand w =>
    -- CheckKeyedWitness fails => `false`; no record => nothing; a record without votes is dropped
    if !(f.r && f.w && f.n) then none else
    if !w then some ⟨[], [], none, false⟩ else
    match view (regTab, 0) with
    | some _ => some ⟨[.del (regTab, 0)], [(regTab, 0)], none, false⟩
    | none => some ⟨[], [], none, false⟩
  | .oracleReq u =>
    -- oracle.go RequestInternal: RequiredFlags States|AllowNotify; GAS for the response is minted to the
    -- Oracle contract (no payment callback), the request id counter is incremented, the caller must be a
    -- deployed contract (else panic), the request is stored
    if !(f.r && f.w && f.n) then none else
    -- the mint (and its Transfer event) precedes the check of the caller: FAULT with that event in the raw list
    if !alive view self then some ⟨[], [(gasTab, responseGas)], some self, true⟩ else
    let id := (view (oracleTab, 0)).getD 0
    some ⟨[.set (oracleTab, 100 + id) (10 * u + self), .set (oracleTab, 0) (id + 1),
        .set (gasTab, oracleAcc) ((view (gasTab, oracleAcc)).getD 0 + responseGas)],
      [(gasTab, responseGas), (oracleTab, id)], none, false⟩
  | .oracleFinish =>
    -- oracle.go finishDeferrable: "called from non-entry script" / no OracleResponse attribute: panics
    none
  | .setGas v =>
    -- native_neo.go setGASPerBlock: RequiredFlags States; value range check panics
    if !(f.r && f.w) then none else
    if v > maxGasPerBlock then none else
    some ⟨[.set (gasPBTab, 0) v], [], none, false⟩
  | .lock till =>
    -- notary.go lockDepositUntil: RequiredFlags States; every failed check is `false`
    if !(f.r && f.w) then none else
    if self = entryId then some ⟨[], [], none, false⟩ else
    if till < (view (heightTab, 0)).getD 0 + 1 then some ⟨[], [], none, false⟩ else
    match view (notaryTab, self) with
    | none => some ⟨[], [], none, false⟩
    | some _ =>
      if till < (view (tillTab, self)).getD 0 then some ⟨[], [], none, false⟩ else
      some ⟨[.set (tillTab, self) till], [], none, false⟩
  | .withdraw to =>
    -- notary.go withdrawDeferrable: RequiredFlags All; allowed once block `till` is persisted; the deposit
    -- is removed, then GAS.transfer(Notary, to, amount, null) is called FROM the native (a context of its
    -- own, like a payment callback: an exception pending at its unload is an error)
    if !(f.r && f.w && f.c && f.n) then none else
    if self = entryId then some ⟨[], [], none, false⟩ else
    match view (notaryTab, self) with
    | none => some ⟨[], [], none, false⟩
    | some amt =>
      if (view (heightTab, 0)).getD 0 - 1 < (view (tillTab, self)).getD 0 then some ⟨[], [], none, false⟩ else
      let gasW : List Write := if to = notaryAcc then [] else
        [.set (gasTab, to) ((view (gasTab, to)).getD 0 + amt), .set (gasTab, notaryAcc) ((view (gasTab, notaryAcc)).getD 0 - amt)]
      some ⟨gasW ++ [.del (tillTab, self), .del (notaryTab, self)], [(gasTab, amt)], some to, to = notaryAcc⟩

/-! ## Specification semantics -/

structure St where
  σ : Log
  ev : List Event
  exc : Bool            -- v.uncaughtException != nil
  deriving Repr

/-- ENDTRY/ENDFINALLY after a body or catch block that ended normally (vm.go:1854-1875). -/
def spEnd (hasF : Bool) (rf : St → Res St) (s : St) : Res St :=
  if hasF then
    match rf s with
    | .norm s3 => if s3.exc then .thrown s3 else .norm s3
    | r => r
  else .norm s

/-- the finally block entered by an exception (`EndOffset = -1`). -/
def spFinExc (rf : St → Res St) (s : St) : Res St :=
  match rf s with
  | .norm s3 => if s3.exc then .thrown s3 else .fault s3
  | r => r

/-- one phase of a native method: its writes and events, then the payment callback it starts. -/
def spPhase (out : NatOut) (rcb : Nat → St → Res St) (s : St) : Res St :=
  let s1 : St := { s with σ := out.ws ++ s.σ, ev := s.ev ++ out.evs }
  -- every event of a native goes through AddNotification: the one that finds the list full panics
  if maxNotifications < s1.ev.length then .fault { s1 with ev := s1.ev.take maxNotifications } else
  match out.cb with
  | none => .norm s1
  | some to =>
    if out.cbAbort then .fault s1 else
    match rcb to s1 with
    | .norm s2 => .norm s2
    | .thrown s2 => .fault s2     -- an exception may not cross a native frame
    | .fault s2 => .fault s2

def sp : Tree → (c : Nat) → (f : Flags) → St → Res St
  | .skip, _, _, s => .norm s
  | .seq a b, c, f, s =>
    match sp a c f s with
    | .norm s1 => sp b c f s1
    | r => r
  | .put k v, c, f, s =>
    if f.r && f.w && alive s.σ.get c then .norm { s with σ := .set (c, k) v :: s.σ } else .fault s
  | .del k, c, f, s =>
    if f.r && f.w && alive s.σ.get c then .norm { s with σ := .del (c, k) :: s.σ } else .fault s
  | .notify e, c, f, s =>
    if f.n && c != entryId then
      if s.ev.length < maxNotifications then .norm { s with ev := s.ev ++ [(c, e)] } else .fault s
    else .fault s
  | .ifp k body, c, f, s =>
    if f.r && alive s.σ.get c then
      match s.σ.get (c, k) with
      | some _ => sp body c f s
      | none => .norm s
    else .fault s
  | .call c' fl body, _, f, s =>
    if f.r && f.c && alive s.σ.get c' then
      match sp body c' (f.and fl) s with
      | .norm s1 => .norm s1
      | .thrown _ => .thrown { s with exc := true }   -- the callee's effects are gone
      | .fault s1 => .fault s1
    else .fault s
  | .loc body, c, f, s => sp body c f s
  | .try_ body hasC cat hasF fin, c, f, s =>
    if !hasC && !hasF then .fault s else   -- "invalid offset for TRY*"
    match sp body c f s with
    | .norm s1 => spEnd hasF (sp fin c f) s1
    | .thrown s1 =>
      if hasC then
        match sp cat c f { s1 with exc := false } with
        | .norm s2 => spEnd hasF (sp fin c f) s2
        | .thrown s2 => if hasF then spFinExc (sp fin c f) s2 else .thrown s2
        | .fault s2 => .fault s2
      else spFinExc (sp fin c f) s1
    | .fault s1 => .fault s1
  | .throw, _, _, s => .thrown { s with exc := true }
  | .abort, _, _, s => .fault s
  | .native inner o fl cb k, c, f, s =>
    if inner || (f.r && f.c) then
      let f' := if inner then f else f.and fl
      match natStep o c f' s.σ.get with
      | none => .fault s
      | some out =>
        match spPhase out (fun to s => sp cb to f' s) s with
        | .norm s2 =>
          match sp k c f' s2 with
          | .norm s3 => .norm s3
          | .thrown s3 => .fault s3     -- an exception may not cross a native frame
          | .fault s3 => .fault s3
        | r => r
    else .fault s

/-! ## The specification with the known deviation built in

`spK` is `sp` with ONE rule changed, the commit rule of `unloadContext` (vm.go:1896,
`commit = v.uncaughtException == nil`): a callee that has its own DAO layer (the caller has an
active TRY and the callee may write or notify), or a native payment callback, that completes
NORMALLY while an exception is pending is not committed: its changes and notifications are
dropped (callback: the transaction faults). Whenever that rule is applied the flag `dev` is
raised. `inTry` is threaded exactly as ContractHasTryBlock sees it. The implementation model is
proved equal to `spK` for EVERY tree, and `spK` equal to `sp` whenever `dev` stays down. -/

structure KSt where
  σ : Log
  ev : List Event
  exc : Bool
  dev : Bool            -- the deviating rule has been applied
  deriving Repr

def KSt.st (k : KSt) : St := ⟨k.σ, k.ev, k.exc⟩

def spKEnd (hasF : Bool) (rf : KSt → Res KSt) (s : KSt) : Res KSt :=
  if hasF then
    match rf s with
    | .norm s3 => if s3.exc then .thrown s3 else .norm s3
    | r => r
  else .norm s

def spKFinExc (rf : KSt → Res KSt) (s : KSt) : Res KSt :=
  match rf s with
  | .norm s3 => if s3.exc then .thrown s3 else .fault s3
  | r => r

/-- a phase of a native method under THE RULE: a payment callback that returns normally while an
    exception is pending faults the transaction (`callFromNative && !commit`). -/
def spKPhase (out : NatOut) (rcb : Nat → KSt → Res KSt) (s : KSt) : Res KSt :=
  let s1 : KSt := { s with σ := out.ws ++ s.σ, ev := s.ev ++ out.evs }
  if maxNotifications < s1.ev.length then .fault { s1 with ev := s1.ev.take maxNotifications } else
  match out.cb with
  | none => .norm s1
  | some to =>
    if out.cbAbort then .fault s1 else
    match rcb to s1 with
    | .norm s2 => if s2.exc then .fault { s2 with dev := true } else .norm s2
    | .thrown s2 => .fault s2
    | .fault s2 => .fault s2

def spK : Tree → (c : Nat) → (f : Flags) → (inTry : Bool) → KSt → Res KSt
  | .skip, _, _, _, s => .norm s
  | .seq a b, c, f, t, s =>
    match spK a c f t s with
    | .norm s1 => spK b c f t s1
    | r => r
  | .put k v, c, f, _, s =>
    if f.r && f.w && alive s.σ.get c then .norm { s with σ := .set (c, k) v :: s.σ } else .fault s
  | .del k, c, f, _, s =>
    if f.r && f.w && alive s.σ.get c then .norm { s with σ := .del (c, k) :: s.σ } else .fault s
  | .notify e, c, f, _, s =>
    if f.n && c != entryId then
      if s.ev.length < maxNotifications then .norm { s with ev := s.ev ++ [(c, e)] } else .fault s
    else .fault s
  | .ifp k body, c, f, t, s =>
    if f.r && alive s.σ.get c then
      match s.σ.get (c, k) with
      | some _ => spK body c f t s
      | none => .norm s
    else .fault s
  | .call c' fl body, _, f, t, s =>
    if f.r && f.c && alive s.σ.get c' then
      match spK body c' (f.and fl) false s with
      | .norm s1 =>
        -- THE RULE: own layer + pending exception => not committed
        if t && (f.and fl).mut && s1.exc then .norm { s with exc := true, dev := true } else .norm s1
      | .thrown s1 => .thrown { s with exc := true, dev := s1.dev }
      | .fault s1 => .fault s1
    else .fault s
  | .loc body, c, f, t, s => spK body c f t s
  | .try_ body hasC cat hasF fin, c, f, t, s =>
    if !hasC && !hasF then .fault s else
    match spK body c f true s with
    | .norm s1 => spKEnd hasF (spK fin c f t) s1
    | .thrown s1 =>
      if hasC then
        match spK cat c f (t || hasF) { s1 with exc := false } with
        | .norm s2 => spKEnd hasF (spK fin c f t) s2
        | .thrown s2 => if hasF then spKFinExc (spK fin c f t) s2 else .thrown s2
        | .fault s2 => .fault s2
      else spKFinExc (spK fin c f t) s1
    | .fault s1 => .fault s1
  | .throw, _, _, _, s => .thrown { s with exc := true }
  | .abort, _, _, _, s => .fault s
  | .native inner o fl cb k, c, f, t, s =>
    if inner || (f.r && f.c) then
      let f' := if inner then f else f.and fl
      match natStep o c f' s.σ.get with
      | none => .fault s
      | some out =>
        match spKPhase out (fun to s => spK cb to f' false s) s with
        | .norm s2 =>
          match spK k c f' false s2 with
          | .norm s3 =>
            -- THE RULE, for the native method's own frame
            if !inner && t && f'.mut && s3.exc then .norm { s with exc := true, dev := true } else .norm s3
          | .thrown s3 => .fault s3
          | .fault s3 => .fault s3
        | r => r
    else .fault s

/-! ## Implementation model -/

structure ISt where
  top : Log             -- ic.DAO's own (private) layer
  below : List Log      -- the layers under it, nearest first; the last one is the block cache
  ev : List Event       -- ic.Notifications
  exc : Bool
  deriving Repr

def flatten : List Log → Log
  | [] => []
  | l :: r => l ++ flatten r

/-- what `ic.DAO.GetStorageItem` sees: the first layer that knows the key. -/
def ISt.view (s : ISt) : Log := s.top ++ flatten s.below

/-- `ic.DAO = ic.DAO.GetPrivate()`. -/
def ISt.push (s : ISt) : ISt := { s with top := [], below := s.top :: s.below }

/-- `ic.DAO.Persist(); ic.DAO = baseDAO`. -/
def ISt.merge (s : ISt) : ISt :=
  match s.below with
  | [] => s
  | b :: r => { s with top := s.top ++ b, below := r }

/-- `ic.Notifications = ic.Notifications[:base]; ic.DAO = baseDAO`. -/
def ISt.drop (s : ISt) (base : Nat) : ISt :=
  match s.below with
  | [] => { s with ev := s.ev.take base }
  | b :: r => { s with top := b, below := r, ev := s.ev.take base }

/-- the context-unload callback of callExFromNative (call.go:166-188), `commit = !exc`. -/
def ISt.unload (s : ISt) (wrapped : Bool) (base : Nat) : ISt :=
  if wrapped then (if s.exc then s.drop base else s.merge) else s

structure Ctx where
  c : Nat               -- executing contract
  f : Flags             -- its call flags
  inTry : Bool          -- ContractHasTryBlock()
  h : Bool              -- some frame below would handle an exception (handleException finds one)
  deriving Repr

/-- an exception is raised: unwinding starts only if a handler exists (vm.go:2003). -/
def raise (h : Bool) (s : ISt) : Res ISt :=
  if h then .thrown { s with exc := true } else .fault { s with exc := true }

def imEnd (h : Bool) (hasF : Bool) (rf : ISt → Res ISt) (s : ISt) : Res ISt :=
  if hasF then
    match rf s with
    | .norm s3 => if s3.exc then raise h s3 else .norm s3
    | r => r
  else .norm s

def imFinExc (h : Bool) (rf : ISt → Res ISt) (s : ISt) : Res ISt :=
  match rf s with
  | .norm s3 => if s3.exc then raise h s3 else .fault s3
  | r => r

/-- one phase of a native method (native_nep17.go postTransfer / MintDeferrable): writes, events,
    then the payment callback context; its unload callback fails (`callFromNative && !commit`,
    call.go:180) when an exception is pending. -/
def imPhase (out : NatOut) (rcb : Nat → ISt → Res ISt) (s0 : ISt) : Res ISt :=
  let s1 : ISt := { s0 with top := out.ws ++ s0.top, ev := s0.ev ++ out.evs }
  if maxNotifications < s1.ev.length then .fault { s1 with ev := s1.ev.take maxNotifications } else
  match out.cb with
  | none => .norm s1
  | some to =>
    if out.cbAbort then .fault s1 else
    match rcb to s1 with
    | .norm s2 => if s2.exc then .fault s2 else .norm s2
    | .thrown s2 => .fault s2
    | .fault s2 => .fault s2

def im : Tree → Ctx → ISt → Res ISt
  | .skip, _, s => .norm s
  | .seq a b, x, s =>
    match im a x s with
    | .norm s1 => im b x s1
    | r => r
  | .put k v, x, s =>
    if x.f.r && x.f.w && alive s.view.get x.c then .norm { s with top := .set (x.c, k) v :: s.top } else .fault s
  | .del k, x, s =>
    if x.f.r && x.f.w && alive s.view.get x.c then .norm { s with top := .del (x.c, k) :: s.top } else .fault s
  | .notify e, x, s =>
    if x.f.n && x.c != entryId then
      if s.ev.length < maxNotifications then .norm { s with ev := s.ev ++ [(x.c, e)] } else .fault s
    else .fault s
  | .ifp k body, x, s =>
    if x.f.r && alive s.view.get x.c then
      match s.view.get (x.c, k) with
      | some _ => im body x s
      | none => .norm s
    else .fault s
  | .call c' fl body, x, s =>
    if x.f.r && x.f.c && alive s.view.get c' then
      let f' := x.f.and fl
      let wrapped := x.inTry && f'.mut
      let base := s.ev.length
      let s0 := if wrapped then s.push else s
      match im body ⟨c', f', false, x.h⟩ s0 with
      | .norm s1 => .norm (s1.unload wrapped base)
      | .thrown s1 => .thrown (s1.unload wrapped base)
      | .fault s1 => .fault s1
    else .fault s
  | .loc body, x, s => im body x s
  | .try_ body hasC cat hasF fin, x, s =>
    if !hasC && !hasF then .fault s else
    match im body { x with inTry := true, h := true } s with
    | .norm s1 => imEnd x.h hasF (im fin x) s1
    | .thrown s1 =>
      if hasC then
        match im cat { x with inTry := x.inTry || hasF, h := x.h || hasF } { s1 with exc := false } with
        | .norm s2 => imEnd x.h hasF (im fin x) s2
        | .thrown s2 => if hasF then imFinExc x.h (im fin x) s2 else .thrown s2
        | .fault s2 => .fault s2
      else imFinExc x.h (im fin x) s1
    | .fault s1 => .fault s1
  | .throw, x, s => raise x.h s
  | .abort, _, s => .fault s
  | .native inner o fl cb k, x, s =>
    if inner || (x.f.r && x.f.c) then
      let f' := if inner then x.f else x.f.and fl
      let wrapped := !inner && x.inTry && f'.mut
      let base := s.ev.length
      let s0 := if wrapped then s.push else s
      match natStep o x.c f' s0.view.get with
      | none => .fault s0
      | some out =>
        match imPhase out (fun to s => im cb ⟨to, f', false, x.h⟩ s) s0 with
        | .norm s2 =>
          match im k ⟨x.c, f', false, x.h⟩ s2 with
          | .norm s3 => .norm (s3.unload wrapped base)
          | .thrown s3 => .fault s3
          | .fault s3 => .fault s3
        | r => r
    else .fault s

/-! ## Transactions -/

structure Outcome where
  halt : Bool
  store : Log           -- the block cache after the transaction
  events : List Event   -- what consumers of the execution result use (empty unless HALT)
  raw : List Event      -- AppExecResult.Events as stored
  deriving Repr

def rootCtx : Ctx := ⟨entryId, Flags.all, false, false⟩

/-- blockchain.go:2044-2075 over the implementation model. -/
def implRun (pre : Log) (t : Tree) : Outcome :=
  match im t rootCtx ⟨[], [pre], [], false⟩ with
  | .norm s => ⟨true, s.view, s.ev, s.ev⟩
  | .thrown s => ⟨false, pre, [], s.ev⟩     -- unreachable: `h = false` at the root
  | .fault s => ⟨false, pre, [], s.ev⟩

/-- the specification of a transaction: all or nothing. -/
def specRun (pre : Log) (t : Tree) : Outcome :=
  match sp t entryId Flags.all ⟨pre, [], false⟩ with
  | .norm s => ⟨true, s.σ, s.ev, s.ev⟩
  | .thrown _ => ⟨false, pre, [], []⟩
  | .fault _ => ⟨false, pre, [], []⟩

/-- the specification with the known deviation; the second component tells whether the deviating
    rule was applied. -/
def specKRun (pre : Log) (t : Tree) : Outcome × Bool :=
  match spK t entryId Flags.all false ⟨pre, [], false, false⟩ with
  | .norm s => (⟨true, s.σ, s.ev, s.ev⟩, s.dev)
  | .thrown s => (⟨false, pre, [], []⟩, s.dev)
  | .fault s => (⟨false, pre, [], []⟩, s.dev)

/-- the part of an outcome the property talks about. -/
def Outcome.eff (o : Outcome) : Bool × Log × List Event := (o.halt, o.store, o.events)

/-! ## Blocks (blockchain.go:2031-2075): OnPersist burns every transaction's fees from its
sender first, then the transactions run in order, each on a private layer over the block
cache that is persisted iff the VM did not fault. -/

def senderAcc : Nat := 50

structure Tx where
  fee : Nat             -- system fee + network fee
  tree : Tree
  deriving Repr

def burn (σ : Log) (fee : Nat) : Log :=
  .set (gasTab, senderAcc) (((σ.get (gasTab, senderAcc)).getD 0) - fee) :: σ

def burnAll (σ : Log) (txs : List Tx) : Log := txs.foldl (fun σ tx => burn σ tx.fee) σ

def stepTx (σ : Log) (tx : Tx) : Log := (implRun σ tx.tree).store

def execAll (σ : Log) (txs : List Tx) : Log := txs.foldl stepTx σ

def blockRun (σ : Log) (txs : List Tx) : Log := execAll (burnAll σ txs) txs

/-! ## Transactions of one block share the VM and nothing else

blockchain.go:2044-2047: every transaction gets a new interop context (`newInteropContext`: a fresh
private DAO layer over the block cache, an empty notification list, fresh invocation counters) and
the VM of the previous one after `ReuseVM` = `vm.Reset` (vm.go:189-202: invocation stack,
evaluation stack, `uncaughtException`, reference counter and gas cleared). What a finished —
possibly FAULTed — execution leaves behind is an `ISt` (layers still pushed, a pending exception,
notifications). -/

/-- the state the next transaction starts in. -/
def txStart (_left : ISt) (σ : Log) : ISt := ⟨[], [σ], [], false⟩

/-- one transaction on the VM left by the previous one: (new block cache, what it leaves). -/
def stepTxVM (acc : Log × ISt) (tx : Tx) : Log × ISt :=
  match im tx.tree rootCtx (txStart acc.2 acc.1) with
  | .norm s => (s.view, s)
  | .thrown s => (acc.1, s)
  | .fault s => (acc.1, s)

def blockRunVM (left : ISt) (σ : Log) (txs : List Tx) : Log :=
  (txs.foldl stepTxVM (burnAll σ txs, left)).1

/-- the same without resetting the pending-exception register (to show the reset is load-bearing). -/
def txStartNoReset (left : ISt) (σ : Log) : ISt := ⟨[], [σ], [], left.exc⟩

/-! ## Native caches: copy-on-write over the DAO layers (dao.go:105-122, 1052-1137)

Every `dao.Simple` has a map native-id -> cache object (`nativeCache`) and a pointer to the DAO
it was made from (`nativeCachePS`). Cache objects are heap cells (Go pointers): aliasing is what
can go wrong, so the model has an explicit heap. A cache object is abstracted to one number. -/


/-- `dao.nativeCache`: native id -> reference. -/
abbrev CLayer := List (Nat × Nat)

structure CStack where
  heap : Nat → Nat          -- contents of the cells
  next : Nat                -- next fresh reference
  layers : List CLayer      -- ic.DAO first, the lowest DAO last

def clookup (l : CLayer) (id : Nat) : Option Nat :=
  match l with
  | [] => none
  | (k, r) :: rest => if k = id then some r else clookup rest id

/-- `GetROCache`: the first layer that has the id. -/
def roRef : List CLayer → Nat → Option Nat
  | [], _ => none
  | l :: rest, id =>
    match clookup l id with
    | some r => some r
    | none => roRef rest id

/-- `getCache(k, ro = false)`: own item, or a fresh COPY of what `nativeCachePS.GetRWCache`
    returns (which in turn copies into every intermediate layer that lacks the item). -/
def rwRef : List CLayer → (Nat → Nat) → Nat → Nat → List CLayer × (Nat → Nat) × Nat × Option Nat
  | [], h, n, _ => ([], h, n, none)
  | l :: rest, h, n, id =>
    match clookup l id with
    | some r => (l :: rest, h, n, some r)
    | none =>
      match rwRef rest h n id with
      | (rest', h', n', none) => (l :: rest', h', n', none)
      | (rest', h', n', some r) =>
        (((id, n') :: l) :: rest', (fun x => if x = n' then h' r else h' x), n' + 1, some n')

/-- a native method updates its cache: `GetRWCache(id)` then a field write. -/
def CStack.write (st : CStack) (id v : Nat) : CStack :=
  match rwRef st.layers st.heap st.next id with
  | (ls, h, n, some r) => ⟨(fun x => if x = r then v else h x), n, ls⟩
  | (ls, h, n, none) => ⟨h, n, ls⟩

def CStack.read (st : CStack) (id : Nat) : Option Nat := (roRef st.layers id).map st.heap

/-- `GetPrivate()`: a new DAO with an EMPTY cache map over the current one. -/
def CStack.push (st : CStack) : CStack := { st with layers := [] :: st.layers }

/-- dropping ic.DAO (the layer is simply forgotten). -/
def CStack.drop (st : CStack) : CStack := { st with layers := st.layers.tail }

/-- `persistNativeCache`: `maps.Copy(lower.nativeCache, dao.nativeCache)`. -/
def CStack.persist (st : CStack) : CStack :=
  match st.layers with
  | top :: lower :: rest => { st with layers := (top ++ lower) :: rest }
  | _ => st

/-! ## Syntactic classes used by the theorems -/

/-- no contract call and no native call anywhere in the tree. -/
def callFree : Tree → Bool
  | .skip | .put .. | .del .. | .notify .. | .throw | .abort => true
  | .seq a b => callFree a && callFree b
  | .ifp _ b => callFree b
  | .loc b => callFree b
  | .call .. => false
  | .native .. => false
  | .try_ b _ c _ f => callFree b && callFree c && callFree f

/-- trees on which the lazy layering is proved sound: no finally block makes a call. -/
def safe : Tree → Bool
  | .skip | .put .. | .del .. | .notify .. | .throw | .abort => true
  | .seq a b => safe a && safe b
  | .ifp _ b => safe b
  | .loc b => safe b
  | .call _ _ b => safe b
  | .native _ _ _ cb k => safe cb && safe k
  | .try_ b _ c hasF f =>
    safe b && safe c && safe f && (!hasF || callFree f)

end NeoModel.Exec
