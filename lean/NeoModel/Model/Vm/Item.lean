/-
NeoVM stack items and the heap of reference-type objects (Buffer, Array, Struct, Map).

`Item` is what sits on evaluation stacks, in slots and inside compound objects. Primitive items
carry their value; reference types carry the index of a heap object, so that aliasing (two stack
entries denoting the same array) and in-place mutation are modelled exactly. The heap is
append-only (objects are never freed; ids are allocation order).

Mirrors pkg/vm/stackitem/item.go (types, TryBool/TryInteger/TryBytes, Equals, Convert, Struct.Clone),
type.go (type bytes).
-/
import NeoModel.Model.Vm.Num
namespace NeoModel.Vm

/-! ### limits (cross-checked against `Generated/Opcodes.lean` in Props/C13) -/
def maxStackSize : Nat := 2048            -- vm.MaxStackSize
def maxInvocationStackSize : Nat := 1024  -- vm.MaxInvocationStackSize
def maxTryNestingDepth : Nat := 16        -- vm.MaxTryNestingDepth
def maxItemSize : Nat := 131070           -- stackitem.MaxSize = 65535*2
def maxComparableSize : Nat := 65536      -- stackitem.MaxByteArrayComparableSize
def maxComparableItems : Nat := 2048      -- stackitem.MaxComparableNumOfItems
def maxClonableItems : Nat := 2048        -- stackitem.MaxClonableNumOfItems
def maxKeySize : Nat := 64                -- stackitem.MaxKeySize

inductive Item where
  | null
  | bool (b : Bool)
  | int (n : Int256)                      -- range-checked, see `checkInt`
  | bytes (b : Bytes)                     -- ByteString, immutable
  | buffer (id : Nat)
  | array (id : Nat)
  | struct (id : Nat)
  | map (id : Nat)
  | pointer (pos : Nat) (script : Nat)    -- position + identity (hash) of the script
  | interop (id : Nat)
deriving DecidableEq, Repr, Inhabited

inductive HeapObj where
  | buf (b : Bytes)
  | items (xs : List Item)                -- Array and Struct
  | entries (kv : List (Item × Item))     -- Map, in insertion order
deriving DecidableEq, Repr, Inhabited

abbrev Heap := Array HeapObj

namespace Heap
def alloc (h : Heap) (o : HeapObj) : Heap × Nat := (h.push o, h.size)
def getBuf (h : Heap) (id : Nat) : Option Bytes :=
  match h[id]? with | some (.buf b) => some b | _ => none
def getItems (h : Heap) (id : Nat) : Option (List Item) :=
  match h[id]? with | some (.items xs) => some xs | _ => none
def getEntries (h : Heap) (id : Nat) : Option (List (Item × Item)) :=
  match h[id]? with | some (.entries kv) => some kv | _ => none
def put (h : Heap) (id : Nat) (o : HeapObj) : Heap := h.setIfInBounds id o
end Heap

/-! ### type bytes (stackitem/type.go) -/
def tAny : UInt8 := 0x00
def tPointer : UInt8 := 0x10
def tBoolean : UInt8 := 0x20
def tInteger : UInt8 := 0x21
def tByteString : UInt8 := 0x28
def tBuffer : UInt8 := 0x30
def tArray : UInt8 := 0x40
def tStruct : UInt8 := 0x41
def tMap : UInt8 := 0x48
def tInterop : UInt8 := 0x60

def typeValid (t : UInt8) : Bool :=
  t == tAny || t == tPointer || t == tBoolean || t == tInteger || t == tByteString ||
  t == tBuffer || t == tArray || t == tStruct || t == tMap || t == tInterop

def Item.typeByte : Item → UInt8
  | .null => tAny | .bool _ => tBoolean | .int _ => tInteger | .bytes _ => tByteString
  | .buffer _ => tBuffer | .array _ => tArray | .struct _ => tStruct | .map _ => tMap
  | .pointer _ _ => tPointer | .interop _ => tInterop

/-! ### conversions of a single item (`none` = the Go method returns an error → FAULT) -/

/-- `TryBool`. -/
def Item.toBool : Item → Option Bool
  | .null => some false
  | .bool b => some b
  | .int n => some (n.val != 0)
  | .bytes b => if b.length > maxIntBytes then none else some (b.any (· != 0))
  | _ => some true

/-- `TryInteger` (a Buffer is *not* convertible implicitly). -/
def Item.toInteger : Item → Option Int
  | .bool b => some (if b then 1 else 0)
  | .int n => some n.val
  | .bytes b => if b.length > maxIntBytes then none else some (fromBytes b)
  | _ => none

/-- `TryBytes`. -/
def Item.toBytes (h : Heap) : Item → Option Bytes
  | .bool b => some [if b then 1 else 0]
  | .int n => some (Vm.toBytes n.val)
  | .bytes b => some b
  | .buffer id => h.getBuf id
  | _ => none

/-- `IsValidMapKey`: Boolean, Integer, ByteString of at most 64 bytes. -/
def Item.validKey : Item → Bool
  | .bool _ => true
  | .int _ => true
  | .bytes b => b.length ≤ maxKeySize
  | _ => false

/-! ### equality (`EQUAL`): `none` = FAULT (operand exceeds the comparable size / too many items) -/

/-- `(*ByteArray).equalsLimited`: returns the verdict and the remaining size budget. -/
def bytesEqualsLimited (x : Bytes) (s : Item) (lim : Nat) : Option (Bool × Nat) :=
  if x.length > lim ∨ lim = 0 then none
  else match s with
    | .bytes y => if y.length > lim then none else some (x == y, lim - max x.length y.length)
    | _ => some (false, lim - 1)

/-- equality of two non-ByteString, non-(Struct,Struct) items: type and value / identity. -/
def simpleEquals (a b : Item) : Bool :=
  match a, b with
  | .null, .null => true
  | .bool x, .bool y => x == y
  | .int x, .int y => x == y
  | .buffer x, .buffer y => x == y
  | .array x, .array y => x == y
  | .map x, .map y => x == y
  | .struct x, .struct y => x == y
  | .pointer p s, .pointer q t => p == q && s == t
  | .interop x, .interop y => x == y
  | _, _ => false

/-- the element loop of `(*Struct).equalStruct`; `rec` compares two nested structs.
`cnt` is the shared item budget (`*limit`), `sz` the per-struct size budget. -/
def equalFields (rec : Nat → Nat → Nat → Option (Bool × Nat)) :
    List Item → List Item → Nat → Nat → Option (Bool × Nat)
  | [], _, cnt, _ => some (true, cnt)
  | _, [], cnt, _ => some (true, cnt)
  | a :: as, b :: bs, cnt, sz =>
    -- *limit--; if *limit == 0 { panic }
    if cnt ≤ 1 then none
    else
      let cnt := cnt - 1
      match a with
      | .bytes x =>
        match bytesEqualsLimited x b sz with
        | none => none
        | some (false, _) => some (false, cnt)
        | some (true, sz) => equalFields rec as bs cnt sz
      | _ =>
        if sz = 0 then none
        else
          let sz := sz - 1
          match a, b with
          | .struct i, .struct j =>
            match rec i j cnt with
            | none => none
            | some (false, cnt) => some (false, cnt)
            | some (true, cnt) => equalFields rec as bs cnt sz
          | _, _ => if simpleEquals a b then equalFields rec as bs cnt sz else some (false, cnt)

/-- `(*Struct).equalStruct` with fuel on the nesting depth. -/
def equalStructAux (h : Heap) : Nat → Nat → Nat → Nat → Option (Bool × Nat)
  | 0, _, _, _ => none
  | f+1, i, j, cnt =>
    if i = j then some (true, cnt)
    else match h.getItems i, h.getItems j with
      | some xs, some ys =>
        if xs.length ≠ ys.length then some (false, cnt)
        else equalFields (equalStructAux h f) xs ys cnt maxComparableSize
      | _, _ => none

/-- `a.Equals(b)` as used by EQUAL / NOTEQUAL. -/
def itemEquals (h : Heap) (a b : Item) : Option Bool :=
  match a with
  | .bytes x => (bytesEqualsLimited x b maxComparableSize).map (·.1)
  | .struct i =>
    match b with
    | .struct j => (equalStructAux h (maxComparableItems + 1) i j (maxComparableItems - 1)).map (·.1)
    | _ => some false
  | _ => some (simpleEquals a b)

/-! ### Struct.Clone: nested structs are copied, everything else is shared -/

def cloneFields (rec : Heap → Nat → Nat → Option (Heap × Nat × Nat)) :
    List Item → Heap → Nat → Option (Heap × List Item × Nat)
  | [], h, lim => some (h, [], lim)
  | x :: xs, h, lim =>
    -- *limit--; if *limit < 0 { return ErrTooBig }
    if lim = 0 then none
    else
      let lim := lim - 1
      match x with
      | .struct sid =>
        match rec h sid lim with
        | none => none
        | some (h, nid, lim) =>
          match cloneFields rec xs h lim with
          | none => none
          | some (h, ys, lim) => some (h, .struct nid :: ys, lim)
      | _ =>
        match cloneFields rec xs h lim with
        | none => none
        | some (h, ys, lim) => some (h, x :: ys, lim)

def cloneStructAux : Nat → Heap → Nat → Nat → Option (Heap × Nat × Nat)
  | 0, _, _, _ => none
  | f+1, h, id, lim =>
    match h.getItems id with
    | none => none
    | some xs =>
      match cloneFields (cloneStructAux f) xs h lim with
      | none => none
      | some (h, ys, lim) =>
        let (h, nid) := h.alloc (.items ys)
        some (h, nid, lim)

/-- `cloneIfStruct`: `none` = the struct has more than `MaxClonableNumOfItems` items. -/
def cloneIfStruct (h : Heap) : Item → Option (Heap × Item)
  | .struct id =>
    match cloneStructAux (maxClonableItems + 1) h id (maxClonableItems - 1) with
    | none => none
    | some (h, nid, _) => some (h, .struct nid)
  | x => some (h, x)

/-! ### CONVERT -/

def convert (h : Heap) (x : Item) (t : UInt8) : Option (Heap × Item) :=
  match x with
  | .null => if t == tAny || !typeValid t then none else some (h, .null)
  | .bool _ | .int _ | .bytes _ =>
    if x.typeByte == t then some (h, x)
    else if t == tInteger then (x.toInteger.bind checkInt).map fun n => (h, .int n)
    else if t == tByteString then (x.toBytes h).map fun b => (h, .bytes b)
    else if t == tBuffer then (x.toBytes h).map fun b => let (h, id) := h.alloc (.buf b); (h, .buffer id)
    else if t == tBoolean then x.toBool.map fun b => (h, .bool b)
    else none
  | .buffer id =>
    if t == tBoolean then some (h, .bool true)
    else if t == tBuffer then some (h, x)
    else if t == tByteString then (h.getBuf id).map fun b => (h, .bytes b)
    else if t == tInteger then
      (h.getBuf id).bind fun b =>
        if b.length > maxIntBytes then none else (checkInt (fromBytes b)).map fun n => (h, .int n)
    else none
  | .array id =>
    if t == tArray then some (h, x)
    else if t == tStruct then (h.getItems id).map fun xs => let (h, nid) := h.alloc (.items xs); (h, .struct nid)
    else if t == tBoolean then some (h, .bool true)
    else none
  | .struct id =>
    if t == tStruct then some (h, x)
    else if t == tArray then (h.getItems id).map fun xs => let (h, nid) := h.alloc (.items xs); (h, .array nid)
    else if t == tBoolean then some (h, .bool true)
    else none
  | .map _ => if t == tMap then some (h, x) else if t == tBoolean then some (h, .bool true) else none
  | .pointer _ _ => if t == tPointer then some (h, x) else if t == tBoolean then some (h, .bool true) else none
  | .interop _ => if t == tInterop then some (h, x) else if t == tBoolean then some (h, .bool true) else none

/-! ### maps: ordered association list keyed by (type, bytes) = item equality on valid keys -/

def mapIndex (kv : List (Item × Item)) (k : Item) : Option Nat := kv.findIdx? (·.1 == k)

def mapSet : List (Item × Item) → Item → Item → List (Item × Item)
  | [], k, v => [(k, v)]
  | (k', v') :: rest, k, v => if k' == k then (k', v) :: rest else (k', v') :: mapSet rest k v

/-! ### UTF-8 validity (`utf8.Valid`, used by ABORTMSG / ASSERTMSG through `stackitem.ToString`) -/

def utf8Valid : Bytes → Bool
  | [] => true
  | b0 :: rest =>
    let c := b0.toNat
    if c < 0x80 then utf8Valid rest
    else if c < 0xC2 then false
    else if c < 0xE0 then
      match rest with
      | b1 :: r => (0x80 ≤ b1.toNat && b1.toNat ≤ 0xBF) && utf8Valid r
      | _ => false
    else if c < 0xF0 then
      match rest with
      | b1 :: b2 :: r =>
        let lo := if c == 0xE0 then 0xA0 else 0x80
        let hi := if c == 0xED then 0x9F else 0xBF
        (lo ≤ b1.toNat && b1.toNat ≤ hi) && (0x80 ≤ b2.toNat && b2.toNat ≤ 0xBF) && utf8Valid r
      | _ => false
    else if c < 0xF5 then
      match rest with
      | b1 :: b2 :: b3 :: r =>
        let lo := if c == 0xF0 then 0x90 else 0x80
        let hi := if c == 0xF4 then 0x8F else 0xBF
        (lo ≤ b1.toNat && b1.toNat ≤ hi) && (0x80 ≤ b2.toNat && b2.toNat ≤ 0xBF) &&
          (0x80 ≤ b3.toNat && b3.toNat ≤ 0xBF) && utf8Valid r
      | _ => false
    else false

/-! ### checked conversions of stackitem/conversion.go (used by interops; `none` = error) -/

/-- `ToInt64`, `ToInt32`, `ToUint8`, `ToUint16`, `ToUint32`, `ToUint64`: the integer value if it lies in
`[lo, hi]`. -/
def Item.toIntBounded (lo hi : Int) (x : Item) : Option Int :=
  x.toInteger.bind fun n => if lo ≤ n ∧ n ≤ hi then some n else none

/-- `ToString`: the bytes if they are valid UTF-8. -/
def Item.toUtf8 (h : Heap) (x : Item) : Option Bytes :=
  (x.toBytes h).bind fun b => if utf8Valid b then some b else none

/-- `ToUint160` / `ToUint256`: the bytes if there are exactly `n` of them. -/
def Item.toFixedBytes (h : Heap) (n : Nat) (x : Item) : Option Bytes :=
  (x.toBytes h).bind fun b => if b.length = n then some b else none

end NeoModel.Vm
