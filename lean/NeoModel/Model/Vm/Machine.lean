/-
The NeoVM machine: instruction decoding, invocation stack, slots, exception handling, gas, `step`
and `run`.

Structure of the invocation stack. A *frame* is one loaded script (Go: `scriptContext`): program,
static slot, its own evaluation stack, expected number of return values. Inside a frame there is a
non-empty stack of *call contexts* (Go: `Context` created by `CALL*`), each with its instruction
pointer, local/argument slots and try stack; they share the frame's evaluation stack and statics.
`len(v.istack)` of the implementation = total number of call contexts.

API for users of the model (C12 builds on it):
  `Vm.load prog args gasLimit`, `step cfg v`, `run cfg fuel v`, `Vm.estack`, `reach v`,
  `Vm.depth`, `decode`, `execPure` (stack/heap instructions), `exec` (all instructions).
-/
import NeoModel.Model.Vm.Ops
namespace NeoModel.Vm

/-! ### decoding (scparser/context.go `Next`) -/

def Op.ofByte (b : UInt8) : Option Op :=
  let n := b.toNat
  if n ≤ 0x05 then some (.pushInt n)
  else if 0x0F ≤ n ∧ n ≤ 0x20 then some (.pushConst ((n : Int) - 0x10))
  else if 0x22 ≤ n ∧ n ≤ 0x33 then
    let k := (n - 0x22) / 2
    let c : JmpCond := match k with
      | 0 => .always | 1 => .ifTrue | 2 => .ifFalse | 3 => .eq | 4 => .ne
      | 5 => .gt | 6 => .ge | 7 => .lt | _ => .le
    some (.jmp c (n % 2 == 1))
  else if 0x58 ≤ n ∧ n ≤ 0x87 then
    let k := (n - 0x58) / 16
    let kind : SlotKind := match k with | 0 => .static | 1 => .local_ | _ => .arg
    let r := (n - 0x58) % 16
    let idx : Option Nat := if r % 8 == 7 then none else some (r % 8)
    if r < 8 then some (.ld kind idx) else some (.st kind idx)
  else match n with
    | 0x08 => some .pushT | 0x09 => some .pushF | 0x0A => some .pushA | 0x0B => some .pushNull
    | 0x0C => some (.pushData 1) | 0x0D => some (.pushData 2) | 0x0E => some (.pushData 4)
    | 0x21 => some .nop
    | 0x34 => some (.call false) | 0x35 => some (.call true) | 0x36 => some .callA | 0x37 => some .callT
    | 0x38 => some .abort | 0x39 => some .assert | 0x3A => some .throw
    | 0x3B => some (.try_ false) | 0x3C => some (.try_ true)
    | 0x3D => some (.endTry false) | 0x3E => some (.endTry true) | 0x3F => some .endFinally
    | 0x40 => some .ret | 0x41 => some .syscall
    | 0x43 => some .depth | 0x45 => some .drop | 0x46 => some .nip | 0x48 => some .xdrop
    | 0x49 => some .clear | 0x4A => some .dup | 0x4B => some .over | 0x4D => some .pick
    | 0x4E => some .tuck | 0x50 => some .swap | 0x51 => some .rot | 0x52 => some .roll
    | 0x53 => some .reverse3 | 0x54 => some .reverse4 | 0x55 => some .reverseN
    | 0x56 => some .initSSlot | 0x57 => some .initSlot
    | 0x88 => some .newBuffer | 0x89 => some .memcpy | 0x8B => some .cat | 0x8C => some .substr
    | 0x8D => some .left | 0x8E => some .right
    | 0x90 => some .invert | 0x91 => some .and | 0x92 => some .or | 0x93 => some .xor
    | 0x97 => some .equal | 0x98 => some .notEqual
    | 0x99 => some .sign | 0x9A => some .abs | 0x9B => some .negate | 0x9C => some .inc
    | 0x9D => some .dec | 0x9E => some .add | 0x9F => some .sub | 0xA0 => some .mul
    | 0xA1 => some .div | 0xA2 => some .mod | 0xA3 => some .pow | 0xA4 => some .sqrt
    | 0xA5 => some .modMul | 0xA6 => some .modPow | 0xA8 => some .shl | 0xA9 => some .shr
    | 0xAA => some .not | 0xAB => some .boolAnd | 0xAC => some .boolOr | 0xB1 => some .nz
    | 0xB3 => some .numEqual | 0xB4 => some .numNotEqual | 0xB5 => some .lt | 0xB6 => some .le
    | 0xB7 => some .gt | 0xB8 => some .ge | 0xB9 => some .min | 0xBA => some .max
    | 0xBB => some .within
    | 0xBE => some .packMap | 0xBF => some .packStruct | 0xC0 => some .pack | 0xC1 => some .unpack
    | 0xC2 => some .newArray0 | 0xC3 => some .newArray | 0xC4 => some .newArrayT
    | 0xC5 => some .newStruct0 | 0xC6 => some .newStruct | 0xC8 => some .newMap
    | 0xCA => some .size | 0xCB => some .hasKey | 0xCC => some .keys | 0xCD => some .values
    | 0xCE => some .pickItem | 0xCF => some .append | 0xD0 => some .setItem
    | 0xD1 => some .reverseItems | 0xD2 => some .remove | 0xD3 => some .clearItems
    | 0xD4 => some .popItem
    | 0xD8 => some .isNull | 0xD9 => some .isType | 0xDB => some .convert
    | 0xE0 => some .abortMsg | 0xE1 => some .assertMsg
    | _ => none

/-- operand layout: `(prefix, fixed)`: `prefix` bytes of little-endian length followed by that
many bytes, or `fixed` bytes. -/
def Op.operand : Op → Nat × Nat
  | .pushInt k => (0, 2 ^ k)
  | .pushData k => (k, 0)
  | .pushA => (0, 4)
  | .jmp _ long => (0, if long then 4 else 1)
  | .call long => (0, if long then 4 else 1)
  | .callT => (0, 2)
  | .try_ long => (0, if long then 8 else 2)
  | .endTry long => (0, if long then 4 else 1)
  | .syscall => (0, 4)
  | .initSSlot => (0, 1)
  | .initSlot => (0, 2)
  | .ld _ none => (0, 1)
  | .st _ none => (0, 1)
  | .newArrayT | .isType | .convert => (0, 1)
  | _ => (0, 0)

/-- the mnemonic (as `opcode.Opcode.String()` prints it): used to cross-check the decoding table
against the table regenerated from the Go source. -/
def Op.name : Op → String
  | .pushInt k => (["PUSHINT8", "PUSHINT16", "PUSHINT32", "PUSHINT64", "PUSHINT128", "PUSHINT256"])[k]?.getD "?"
  | .pushT => "PUSHT" | .pushF => "PUSHF" | .pushA => "PUSHA" | .pushNull => "PUSHNULL"
  | .pushData k => if k = 1 then "PUSHDATA1" else if k = 2 then "PUSHDATA2" else if k = 4 then "PUSHDATA4" else "?"
  | .pushConst n =>
    if n < 0 then "PUSHM1"
    else (["PUSH0", "PUSH1", "PUSH2", "PUSH3", "PUSH4", "PUSH5", "PUSH6", "PUSH7", "PUSH8", "PUSH9", "PUSH10",
           "PUSH11", "PUSH12", "PUSH13", "PUSH14", "PUSH15", "PUSH16"])[n.toNat]?.getD "?"
  | .nop => "NOP"
  | .jmp c long =>
    let b := match c with
      | .always => "JMP" | .ifTrue => "JMPIF" | .ifFalse => "JMPIFNOT" | .eq => "JMPEQ" | .ne => "JMPNE"
      | .gt => "JMPGT" | .ge => "JMPGE" | .lt => "JMPLT" | .le => "JMPLE"
    if long then b ++ "_L" else b
  | .call long => if long then "CALL_L" else "CALL"
  | .callA => "CALLA" | .callT => "CALLT"
  | .abort => "ABORT" | .assert => "ASSERT" | .throw => "THROW"
  | .try_ long => if long then "TRY_L" else "TRY"
  | .endTry long => if long then "ENDTRY_L" else "ENDTRY"
  | .endFinally => "ENDFINALLY" | .ret => "RET" | .syscall => "SYSCALL"
  | .depth => "DEPTH" | .drop => "DROP" | .nip => "NIP" | .xdrop => "XDROP" | .clear => "CLEAR"
  | .dup => "DUP" | .over => "OVER" | .pick => "PICK" | .tuck => "TUCK" | .swap => "SWAP"
  | .rot => "ROT" | .roll => "ROLL" | .reverse3 => "REVERSE3" | .reverse4 => "REVERSE4"
  | .reverseN => "REVERSEN" | .initSSlot => "INITSSLOT" | .initSlot => "INITSLOT"
  | .ld k i =>
    let b := match k with | .static => "LDSFLD" | .local_ => "LDLOC" | .arg => "LDARG"
    match i with | some n => b ++ (["0", "1", "2", "3", "4", "5", "6"])[n]?.getD "?" | none => b
  | .st k i =>
    let b := match k with | .static => "STSFLD" | .local_ => "STLOC" | .arg => "STARG"
    match i with | some n => b ++ (["0", "1", "2", "3", "4", "5", "6"])[n]?.getD "?" | none => b
  | .newBuffer => "NEWBUFFER" | .memcpy => "MEMCPY" | .cat => "CAT" | .substr => "SUBSTR"
  | .left => "LEFT" | .right => "RIGHT" | .invert => "INVERT" | .and => "AND" | .or => "OR"
  | .xor => "XOR" | .equal => "EQUAL" | .notEqual => "NOTEQUAL" | .sign => "SIGN" | .abs => "ABS"
  | .negate => "NEGATE" | .inc => "INC" | .dec => "DEC" | .add => "ADD" | .sub => "SUB"
  | .mul => "MUL" | .div => "DIV" | .mod => "MOD" | .pow => "POW" | .sqrt => "SQRT"
  | .modMul => "MODMUL" | .modPow => "MODPOW" | .shl => "SHL" | .shr => "SHR" | .not => "NOT"
  | .boolAnd => "BOOLAND" | .boolOr => "BOOLOR" | .nz => "NZ" | .numEqual => "NUMEQUAL"
  | .numNotEqual => "NUMNOTEQUAL" | .lt => "LT" | .le => "LE" | .gt => "GT" | .ge => "GE"
  | .min => "MIN" | .max => "MAX" | .within => "WITHIN" | .packMap => "PACKMAP"
  | .packStruct => "PACKSTRUCT" | .pack => "PACK" | .unpack => "UNPACK" | .newArray0 => "NEWARRAY0"
  | .newArray => "NEWARRAY" | .newArrayT => "NEWARRAY_T" | .newStruct0 => "NEWSTRUCT0"
  | .newStruct => "NEWSTRUCT" | .newMap => "NEWMAP" | .size => "SIZE" | .hasKey => "HASKEY"
  | .keys => "KEYS" | .values => "VALUES" | .pickItem => "PICKITEM" | .append => "APPEND"
  | .setItem => "SETITEM" | .reverseItems => "REVERSEITEMS" | .remove => "REMOVE"
  | .clearItems => "CLEARITEMS" | .popItem => "POPITEM" | .isNull => "ISNULL" | .isType => "ISTYPE"
  | .convert => "CONVERT" | .abortMsg => "ABORTMSG" | .assertMsg => "ASSERTMSG"

/-- unsigned little-endian value. -/
def leNat : Bytes → Nat
  | [] => 0
  | b :: r => b.toNat + 256 * leNat r

structure Instr where
  op : Op
  opByte : UInt8
  param : Bytes
  ip : Nat          -- offset of the instruction
  next : Nat        -- offset of the following instruction
deriving Repr

def slice (p : Array UInt8) (a n : Nat) : Bytes := (p.extract a (a + n)).toList

/-- decode the instruction at `ip`. Past the end of the script an implicit `RET` is returned
(context.go:52-54). Errors: invalid opcode, truncated operand, PUSHDATA4 longer than MaxSize. -/
def decode (p : Array UInt8) (ip : Nat) : E Instr :=
  match p[ip]? with
  | none => .ok { op := .ret, opByte := 0x40, param := [], ip := ip, next := ip }
  | some b =>
    match Op.ofByte b with
    | none => .error "incorrect opcode"
    | some op =>
      let (pre, fixed) := op.operand
      let at1 := ip + 1
      if at1 + pre > p.size then .error "failed to read instruction parameter"
      else
        let n := if pre = 0 then fixed else leNat (slice p at1 pre)
        if pre = 4 ∧ n > maxItemSize then .error "parameter is too big"
        else
          let at2 := at1 + pre
          if at2 + n > p.size then .error "failed to read instruction parameter"
          else .ok { op := op, opByte := b, param := slice p at2 n, ip := ip, next := at2 + n }

/-! ### machine state -/

inductive TryState where
  | try_ | catch_ | finally_
deriving DecidableEq, Repr

/-- `exceptionHandlingContext` (exception.go). -/
structure TryCtx where
  catchOff : Option Nat
  finallyOff : Option Nat
  endOff : Option Nat := none       -- −1 until ENDTRY sets it
  state : TryState := .try_
deriving Repr

/-- one `CALL` level (Go `Context` minus what it shares with its script). -/
structure CallCtx where
  ip : Nat
  locals : Option (List Item) := none
  args : Option (List Item) := none
  tries : List TryCtx := []
deriving Repr

/-- one loaded script (Go `scriptContext` + the bottom `Context`). -/
structure Frame where
  prog : Array UInt8
  scriptId : Nat := 0
  static : Option (List Item) := none
  estack : List Item := []
  retCount : Option Nat := none       -- `none` = −1 (any number of return values)
  calls : List CallCtx
deriving Repr

inductive VmState where
  | none | halt | fault | brk
deriving DecidableEq, Repr

structure Vm where
  state : VmState := .none
  frames : List Frame := []
  heap : Heap := #[]
  uncaught : Option Item := none
  gas : Nat := 0                      -- consumed, in the unit of the price table
  gasLimit : Option Nat := none       -- `none` = unlimited (−1)
  result : List Item := []            -- the evaluation stack left after the last context unloads
  faultMsg : String := ""
deriving Repr

/-- execution parameters: the price of one instruction (`SetPriceGetter`); `none` = no getter. -/
structure Cfg where
  price : Option (UInt8 → Nat) := none

def Vm.load (prog : Array UInt8) (args : List Item) (gasLimit : Option Nat) (heap : Heap := #[]) : Vm :=
  { frames := [{ prog := prog, estack := args, calls := [{ ip := 0 }] }], gasLimit := gasLimit, heap := heap }

/-- the current evaluation stack (`v.estack`). -/
def Vm.estack (v : Vm) : List Item :=
  match v.frames with
  | f :: _ => f.estack
  | [] => v.result

/-- `len(v.istack)`. -/
def Vm.depth (v : Vm) : Nat := (v.frames.map (·.calls.length)).sum

/-! ### the reference count of the specification: references from stacks and slots plus the
children of every distinct reachable compound object (what `refCounter` is meant to compute) -/

def slotLen : Option (List Item) → Nat
  | some xs => xs.length
  | none => 0
def slotItems : Option (List Item) → List Item
  | some xs => xs
  | none => []

def Frame.roots (f : Frame) : List Item :=
  f.estack ++ slotItems f.static ++ (f.calls.map fun c => slotItems c.locals ++ slotItems c.args).flatten

def Vm.roots (v : Vm) : List Item := (v.frames.map Frame.roots).flatten ++ v.result

def HeapObj.children : HeapObj → List Item
  | .buf _ => []
  | .items xs => xs
  | .entries kv => flattenKV kv

def Item.compoundId : Item → Option Nat
  | .array id => some id
  | .struct id => some id
  | .map id => some id
  | _ => none

/-- worklist traversal; `acc` counts references. Fuel bounds the number of work items. -/
def reachLoop (h : Heap) : Nat → List Item → Array Bool → Nat → Nat
  | 0, _, _, acc => acc
  | _, [], _, acc => acc
  | f+1, x :: work, seen, acc =>
    match x.compoundId with
    | none => reachLoop h f work seen (acc + 1)
    | some id =>
      if seen.getD id true then reachLoop h f work seen (acc + 1)
      else
        let kids := match h[id]? with | some o => o.children | none => []
        reachLoop h f (kids ++ work) (seen.setIfInBounds id true) (acc + 1)

def heapChildren (h : Heap) : Nat := h.foldl (fun n o => n + o.children.length) 0

/-- number of references the VM holds (`MaxStackSize` limits this). -/
def reach (v : Vm) : Nat :=
  let roots := v.roots
  reachLoop v.heap (roots.length + heapChildren v.heap + 1) roots (Array.replicate v.heap.size false) 0

/-! ### helpers on the current frame / call context -/

def Vm.fault (v : Vm) (msg : String) : Vm := { v with state := .fault, faultMsg := msg }

def signedLE (b : Bytes) : Int :=
  let n : Int := leNat b
  if n < (2:Int) ^ (8 * b.length - 1) then n else n - (2:Int) ^ (8 * b.length)

/-- `getJumpOffset`: absolute target of a relative operand; must lie in `[0, len]`. -/
def jumpTarget (progSize ip : Nat) (rel : Bytes) : E Nat :=
  let t : Int := (ip : Int) + signedLE rel
  if t < 0 ∨ t > progSize then .error "invalid offset" else .ok t.toNat

/-- `Context.Jump`: the target must be inside the script. -/
def checkJump (progSize t : Nat) : E Nat :=
  if t ≥ progSize then .error "instruction offset is out of range" else .ok t

def slotGet (s : Option (List Item)) (i : Nat) : E Item :=
  match s with
  | some xs => optE "slot index out of range" xs[i]?
  | none => .error "slot is not initialized"

def slotSet (s : Option (List Item)) (i : Nat) (x : Item) : E (Option (List Item)) :=
  match s with
  | some xs => if i < xs.length then .ok (some (xs.set i x)) else .error "slot index out of range"
  | none => .error "slot is not initialized"

/-! ### exceptions (vm.go `handleException`) -/

def TryCtx.finished (e : TryCtx) : Bool :=
  e.state == .finally_ || (e.state == .catch_ && e.finallyOff.isNone)

def dropFinished : List TryCtx → List TryCtx
  | [] => []
  | e :: es => if e.finished then dropFinished es else e :: es

/-- look for a handler in the call contexts of one frame, innermost first. Result: the remaining
call contexts (inner ones unloaded), whether the exception is delivered (catch) and the jump
target. -/
def unwindCalls : List CallCtx → Option (List CallCtx × Bool × Nat)
  | [] => none
  | c :: cs =>
    match dropFinished c.tries with
    | [] => unwindCalls cs
    | e :: es =>
      match e.state, e.catchOff with
      | .try_, some co =>
        some ({ c with ip := co, tries := { e with state := .catch_ } :: es } :: cs, true, co)
      | _, _ =>
        let fo := e.finallyOff.getD 0
        some ({ c with ip := fo, tries := { e with state := .finally_ } :: es } :: cs, false, fo)

/-- unwind frames until a handler is found. -/
def unwindFrames (ex : Item) : List Frame → E (List Frame × Bool)
  | [] => .error "unhandled exception"
  | f :: fs =>
    match unwindCalls f.calls with
    | none => unwindFrames ex fs
    | some (calls, deliver, target) =>
      if target ≥ f.prog.size then .error "instruction offset is out of range"
      else
        let st := if deliver then ex :: f.estack else f.estack
        .ok ({ f with calls := calls, estack := st } :: fs, deliver)

/-- raise `ex` in machine `v` (`v.throw`). -/
def Vm.raise (v : Vm) (ex : Item) : E Vm := do
  let (frames, delivered) ← unwindFrames ex v.frames
  pure { v with frames := frames, uncaught := if delivered then none else some ex }

/-! ### one instruction -/

def jmpTaken (c : JmpCond) (st : List Item) : E (Bool × List Item) :=
  match c with
  | .always => .ok (true, st)
  | .ifTrue => do let (b, st) ← popBool st; pure (b, st)
  | .ifFalse => do let (b, st) ← popBool st; pure (!b, st)
  | _ => do
    let (b, st) ← popInt st
    let (a, st) ← popInt st
    let r := match c with
      | .eq => a == b | .ne => a != b | .gt => decide (a > b) | .ge => decide (a ≥ b)
      | .lt => decide (a < b) | _ => decide (a ≤ b)
    pure (r, st)

/-- execute the decoded instruction `ins` in `v`, whose current call context already points past
the instruction. `.error` = FAULT. -/
def exec (v : Vm) (ins : Instr) : E Vm :=
  match v.frames with
  | [] => .error "no program loaded"
  | f :: fs =>
  match f.calls with
  | [] => .error "no context"
  | c :: cs =>
  let size := f.prog.size
  let setCur (f' : Frame) (c' : CallCtx) : Vm := { v with frames := { f' with calls := c' :: cs } :: fs }
  match ins.op with
  | .pushA => do
    let t ← jumpTarget size ins.ip ins.param
    pure (setCur { f with estack := .pointer t f.scriptId :: f.estack } c)
  | .jmp cond _ => do
    let t ← jumpTarget size ins.ip ins.param
    let (taken, st) ← jmpTaken cond f.estack
    if taken then
      let t ← checkJump size t
      pure (setCur { f with estack := st } { c with ip := t })
    else pure (setCur { f with estack := st } c)
  | .call _ => do
    let t ← jumpTarget size ins.ip ins.param
    if v.depth ≥ maxInvocationStackSize then throw "invocation stack is too big"
    let t ← checkJump size t
    pure { v with frames := { f with calls := { ip := t } :: c :: cs } :: fs }
  | .callA => do
    let (x, st) ← popE f.estack
    match x with
    | .pointer pos sid =>
      if sid ≠ f.scriptId then throw "invalid script in pointer"
      if v.depth ≥ maxInvocationStackSize then throw "invocation stack is too big"
      let t ← checkJump size pos
      pure { v with frames := { f with estack := st, calls := { ip := t } :: c :: cs } :: fs }
    | _ => .error "not a pointer"
  | .callT => .error "LoadToken is not set"
  | .syscall => .error "SyscallHandler is not initialized"
  | .ret =>
    match cs with
    | c2 :: cs2 => pure { v with frames := { f with calls := c2 :: cs2 } :: fs }
    | [] =>
      match fs with
      | [] => pure { v with frames := [], state := .halt, result := f.estack }
      | p :: ps =>
        match f.retCount with
        | some n =>
          if f.estack.length ≠ n then .error "invalid return values count"
          else pure { v with frames := { p with estack := f.estack ++ p.estack } :: ps }
        | none => pure { v with frames := { p with estack := f.estack ++ p.estack } :: ps }
  | .try_ long => do
    if c.tries.length ≥ maxTryNestingDepth then throw "maximum TRY depth exceeded"
    let w := if long then 4 else 1
    let co ← jumpTarget size ins.ip (ins.param.take w)
    let fo ← jumpTarget size ins.ip (ins.param.drop w)
    if co = ins.ip ∧ fo = ins.ip then throw "invalid offset for TRY*"
    let e : TryCtx := { catchOff := if co = ins.ip then none else some co,
                        finallyOff := if fo = ins.ip then none else some fo }
    pure (setCur f { c with tries := e :: c.tries })
  | .endTry _ =>
    match c.tries with
    | [] => .error "no try context"
    | e :: es => do
      if e.state == .finally_ then throw "invalid exception handling state during ENDTRY*"
      let eo ← jumpTarget size ins.ip ins.param
      match e.finallyOff with
      | some fo =>
        let t ← checkJump size fo
        pure (setCur f { c with ip := t, tries := { e with state := .finally_, endOff := some eo } :: es })
      | none =>
        let t ← checkJump size eo
        pure (setCur f { c with ip := t, tries := es })
  | .endFinally =>
    match v.uncaught with
    | some ex => v.raise ex
    | none =>
      match c.tries with
      | [] => .error "no try context"
      | e :: es => do
        -- a context that never went through ENDTRY still has EndOffset = −1: the jump faults
        let eo ← optE "instruction offset is out of range" e.endOff
        let t ← checkJump size eo
        pure (setCur f { c with ip := t, tries := es })
  | .initSSlot => do
    let n := (ins.param.headD 0).toNat
    if n = 0 then throw "zero argument"
    if f.static.isSome then throw "already initialized"
    pure (setCur { f with static := some (List.replicate n .null) } c)
  | .initSlot => do
    if c.locals.isSome ∨ c.args.isSome then throw "already initialized"
    let nl := (ins.param.headD 0).toNat
    let na := ((ins.param.drop 1).headD 0).toNat
    if nl = 0 ∧ na = 0 then throw "zero argument"
    if na > f.estack.length then throw "stack underflow"
    let locals := if nl > 0 then some (List.replicate nl Item.null) else none
    let args := if na > 0 then some (f.estack.take na) else none
    pure (setCur { f with estack := f.estack.drop na } { c with locals := locals, args := args })
  | .ld k i => do
    let idx := match i with | some n => n | none => (ins.param.headD 0).toNat
    let slot := match k with | .static => f.static | .local_ => c.locals | .arg => c.args
    let x ← slotGet slot idx
    pure (setCur { f with estack := x :: f.estack } c)
  | .st k i => do
    let idx := match i with | some n => n | none => (ins.param.headD 0).toNat
    let slot := match k with | .static => f.static | .local_ => c.locals | .arg => c.args
    -- the slot and the index are checked before the value is popped (slot.go:store)
    let _ ← slotSet slot idx .null
    let (x, st) ← popE f.estack
    let slot' ← slotSet slot idx x
    match k with
    | .static => pure (setCur { f with estack := st, static := slot' } c)
    | .local_ => pure (setCur { f with estack := st } { c with locals := slot' })
    | .arg => pure (setCur { f with estack := st } { c with args := slot' })
  | op => do
    match ← execPure op ins.param f.estack v.heap with
    | .next st h => pure { v with frames := { f with estack := st } :: fs, heap := h }
    | .throw ex st h => ({ v with frames := { f with estack := st } :: fs, heap := h } : Vm).raise ex

/-- advance the instruction pointer of the current call context. -/
def Vm.setIp (v : Vm) (ip : Nat) : Vm :=
  match v.frames with
  | f :: fs =>
    match f.calls with
    | c :: cs => { v with frames := { f with calls := { c with ip := ip } :: cs } :: fs }
    | [] => v
  | [] => v

/-- one step of `Run` (vm.go `step` + `execute`): decode, charge, execute, check the stack size. -/
def step (cfg : Cfg) (v : Vm) : Vm :=
  if v.state ≠ .none then v else
  match v.frames with
  | [] => v.fault "no program loaded"
  | f :: _ =>
  match f.calls with
  | [] => v.fault "no context"
  | c :: _ =>
  match decode f.prog c.ip with
  | .error e => v.fault e
  | .ok ins =>
    let v := v.setIp ins.next
    let v := match cfg.price with
      | some p => if ins.ip < f.prog.size then { v with gas := v.gas + p ins.opByte } else v
      | none => v
    let over := match v.gasLimit with
      | some l => cfg.price.isSome && ins.ip < f.prog.size && v.gas > l
      | none => false
    if over then v.fault "GAS limit exceeded"
    else
      match exec v ins with
      | .error e => v.fault e
      | .ok v' => if reach v' > maxStackSize then v'.fault "stack is too big" else v'

/-- `Run`: iterate `step` until HALT or FAULT (or the fuel runs out: state stays `none`). -/
def run (cfg : Cfg) : Nat → Vm → Vm
  | 0, v => v
  | n+1, v => if v.state ≠ .none then v else run cfg n (step cfg v)

end NeoModel.Vm
