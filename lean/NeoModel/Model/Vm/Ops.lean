/-
NeoVM instructions that touch only the current evaluation stack and the heap
(constants aside): stack manipulation, splice, bitwise, arithmetic, comparison, compound types,
type tests and conversion. `execPure` is a total function
   Op → operand bytes → stack → heap → fault | next stack/heap | catchable exception.
Evaluation stacks are lists with the top at the head.

Written from the NeoVM semantics; line references point at the Go implementation it is tied to
(pkg/vm/vm.go `execute`).
-/
import NeoModel.Model.Vm.Item
namespace NeoModel.Vm

inductive JmpCond where
  | always | ifTrue | ifFalse | eq | ne | gt | ge | lt | le
deriving DecidableEq, Repr

inductive SlotKind where
  | static | local_ | arg
deriving DecidableEq, Repr

/-- decoded opcode (operands are kept separately as raw bytes). -/
inductive Op where
  | pushInt (k : Nat)            -- PUSHINT8 … PUSHINT256: operand of 2^k bytes
  | pushT | pushF | pushA | pushNull
  | pushData (k : Nat)           -- PUSHDATA1/2/4: k = width of the length prefix
  | pushConst (n : Int)          -- PUSHM1, PUSH0 … PUSH16
  | nop
  | jmp (c : JmpCond) (long : Bool)
  | call (long : Bool) | callA | callT
  | abort | assert | throw
  | try_ (long : Bool) | endTry (long : Bool) | endFinally
  | ret | syscall
  | depth | drop | nip | xdrop | clear | dup | over | pick | tuck | swap | rot | roll
  | reverse3 | reverse4 | reverseN
  | initSSlot | initSlot
  | ld (k : SlotKind) (i : Option Nat)   -- `none`: index is the operand byte
  | st (k : SlotKind) (i : Option Nat)
  | newBuffer | memcpy | cat | substr | left | right
  | invert | and | or | xor | equal | notEqual
  | sign | abs | negate | inc | dec | add | sub | mul | div | mod | pow | sqrt | modMul | modPow
  | shl | shr | not | boolAnd | boolOr | nz | numEqual | numNotEqual | lt | le | gt | ge
  | min | max | within
  | packMap | packStruct | pack | unpack | newArray0 | newArray | newArrayT | newStruct0 | newStruct
  | newMap | size | hasKey | keys | values | pickItem | append | setItem | reverseItems | remove
  | clearItems | popItem
  | isNull | isType | convert
  | abortMsg | assertMsg
deriving DecidableEq, Repr

/-- result of one stack/heap instruction. -/
inductive Outcome where
  | next (st : List Item) (h : Heap)
  | throw (ex : Item) (st : List Item) (h : Heap)   -- catchable VM exception
deriving DecidableEq

abbrev E := Except String

def popE : List Item → E (Item × List Item)
  | x :: st => .ok (x, st)
  | [] => .error "stack underflow"

def optE {α} (msg : String) : Option α → E α
  | some a => .ok a
  | none => .error msg

/-- `Pop().BigInt()`. -/
def popInt (st : List Item) : E (Int × List Item) := do
  let (x, st) ← popE st
  let n ← optE "not an integer" x.toInteger
  pure (n, st)

/-- `toInt(Pop().BigInt())`: 32-bit operand. -/
def popIdx (st : List Item) : E (Int × List Item) := do
  let (n, st) ← popInt st
  let n ← optE "not an int32" (toInt32 n)
  pure (n, st)

def popBool (st : List Item) : E (Bool × List Item) := do
  let (x, st) ← popE st
  let b ← optE "not a boolean" x.toBool
  pure (b, st)

def popBytes (h : Heap) (st : List Item) : E (Bytes × List Item) := do
  let (x, st) ← popE st
  let b ← optE "not bytes" (x.toBytes h)
  pure (b, st)

/-- `PushItem(NewBigInteger(n))`: the 256-bit range check. -/
def mkInt (n : Int) : E Item := (optE "integer out of range" (checkInt n)).map Item.int

def next1 (x : Item) (st : List Item) (h : Heap) : E Outcome := .ok (.next (x :: st) h)

def pushIntE (n : Int) (st : List Item) (h : Heap) : E Outcome := do
  let x ← mkInt n
  next1 x st h

def unop (f : Int → E Int) (st : List Item) (h : Heap) : E Outcome := do
  let (a, st) ← popInt st
  pushIntE (← f a) st h

/-- binary integer operator: pops `b` then `a`, computes `f a b`. -/
def binop (f : Int → Int → E Int) (st : List Item) (h : Heap) : E Outcome := do
  let (b, st) ← popInt st
  let (a, st) ← popInt st
  pushIntE (← f a b) st h

def cmpop (f : Int → Int → Bool) (st : List Item) (h : Heap) : E Outcome := do
  let (b, st) ← popInt st
  let (a, st) ← popInt st
  next1 (.bool (f a b)) st h

/-- LT/LE/GT/GE: `false` when either operand is Null (vm.go:1222-1243). -/
def cmpNull (f : Int → Int → Bool) (st : List Item) (h : Heap) : E Outcome := do
  let (b, st) ← popE st
  let (a, st) ← popE st
  if a == .null || b == .null then next1 (.bool false) st h
  else do
    let x ← optE "not an integer" a.toInteger
    let y ← optE "not an integer" b.toInteger
    next1 (.bool (f x y)) st h

def newBuf (b : Bytes) (st : List Item) (h : Heap) : E Outcome :=
  let (h, id) := h.alloc (.buf b)
  .ok (.next (.buffer id :: st) h)

def asciiBytes (s : String) : Bytes := s.toUTF8.toList

def outOfRangeMsg (i : Int) : Item := .bytes (asciiBytes s!"The value {i} is out of range.")

def listRemove {α} : List α → Nat → List α
  | [], _ => []
  | _ :: xs, 0 => xs
  | x :: xs, n+1 => x :: listRemove xs n

/-- items of an Array or Struct item. -/
def seqItems (h : Heap) : Item → Option (Nat × List Item)
  | .array id => (h.getItems id).map fun xs => (id, xs)
  | .struct id => (h.getItems id).map fun xs => (id, xs)
  | _ => none

/-- VALUES / cpValues: copy the values, cloning structs. -/
def cloneAll : Heap → List Item → Option (Heap × List Item)
  | h, [] => some (h, [])
  | h, x :: xs =>
    match cloneIfStruct h x with
    | none => none
    | some (h, y) =>
      match cloneAll h xs with
      | none => none
      | some (h, ys) => some (h, y :: ys)

/-- PACKMAP loop: pops `n` key/value pairs (key on top). -/
def packMapLoop : Nat → List Item → List (Item × Item) → E (List (Item × Item) × List Item)
  | 0, st, m => .ok (m, st)
  | n+1, k :: v :: st, m =>
    if k.validKey then packMapLoop n st (mapSet m k v) else .error "invalid map key"
  | _, _, _ => .error "stack underflow"

def flattenKV : List (Item × Item) → List Item
  | [] => []
  | (k, v) :: r => k :: v :: flattenKV r

def fillItem (t : UInt8) : Item :=
  if t == tBoolean then .bool false
  else if t == tInteger then .int ⟨0, by decide⟩
  else if t == tByteString then .bytes []
  else .null

/-- the instructions over (stack, heap); `param` is the operand. Anything not handled here is a
context-level instruction and is an error at this level. -/
def execPure (op : Op) (param : Bytes) (st : List Item) (h : Heap) : E Outcome :=
  match op with
  -- constants
  | .pushInt _ => pushIntE (fromBytes param) st h
  | .pushConst n => pushIntE n st h
  | .pushData _ => next1 (.bytes param) st h
  | .pushT => next1 (.bool true) st h
  | .pushF => next1 (.bool false) st h
  | .pushNull => next1 .null st h
  | .nop => .ok (.next st h)
  -- type tests / conversion
  | .isNull => do
    let (x, st) ← popE st
    next1 (.bool (x == .null)) st h
  | .isType => do
    let (x, st) ← popE st
    let t := param.headD 0
    if t == tAny || !typeValid t then .error "invalid type" else next1 (.bool (x.typeByte == t)) st h
  | .convert => do
    let (x, st) ← popE st
    let (h, y) ← optE "invalid conversion" (convert h x (param.headD 0))
    next1 y st h
  -- splice
  | .newBuffer => do
    let (n, st) ← popIdx st
    if n < 0 ∨ n > maxItemSize then .error "invalid size" else newBuf (List.replicate n.toNat 0) st h
  | .memcpy => do
    let (n, st) ← popIdx st
    if n < 0 then throw "invalid size"
    let (si, st) ← popIdx st
    if si < 0 then throw "invalid source index"
    let (src, st) ← popBytes h st
    if si + n > src.length then throw "size is too big"
    let (di, st) ← popIdx st
    if di < 0 then throw "invalid destination index"
    let (d, st) ← popE st
    match d with
    | .buffer id =>
      match h.getBuf id with
      | none => .error "dangling buffer"
      | some dst =>
        if di + n > dst.length then throw "size is too big"
        let piece := (src.drop si.toNat).take n.toNat
        let dst' := dst.take di.toNat ++ piece ++ dst.drop (di.toNat + n.toNat)
        .ok (.next st (h.put id (.buf dst')))
    | _ => .error "not a buffer"
  | .cat => do
    let (b, st) ← popBytes h st
    let (a, st) ← popBytes h st
    if a.length + b.length > maxItemSize then .error "too big item" else newBuf (a ++ b) st h
  | .substr => do
    let (l, st) ← popIdx st
    if l < 0 then throw "negative length"
    let (o, st) ← popIdx st
    if o < 0 then throw "negative index"
    let (s, st) ← popBytes h st
    if l + o > s.length then .error "invalid offset" else newBuf ((s.drop o.toNat).take l.toNat) st h
  | .left => do
    let (l, st) ← popIdx st
    if l < 0 then throw "negative length"
    let (s, st) ← popBytes h st
    if l > s.length then .error "size is too big" else newBuf (s.take l.toNat) st h
  | .right => do
    let (l, st) ← popIdx st
    if l < 0 then throw "negative length"
    let (s, st) ← popBytes h st
    if l > s.length then .error "size is too big" else newBuf (s.drop (s.length - l.toNat)) st h
  -- stack
  | .depth => pushIntE st.length st h
  | .drop => do let (_, st) ← popE st; .ok (.next st h)
  | .nip =>
    match st with
    | x :: _ :: r => .ok (.next (x :: r) h)
    | _ => .error "no second element found"
  | .xdrop => do
    let (n, st) ← popIdx st
    if n < 0 then .error "invalid length"
    else if st.length < n.toNat + 1 then .error "bad index"
    else .ok (.next (listRemove st n.toNat) h)
  | .clear => .ok (.next [] h)
  | .dup =>
    match st with
    | x :: r => .ok (.next (x :: x :: r) h)
    | _ => .error "stack underflow"
  | .over =>
    match st with
    | x :: y :: r => .ok (.next (y :: x :: y :: r) h)
    | _ => .error "no second element found"
  | .pick => do
    let (n, st) ← popIdx st
    if n < 0 then .error "negative stack item returned"
    else match st[n.toNat]? with
      | some x => .ok (.next (x :: st) h)
      | none => .error "no nth element found"
  | .tuck =>
    match st with
    | x :: y :: r => .ok (.next (x :: y :: x :: r) h)
    | _ => .error "too short stack to TUCK"
  | .swap =>
    match st with
    | x :: y :: r => .ok (.next (y :: x :: r) h)
    | _ => .error "too big index"
  | .rot =>
    match st with
    | x :: y :: z :: r => .ok (.next (z :: x :: y :: r) h)
    | _ => .error "too big index"
  | .roll => do
    let (n, st) ← popIdx st
    if n < 0 then .error "negative index"
    else match st[n.toNat]? with
      | some x => .ok (.next (x :: listRemove st n.toNat) h)
      | none => .error "too big index"
  | .reverse3 =>
    if st.length < 3 then .error "too big index" else .ok (.next ((st.take 3).reverse ++ st.drop 3) h)
  | .reverse4 =>
    if st.length < 4 then .error "too big index" else .ok (.next ((st.take 4).reverse ++ st.drop 4) h)
  | .reverseN => do
    let (n, st) ← popIdx st
    if n < 0 then .error "negative index"
    else if n.toNat > st.length then .error "too big index"
    else .ok (.next ((st.take n.toNat).reverse ++ st.drop n.toNat) h)
  -- bitwise
  | .invert => unop (fun a => .ok (notI a)) st h
  | .and => binop (fun a b => .ok (andI a b)) st h
  | .or => binop (fun a b => .ok (orI a b)) st h
  | .xor => binop (fun a b => .ok (xorI a b)) st h
  | .equal | .notEqual => do
    let (b, st) ← popE st
    let (a, st) ← popE st
    let r ← optE "uncomparable" (itemEquals h a b)
    next1 (.bool (r == (op == .equal))) st h
  -- arithmetic
  | .sign => unop (fun a => .ok (if a < 0 then -1 else if a = 0 then 0 else 1)) st h
  | .abs => unop (fun a => .ok (if a < 0 then -a else a)) st h
  | .negate => unop (fun a => .ok (-a)) st h
  | .inc => unop (fun a => .ok (a + 1)) st h
  | .dec => unop (fun a => .ok (a - 1)) st h
  | .add => binop (fun a b => .ok (a + b)) st h
  | .sub => binop (fun a b => .ok (a - b)) st h
  | .mul => binop (fun a b => .ok (a * b)) st h
  | .div => binop (fun a b => optE "division by zero" (divT a b)) st h
  | .mod => binop (fun a b => optE "division by zero" (modT a b)) st h
  | .pow => binop (fun a e => optE "invalid exponent" (powI a e)) st h
  | .sqrt => unop (fun a => optE "negative value" (sqrtI a)) st h
  | .modMul => do
    let (m, st) ← popInt st
    let (x2, st) ← popInt st
    let (x1, st) ← popInt st
    pushIntE (← optE "zero modulus" (modMul x1 x2 m)) st h
  | .modPow => do
    let (m, st) ← popInt st
    let (e, st) ← popInt st
    let (b, st) ← popInt st
    pushIntE (← optE "invalid MODPOW operands" (modPow b e m)) st h
  | .shl | .shr => do
    let (n, st) ← popIdx st
    if n < 0 ∨ n > maxShift then throw "invalid shift"
    let (a, st) ← popInt st
    pushIntE (if op == .shl then shl a n.toNat else shr a n.toNat) st h
  | .not => do
    let (x, st) ← popBool st
    next1 (.bool (!x)) st h
  | .boolAnd => do
    let (b, st) ← popBool st
    let (a, st) ← popBool st
    next1 (.bool (a && b)) st h
  | .boolOr => do
    let (b, st) ← popBool st
    let (a, st) ← popBool st
    next1 (.bool (a || b)) st h
  | .nz => do
    let (a, st) ← popInt st
    next1 (.bool (a != 0)) st h
  | .numEqual => cmpop (fun a b => a == b) st h
  | .numNotEqual => cmpop (fun a b => a != b) st h
  | .lt => cmpNull (fun a b => decide (a < b)) st h
  | .le => cmpNull (fun a b => decide (a ≤ b)) st h
  | .gt => cmpNull (fun a b => decide (a > b)) st h
  | .ge => cmpNull (fun a b => decide (a ≥ b)) st h
  | .min => binop (fun a b => .ok (if a > b then b else a)) st h
  | .max => binop (fun a b => .ok (if a < b then b else a)) st h
  | .within => do
    let (b, st) ← popInt st
    let (a, st) ← popInt st
    let (x, st) ← popInt st
    next1 (.bool (decide (a ≤ x) && decide (x < b))) st h
  -- compound types
  | .newArray0 => let (h, id) := h.alloc (.items []); .ok (.next (.array id :: st) h)
  | .newStruct0 => let (h, id) := h.alloc (.items []); .ok (.next (.struct id :: st) h)
  | .newMap => let (h, id) := h.alloc (.entries []); .ok (.next (.map id :: st) h)
  | .newArray | .newArrayT | .newStruct => do
    let (n, st) ← popIdx st
    if n < 0 ∨ n > maxStackSize then throw "wrong number of elements"
    let t := if op == .newArrayT then param.headD 0 else tAny
    if !typeValid t then throw "invalid stack item type"
    let (h, id) := h.alloc (.items (List.replicate n.toNat (fillItem t)))
    .ok (.next ((if op == .newStruct then Item.struct id else Item.array id) :: st) h)
  | .append => do
    let (x, st) ← popE st
    let (a, st) ← popE st
    let (h, v) ← optE "too big struct" (cloneIfStruct h x)
    match seqItems h a with
    | some (id, xs) => .ok (.next st (h.put id (.items (xs ++ [v]))))
    | none => .error "APPEND: not of underlying type Array"
  | .packMap => do
    let (n, st) ← popIdx st
    if n < 0 ∨ n.toNat * 2 > st.length then throw "invalid length"
    let (m, st) ← packMapLoop n.toNat st []
    let (h, id) := h.alloc (.entries m)
    .ok (.next (.map id :: st) h)
  | .pack | .packStruct => do
    let (n, st) ← popIdx st
    if n < 0 ∨ n.toNat > st.length then throw "OPACK: invalid length"
    let (h, id) := h.alloc (.items (st.take n.toNat))
    .ok (.next ((if op == .pack then Item.array id else Item.struct id) :: st.drop n.toNat) h)
  | .unpack => do
    let (x, st) ← popE st
    match x with
    | .map id =>
      let kv ← optE "dangling map" (h.getEntries id)
      pushIntE kv.length (flattenKV kv ++ st) h
    | _ =>
      match seqItems h x with
      | some (_, xs) => pushIntE xs.length (xs ++ st) h
      | none => .error "element is not an array/struct/map"
  | .pickItem => do
    let (key, st) ← popE st
    if !key.validKey then throw "invalid map key"
    let (obj, st) ← popE st
    match obj with
    | .map id =>
      let kv ← optE "dangling map" (h.getEntries id)
      match kv.find? (·.1 == key) with
      | some (_, v) => next1 v st h
      | none => .ok (.throw (.bytes (asciiBytes "Key not found in Map")) st h)
    | .array _ | .struct _ =>
      let n ← optE "not an integer" key.toInteger
      let i ← optE "not an int32" (toInt32 n)
      let (_, xs) ← optE "dangling array" (seqItems h obj)
      if i < 0 ∨ i ≥ xs.length then .ok (.throw (outOfRangeMsg i) st h)
      else next1 (xs.getD i.toNat .null) st h
    | _ =>
      let n ← optE "not an integer" key.toInteger
      let i ← optE "not an int32" (toInt32 n)
      let bs ← optE "not bytes" (obj.toBytes h)
      if i < 0 ∨ i ≥ bs.length then .ok (.throw (outOfRangeMsg i) st h)
      else pushIntE ((bs.getD i.toNat 0).toNat) st h
  | .setItem => do
    let (x, st) ← popE st
    let (h, v) ← optE "too big struct" (cloneIfStruct h x)
    let (key, st) ← popE st
    if !key.validKey then throw "invalid map key"
    let (obj, st) ← popE st
    match obj with
    | .map id =>
      let kv ← optE "dangling map" (h.getEntries id)
      .ok (.next st (h.put id (.entries (mapSet kv key v))))
    | .array _ | .struct _ =>
      let (id, xs) ← optE "dangling array" (seqItems h obj)
      let n ← optE "not an integer" key.toInteger
      let i ← optE "not an int32" (toInt32 n)
      if i < 0 ∨ i ≥ xs.length then .ok (.throw (outOfRangeMsg i) st h)
      else .ok (.next st (h.put id (.items (xs.set i.toNat v))))
    | .buffer id =>
      let n ← optE "not an integer" key.toInteger
      let i ← optE "not an int32" (toInt32 n)
      let bs ← optE "dangling buffer" (h.getBuf id)
      if i < 0 ∨ i ≥ bs.length then .ok (.throw (outOfRangeMsg i) st h)
      else
        let b ← optE "invalid value" (v.toInteger.bind toInt32)
        if b < -128 ∨ b > 255 then .error "invalid value"
        else .ok (.next st (h.put id (.buf (bs.set i.toNat (byteOf b)))))
    | _ => .error "SETITEM: invalid item type"
  | .reverseItems => do
    let (x, st) ← popE st
    match x with
    | .buffer id =>
      let bs ← optE "dangling buffer" (h.getBuf id)
      .ok (.next st (h.put id (.buf bs.reverse)))
    | _ =>
      match seqItems h x with
      | some (id, xs) => .ok (.next st (h.put id (.items xs.reverse)))
      | none => .error "invalid item type"
  | .remove => do
    let (key, st) ← popE st
    if !key.validKey then throw "invalid map key"
    let (obj, st) ← popE st
    match obj with
    | .map id =>
      let kv ← optE "dangling map" (h.getEntries id)
      .ok (.next st (h.put id (.entries (kv.filter (fun e => !(e.1 == key))))))
    | _ =>
      match seqItems h obj with
      | some (id, xs) =>
        let n ← optE "not an integer" key.toInteger
        let i ← optE "not an int32" (toInt32 n)
        if i < 0 ∨ i ≥ xs.length then .error "REMOVE: invalid index"
        else .ok (.next st (h.put id (.items (listRemove xs i.toNat))))
      | none => .error "REMOVE: invalid type"
  | .clearItems => do
    let (x, st) ← popE st
    match x with
    | .map id =>
      if (h.getEntries id).isNone then .error "dangling map" else .ok (.next st (h.put id (.entries [])))
    | _ =>
      match seqItems h x with
      | some (id, _) => .ok (.next st (h.put id (.items [])))
      | none => .error "CLEARITEMS: invalid type"
  | .popItem => do
    let (x, st) ← popE st
    match seqItems h x with
    | some (id, xs) =>
      match xs.getLast? with
      | some e => .ok (.next (e :: st) (h.put id (.items xs.dropLast)))
      | none => .error "POPITEM: empty"
    | none => .error "POPITEM: not an array"
  | .size => do
    let (x, st) ← popE st
    match x with
    | .map id =>
      let kv ← optE "dangling map" (h.getEntries id)
      pushIntE kv.length st h
    | .array _ | .struct _ =>
      let (_, xs) ← optE "dangling array" (seqItems h x)
      pushIntE xs.length st h
    | _ =>
      let bs ← optE "not bytes" (x.toBytes h)
      pushIntE bs.length st h
  | .hasKey => do
    let (key, st) ← popE st
    let (c, st) ← popE st     -- HASKEY checks Len() ≥ 2 first: both pops fail the same way
    if !key.validKey then throw "invalid map key"
    match c with
    | .map id =>
      let kv ← optE "dangling map" (h.getEntries id)
      next1 (.bool (kv.any (·.1 == key))) st h
    | .array _ | .struct _ =>
      let n ← optE "not an integer" key.toInteger
      let i ← optE "not an int32" (toInt32 n)
      if i < 0 ∨ i ≥ maxItemSize then throw "negative or too large index"
      let (_, xs) ← optE "dangling array" (seqItems h c)
      next1 (.bool (decide (i < xs.length))) st h
    | .buffer _ | .bytes _ =>
      let n ← optE "not an integer" key.toInteger
      let i ← optE "not an int32" (toInt32 n)
      if i < 0 ∨ i ≥ maxItemSize then throw "negative or too large index"
      let bs ← optE "not bytes" (c.toBytes h)
      next1 (.bool (decide (i < bs.length))) st h
    | _ => .error "wrong collection type"
  | .keys => do
    let (x, st) ← popE st
    match x with
    | .map id =>
      let kv ← optE "dangling map" (h.getEntries id)
      let (h, nid) := h.alloc (.items (kv.map (·.1)))
      .ok (.next (.array nid :: st) h)
    | _ => .error "not a Map"
  | .values => do
    let (x, st) ← popE st
    let src ← match x with
      | .map id => (optE "dangling map" (h.getEntries id)).map (·.map (·.2))
      | _ => (optE "not a Map, Array or Struct" (seqItems h x)).map (·.2)
    let (h, ys) ← optE "too big struct" (cloneAll h src)
    let (h, nid) := h.alloc (.items ys)
    .ok (.next (.array nid :: st) h)
  | .throw => do
    let (x, st) ← popE st
    .ok (.throw x st h)
  | .abort => .error "ABORT"
  | .assert => do
    let (b, st) ← popBool st
    if b then .ok (.next st h) else .error "ASSERT failed"
  | .abortMsg => .error "ABORTMSG"
  | .assertMsg => do
    let (m, st) ← popBytes h st
    if !utf8Valid m then throw "invalid UTF-8"
    let (b, st) ← popBool st
    if b then .ok (.next st h) else .error "ASSERTMSG failed"
  | _ => .error "not a stack instruction"

end NeoModel.Vm
