/-
NeoVM integer semantics, written from mathematics (the independent specification half of C13).

Integers are Lean `Int` (unbounded); every integer that becomes a stack item passes the explicit
range check `inRange : -2^255 ≤ n < 2^255` (`stackitem.NewBigInteger` / `CheckIntegerSize`,
item.go:426-451).  Division and remainder are truncated (`Int.tdiv`/`Int.tmod`, the sign of the
remainder follows the dividend — C# BigInteger, Go `Quo`/`Rem`), right shift is the floor shift,
`SQRT` is the integer square root, `MODPOW` with exponent −1 is the modular inverse, byte strings
convert through the minimal two's-complement little-endian encoding (bigint.go).

Everything here is structurally recursive (fuel where needed) so that it reduces in the kernel
and compiles to a native driver; the proofs that the fuel is sufficient and that each definition
equals its mathematical characterisation are in `Proofs/VmNum.lean` / `Props/C13.lean`.
-/
import NeoModel.Base.Hex
namespace NeoModel.Vm

/-! ### range -/

/-- `stackitem.MaxBigIntegerSizeBits` = 256: a signed 256-bit integer. -/
def inRange (n : Int) : Bool := decide (-(2:Int)^255 ≤ n) && decide (n < (2:Int)^255)

/-- a NeoVM Integer: an unbounded `Int` *together with the evidence that it passed the 256-bit range
check*. Integer stack items carry this type, so the type checker enforces that no instruction can
put an unchecked integer on a stack, in a slot or into a compound object (`range_closed`). -/
abbrev Int256 := { n : Int // inRange n = true }

/-- the range check at every integer construction: `none` = FAULT (errTooBigInteger). The only way
to make an `Int256` from a computed value. -/
def checkInt (n : Int) : Option Int256 := if h : inRange n = true then some ⟨n, h⟩ else none

/-! ### Integer ↔ bytes: minimal two's complement, little endian (bigint.ToBytes / FromBytes) -/

/-- the low byte of `n` in two's complement. -/
def byteOf (n : Int) : UInt8 := UInt8.ofNat (n % 256).toNat

def sbytesAux : Nat → Int → Bytes
  | 0, _ => []
  | f+1, n =>
    if -128 ≤ n ∧ n < 128 then [byteOf n] else byteOf n :: sbytesAux f (n / 256)

/-- the shortest two's-complement little-endian encoding of a non-zero `n` (at least one byte). -/
def sbytes (n : Int) : Bytes := sbytesAux (n.natAbs + 1) n

/-- `bigint.ToBytes`: zero is the empty string, everything else minimal two's complement LE. -/
def toBytes (n : Int) : Bytes := if n = 0 then [] else sbytes n

/-- `bigint.FromBytes`: little endian, the top bit of the last byte is the sign; no minimality
required; the empty string is 0. -/
def fromBytes : Bytes → Int
  | [] => 0
  | [b] => if b.toNat < 128 then (b.toNat : Int) else (b.toNat : Int) - 256
  | b :: rest => (b.toNat : Int) + 256 * fromBytes rest

/-- an integer may only be read from at most 32 bytes (`MaxBigIntegerSizeBits/8`). -/
def maxIntBytes : Nat := 32

/-! ### arithmetic -/

/-- `DIV`: truncated quotient; `none` on a zero divisor. -/
def divT (a b : Int) : Option Int := if b = 0 then none else some (Int.tdiv a b)
/-- `MOD`: remainder with the sign of the dividend; `none` on a zero divisor. -/
def modT (a b : Int) : Option Int := if b = 0 then none else some (Int.tmod a b)

/-- `SHL a n` = a·2ⁿ. -/
def shl (a : Int) (n : Nat) : Int := a * (2:Int)^n
/-- `SHR a n` = ⌊a / 2ⁿ⌋ (Lean's `/` on `Int` rounds towards −∞ for a positive divisor). -/
def shr (a : Int) (n : Nat) : Int := a / (2:Int)^n

/-- binary search for the integer square root: invariant `lo² ≤ n < hi²`. -/
def sqrtLoop (n : Nat) : Nat → Nat → Nat → Nat
  | 0, lo, _ => lo
  | f+1, lo, hi =>
    if hi ≤ lo + 1 then lo
    else
      let mid := (lo + hi) / 2
      if mid * mid ≤ n then sqrtLoop n f mid hi else sqrtLoop n f lo mid

/-- integer square root of a natural number. -/
def natSqrt (n : Nat) : Nat := sqrtLoop n (n + 1) 0 (n + 1)

/-- `SQRT`: `none` for a negative operand. -/
def sqrtI (a : Int) : Option Int := if a < 0 then none else some (natSqrt a.toNat : Nat)

/-- square-and-multiply `b^e mod m` on naturals, fuel = number of exponent bits still to do. -/
def powModAux (m : Nat) : Nat → Nat → Nat → Nat
  | 0, _, _ => 1 % m
  | f+1, b, e =>
    if e = 0 then 1 % m
    else
      let h := powModAux m f b (e / 2)
      let s := h * h % m
      if e % 2 = 1 then s * b % m else s

def powModNat (b e m : Nat) : Nat := powModAux m (e + 1) b e

/-- `MODPOW` with a non-negative exponent: `(b^e) tmod m` (sign of the result follows `b^e`),
computed without building `b^e`. Requires `m ≠ 0`. -/
def modPowNonneg (b : Int) (e : Nat) (m : Int) : Int :=
  let r : Int := (powModNat b.natAbs e m.natAbs : Nat)
  if b < 0 ∧ e % 2 = 1 then -r else r

/-- extended Euclid: returns `(g, s)` with `g = gcd` and `s·a ≡ g (mod m)` when started as
`xgcdAux fuel a m 1 0`. -/
def xgcdAux : Nat → Int → Int → Int → Int → Int × Int
  | 0, r0, _, s0, _ => (r0, s0)
  | f+1, r0, r1, s0, s1 =>
    if r1 = 0 then (r0, s0) else xgcdAux f r1 (r0 % r1) s1 (s0 - (r0 / r1) * s1)

/-- modular inverse of `a` modulo `m` (`a > 0`, `m ≥ 2`), in `[0, m)`; `none` if not coprime. -/
def modInv (a m : Int) : Option Int :=
  let gs := xgcdAux (m.toNat + 2) a m 1 0
  if gs.1 = 1 then some (gs.2 % m) else none

/-- `MODPOW base exponent modulus` (vm.go:1142-1173). -/
def modPow (b e m : Int) : Option Int :=
  if e < -1 then none
  else if e = -1 then
    if b ≤ 0 then none
    else if m < 2 then none
    else modInv b m
  else
    if m = 0 then none else some (modPowNonneg b e.toNat m)

/-- `MODMUL x1 x2 modulus` = `(x1·x2) tmod modulus`. -/
def modMul (x1 x2 m : Int) : Option Int := if m = 0 then none else some (Int.tmod (x1 * x2) m)

/-- maximum shift / exponent (`maxSHLArg` = 256). -/
def maxShift : Nat := 256

/-- `POW a e`: `none` unless `0 ≤ e ≤ 256`. -/
def powI (a e : Int) : Option Int := if e < 0 ∨ e > 256 then none else some (a ^ e.toNat)

/-! ### bitwise: 256-bit two's complement -/

def toU256 (n : Int) : Nat := (n % (2:Int)^256).toNat
def ofU256 (x : Nat) : Int := if x < 2^255 then (x : Int) else (x : Int) - (2:Int)^256

def andI (a b : Int) : Int := ofU256 (toU256 a &&& toU256 b)
def orI (a b : Int) : Int := ofU256 (toU256 a ||| toU256 b)
def xorI (a b : Int) : Int := ofU256 (toU256 a ^^^ toU256 b)
/-- `INVERT`: bitwise not = −n − 1. -/
def notI (a : Int) : Int := -a - 1

/-- conversion of an integer operand to a 32-bit `int` (`toInt`, vm.go:2240): `none` = FAULT. -/
def toInt32 (n : Int) : Option Int :=
  if -(2:Int)^31 ≤ n ∧ n < (2:Int)^31 then some n else none

end NeoModel.Vm
