/-
C20 (a) — several producers adding blocks to one chain: `Blockchain.AddBlock` (/repo/pkg/core/blockchain.go:1849-1905)
as it is called by the block queue's `Run`, by consensus and by RPC submitblock at the same time.

  AddBlock(b):  bc.addLock.Lock()                       step `lock p b`   (enabled only while nobody holds the lock)
                expectedHeight := BlockHeight()+1;
                if expectedHeight != b.Index → error     step `check p`    (releases the lock on refusal)
                … verification …; storeBlock(b)           step `store p`    (height+1, the block is applied, unlock)

The chain of Model/Queue.lean (`addItem`, `chainAdvance`) is this procedure taken as ONE step; `chain_add_atomic`
(Props/C20.lean) is the justification: for every interleaving of the three steps of any number of producers
the applied blocks are what a sequence of atomic check-and-apply steps gives. `racyStep` is the same procedure
with the index check done before the lock is taken (the change of seeded/C20-m6): the witness shows a block
applied twice. A block is its index (the header chain fixes which block an index is). Core Lean only.
-/
namespace NeoModel.ChainAdd

inductive PPc
  | idle
  | locked (b : Nat)      -- holds addLock, index not yet checked
  | verified (b : Nat)    -- index checked
deriving DecidableEq, Repr

structure St where
  height : Nat
  applied : List Nat          -- indices applied, oldest first
  holder : Option Nat         -- who holds addLock
  pc : Nat → PPc

def St.init (h0 : Nat) : St := { height := h0, applied := [], holder := none, pc := fun _ => .idle }

inductive Act
  | lock (p b : Nat)     -- producer p enters AddBlock(b) and gets the lock
  | check (p : Nat)
  | store (p : Nat)
deriving DecidableEq, Repr

def setPc (pc : Nat → PPc) (p : Nat) (v : PPc) : Nat → PPc := fun q => if q = p then v else pc q

/-- The code as written: the check is made under the lock. -/
def step (s : St) : Act → St
  | .lock p b =>
    if s.holder = none ∧ s.pc p = .idle then { s with holder := some p, pc := setPc s.pc p (.locked b) } else s
  | .check p =>
    match s.pc p with
    | .locked b =>
      if b = s.height + 1 then { s with pc := setPc s.pc p (.verified b) }
      else { s with holder := none, pc := setPc s.pc p .idle }          -- ErrInvalidBlockIndex, deferred Unlock
    | _ => s
  | .store p =>
    match s.pc p with
    | .verified b => { s with height := s.height + 1, applied := s.applied ++ [b], holder := none,
                              pc := setPc s.pc p .idle }
    | _ => s

def run (s : St) (as : List Act) : St := as.foldl step s

/-- seeded/C20-m6: the index is compared with the height BEFORE the lock is taken: `check` needs no lock and
`lock` comes after it. (`locked b` = index checked, waiting for / holding the lock.) -/
def racyStep (s : St) : Act → St
  | .check p => s        -- not a separate step here
  | .lock p b =>         -- the check against the current height, no lock needed
    if s.pc p = .idle ∧ b = s.height + 1 then { s with pc := setPc s.pc p (.verified b) } else s
  | .store p =>          -- Lock(); storeBlock; Unlock() in one go (nobody else can be inside)
    match s.pc p with
    | .verified b => { s with height := s.height + 1, applied := s.applied ++ [b], pc := setPc s.pc p .idle }
    | _ => s

def racyRun (s : St) (as : List Act) : St := as.foldl racyStep s

end NeoModel.ChainAdd
