/-
Trie.Find with its stop condition as written (trie.go:619-641 + billet.go:245-253): `process` is
called on EVERY node the forward traversal reaches with an exhausted start position — branches and
extensions too, in pre-order — appends the node if it is a leaf other than `from`, and stops the
traversal as soon as `count >= maxNum` holds after a call. For `maxNum ≥ 1` that is "the first
maxNum leaves" (`find` in Traverse.lean, proved equal in Proofs/MptFind.lean); for `maxNum = 0` the
test fires after the first node whatever it is, so the result is that node if it is a leaf, else
nothing.
-/
import NeoModel.Model.Mpt.Traverse
namespace NeoModel.Mpt

/-- billet.go:229-339, forwards: the nodes `process` is called on, in order, with their paths
(`some v` = a LeafNode holding `v`, `none` = a branch or an extension). -/
def visits : Node → Path → Path → List (Path × Option Val)
  | .empty, _, _ => []
  | .leaf v, path, frm => if frm = [] then [(path, some v)] else []
  | .ext k n, path, frm =>
    match frm with
    | [] => (path, none) :: visits n (path ++ k) []
    | _ :: _ =>
      match stripPre k frm with
      | some r => visits n (path ++ k) r
      | none => if isPre frm k ∨ pathLt frm k then visits n (path ++ k) [] else []
  | .branch cs v, path, frm =>
    match frm with
    | [] =>
      (path, none) :: ((match v with
        | some w => [(path, some w)]
        | none => []) ++ (List.finRange 16).flatMap fun i => visits (cs i) (path ++ [i]) [])
    | s :: f =>
      ((List.finRange 16).filter (fun i => s ≤ i)).flatMap fun i =>
        visits (cs i) (path ++ [i]) (if i = s then f else [])

/-- trie.go:625-636 `process` over the visited nodes until it returns true; `c` = `count`. -/
def collect (maxNum : Nat) (frm : Option Path) : List (Path × Option Val) → Nat → List (Path × Val)
  | [], _ => []
  | (_, none) :: rest, c => if c ≥ maxNum then [] else collect maxNum frm rest c
  | (p, some v) :: rest, c =>
    if notFrom frm p then (p, v) :: (if c + 1 ≥ maxNum then [] else collect maxNum frm rest (c + 1))
    else if c ≥ maxNum then [] else collect maxNum frm rest c

/-- trie.go:582-638 `Find` for a given way `go start path fromP` of producing the result from the
start node. -/
def findGen (go : Node → Path → Path → Option (List (Path × Val))) (t : Node) (pre : Path) (frm : Option Path) :
    Option (List (Path × Val)) :=
  match getWithPathNS t pre with
  | none => none
  | some (start, full) =>
    let path := full.drop pre.length
    let fromP := frm.getD []
    if fromP = [] then go start path []
    else if path.length ≤ fromP.length ∧ isPre path fromP then go start path (fromP.drop path.length)
    else if path.length > fromP.length ∧ isPre fromP path then go start path []
    else if pathLt path fromP then some []
    else go start path []

/-- trie.go:582-638 `Find(prefix, from, maxNum)` with the stop condition as written (any `maxNum`). -/
def findX (t : Node) (pre : Path) (frm : Option Path) (maxNum : Nat) : Option (List (Path × Val)) :=
  findGen (fun start path f => some (collect maxNum frm (visits start path f) 0)) t pre frm

end NeoModel.Mpt
