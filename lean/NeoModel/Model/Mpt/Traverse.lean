/-
Model of the ordered traversals of pkg/core/mpt, as written:
  traverse        billet.go:226-333  (*Billet).traverse  (forwards / backwards, `from`)
  getWithPathNS   trie.go:96-143     getWithPath with strict = false
  find            trie.go:582-638    (*Trie).Find
  seek            trie_store.go:69-118 (*TrieStore).Seek
over fully expanded tries (HashNode resolution and the collapsing of visited nodes do not change
what is reported as long as every node is in the store, which is what the harness arranges).
The stop condition (`errStop`) is a truncation of the produced list.
-/
import NeoModel.Model.Mpt
namespace NeoModel.Mpt

def isPre (a b : Path) : Bool := (stripPre a b).isSome

/-- the branch's own value as a traversal result (`traverse(Children[lastChild], path, from)`: the
child is a LeafNode or EmptyNode). -/
def vslot (back : Bool) (v : Option Val) (path frm : Path) : List (Path × Val) :=
  match v with
  | some w => if frm = [] ∨ back then [(path, w)] else []
  | none => []

/-- billet.go:229-339. `path` is the path of the node, `frm` the remaining start position.
A leaf reached with a non-empty `frm` has a key that is a proper prefix of the start position:
reported backwards, not forwards (billet.go:245-253). -/
def traverse (back : Bool) : Node → Path → Path → List (Path × Val)
  | .empty, _, _ => []
  | .leaf v, path, frm => if frm = [] ∨ back then [(path, v)] else []
  | .ext k n, path, frm =>
    match frm with
    | [] => traverse back n (path ++ k) []
    | _ :: _ =>
      match stripPre k frm with
      | some r => traverse back n (path ++ k) r                 -- bytes.HasPrefix(from, n.key)
      | none =>
        -- bytes.HasPrefix(n.key, from) || (bytes.Compare(n.key, from) > 0) != backwards
        if isPre frm k ∨ (pathLt frm k) != back then traverse back n (path ++ k) []
        else []
  | .branch cs v, path, frm =>
    match back, frm with
    | false, [] =>
      vslot back v path [] ++ (List.finRange 16).flatMap fun i => traverse back (cs i) (path ++ [i]) []
    | false, s :: f =>
      ((List.finRange 16).filter (fun i => s ≤ i)).flatMap fun i =>
        traverse back (cs i) (path ++ [i]) (if i = s then f else [])
    | true, [] =>
      ((List.finRange 16).reverse.flatMap fun i => traverse back (cs i) (path ++ [i]) []) ++ vslot back v path []
    | true, s :: f =>
      (((List.finRange 16).filter (fun i => i ≤ s)).reverse.flatMap fun i =>
        traverse back (cs i) (path ++ [i]) (if i = s then f else []))
      -- billet.go:307: the value is traversed with whatever `from` is left (reset only if the loop
      -- ran past the start index, i.e. iff `s ≠ 0`); going backwards a leaf is reported either way.
      ++ vslot back v path (if s = 0 then f else [])

/-- trie.go:96-143 `getWithPath(curr, path, strict=false)`: the node found and its full path. -/
def getWithPathNS : Node → Path → Option (Node × Path)
  | .empty, _ => none
  | .leaf v, [] => some (.leaf v, [])
  | .leaf _, _ :: _ => none
  | .branch cs v, [] => some (.branch cs v, [])
  | .branch cs _, i :: p => (getWithPathNS (cs i) p).map fun r => (r.1, i :: r.2)
  | .ext k n, p =>
    match p with
    | [] => some (n, k)
    | _ :: _ =>
      match stripPre k p with
      | some r => (getWithPathNS n r).map fun x => (x.1, k ++ x.2)
      | none => if (stripPre p k).isSome then some (n, k) else none

/-- trie.go:626: `from == nil || !bytes.Equal(pathToNode, from)`. -/
def notFrom (frm : Option Path) (q : Path) : Bool :=
  match frm with
  | none => true
  | some fr => q != fr

/-- trie.go:582-638 `Find(prefix, from, maxNum)` on nibble paths; `frm = none` is `from == nil`.
Result paths are relative to the prefix; `none` = error. -/
def find (t : Node) (pre : Path) (frm : Option Path) (maxNum : Nat) : Option (List (Path × Val)) :=
  match getWithPathNS t pre with
  | none => none
  | some (start, full) =>
    let path := full.drop pre.length
    let fromP := frm.getD []
    let go (f : Path) : Option (List (Path × Val)) :=
      some (((traverse false start path f).filter fun e => notFrom frm e.1).take maxNum)
    if fromP = [] then go []
    else if path.length ≤ fromP.length ∧ isPre path fromP then go (fromP.drop path.length)
    else if path.length > fromP.length ∧ isPre fromP path then go []
    else if pathLt path fromP then some []
    else go []          -- cmp > 0 (cmp = 0 is covered by the first two cases)

/-- trie_store.go:69-118 `Seek` (result paths relative to the prefix, not truncated). -/
def seek (t : Node) (pre fromP : Path) (back : Bool) : List (Path × Val) :=
  match getWithPathNS t pre with
  | none => []
  | some (start, full) =>
    let path := full.drop pre.length
    if fromP = [] then traverse back start path []
    else if path.length ≤ fromP.length ∧ isPre path fromP then traverse back start path (fromP.drop path.length)
    else if path.length > fromP.length ∧ isPre fromP path then traverse back start path []
    else if (pathLt fromP path) == back then []          -- `cmp > 0 == rng.Backwards`
    else traverse back start path []

end NeoModel.Mpt

/-! ### Specification of the ordered traversals -/
namespace NeoModel.Mpt

/-- the contents of a trie as a list, in ascending key order (`entries_sorted`, `mem_entries`). -/
def entries : Node → List (Path × Val)
  | .empty => []
  | .leaf v => [([], v)]
  | .ext k n => (entries n).map fun e => (k ++ e.1, e.2)
  | .branch cs v =>
    (match v with
     | some w => [([], w)]
     | none => []) ++
    (List.finRange 16).flatMap fun i => (entries (cs i)).map fun e => (i :: e.1, e.2)

/-- the range selected by a start position: forwards the keys `≥ frm`; backwards the keys `≤ frm`
and the keys that extend `frm` (what every `storage.Store` backend returns for a backward seek from
`Start`, memory_store.go:111-116, store.go seekRangeToPrefixes). `frm = []` selects everything. -/
def inRange (back : Bool) (frm q : Path) : Bool :=
  if back then !pathLt frm q || isPre frm q else !pathLt q frm

/-- the entries whose key starts with `pre`, keys relative to `pre`, ascending. -/
def under (t : Node) (pre : Path) : List (Path × Val) :=
  (entries t).filterMap fun e => (stripPre pre e.1).map fun r => (r, e.2)

/-- the keys strictly after `frm` (all keys if there is no `frm`). -/
def after (frm : Option Path) (q : Path) : Bool :=
  match frm with
  | none => true
  | some f => pathLt f q

/-- bytes.Compare(a, b) < 0. -/
def bytesLt : Bytes → Bytes → Bool
  | [], [] => false
  | [], _ :: _ => true
  | _ :: _, [] => false
  | a :: as, b :: bs => if a < b then true else if b < a then false else bytesLt as bs

/-- direction of the result. -/
def dir {α} (back : Bool) (l : List α) : List α := if back then l.reverse else l

end NeoModel.Mpt
