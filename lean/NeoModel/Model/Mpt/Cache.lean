/-
The hash / bytes caches of the nodes (base.go:16-80: `bytes`, `hash`, one validity for both after
`updateBytes`; `invalidateCache`; `setCache` on loading) as a layer over Model/Mpt/Lazy.lean: a `CNode`
is an in-memory node that carries its cached `Bytes()`; `StateRoot`, `Hash()` and the byte strings
`GetProof` returns are read from the cache, and a parent's bytes are computed from the CACHED hashes of
its children. Every node the code creates or re-links is hashed at once (`addRef(n.Hash(), …)`), every
loaded node gets `setCache`, so a cache is always filled; what matters is whether it is still right.
`mkLeafC / mkExtC / mkBranchC` = "invalidateCache + Hash()" (or a fresh node hashed by addRef);
a constructor applied to an OLD cache = the node was re-linked without invalidation.
`cput` / `cdel` are `lput` / `ldel` with the caches handled as written, including the error paths:
deleteFromBranch has replaced the child and invalidated the branch when the sibling load fails
(trie.go:305-307, 324-328), and its ancestors, hashed on the way down (trie.go:299, 347), keep their caches.
-/
import NeoModel.Model.Mpt.Lazy
namespace NeoModel.Mpt

inductive CNode where
  | empty
  | hash (h : Bytes)
  | leaf (c : Bytes) (v : Val)
  | ext (c : Bytes) (k : Path) (next : CNode)
  | branch (c : Bytes) (cs : Nib → CNode) (v : CNode)

instance : Inhabited CNode := ⟨.empty⟩

namespace CNode
/-- the node without its caches. -/
def erase : CNode → LNode
  | .empty => .empty
  | .hash h => .hash h
  | .leaf _ v => .leaf v
  | .ext _ k n => .ext k n.erase
  | .branch _ cs v => .branch (fun i => (cs i).erase) v.erase
def isEmpty : CNode → Bool
  | .empty => true
  | _ => false
end CNode

/-- `encodeBinaryAsChild`: the child's `Hash()` is read from its cache. -/
def cref (H : Bytes → Bytes) : CNode → Bytes
  | .empty => [4]
  | .hash h => 3 :: h
  | .leaf c _ => 3 :: H c
  | .ext c _ _ => 3 :: H c
  | .branch c _ _ => 3 :: H c

def encExtC (H : Bytes → Bytes) (k : Path) (n : CNode) : Bytes := 1 :: (varBytes (k.map nibByte) ++ cref H n)
def encBranchC (H : Bytes → Bytes) (cs : Nib → CNode) (v : CNode) : Bytes :=
  0 :: ((List.finRange 16).flatMap (fun i => cref H (cs i)) ++ cref H v)

/-- a node whose cache was (re)computed: invalidateCache + Hash(), or a new node hashed by addRef. -/
def mkLeafC (v : Val) : CNode := .leaf (encLeaf v) v
def mkExtC (H : Bytes → Bytes) (k : Path) (n : CNode) : CNode := .ext (encExtC H k n) k n
def mkBranchC (H : Bytes → Bytes) (cs : Nib → CNode) (v : CNode) : CNode := .branch (encBranchC H cs v) cs v

/-- every cache holds what a recomputation would give. -/
def COk (H : Bytes → Bytes) : CNode → Prop
  | .empty => True
  | .hash _ => True
  | .leaf c v => c = encLeaf v
  | .ext c k n => c = encExtC H k n ∧ COk H n
  | .branch c cs v => c = encBranchC H cs v ∧ (∀ i, COk H (cs i)) ∧ COk H v

/-- an in-memory trie with all caches right (e.g. after any sequence of successful operations). -/
def cfill (H : Bytes → Bytes) : LNode → CNode
  | .empty => .empty
  | .hash h => .hash h
  | .leaf v => mkLeafC v
  | .ext k n => mkExtC H k (cfill H n)
  | .branch cs v => mkBranchC H (fun i => cfill H (cs i)) (cfill H v)

/-- `StateRoot()`: `t.root.Hash()` from the cache. -/
def croot (H : Bytes → Bytes) : CNode → Bytes
  | .empty => zero32
  | .hash h => h
  | .leaf c _ => H c
  | .ext c _ _ => H c
  | .branch c _ _ => H c

/-- `getFromStore` + `setCache` (for a record written by Flush the stored bytes are the node's encoding). -/
def cresolve (H : Bytes → Bytes) (S : LStore) (h : Bytes) : Option CNode := (resolve S h).map (cfill H)

def cupd (cs : Nib → CNode) (i : Nib) (n : CNode) : Nib → CNode := fun j => if j = i then n else cs j
def cnoKids : Nib → CNode := fun _ => .empty
def cnewSub (H : Bytes → Bytes) : Path → CNode → CNode
  | [], n => n
  | p, n => mkExtC H p n

/-- trie.go:265-280 `putIntoNode` with the caches: on the way back up every node is invalidated and
hashed again (trie.go:194-195, 209-210); an error returns before that, nothing was changed. -/
def cput (H : Bytes → Bytes) (S : LStore) : Nat → CNode → Path → Val → CNode × Bool
  | 0, n, _, _ => (n, true)
  | _ + 1, .empty, p, v => (cnewSub H p (mkLeafC v), false)
  | _ + 1, .leaf _ _, [], v => (mkLeafC v, false)
  | _ + 1, .leaf c w, i :: p, v => (mkBranchC H (cupd cnoKids i (cnewSub H p (mkLeafC v))) (.leaf c w), false)
  | f + 1, .hash h, p, v =>
    match cresolve H S h with
    | none => (.hash h, true)
    | some l =>
      let r := cput H S f l p v
      if r.2 then (.hash h, true) else r
  | f + 1, .branch c cs lv, [], v =>
    let r := cput H S f lv [] v
    if r.2 then (.branch c cs r.1, true) else (mkBranchC H cs r.1, false)
  | f + 1, .branch c cs lv, i :: p, v =>
    let r := cput H S f (cs i) p v
    if r.2 then (.branch c (cupd cs i r.1) lv, true) else (mkBranchC H (cupd cs i r.1) lv, false)
  | f + 1, .ext c k n, p, v =>
    match lcpSplit k p with
    | (_, [], rp) =>
      let r := cput H S f n rp v
      if r.2 then (.ext c k r.1, true) else (mkExtC H k r.1, false)
    | (cc, kh :: kt, []) =>
      (cnewSub H cc (mkBranchC H (cupd cnoKids kh (cnewSub H kt n)) (mkLeafC v)), false)
    | (cc, kh :: kt, ph :: pt) =>
      (cnewSub H cc (mkBranchC H (cupd (cupd cnoKids kh (cnewSub H kt n)) ph (cnewSub H pt (mkLeafC v))) .empty), false)

def ckids (cs : Nib → CNode) : List Nib := (List.finRange 16).filter fun i => !(cs i).isEmpty

/-- trie.go:330-340. -/
def csingle (H : Bytes → Bytes) (i : Nib) : CNode → CNode
  | .ext _ k n => mkExtC H (i :: k) n
  | c => mkExtC H [i] c

/-- trie.go:305-340 after `b.Children[i] = r; b.invalidateCache()`: the branch's own cache is
recomputed in every outcome, also when loading the remaining sibling fails. -/
def cstripDel (H : Bytes → Bytes) (S : LStore) (cs : Nib → CNode) (lv : CNode) : CNode × Bool :=
  match ckids cs, lv.isEmpty with
  | [], false => (lv, false)
  | [i], true =>
    match cs i with
    | .hash h =>
      match cresolve H S h with
      | none => (mkBranchC H cs lv, true)
      | some c => (csingle H i c, false)
    | c => (csingle H i c, false)
  | [], true => (mkExtC H [0] .empty, false)
  | _, _ => (mkBranchC H cs lv, false)

/-- trie.go:373-396 `deleteFromNode` with the caches. On an error the nodes above the failing one
return at once (trie.go:302-304, 350-352): they keep the cache they got on the way down while their
child has changed. -/
def cdel (H : Bytes → Bytes) (S : LStore) : Nat → CNode → Path → CNode × Bool
  | 0, n, _ => (n, true)
  | _ + 1, .empty, _ => (.empty, false)
  | _ + 1, .leaf _ _, [] => (.empty, false)
  | _ + 1, .leaf c v, _ :: _ => (.leaf c v, false)
  | f + 1, .hash h, p =>
    match cresolve H S h with
    | none => (.hash h, true)
    | some l =>
      let r := cdel H S f l p
      if r.2 then (.hash h, true) else r
  | f + 1, .branch c cs lv, [] =>
    let r := cdel H S f lv []
    if r.2 then (.branch c cs r.1, true) else cstripDel H S cs r.1
  | f + 1, .branch c cs lv, i :: p =>
    let r := cdel H S f (cs i) p
    if r.2 then (.branch c (cupd cs i r.1) lv, true) else cstripDel H S (cupd cs i r.1) lv
  | f + 1, .ext c k n, p =>
    match stripPre k p with
    | none => (.ext c k n, false)
    | some rp =>
      let r := cdel H S f n rp
      if r.2 then (.ext c k r.1, true)
      else
        match r.1 with
        | .ext _ k2 n2 => (mkExtC H (k ++ k2) n2, false)
        | .empty => (.empty, false)
        | m => (mkExtC H k m, false)

/-- `Bytes()` read from the cache. -/
def cbytes : CNode → Bytes
  | .empty => [4]
  | .hash h => 3 :: h
  | .leaf c _ => c
  | .ext c _ _ => c
  | .branch c _ _ => c

end NeoModel.Mpt
