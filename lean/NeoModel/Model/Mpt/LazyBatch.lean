/-
PutBatch on the in-memory representation (HashNodes loaded on demand): batch.go as written, with the
error paths. See Model/Mpt/Lazy.lean for the conventions (`LNode × Bool`, fuel).

  lmergeExt        batch.go:80-104   mergeExtension (a HashNode is loaded first)
  lstripBranch     batch.go:181-202  stripBranch
  laddToBranch     batch.go:148-177  addToBranch + iterateBatch (204-219): groups in key order — the
                                     empty key (17th child) first, then children 0..15 —, stops at the
                                     first error, strips the branch in any case
  lputBatchNode    batch.go:54-69    putBatchIntoNode: Leaf / Branch / Extension (106-140) / Hash
                                     (227-233) / Empty
  lputBatch        batch.go:41-48    PutBatch (`t.root = r` also when an error is returned)
Sub-tries built from nothing (`newSubTrieMany`, `putBatchIntoEmpty`) contain no HashNode and need
no store: they are the expanded model's `many` / `intoEmpty`, embedded.
-/
import NeoModel.Model.Mpt.Lazy
namespace NeoModel.Mpt

/-- batch.go:80-104 `mergeExtension` on a node that is not a HashNode. -/
def lmergeExtN (pre : Path) : LNode → LNode
  | .ext k n => .ext (pre ++ k) n
  | .empty => .empty
  | n => lnewSub pre n

/-- batch.go:80-104 `mergeExtension`; on a load error the HashNode itself is returned. -/
def lmergeExt (S : LStore) (pre : Path) : LNode → LNode × Bool
  | .hash h =>
    match resolve S h with
    | none => (.hash h, true)
    | some n => (lmergeExtN pre n, false)
  | n => (lmergeExtN pre n, false)

/-- batch.go:181-202 `stripBranch`. -/
def lstripBranch (S : LStore) (cs : Nib → LNode) (lv : LNode) : LNode × Bool :=
  match lkids cs, lv.isEmpty with
  | [], true => (.empty, false)
  | [], false => (lv, false)
  | [i], true => lmergeExt S [i] (cs i)
  | _, _ => (.branch cs lv, false)

/-- the group with the empty key (17th child; it sorts first): `putBatchIntoNode(Children[16], kv[:1])`. -/
def lslotRes (rec : LNode → Batch → LNode × Bool) (lv : LNode) (kv : Batch) : LNode × Bool :=
  match kv.lookup [] with
  | some ov => rec lv [([], ov)]
  | none => (lv, false)

/-- the groups of the 16 children, each put into its child (a table: computed once). -/
def lkidRes (rec : LNode → Batch → LNode × Bool) (cs : Nib → LNode) (kv : Batch) : Array (LNode × Bool) :=
  Array.ofFn fun c : Nib => if sub c kv = [] then (cs c, false) else rec (cs c) (sub c kv)

/-- batch.go:204-219 `iterateBatch` returns at the first error: the children up to and including
that group have been replaced, the later ones are untouched. -/
def lkidsAfter (rs : Nib → LNode × Bool) (cs : Nib → LNode) : (Nib → LNode) × Bool :=
  match (List.finRange 16).find? fun c => (rs c).2 with
  | none => (fun c => (rs c).1, false)
  | some e => (fun c => if c ≤ e then (rs c).1 else cs c, true)

/-- batch.go:148-177 `addToBranch` (with `iterateBatch`), given `rec` = `putBatchIntoNode`: the
branch is stripped whether or not a group failed. -/
def laddToBranch (S : LStore) (rec : LNode → Batch → LNode × Bool) (cs : Nib → LNode) (lv : LNode)
    (kv : Batch) : LNode × Bool :=
  let rv := lslotRes rec lv kv
  if rv.2 then ((lstripBranch S cs rv.1).1, true)
  else
    let ka := lkidsAfter (ltabOf (lkidRes rec cs kv)) cs
    let st := lstripBranch S ka.1 rv.1
    (st.1, ka.2 || st.2)

/-- batch.go:54-69 `putBatchIntoNode`. -/
def lputBatchNode (S : LStore) : Nat → LNode → Batch → LNode × Bool
  | 0, l, _ => (l, true)
  | _ + 1, .empty, kv => (emb (intoEmpty kv), false)                         -- putBatchIntoEmpty
  | _ + 1, .leaf w, kv => (emb (many [] kv (some w)), false)                 -- putBatchIntoLeaf
  | f + 1, .hash h, kv =>                                                    -- putBatchIntoHash
    match resolve S h with
    | none => (.hash h, true)
    | some l => lputBatchNode S f l kv
  | f + 1, .branch cs lv, kv => laddToBranch S (lputBatchNode S f) cs lv kv  -- putBatchIntoBranch
  | f + 1, .ext k n, kv =>                                                   -- putBatchIntoExtension
    let pref := lcp (lcpMany kv) k
    if pref.length = k.length then
      let r := lputBatchNode S f n (stripN k.length kv)
      if r.2 then r else lmergeExt S pref r.1
    else
      let kv' := stripN pref.length kv
      match k.drop pref.length with
      | [] => (.ext k n, true)                                               -- not reachable
      | c0 :: rest =>                                                        -- putBatchIntoExtensionNoPrefix
        let r := laddToBranch S (lputBatchNode S f) (lupd lnoKids c0 (lnewSub rest n)) .empty kv'
        if pref = [] then r
        else if r.2 then r else lmergeExt S pref r.1

/-- batch.go:41-48 `PutBatch`. -/
def lputBatch (S : LStore) (f : Nat) (l : LNode) (kv : Batch) : LNode × Bool :=
  match kv with
  | [] => (l, false)
  | _ => lputBatchNode S f l kv

end NeoModel.Mpt
