/-
The argument guards of the Trie API as the driver applies them (trie.go:77-80, 146-156, 284-287,
585-591; proof.go:16-18): `true` = the call returns an error before the trie is touched.
Proofs/MptConsts.lean ties the constants and the order of these checks to the current source.
-/
import NeoModel.Model.Mpt.Proof
namespace NeoModel.Mpt

/-- trie.go:146-156 `Put`: empty key, key too big, value too big (a nil value cannot be sent). -/
def putGuard (klen vlen : Nat) : Bool := klen = 0 || klen > maxKeyLength || vlen > maxValueLength

/-- trie.go:78, 285; proof.go:16: `Get` / `Delete` / `GetProof`: key too big. -/
def keyGuard (klen : Nat) : Bool := klen > maxKeyLength

/-- trie.go:586-591 `Find`: prefix too long, or `from` longer than what is left. -/
def findGuard (plen flen : Nat) : Bool := plen > maxKeyLength || flen > maxKeyLength - plen

end NeoModel.Mpt
