/-
TrieStore.Seek as it really runs: the trie is `HashNode(root)` over the node store, so the start node
is found and the traversal made by loading every node on the way (trie_store.go:69-118,
trie.go:96-143 non-strict, billet.go:226-340 with `GetFromStore`, billet.go:387-408; `keepNodes`).
`none` = a storage error (the code panics in Seek's traversal; an error while looking for the
start node means "no matching items"). Proofs/MptLazySeek.lean: over a store from which the trie can be
loaded this is `seek` of Model/Mpt/Traverse.lean on the expanded trie.
-/
import NeoModel.Model.Mpt.Lazy
import NeoModel.Model.Mpt.Traverse
namespace NeoModel.Mpt

/-- all results or the first error. -/
def ocat {α : Type} : List (Option (List α)) → Option (List α)
  | [] => some []
  | none :: _ => none
  | some a :: rest => (ocat rest).map (a ++ ·)

/-- billet.go:229-339 `traverse` with HashNodes loaded on the way. -/
def ltraverse (S : LStore) (back : Bool) : Nat → LNode → Path → Path → Option (List (Path × Val))
  | 0, _, _, _ => none
  | _ + 1, .empty, _, _ => some []
  | f + 1, .hash h, path, frm =>
    match resolve S h with
    | none => none
    | some l => ltraverse S back f l path frm
  | _ + 1, .leaf v, path, frm => some (if frm = [] ∨ back then [(path, v)] else [])
  | f + 1, .ext k n, path, frm =>
    match frm with
    | [] => ltraverse S back f n (path ++ k) []
    | _ :: _ =>
      match stripPre k frm with
      | some r => ltraverse S back f n (path ++ k) r
      | none =>
        if isPre frm k ∨ (pathLt frm k) != back then ltraverse S back f n (path ++ k) []
        else some []
  | f + 1, .branch cs lv, path, frm =>
    match back, frm with
    | false, [] =>
      ocat (ltraverse S back f lv path [] ::
        (List.finRange 16).map fun i => ltraverse S back f (cs i) (path ++ [i]) [])
    | false, s :: fr =>
      ocat (((List.finRange 16).filter (fun i => s ≤ i)).map fun i =>
        ltraverse S back f (cs i) (path ++ [i]) (if i = s then fr else []))
    | true, [] =>
      ocat (((List.finRange 16).reverse.map fun i => ltraverse S back f (cs i) (path ++ [i]) []) ++
        [ltraverse S back f lv path []])
    | true, s :: fr =>
      ocat ((((List.finRange 16).filter (fun i => i ≤ s)).reverse.map fun i =>
        ltraverse S back f (cs i) (path ++ [i]) (if i = s then fr else [])) ++
        [ltraverse S back f lv path (if s = 0 then fr else [])])

/-- trie.go:96-143 `getWithPath(curr, path, strict=false)` with HashNodes loaded: the node found
(possibly still a HashNode: an extension's `next` is returned as it is) and its full path. -/
def lgetNS (S : LStore) : Nat → LNode → Path → Option (LNode × Path)
  | 0, _, _ => none
  | _ + 1, .empty, _ => none
  | f + 1, .hash h, p =>
    match resolve S h with
    | none => none
    | some l => lgetNS S f l p
  | _ + 1, .leaf v, [] => some (.leaf v, [])
  | _ + 1, .leaf _, _ :: _ => none
  | _ + 1, .branch cs lv, [] => some (.branch cs lv, [])
  | f + 1, .branch cs _, i :: p => (lgetNS S f (cs i) p).map fun r => (r.1, i :: r.2)
  | f + 1, .ext k n, p =>
    match p with
    | [] => some (n, k)
    | _ :: _ =>
      match stripPre k p with
      | some r => (lgetNS S f n r).map fun x => (x.1, k ++ x.2)
      | none => if (stripPre p k).isSome then some (n, k) else none

/-- trie_store.go:69-118 `Seek` on the trie `l` (for a TrieStore: `HashNode(root)`). -/
def lseek (S : LStore) (F : Nat) (l : LNode) (pre fromP : Path) (back : Bool) : Option (List (Path × Val)) :=
  match lgetNS S F l pre with
  | none => some []
  | some (start, full) =>
    let path := full.drop pre.length
    if fromP = [] then ltraverse S back F start path []
    else if path.length ≤ fromP.length ∧ isPre path fromP then ltraverse S back F start path (fromP.drop path.length)
    else if path.length > fromP.length ∧ isPre fromP path then ltraverse S back F start path []
    else if (pathLt fromP path) == back then some []
    else ltraverse S back F start path []

end NeoModel.Mpt
