/-
Model of proof verification, as written:
  PNode, decode   node.go:77-107 DecodeNodeWithType + the per-type decoders (arbitrary bytes!)
  walkNode/walk   trie.go:96-143 getWithPath(strict) over a trie that starts as HashNode(root) and
                  resolves HashNodes from a store (trie.go:518-542 getFromStore, ModeAll)
  verifyProof     proof.go:64-78 VerifyProof
-/
import NeoModel.Model.Mpt
namespace NeoModel.Mpt

/-- a node as decoded from bytes: children may be anything the decoder accepts. -/
inductive PNode where
  | empty
  | hash (h : Bytes)
  | leaf (v : Bytes)
  | ext (k : Bytes) (next : PNode)
  | branch (cs : Fin 17 → PNode)

instance : Inhabited PNode := ⟨.empty⟩

def maxPathLength : Nat := 136     -- extension.go:18  (limits.MaxStorageKeyLen + 4) * 2
def maxKeyLength : Nat := 68       -- extension.go:22
def maxValueLength : Nat := 131074 -- leaf.go:18  3 + stackitem.MaxSize + 1 (7a41699: what a native contract can store)

/-- decode `n` consecutive nodes with decoder `dec`. -/
def decodeKids (dec : Bytes → Option (PNode × Bytes)) : Nat → Bytes → Option (List PNode × Bytes)
  | 0, bs => some ([], bs)
  | n + 1, bs =>
    match dec bs with
    | none => none
    | some (c, r) =>
      match decodeKids dec n r with
      | none => none
      | some (l, r') => some (c :: l, r')

/-- node.go:77-107 `DecodeNodeWithType(r, depth)`; the first argument is `maxPathLength + 1 - depth`
(`depth > maxPathLength` is the error `errTooManyNodes`). Any reader error is `none`. -/
def decode : Nat → Bytes → Option (PNode × Bytes)
  | 0, _ => none
  | _ + 1, [] => none
  | d + 1, t :: bs =>
    if t = 0 then                                                         -- BranchT
      match decodeKids (decode d) 17 bs with
      | none => none
      | some (l, r) => some (.branch (fun i => l.getD i.val .empty), r)
    else if t = 1 then                                                    -- ExtensionT
      match Wire.readVarUint bs with
      | none => none
      | some (sz, r) =>
        if sz > maxPathLength then none
        else
          match Wire.takeN sz r with
          | none => none
          | some (key, r2) =>
            match decode d r2 with
            | none => none
            | some (n, r3) => some (.ext key n, r3)
    else if t = 2 then                                                    -- LeafT
      match Wire.readVarUint bs with
      | none => none
      | some (sz, r) =>
        if sz > maxValueLength then none
        else
          match Wire.takeN sz r with
          | none => none
          | some (v, r2) => some (.leaf v, r2)
    else if t = 3 then                                                    -- HashT
      match Wire.takeN 32 bs with
      | none => none
      | some (h, r) => some (.hash h, r)
    else if t = 4 then some (.empty, bs)                                  -- EmptyT
    else none

/-- trie.go:524-529: `NodeObject.DecodeBinary` at depth 0; trailing bytes are ignored. -/
def decodeTop (data : Bytes) : Option PNode := (decode (maxPathLength + 1) data).map (·.1)

/-- `bytes.HasPrefix(path, n.key)` where the key is raw bytes and the path nibbles. -/
def stripPreB : Bytes → Path → Option Path
  | [], p => some p
  | _ :: _, [] => none
  | a :: k, b :: p => if a = nibByte b then stripPreB k p else none

/-- outcome of `getWithPath(…, strict)` inside `VerifyProof`. -/
inductive VR where
  | found (v : Bytes)
  | notFound
  | loop         -- unbounded recursion (only through a cycle of hashes in the store)
  deriving DecidableEq, Repr

/-- trie.go:96-143 on a decoded node; `res h p` continues at the node stored under hash `h`. -/
def walkNode (res : Bytes → Path → VR) : PNode → Path → VR
  | .empty, _ => .notFound
  | .leaf v, [] => .found v
  | .leaf _, _ :: _ => .notFound
  | .hash h, p => res h p
  | .ext k n, p =>
    match stripPreB k p with
    | some r => walkNode res n r
    | none => .notFound
  | .branch cs, [] => walkNode res (cs (Fin.last 16)) []
  | .branch cs, i :: p => walkNode res (cs i.castSucc) p

/-- proof.go:68-71: the store built from the proof list (a later Put of the same key wins). -/
def fetch (H : Bytes → Bytes) (proofs : List Bytes) (h : Bytes) : Option Bytes :=
  proofs.reverse.find? fun p => H p == h

/-- resolve HashNode `h` and continue; the first argument bounds the number of store reads. -/
def walk (H : Bytes → Bytes) (proofs : List Bytes) : Nat → Bytes → Path → VR
  | 0, _, _ => .loop
  | f + 1, h, p =>
    match fetch H proofs h with
    | none => .notFound
    | some data =>
      match decodeTop data with
      | none => .notFound
      | some .empty => .notFound              -- trie.go:530-532: stored Hash/Empty nodes are rejected
      | some (.hash _) => .notFound
      | some n => walkNode (walk H proofs f) n p

/-- proof.go:64-78 `VerifyProof`. A walk without a hash cycle reads each stored item at most once, so
`proofs.length + 1` reads are enough; a cyclic store makes the real code recurse forever. -/
def verifyProof (H : Bytes → Bytes) (root : Bytes) (key : Bytes) (proofs : List Bytes) : VR :=
  walk H proofs (proofs.length + 1) root (toNibbles key)

end NeoModel.Mpt

namespace NeoModel.Mpt

/-- size limits under which a node's encoding decodes again (extension.go:56-59, leaf.go:48-51):
extension keys of at most `maxPathLength` nibbles, values of at most `maxValueLength` bytes.
(`Put` enforces key ≤ 68 bytes and value ≤ `MaxValueLength`, trie.go:147-152.) -/
def Bounded : Node → Prop
  | .empty => True
  | .leaf v => v.length ≤ maxValueLength
  | .ext k n => k.length ≤ maxPathLength ∧ Bounded n
  | .branch cs v => (∀ i, Bounded (cs i)) ∧ (∀ w, v = some w → w.length ≤ maxValueLength)

end NeoModel.Mpt

namespace NeoModel.Mpt

/-- the encodings of all nodes of a trie (the byte strings whose hashes the trie refers to). -/
def nodeEncs (H : Bytes → Bytes) : Node → List Bytes
  | .empty => []
  | .leaf v => [encLeaf v]
  | .ext k n => enc H (.ext k n) :: nodeEncs H n
  | .branch cs v =>
    enc H (.branch cs v) :: ((List.finRange 16).flatMap (fun i => nodeEncs H (cs i)) ++
      (match v with
       | none => []
       | some w => [encLeaf w]))

/-- `H` has no collision inside the set `S` of byte strings. (A hash with 32-byte output cannot be
injective on all byte strings; what the theorems need is: no collision among the byte strings that
actually occur — the trie's node encodings and the items of the presented proof.) -/
def CollFree (H : Bytes → Bytes) (S : List Bytes) : Prop := ∀ a ∈ S, ∀ b ∈ S, H a = H b → a = b

end NeoModel.Mpt
