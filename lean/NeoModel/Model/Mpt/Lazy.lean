/-
Model of pkg/core/mpt's ACTUAL in-memory representation: a trie whose sub-tries may be HashNodes
that are loaded from the node store on demand ("lazy loading"), as it is after `Collapse` or after
reopening a trie from its root hash (`NewTrie(NewHashNode(root), …)`).

  LNode                     node.go: the five node types, HashNode included; the 17th child of a
                            branch is a node of its own (after decoding it is a HashNode or Empty)
  LStore, resolve           trie.go:518-545 `getFromStore` (DataMPT records: hash ↦ bytes; decoded by
                            node.go:77-107, model `decodeTop`; stored Hash/Empty nodes are rejected)
  lenc / lhash / lrootHash  base.go:66-92, hash.go: a HashNode is its own hash
  lget                      trie.go:77-143  Get = getWithPath(strict) + `t.root = r`
  lgetProof                 proof.go:14-62  GetProof
  lput                      trie.go:145-280 putIntoNode incl. putIntoHash
  ldel, lstripDel           trie.go:282-396 deleteFromNode incl. the resolution of the remaining
                            sibling when a branch is left with one child (trie.go:324-329)
  lcollapse                 trie.go:547-580 Collapse(depth)
  lnodes, writeAll, lflush  trie.go:410-435 Flush (ModeAll view: every node of the in-memory part is
                            in the store afterwards)
  lreopen                   NewTrie(NewHashNode(root))

Results of the mutating operations are `LNode × Bool`: the node that stands at this position
afterwards, and whether an error was returned (`true` = error: a HashNode could not be loaded).
The code mutates nodes in place and assigns the results on the way back up only after the recursive
call succeeded, so the first component in the error case is what the in-place mutations leave
behind. Recursion goes through the store, so every function takes a fuel argument that decreases at
every call; running out of fuel is reported as an error (the code would recurse forever on a
store with a cycle of hashes). Core Lean only.
-/
import NeoModel.Model.Mpt
import NeoModel.Model.Mpt.Proof
namespace NeoModel.Mpt

/-- a node as it is in memory: `hash h` = `*HashNode`. -/
inductive LNode where
  | empty
  | hash (h : Bytes)
  | leaf (v : Val)
  | ext (k : Path) (next : LNode)
  | branch (cs : Nib → LNode) (v : LNode)

instance : Inhabited LNode := ⟨.empty⟩

namespace LNode
def isEmpty : LNode → Bool
  | .empty => true
  | _ => false
def isHash : LNode → Bool
  | .hash _ => true
  | _ => false
end LNode

/-- the DataMPT part of the store as `getFromStore` sees it: hash ↦ stored bytes (in the
reference-counting modes the record carries 5 more bytes, which the decoder ignores; an inactive
record of ModeGC is absent). -/
abbrev LStore := Bytes → Option Bytes

def lupd (cs : Nib → LNode) (i : Nib) (n : LNode) : Nib → LNode := fun j => if j = i then n else cs j

def lnoKids : Nib → LNode := fun _ => .empty

/-! ### loading a node -/

def toNib? (b : UInt8) : Option Nib := if h : b.toNat < 16 then some ⟨b.toNat, h⟩ else none

def toPath? : Bytes → Option Path
  | [] => some []
  | b :: bs =>
    match toNib? b, toPath? bs with
    | some n, some p => some (n :: p)
    | _, _ => none

/-- a decoded node as an in-memory node. Extension keys are nibble strings in every node the code
writes; a stored key with a byte ≥ 16 (only in a corrupted store) makes loading fail here, where
the code would go on with the malformed key. -/
def ofP : PNode → Option LNode
  | .empty => some .empty
  | .hash h => some (.hash h)
  | .leaf v => some (.leaf v)
  | .ext k n =>
    match toPath? k, ofP n with
    | some p, some l => some (.ext p l)
    | _, _ => none
  | .branch cs =>
    if (List.finRange 17).all (fun i => (ofP (cs i)).isSome) then
      some (.branch (fun i => (ofP (cs i.castSucc)).getD .empty) ((ofP (cs (Fin.last 16))).getD .empty))
    else none

/-- trie.go:518-545 `getFromStore`: `none` = error (missing record, undecodable bytes, or a stored
Hash/Empty node, trie.go:530-532). -/
def resolve (S : LStore) (h : Bytes) : Option LNode :=
  match S h with
  | none => none
  | some data =>
    match decodeTop data with
    | none => none
    | some .empty => none
    | some (.hash _) => none
    | some n => ofP n

/-! ### encoding and hash -/

/-- base.go:66-73 `encodeBinaryAsChild` given the child's own encoding: a HashNode child is
referenced by the hash it carries. -/
def lchildRef (H : Bytes → Bytes) (n : LNode) (e : Bytes) : Bytes :=
  match n with
  | .empty => [4]
  | .hash h => 3 :: h
  | _ => 3 :: H e

/-- `Bytes()` of a node (base.go:75-79; hash.go for a HashNode). -/
def lenc (H : Bytes → Bytes) : LNode → Bytes
  | .empty => [4]
  | .hash h => 3 :: h
  | .leaf v => encLeaf v
  | .ext k n => 1 :: (varBytes (k.map nibByte) ++ lchildRef H n (lenc H n))
  | .branch cs v =>
    0 :: ((List.finRange 16).flatMap (fun i => lchildRef H (cs i) (lenc H (cs i))) ++ lchildRef H v (lenc H v))

/-- `Node.Hash()`. -/
def lhash (H : Bytes → Bytes) (n : LNode) : Bytes :=
  match n with
  | .hash h => h
  | n => H (lenc H n)

/-- trie.go:399-404 `StateRoot`. -/
def lrootHash (H : Bytes → Bytes) (n : LNode) : Bytes :=
  if n.isEmpty then zero32 else lhash H n

/-! ### Get -/

/-- trie.go:77-143 `Get`: the value and the root with every HashNode on the path replaced by the
loaded node (`t.root = r`); `none` = error, nothing is replaced then (the assignments happen after
the recursive call returned without error). A HashNode that cannot be loaded is ErrNotFound. -/
def lget (S : LStore) : Nat → LNode → Path → Option (LNode × Val)
  | 0, _, _ => none
  | _ + 1, .empty, _ => none
  | _ + 1, .leaf v, [] => some (.leaf v, v)
  | _ + 1, .leaf _, _ :: _ => none
  | f + 1, .hash h, p =>
    match resolve S h with
    | none => none
    | some l => lget S f l p
  | f + 1, .ext k n, p =>
    match stripPre k p with
    | none => none
    | some r => (lget S f n r).map fun x => (.ext k x.1, x.2)
  | f + 1, .branch cs lv, [] => (lget S f lv []).map fun x => (.branch cs x.1, x.2)
  | f + 1, .branch cs lv, i :: p => (lget S f (cs i) p).map fun x => (.branch (lupd cs i x.1) lv, x.2)

/-! ### GetProof -/

/-- proof.go:14-62 `GetProof` on the in-memory representation: the serialised nodes on the path (a
HashNode is loaded first) and the root with those nodes in place (`t.root = r`); `none` = error
(ErrNotFound or a node that cannot be loaded), nothing is replaced then. -/
def lgetProof (H : Bytes → Bytes) (S : LStore) : Nat → LNode → Path → Option (LNode × List Bytes)
  | 0, _, _ => none
  | _ + 1, .empty, _ => none
  | _ + 1, .leaf v, [] => some (.leaf v, [encLeaf v])
  | _ + 1, .leaf _, _ :: _ => none
  | f + 1, .hash h, p =>
    match resolve S h with
    | none => none
    | some l => lgetProof H S f l p
  | f + 1, .ext k n, p =>
    match stripPre k p with
    | none => none
    | some r => (lgetProof H S f n r).map fun x => (.ext k x.1, lenc H (.ext k n) :: x.2)
  | f + 1, .branch cs lv, [] =>
    (lgetProof H S f lv []).map fun x => (.branch cs x.1, lenc H (.branch cs lv) :: x.2)
  | f + 1, .branch cs lv, i :: p =>
    (lgetProof H S f (cs i) p).map fun x => (.branch (lupd cs i x.1) lv, lenc H (.branch cs lv) :: x.2)

/-! ### Put -/

def lnewSub : Path → LNode → LNode
  | [], n => n
  | p, n => .ext p n

def lmkExt : Path → LNode → LNode
  | [], n => n
  | p, n => .ext p n

/-- trie.go:265-280 `putIntoNode` with `val = NewLeafNode(v)`. -/
def lput (S : LStore) : Nat → LNode → Path → Val → LNode × Bool
  | 0, l, _, _ => (l, true)
  | _ + 1, .empty, p, v => (lnewSub p (.leaf v), false)                        -- putIntoEmpty
  | _ + 1, .leaf _, [], v => (.leaf v, false)                                  -- putIntoLeaf
  | _ + 1, .leaf w, i :: p, v => (.branch (lupd lnoKids i (lnewSub p (.leaf v))) (.leaf w), false)
  | f + 1, .hash h, p, v =>                                                    -- putIntoHash
    match resolve S h with
    | none => (.hash h, true)
    | some l =>
      let r := lput S f l p v
      if r.2 then (.hash h, true) else r
  | f + 1, .branch cs lv, [], v =>                                             -- putIntoBranch, i = lastChild
    let r := lput S f lv [] v
    (.branch cs r.1, r.2)
  | f + 1, .branch cs lv, i :: p, v =>
    let r := lput S f (cs i) p v
    (.branch (lupd cs i r.1) lv, r.2)
  | f + 1, .ext k n, p, v =>                                                   -- putIntoExtension
    match lcpSplit k p with
    | (_, [], rp) =>
      let r := lput S f n rp v
      (.ext k r.1, r.2)
    | (c, kh :: kt, []) => (lmkExt c (.branch (lupd lnoKids kh (lnewSub kt n)) (.leaf v)), false)
    | (c, kh :: kt, ph :: pt) =>
      (lmkExt c (.branch (lupd (lupd lnoKids kh (lnewSub kt n)) ph (lnewSub pt (.leaf v))) .empty), false)

/-! ### Delete -/

/-- indices 0..15 of the children that are not EmptyNode (a HashNode counts). -/
def lkids (cs : Nib → LNode) : List Nib := (List.finRange 16).filter fun i => !(cs i).isEmpty

/-- trie.go:330-340: the extension that replaces a branch with the single child `c` at index `i`. -/
def lsingle (i : Nib) : LNode → LNode
  | .ext k n => .ext (i :: k) n
  | c => .ext [i] c

/-- trie.go:308-340: what `deleteFromBranch` returns once the child is replaced. If exactly one
of the 16 children is left and it is a HashNode, it is loaded first (trie.go:324-329) — an error
there leaves the branch with the child already replaced. -/
def lstripDel (S : LStore) (cs : Nib → LNode) (lv : LNode) : LNode × Bool :=
  match lkids cs, lv.isEmpty with
  | [], false => (lv, false)                        -- index == lastChild: `return c, nil`
  | [i], true =>
    match cs i with
    | .hash h =>
      match resolve S h with
      | none => (.branch cs lv, true)
      | some c => (lsingle i c, false)
    | c => (lsingle i c, false)
  | [], true => (.ext [0] .empty, false)            -- count == 0 (not reachable from a well-formed trie)
  | _, _ => (.branch cs lv, false)

/-- trie.go:373-396 `deleteFromNode`. -/
def ldel (S : LStore) : Nat → LNode → Path → LNode × Bool
  | 0, l, _ => (l, true)
  | _ + 1, .empty, _ => (.empty, false)
  | _ + 1, .leaf _, [] => (.empty, false)
  | _ + 1, .leaf v, _ :: _ => (.leaf v, false)
  | f + 1, .hash h, p =>
    match resolve S h with
    | none => (.hash h, true)
    | some l =>
      let r := ldel S f l p
      if r.2 then (.hash h, true) else r
  | f + 1, .branch cs lv, [] =>
    let r := ldel S f lv []
    if r.2 then (.branch cs r.1, true) else lstripDel S cs r.1
  | f + 1, .branch cs lv, i :: p =>
    let r := ldel S f (cs i) p
    if r.2 then (.branch (lupd cs i r.1) lv, true) else lstripDel S (lupd cs i r.1) lv
  | f + 1, .ext k n, p =>                                                      -- deleteFromExtension
    match stripPre k p with
    | none => (.ext k n, false)
    | some rp =>
      let r := ldel S f n rp
      if r.2 then (.ext k r.1, true)
      else
        match r.1 with
        | .ext k2 n2 => (.ext (k ++ k2) n2, false)
        | .empty => (.empty, false)
        | m => (.ext k m, false)                                               -- incl. `case *HashNode: n.next = nxt`

/-! ### Collapse, Flush, reopen -/

/-- trie.go:558-580 `collapse(depth, node)`. -/
def lcollapse (H : Bytes → Bytes) : Nat → LNode → LNode
  | _, .hash h => .hash h
  | _, .empty => .empty
  | 0, n => .hash (lhash H n)
  | _ + 1, .leaf v => .leaf v
  | d + 1, .ext k n => .ext k (lcollapse H d n)
  | d + 1, .branch cs v => .branch (fun i => lcollapse H d (cs i)) (lcollapse H d v)

/-- the records of all in-memory nodes: (hash, bytes). `Flush` (trie.go:414-435) writes those of
them that were created since the last Flush; the others are in the store already with the same
bytes. -/
def lnodes (H : Bytes → Bytes) : LNode → List (Bytes × Bytes)
  | .empty => []
  | .hash _ => []
  | .leaf v => [(H (encLeaf v), encLeaf v)]
  | .ext k n => (lhash H (.ext k n), lenc H (.ext k n)) :: lnodes H n
  | .branch cs v =>
    (lhash H (.branch cs v), lenc H (.branch cs v)) ::
      ((List.finRange 16).flatMap (fun i => lnodes H (cs i)) ++ lnodes H v)

/-- a function on the 16 child indices read from a table. Written `ltabOf (Array.ofFn f)` where a
closure `f` built by the code would otherwise be re-evaluated on every access (the table is an
argument, so compiled code computes it once). -/
def ltabOf {α : Type} [Inhabited α] (a : Array α) : Nib → α := fun i => a.getD i.val default

theorem ltabOf_ofFn {α : Type} [Inhabited α] (f : Nib → α) : ltabOf (Array.ofFn f) = f := by
  funext i; simp [ltabOf]

/-- bottom-up form of `lnodes`, each encoding computed once: (`Bytes()` of the node, its records).
Used by compiled code only (`csimp` below); the theorems are about `lnodes`. -/
def lnodesAux (H : Bytes → Bytes) : LNode → Bytes × List (Bytes × Bytes)
  | .empty => ([4], [])
  | .hash h => (3 :: h, [])
  | .leaf v => (encLeaf v, [(H (encLeaf v), encLeaf v)])
  | .ext k n =>
    let r := lnodesAux H n
    let e := 1 :: (varBytes (k.map nibByte) ++ lchildRef H n r.1)
    (e, (H e, e) :: r.2)
  | .branch cs v =>
    let rs := ltabOf (Array.ofFn fun i => lnodesAux H (cs i))
    let rv := lnodesAux H v
    let e := 0 :: ((List.finRange 16).flatMap (fun i => lchildRef H (cs i) (rs i).1) ++ lchildRef H v rv.1)
    (e, (H e, e) :: ((List.finRange 16).flatMap (fun i => (rs i).2) ++ rv.2))

theorem lnodesAux_eq (H : Bytes → Bytes) (l : LNode) : lnodesAux H l = (lenc H l, lnodes H l) := by
  induction l with
  | empty => rfl
  | hash h => rfl
  | leaf v => rfl
  | ext k n ih => simp only [lnodesAux, ih, lenc, lnodes, lhash]
  | branch cs v ihc ihv =>
    simp only [lnodesAux, ltabOf_ofFn, ihc, ihv, lenc, lnodes, lhash]

def lnodesImpl (H : Bytes → Bytes) (l : LNode) : List (Bytes × Bytes) := (lnodesAux H l).2

@[csimp] theorem lnodes_eq_impl : @lnodes = @lnodesImpl := by
  funext H l; unfold lnodesImpl; rw [lnodesAux_eq]

/-- `Store.Put` of a list of records. -/
def writeAll (S : LStore) (recs : List (Bytes × Bytes)) : LStore := fun h =>
  match recs.find? (fun e => e.1 == h) with
  | some e => some e.2
  | none => S h

def lflush (H : Bytes → Bytes) (S : LStore) (l : LNode) : LStore := writeAll S (lnodes H l)

/-- `NewTrie(NewHashNode(StateRoot()))` (an empty trie is reopened as an empty trie). -/
def lreopen (H : Bytes → Bytes) (l : LNode) : LNode :=
  if l.isEmpty then .empty else .hash (lhash H l)

/-! ### the expanded trie as an in-memory trie, and a node as it is stored -/

def slotNode : Option Val → Node
  | none => .empty
  | some w => .leaf w

/-- a fully expanded trie in memory (no HashNode). -/
def emb : Node → LNode
  | .empty => .empty
  | .leaf v => .leaf v
  | .ext k n => .ext k (emb n)
  | .branch cs v => .branch (fun i => emb (cs i)) (match v with | none => .empty | some w => .leaf w)

/-- how a child is referenced by a stored node. -/
def lref (H : Bytes → Bytes) (n : Node) : LNode :=
  if n.isEmpty then .empty else .hash (hash H n)

/-- the node `getFromStore(hash n)` returns: children as HashNodes. -/
def lshallow (H : Bytes → Bytes) : Node → LNode
  | .empty => .empty
  | .leaf v => .leaf v
  | .ext k n => .ext k (lref H n)
  | .branch cs v => .branch (fun i => lref H (cs i)) (lref H (slotNode v))

end NeoModel.Mpt

namespace NeoModel.Mpt

/-! ### the refinement relation -/

/-- the record of `n` is in the store and loads as `n` with its children as HashNodes. -/
def StoredAt (H : Bytes → Bytes) (S : LStore) (n : Node) : Prop :=
  resolve S (hash H n) = some (lshallow H n)

/-- every node of the expanded trie `t` can be loaded from the store. -/
def Stored (H : Bytes → Bytes) (S : LStore) : Node → Prop
  | .empty => True
  | .leaf v => StoredAt H S (.leaf v)
  | .ext k n => StoredAt H S (.ext k n) ∧ Stored H S n
  | .branch cs v =>
    StoredAt H S (.branch cs v) ∧ (∀ i, Stored H S (cs i)) ∧ (∀ w, v = some w → StoredAt H S (.leaf w))

/-- `LRep H S l t`: the in-memory trie `l` over the store `S` represents the expanded trie `t`:
`l` is `t` with some sub-tries replaced by HashNodes carrying their hashes, and every node of such a
sub-trie can be loaded from `S`. -/
def LRep (H : Bytes → Bytes) (S : LStore) : LNode → Node → Prop
  | .hash h, t => t.isEmpty = false ∧ h = hash H t ∧ Stored H S t
  | .empty, t => t = .empty
  | .leaf v, t => t = .leaf v
  | .ext k l, t => ∃ n, t = .ext k n ∧ LRep H S l n
  | .branch ls lv, t =>
    ∃ cs v, t = .branch cs v ∧ (∀ i, LRep H S (ls i) (cs i)) ∧ LRep H S lv (slotNode v)

/-- height of an expanded trie, extension keys counted by their length (bounds the fuel the lazy
operations need: the batch code splits an extension one nibble at a time). -/
def height : Node → Nat
  | .empty => 0
  | .leaf _ => 0
  | .ext k n => height n + k.length + 1
  | .branch cs _ => ((List.finRange 16).map fun i => height (cs i)).foldr max 0 + 1

/-- fuel that suffices for an operation on `l` representing `t`. -/
def need (l : LNode) (t : Node) : Nat := 2 * height t + (if l.isHash then 3 else 2)

end NeoModel.Mpt
