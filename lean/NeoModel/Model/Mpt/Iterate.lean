/-
batch.go:204-219 `iterateBatch` and batch.go:277-288 `getLastIndex` as written: the batch is cut into
runs of entries with the same first nibble (the entry with the empty key is a run of its own, for
the 17th child), each run is stripped of that nibble and handed to the child. The batch model
(Model/Mpt.lean `putBatchNode`) instead selects, for every child, the entries that start with its
nibble (`sub c kv`). Proofs/MptIterate.lean proves that on a sorted batch — the only kind
`MapToMPTBatch` produces — both are the same thing.
-/
import NeoModel.Model.Mpt.Lazy
namespace NeoModel.Mpt

/-- `kv[j].key[0] == c` (an empty key ends the run; in a sorted batch it can only come first). -/
def startsWith (c : Nib) (e : KV) : Bool := e.1.head? == some c

/-- batch.go:277-288 `getLastIndex`: the child index (`none` = lastChild, the empty key) and the
length of the run. The batch is not empty. -/
def getLastIndex : Batch → Option Nib × Nat
  | [] => (none, 0)
  | ([], _) :: _ => (none, 1)
  | (c :: _, _) :: rest => (some c, 1 + (rest.takeWhile (startsWith c)).length)

/-- batch.go:204-219 `iterateBatch`: the list of calls `f(c, kv[:i])` it makes, in order; the keys of
a run for a child 0..15 have lost their first nibble (`stripPrefix(1, kv[:i])`). The first argument
bounds the number of iterations (`kv.length` is enough: every run has at least one entry). -/
def iterGroups : Nat → Batch → List (Option Nib × Batch)
  | 0, _ => []
  | _, [] => []
  | f + 1, e :: kv =>
    let ci := getLastIndex (e :: kv)
    let g := (e :: kv).take ci.2
    (ci.1, if ci.1.isSome then stripN 1 g else g) :: iterGroups f ((e :: kv).drop ci.2)

/-- the value a node in the 17th child position stands for. -/
def slotOf : Node → Option Val
  | .leaf w => some w
  | _ => none

/-- batch.go:161-165: the closure of `addToBranch` applied to the runs in order — each run is put
into its child (`rec` = `putBatchIntoNode`) and the child replaced. -/
def iterBranch (rec : Node → Batch → Node) : List (Option Nib × Batch) → (Nib → Node) × Option Val →
    (Nib → Node) × Option Val
  | [], st => st
  | (none, g) :: rest, st => iterBranch rec rest (st.1, slotOf (rec (slotNode st.2) g))
  | (some c, g) :: rest, st => iterBranch rec rest (upd st.1 c (rec (st.1 c) g), st.2)

end NeoModel.Mpt
