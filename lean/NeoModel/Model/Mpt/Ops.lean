/-
Operation sequences on the trie and their abstract meaning (a partial map from paths to values):
what `root_history_independent` in Props/C10.lean quantifies over.
-/
import NeoModel.Model.Mpt
namespace NeoModel.Mpt

/-- one mutating operation of the Trie API. -/
inductive Op where
  | put (p : Path) (v : Val)        -- Trie.Put
  | del (p : Path)                  -- Trie.Delete
  | batch (m : List KV)             -- Trie.PutBatch(MapToMPTBatch(m)); `m` = the Go map's entries

def applyOp (t : Node) : Op → Node
  | .put p v => put t p v
  | .del p => delete t p
  | .batch m => putBatch t (mapToBatch m)

/-- the trie after a history of operations on a fresh trie. -/
def run (ops : List Op) : Node := ops.foldl applyOp .empty

/-- abstract meaning of one operation on the contents. -/
def specOp (f : Path → Option Val) : Op → Path → Option Val
  | .put p v => fun q => if q = p then some v else f q
  | .del p => fun q => if q = p then none else f q
  | .batch m => applyBatch f m

/-- the contents after a history. -/
def contents (ops : List Op) : Path → Option Val := ops.foldl specOp (fun _ => none)

/-- a batch comes from a Go map: its keys are pairwise different. -/
def Op.ok : Op → Prop
  | .batch m => DistinctKeys m
  | _ => True

/-- a fresh trie built from a list of key/value pairs by single Puts. -/
def build (l : List (Path × Val)) : Node := run (l.map fun e => Op.put e.1 e.2)

end NeoModel.Mpt
