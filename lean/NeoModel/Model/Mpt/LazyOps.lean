/-
The Trie API as a state machine, on the in-memory representation over a node store (`lstep`) and on
the expanded trie (`estep`), with the observations the API returns. Props/C10Lazy.lean proves that the two
produce the same observations for every schedule that respects the documented contract of Collapse
("Flush should be called explicitly before", trie.go:547-549).
-/
import NeoModel.Model.Mpt.LazyBatch
import NeoModel.Model.Mpt.LazySeek
import NeoModel.Model.Mpt.LazyFind
namespace NeoModel.Mpt

inductive LOp where
  | put (p : Path) (v : Val)        -- Trie.Put
  | del (p : Path)                  -- Trie.Delete
  | batch (m : List KV)             -- Trie.PutBatch(MapToMPTBatch(m))
  | get (p : Path)                  -- Trie.Get
  | proof (p : Path)                -- Trie.GetProof
  | find (pre : Path) (frm : Option Path) (maxNum : Nat)  -- Trie.Find (loads nodes in place)
  | seek (pre start : Path) (back : Bool)  -- NewTrieStore(StateRoot(), …).Seek: a fresh trie HashNode(root) over the same store
  | root                            -- Trie.StateRoot
  | flush                           -- Trie.Flush
  | collapse (d : Nat)              -- Trie.Collapse(d)
  | reopen                          -- NewTrie(NewHashNode(StateRoot()), …) over the same store

inductive Obs where
  | ok
  | err
  | val (v : Option Val)
  | root (h : Bytes)
  | proof (ps : Option (List Bytes))
  | seek (r : Option (List (Path × Val)))
  | find (r : Option (List (Path × Val)))
  deriving DecidableEq

/-- the trie object: its root node and the store behind it. -/
structure LState where
  root : LNode
  store : LStore

def obsOf (e : Bool) : Obs := if e then .err else .ok

/-- one API call on the real representation (`F` = fuel, see Model/Mpt/Lazy.lean). -/
def lstep (H : Bytes → Bytes) (F : Nat) (s : LState) : LOp → LState × Obs
  | .put p v => let r := lput s.store F s.root p v; ({ s with root := r.1 }, obsOf r.2)
  | .del p => let r := ldel s.store F s.root p; ({ s with root := r.1 }, obsOf r.2)
  | .batch m => let r := lputBatch s.store F s.root (mapToBatch m); ({ s with root := r.1 }, obsOf r.2)
  | .get p =>
    match lget s.store F s.root p with
    | some x => ({ s with root := x.1 }, .val (some x.2))
    | none => (s, .val none)
  | .proof p =>
    match lgetProof H s.store F s.root p with
    | some x => ({ s with root := x.1 }, .proof (some x.2))
    | none => (s, .proof none)
  | .root => (s, .root (lrootHash H s.root))
  | .find pre frm m => let r := lfind s.store F s.root pre frm m; ({ s with root := r.1 }, .find r.2)
  | .seek pre st back => (s, .seek (lseek s.store F (lreopen H s.root) pre st back))
  | .flush => ({ s with store := lflush H s.store s.root }, .ok)
  | .collapse d => ({ s with root := lcollapse H d s.root }, .ok)
  | .reopen => ({ s with root := lreopen H s.root }, .ok)

/-- the same call on the expanded trie (Model/Mpt.lean). -/
def estep (H : Bytes → Bytes) (t : Node) : LOp → Node × Obs
  | .put p v => (put t p v, .ok)
  | .del p => (delete t p, .ok)
  | .batch m => (putBatch t (mapToBatch m), .ok)
  | .get p => (t, .val (lookup t p))
  | .proof p => (t, .proof (getProof H t p))
  | .root => (t, .root (rootHash H t))
  | .find pre frm m => (t, .find (findX t pre frm m))
  | .seek pre st back => (t, .seek (some (seek t pre st back)))
  | .flush => (t, .ok)
  | .collapse _ => (t, .ok)
  | .reopen => (t, .ok)

def lrun (H : Bytes → Bytes) (F : Nat) : LState → List LOp → LState × List Obs
  | s, [] => (s, [])
  | s, o :: ops =>
    let r := lstep H F s o
    let rest := lrun H F r.1 ops
    (rest.1, r.2 :: rest.2)

def erun (H : Bytes → Bytes) : Node → List LOp → Node × List Obs
  | t, [] => (t, [])
  | t, o :: ops =>
    let r := estep H t o
    let rest := erun H r.1 ops
    (rest.1, r.2 :: rest.2)

/-- has the trie been changed since the last Flush? -/
def dirtyAfter (d : Bool) : LOp → Bool
  | .put _ _ => true
  | .del _ => true
  | .batch _ => true
  | .flush => false
  | _ => d

/-- the contract of Collapse / reopening from the root (a TrieStore is such a reopening): nothing was
changed since the last Flush. -/
def allowed (d : Bool) : LOp → Bool
  | .collapse _ => !d
  | .reopen => !d
  | .seek _ _ _ => !d
  | _ => true

def okSched : Bool → List LOp → Bool
  | _, [] => true
  | d, o :: ops => allowed d o && okSched (dirtyAfter d o) ops

/-- side conditions on the expanded tries a history passes through: within the size limits of
`Put`, no hash collision among one trie's own node encodings, and small enough for the fuel. -/
def Good (H : Bytes → Bytes) (F : Nat) (t : Node) : Prop :=
  Bounded t ∧ CollFree H (nodeEncs H t) ∧ 2 * height t + 3 ≤ F

def GoodRun (H : Bytes → Bytes) (F : Nat) : Node → List LOp → Prop
  | t, [] => Good H F t
  | t, o :: ops => Good H F t ∧ GoodRun H F (estep H t o).1 ops

end NeoModel.Mpt
